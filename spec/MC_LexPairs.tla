----------------------------- MODULE MC_LexPairs -----------------------------
(***************************************************************************)
(* C14, spec -> impl, second family: every ordered pair of token spellings *)
(* from PenneLexSpellings, joined by every separator (nothing, space, tab, *)
(* line feed, CRLF, a comment, ...).  TLC lexes the text with the          *)
(* reference automaton for both generations, checks the tiling invariants  *)
(* and prints one CASE per text (same format as MC_Lex).                   *)
(***************************************************************************)
EXTENDS PenneLex, PenneLexSpellings, Json

CONSTANTS Core, AllSeps
VARIABLE p

Em == IF Core THEN SelectSeq(Emissions, LAMBDA e : e.core) ELSE Emissions
Seps == IF AllSeps THEN << <<>>, <<32>>, <<9>>, <<10>>, <<13, 10>>, <<32, 47, 47, 99, 10>>, <<47, 47, 10>>, <<32, 32, 9, 10, 9>> >>
        ELSE << <<>>, <<32>>, <<10>> >>

Init == p = [lvl |-> 0]
Next == \/ p.lvl = 0 /\ \E i \in 1..Len(Em) : p' = [lvl |-> 1, i |-> i]
        \/ p.lvl = 1 /\ \E j \in 1..Len(Em), k \in 1..Len(Seps) : p' = [lvl |-> 2, i |-> p.i, j |-> j, k |-> k]
Spec == Init /\ [][Next]_p

PairText == Em[p.i].text \o Seps[p.k] \o Em[p.j].text
PairOK == p.lvl = 2 =>
    LET s == PairText
        d == LexAll("delta", s)
        a == LexAll("alpha", s)
    IN /\ Utf8Valid(s)
       /\ Tiles("delta", s, d) /\ Tiles("alpha", s, a)
       /\ PrintT(<<"CASE", ToJson([s |-> s, u |-> TRUE, d |-> Items(SelectSeq(d, NotComment)),
                                   a |-> Items(SelectSeq(a, NotComment))])>>)
=============================================================================

-------------------------- MODULE Trace_CliSession --------------------------
(***************************************************************************)
(* Trace validation for the sessions of C18 (impl -> spec).  The driver    *)
(* (checks/c18_session.py) performs RANDOM sessions, much longer than the  *)
(* bound of the enumeration, on the real binary in one directory and       *)
(* records one line per step: the step and what the directory holds        *)
(* afterwards, each IR file classified by comparison with the reference    *)
(* texts (none / foreign / the IR of which versions for which target /     *)
(* unknown), and for a build what the backend was fed with.  Every line    *)
(* must be a step of CliSession.tla whose successor state shows exactly    *)
(* the recorded contents; "reset" starts the next session.  Acceptance by  *)
(* POSTCONDITION: all lines consumed.                                      *)
(***************************************************************************)
EXTENDS CliSession, IOUtils, TLCExt

Rec == ndJsonDeserialize(IOEnv.TRACE)
VARIABLE l
tvars == <<ver, fs, hist, last, fed, l>>

TInit == Init /\ l = 1
Ev(e) == l <= Len(Rec) /\ Rec[l].op = e
SetOf(s) == {s[i] : i \in 1..Len(s)}
\* the history variable of CliSession only serves the enumeration: it is kept empty here (the steps use Len(hist) nowhere else)
Quiet == hist' = <<>>

TEmit == /\ l <= Len(Rec) /\ Rec[l].op \in Subs
         /\ LET r == Rec[l] IN
            /\ fs' = [m \in Mods |-> IF m \in SetOf(r.listed) THEN IR(m, ver, r.wasm) ELSE fs[m]]
            /\ fed' = (IF r.op = "build" THEN Linked(SetOf(r.listed), ver, r.wasm) ELSE fed)
            /\ last' = [listed |-> SetOf(r.listed), ver |-> ver, wasm |-> r.wasm, sub |-> r.op]
            /\ r.status = 0
            \* the observation: every file of the directory, and what the backend read
            /\ Show(fs') = r.fs
            /\ (r.op = "build" => r.fed = fed')
         /\ Quiet /\ l' = l + 1 /\ UNCHANGED ver
TEdit == /\ Ev("edit") /\ ver' = [ver EXCEPT ![Rec[l].m] = Rec[l].v] /\ Rec[l].v = 3 - ver[Rec[l].m]
         /\ Show(fs) = Rec[l].fs
         /\ Quiet /\ l' = l + 1 /\ UNCHANGED <<fs, last, fed>>
TPlant == /\ Ev("plant") /\ fs' = [fs EXCEPT ![Rec[l].m] = Foreign] /\ Show(fs') = Rec[l].fs
          /\ last' = [last EXCEPT !.listed = @ \ {Rec[l].m}]
          /\ Quiet /\ l' = l + 1 /\ UNCHANGED <<ver, fed>>
TRemove == /\ Ev("remove") /\ fs' = [fs EXCEPT ![Rec[l].m] = None] /\ Show(fs') = Rec[l].fs
           /\ last' = [last EXCEPT !.listed = @ \ {Rec[l].m}]
           /\ Quiet /\ l' = l + 1 /\ UNCHANGED <<ver, fed>>
TReset == /\ Ev("reset") /\ ver' = [m \in Mods |-> 1] /\ fs' = [m \in Mods |-> None] /\ fed' = None
          /\ last' = [listed |-> {}] /\ Quiet /\ l' = l + 1

TNext == TEmit \/ TEdit \/ TPlant \/ TRemove \/ TReset
TSpec == TInit /\ [][TNext]_tvars

Accepted == LET d == TLCGet("stats").diameter - 1
            IN PrintT(<<"TRACE", ToJson([accepted |-> (d = Len(Rec)), matched |-> d, total |-> Len(Rec)])>>)
=============================================================================

SPECIFICATION Spec
CONSTANTS
  Kinds = {"value", "word", "aview", "sview", "sptr", "aptr", "ptr", "pptr", "sp", "wp"}
  Kinds2 = {"value", "word", "aview", "sview", "sptr", "aptr", "ptr", "pptr", "sp", "wp"}
  MaxForm2 = 6
  Fuel = 400
INVARIANTS Legality Monitors NonInterference EmitCase
CHECK_DEADLOCK FALSE

SPECIFICATION Spec
CONSTANTS
  Kinds = {"value", "word", "aview", "sview", "sptr", "aptr", "ptr", "pptr", "sp", "wp", "tp", "asp"}
  Kinds2 = {"value", "word", "aview", "sview", "sptr", "aptr", "ptr", "pptr", "sp", "wp", "tp", "asp"}
  MaxForm2 = 2
  Fuel = 600
INVARIANTS Legality Monitors NonInterference EmitCase
CHECK_DEADLOCK FALSE

SPECIFICATION Spec
CONSTANTS
  MaxLen = 5
  MinFns = 1
  MaxFns = 1
  MaxDepth = 4
  TokenKinds = {"S", "G", "LP", "MX", "MY", "SX", "O", "C", "I", "E"}
  ElseFlagCleared = TRUE
INVARIANTS Agree AgreeLints EmitCase
CHECK_DEADLOCK FALSE

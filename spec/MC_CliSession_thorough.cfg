SPECIFICATION Spec
CONSTANTS
  MaxSteps = 5
  Subs = {"emit"}
INVARIANTS FreshEqualsReused Dependencies FedIsCurrent EmitCase
CHECK_DEADLOCK FALSE

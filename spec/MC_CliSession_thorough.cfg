SPECIFICATION Spec
CONSTANTS
  MaxSteps = 5
INVARIANTS FreshEqualsReused Dependencies EmitCase
CHECK_DEADLOCK FALSE

SPECIFICATION Spec
CONSTANTS
  MaxMods = 2
  MaxDecls = 2
  ImportPositions = TRUE
  ImportTwice = TRUE
  Restricted = FALSE
  Dirs <- FlatDirs
INVARIANTS VisibleOK NoLeak EmitCase
CHECK_DEADLOCK FALSE

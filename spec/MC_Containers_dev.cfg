SPECIFICATION Spec
CONSTANTS
  MinN = 4
  MaxN = 4
  Kinds = {"c", "s"}
  AllowSelf = FALSE
  AllowPtr = FALSE
  AllowConstPtr = FALSE
  AllPerms = FALSE
  ChainMode = FALSE
  Stepwise = FALSE
INVARIANTS TypeOK
CHECK_DEADLOCK FALSE

---------------------------- MODULE MC_CliDiag ----------------------------
(* TLC wrapper of CliDiag: the number of sample files is what the check found in the tree under test. *)
EXTENDS CliDiag, IOUtils

EnvSamples == atoi(IOEnv.CLI_SAMPLES)
EnvInvalid == atoi(IOEnv.CLI_INVALID)
VerbsQuick == {"default"}
VerbsThorough == {"default", "verbose"}
=============================================================================

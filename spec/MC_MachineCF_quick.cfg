SPECIFICATION Spec
CONSTANTS
  MaxLen = 6
  MaxDepth = 3
  Fuel = 80
INVARIANTS MachineSane NoUB Monitors Scans EmitCase
CHECK_DEADLOCK FALSE

SPECIFICATION Spec
CONSTANTS
  MaxLen = 6
  MaxDepth = 3
  Fuel = 80
  Alphabet = {"O", "IO", "EO", "EIO", "C", "IG", "EG", "EIG", "G", "L", "LP", "P", "INC"}
  Shape = "any"
  Names = {"y"}
INVARIANTS MachineSane NoUB Monitors Scans EmitCase
CHECK_DEADLOCK FALSE

-------------------------- MODULE MC_DeltaBuffers --------------------------
(* Model-checking / case-emitting wrapper of DeltaBuffers (TLC only). *)
EXTENDS DeltaBuffers, Json, TLCExt, SequencesExt

\* one line per finished derivation: the token text, what the grammar knows about it (the verdict oracle's
\* antecedents) and what the buffer model predicts for the hook events
EmitCase == phase = "done" =>
    PrintT(<<"CASE", ToJson([toks |-> g.toks,
                             wf |-> WellFormed,
                             bad |-> g.bad,
                             errs |-> g.errs,
                             trunc |-> g.trunc,
                             nodes |-> NodesNeeded,
                             cap |-> NodeCap(Len(g.toks) + 2),
                             crash |-> res.crash,
                             how |-> res.how,
                             outcome |-> res.outcome])>>)

(* The exhaustive token-sequence family: every sequence of <= MaxSeq tokens over the alphabet of the lexer
   (one representative lexeme per BaseToken, plus an invalid lexeme).  No grammar: this is the input space
   "all token sequences up to a small length"; the harness wraps each sequence in each Context. *)
Alphabet == {"(", ")", "{", "}", "[", "]", "<", ">", "|", "&", "^", "!", "_", "+", "-", "*", "/", "%", ":", ";", ".", ",",
             "=", "==", "!=", ">=", "<=", "<<", ">>", "->", "|:", "..",
             "fn", "var", "const", "if", "goto", "loop", "return", "else", "cast", "as", "import", "pub", "extern",
             "struct", "word8", "word64", "ty", "id", "bi", "lit", "0x1F", "suf", "chr", "true", "str", "bad"}
Contexts == {"top", "body", "stmt", "type", "param", "member", "cond", "pubbody"}
=============================================================================

-------------------------- MODULE MC_DeltaBuffers --------------------------
(* Model-checking / case-emitting wrapper of DeltaBuffers (TLC only). *)
EXTENDS DeltaBuffers, Json, TLCExt, SequencesExt

\* one line per finished derivation: the token text, what the grammar knows about it (the verdict oracle's
\* antecedents) and what the buffer model predicts for the hook events
EmitCase == phase = "done" =>
    PrintT(<<"CASE", ToJson([toks |-> g.toks,
                             wf |-> WellFormed,
                             bad |-> g.bad,
                             errs |-> g.errs,
                             trunc |-> g.trunc,
                             nodes |-> NodesNeeded,
                             cap |-> NodeCap(Len(g.toks) + 2),
                             crash |-> res.crash,
                             how |-> res.how,
                             outcome |-> res.outcome])>>)

=============================================================================

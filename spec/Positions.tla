------------------------------ MODULE Positions ------------------------------
(***************************************************************************)
(* C11 (b) -- ill-formed declarations are always rejected: invalid or      *)
(* misplaced types (E350-E359), words larger than declared (E380),         *)
(* non-ABI types in extern signatures (E358), non-constant array lengths   *)
(* (E433), duplicate names (E421, E423-E426).                              *)
(*                                                                         *)
(* A value type is a chain of unary constructors ending in a leaf, written *)
(* as a sequence outermost first:                                          *)
(*   "ptr" &T   "view" (T)   "arr" [3]T   "narr" [N]T (N a usize constant) *)
(*   "slice" [:]T   "endless" [..]T   "like" []T                           *)
(*   leaves: integer types, "bool", "char8", "void", "S" (a struct),       *)
(*           "W" (a word32)                                                *)
(* A cell is a type in a declaration position:                             *)
(*   var, const, param, smember (member of a struct), wmember (member of a *)
(*   word), ret, xparam / xret (extern signature), sizeof.                 *)
(*                                                                         *)
(*   Gen  every type up to nesting depth MaxDepth x every position, plus   *)
(*        three small families: words (members x declared size), named     *)
(*        array lengths, duplicate names;                                  *)
(*   R    the rule read off docs/errors.md (E350-E359, E380, E433, E42x),  *)
(*        docs/features.md (Views, Structs and words, Interoperability     *)
(*        with C) and the expected codes of tests/samples: per cell        *)
(*        "A" must be accepted, "R" must be rejected with one of `codes`,  *)
(*        "U" unconstrained (the documentation is silent; listed in        *)
(*        spec/UNCONSTRAINED-modules.md);                                  *)
(*   A    the table the code implements (value_type.rs is_wellformed /     *)
(*        can_be_*, typer.rs fix_type_for_flags / externalize_type /       *)
(*        align_struct), transcribed; it yields MODEL-DRIFT notes only.    *)
(* TLC checks that A obeys R in every constrained cell and prints one CASE *)
(* per cell.                                                               *)
(***************************************************************************)
EXTENDS Naturals, Sequences, FiniteSets, TLC, SequencesExt, FiniteSetsExt, IOUtils

CONSTANTS MaxDepth,      \* nesting depth of the main leaves
          ExtraDepth     \* nesting depth of the remaining primitive leaves

VARIABLES fam, ty, pos, aux, phase
vars == <<fam, ty, pos, aux, phase>>

Ctors == {"ptr", "view", "arr", "narr", "slice", "endless", "like"}
MainLeaves == {"i32", "u128", "bool", "void", "S", "W"}
ExtraLeaves == {"i8", "i16", "i64", "i128", "u8", "u16", "u32", "u64", "usize", "char8"}
Positions == {"var", "const", "param", "smember", "wmember", "ret", "xparam", "xret", "sizeof"}

AbiInts == {"i8", "i16", "i32", "i64", "u8", "u16", "u32", "u64", "usize"}
FixedInts == {"i8", "i16", "i32", "i64", "i128", "u8", "u16", "u32", "u64", "u128"}
Prims == FixedInts \cup {"usize", "bool", "char8"}
Leaf(t) == t[Len(t)]
Has(t, tags) == \E i \in 1..Len(t) : t[i] \in tags
Rest(t, i) == SubSeq(t, i, Len(t))

(***************************************************************************)
(* R -- the rule                                                           *)
(***************************************************************************)
\* "does T have a size known at compile time" (E350, E359)
RSized(t, i) == CASE t[i] \in {"like", "endless", "void"} -> "no"
                  [] t[i] \in {"slice", "view"} -> "unknown"
                  [] OTHER -> "yes"
\* E350: [10]T and []T are only valid if T is valid and sized; a compound of an invalid type is invalid.
\* Silent: [:]T and (T) altogether, &void, [..]T of an unsized T.
RECURSIVE RValid(_, _)
RValid(t, i) ==
    IF i = Len(t) THEN "valid"
    ELSE LET sub == RValid(t, i + 1)
         IN CASE t[i] \in {"slice", "view"} -> "unknown"
              [] t[i] = "ptr" -> IF t[i + 1] = "void" THEN "unknown" ELSE sub
              [] t[i] \in {"arr", "narr", "like"} ->
                    IF sub = "invalid" THEN "invalid"
                    ELSE IF RSized(t, i + 1) = "no" THEN "invalid"
                    ELSE IF sub = "unknown" \/ RSized(t, i + 1) = "unknown" THEN "unknown"
                    ELSE "valid"
              [] t[i] = "endless" ->
                    IF sub = "invalid" THEN "invalid"
                    ELSE IF sub = "unknown" \/ RSized(t, i + 1) # "yes" THEN "unknown"
                    ELSE "valid"
\* built from primitives, structs and words with [3]T, [N]T and &T only
Plain(t) == ~Has(t, {"view", "slice", "endless", "like", "void"})
PlainFrom(t, i) == Plain(Rest(t, i))
PosCode(p) == CASE p = "var" -> 352 [] p = "const" -> 353 [] p = "param" -> 354
                [] p \in {"smember", "wmember"} -> 356 [] p = "ret" -> 351
                [] p = "xparam" -> 354 [] p = "xret" -> 351 [] p = "sizeof" -> 359
Acc == [v |-> "A", codes |-> {}]
Rej(cs) == [v |-> "R", codes |-> cs]
Unc == [v |-> "U", codes |-> {}]

RuleValid(t, p) ==
    LET h == t[1]
        one == Len(t) = 1
    IN CASE p = "var" ->
              IF h = "void" \/ h = "endless" THEN Rej({352})                 \* E352, endless_array_as_variable.pn
              ELSE IF Plain(t) THEN Acc
              ELSE IF Len(t) >= 3 /\ h = "ptr" /\ t[2] = "endless" /\ PlainFrom(t, 3) THEN Acc   \* `legal: &[..]i32`
              ELSE Unc
         [] p = "const" ->
              IF h \in {"like", "endless"} THEN Rej({353})                    \* E353, endless_array_as_constant.pn
              ELSE IF h = "void" THEN Rej({353, 352})
              ELSE IF Plain(t) /\ ~Has(t, {"ptr", "S", "W"}) THEN Acc        \* `const X: [3]i32`
              ELSE Unc
         [] p = "param" ->
              IF h = "void" THEN Rej({354})                                    \* E354
              ELSE IF Plain(t) /\ h \notin {"arr", "narr"} THEN Acc          \* primitives, words, pointers; structs as views
              ELSE IF h = "like" /\ PlainFrom(t, 2) THEN Acc                  \* `x: []i32`
              ELSE IF Len(t) >= 3 /\ h = "ptr" /\ t[2] = "like" /\ PlainFrom(t, 3) THEN Acc   \* `x: &[]i32`
              ELSE Unc                                                         \* [4]i32 parameters: see UNCONSTRAINED
         [] p = "ret" ->
              IF h \in {"S", "arr", "narr", "like", "endless"} THEN Rej({351})  \* E351: structs, arrays, array views
              ELSE IF one /\ h \in Prims THEN Acc
              ELSE Unc
         [] p = "smember" ->
              IF h \in {"like", "endless"} THEN Rej({356})                    \* view_as_member.pn, endless_array_as_member.pn
              ELSE IF h = "void" THEN Rej({356, 350})
              ELSE IF Plain(t) THEN Acc
              ELSE IF Len(t) >= 3 /\ h = "ptr" /\ t[2] = "endless" /\ PlainFrom(t, 3) THEN Acc   \* `legal: &[..]i32`
              ELSE Unc
         [] p = "wmember" ->
              \* "The members of word can be fixed size integers, bool or other words."
              IF one /\ h \in FixedInts \cup {"bool", "W"} THEN Acc
              ELSE IF one /\ h \in {"usize", "char8"} THEN Unc
              ELSE IF h = "void" THEN Rej({356, 350})
              ELSE Rej({356})
         [] p = "xparam" ->
              \* "Only array views, pointers and the primitive types i8 ... u64 and usize are allowed"
              IF one /\ h \in AbiInts THEN Acc
              ELSE IF one /\ h = "char8" THEN Unc
              ELSE IF one /\ h = "void" THEN Rej({358, 354})
              ELSE IF one THEN Rej({358})
              ELSE IF h \in {"arr", "narr"} THEN Rej({358})
              ELSE IF h \in {"like", "ptr"} /\ (\A i \in 1..(Len(t) - 1) : t[i] \in {"like", "ptr"}) /\ Leaf(t) \in AbiInts
                   THEN Acc
              ELSE Unc
         [] p = "xret" ->
              IF one /\ h \in AbiInts THEN Acc
              ELSE IF one /\ h \in {"char8", "void"} THEN Unc
              ELSE IF one THEN Rej({358, 351})
              ELSE IF h \in {"arr", "narr", "like"} THEN Rej({358, 351})
              ELSE Unc
         [] p = "sizeof" ->
              IF h \in {"like", "endless"} THEN Rej({359})                    \* E359, size_of_slice.pn
              ELSE IF Plain(t) THEN Acc                                        \* size_of_other_types.pn
              ELSE Unc

RuleType(t, p) ==
    LET v == RValid(t, 1)
    IN IF v = "unknown" THEN
            \* the two documented uses of an explicit view
            IF p = "const" /\ Len(t) = 2 /\ t[1] = "view" /\ t[2] \in FixedInts THEN Acc           \* explicit_view_constant.pn
            ELSE IF p = "param" /\ Len(t) = 3 /\ t[1] = "view" /\ t[2] = "endless" /\ t[3] \in Prims THEN Acc
            ELSE Unc
       ELSE IF v = "invalid" THEN Rej({350, PosCode(p)} \cup (IF p \in {"xparam", "xret"} THEN {358} ELSE {}))
       ELSE RuleValid(t, p)

\* STATE (lesson 7): two independent declarations in one file, the FIRST one of `FirstCells` (one faulty and one valid
\* cell per position), the second any cell.  Declarations are judged one by one: the file is rejected iff one of them is;
\* a valid declaration carries no diagnostic of the family whatever stands before / after it; a faulty one next to a
\* valid one carries one of its own codes.
FirstCells == <<
    [ty |-> <<"void">>, pos |-> "var"],             [ty |-> <<"arr", "i32">>, pos |-> "var"],
    [ty |-> <<"endless", "i32">>, pos |-> "const"], [ty |-> <<"arr", "i32">>, pos |-> "const"],
    [ty |-> <<"void">>, pos |-> "param"],           [ty |-> <<"ptr", "i32">>, pos |-> "param"],
    [ty |-> <<"S">>, pos |-> "ret"],                [ty |-> <<"i32">>, pos |-> "ret"],
    [ty |-> <<"like", "i32">>, pos |-> "smember"],  [ty |-> <<"arr", "i32">>, pos |-> "smember"],
    [ty |-> <<"arr", "i32">>, pos |-> "wmember"],   [ty |-> <<"i32">>, pos |-> "wmember"],
    [ty |-> <<"S">>, pos |-> "xparam"],             [ty |-> <<"ptr", "i32">>, pos |-> "xparam"],
    [ty |-> <<"bool">>, pos |-> "xret"],            [ty |-> <<"i32">>, pos |-> "xret"],
    [ty |-> <<"like", "i32">>, pos |-> "sizeof"],   [ty |-> <<"S">>, pos |-> "sizeof"],
    [ty |-> <<"arr", "like", "i32">>, pos |-> "var"] >>
RulePair(f, t, p) ==
    LET r1 == RuleType(f.ty, f.pos)
        r2 == RuleType(t, p)
    IN [v |-> IF r1.v = "R" \/ r2.v = "R" THEN "R" ELSE IF r1.v = "A" /\ r2.v = "A" THEN "A" ELSE "U",
        \* next to an unconstrained cell the rejection may come from either declaration
        codes |-> r1.codes \cup r2.codes \cup (IF r1.v = "U" \/ r2.v = "U" THEN 350..359 ELSE {}),
        clean1 |-> r1.v = "A", clean2 |-> r2.v = "A",
        must1 |-> IF r1.v = "R" /\ r2.v = "A" THEN r1.codes ELSE {},
        must2 |-> IF r2.v = "R" /\ r1.v = "A" THEN r2.codes ELSE {}]

\* words: members (each a fixed size integer, bool or the word32 W) and a declared size in bits.
\* E380: "the declared size of a word does not match the total size of its members"; the property
\* demands rejection of words LARGER than declared; smaller ones and padding are not documented.
\* "T" is an UNDER-FILLED word, `word16 T { kind: u8 }` (eighth round of seeded changes): as a member it counts with its
\* declared size; whether T itself is legal is not documented, so a word that holds one is at most unconstrained.
BitsOf(m) == CASE m \in {"i8", "u8", "bool"} -> 8 [] m \in {"i16", "u16", "T"} -> 16 [] m \in {"i32", "u32", "W"} -> 32
               [] m \in {"i64", "u64"} -> 64 [] m \in {"i128", "u128"} -> 128
RECURSIVE SumBits(_, _)
SumBits(ms, i) == IF i > Len(ms) THEN 0 ELSE BitsOf(ms[i]) + SumBits(ms, i + 1)
RECURSIVE NoPadding(_, _, _)
NoPadding(ms, i, off) == IF i > Len(ms) THEN TRUE
                         ELSE LET al == IF BitsOf(ms[i]) > 64 THEN 64 ELSE BitsOf(ms[i])
                              IN off % al = 0 /\ NoPadding(ms, i + 1, off + BitsOf(ms[i]))
RuleWord(ms, bits) == IF SumBits(ms, 1) > bits THEN Rej({380})
                      ELSE IF SumBits(ms, 1) = bits /\ NoPadding(ms, 1, 0) /\ (\A i \in 1..Len(ms) : ms[i] # "T") THEN Acc
                      ELSE Unc

\* named array lengths (E433): "either an integer literal or a named constant of type usize"
\* "constexpr" (`const n: usize = 1 + 2;`) and "constchain" (`const k: usize = 3; const n: usize = k;`) are named
\* constants of type usize like "const"
RuleLen(where, what) == CASE what \in {"const", "constexpr", "constchain"} -> Acc
                          [] what \in {"var", "param"} -> Rej({433})
                          [] what = "consti32" -> Rej({433, 500, 501, 502, 503, 504, 505, 506, 507, 510, 511, 512, 513})
\* duplicates (E421, E423-E426).  The codes speak of two declarations of ONE kind ("two functions", "two constants",
\* "two structures", "two members", "another parameter or constant in scope"):
\*   what = "ns"      the two names belong to different namespaces (constant / structure or word / function): no
\*                    duplicate, accepted (the permutation family relies on the same reading); a member or parameter
\*                    named like something of another kind is not mentioned by the documentation: unconstrained
\*   variants import:* (two files, C12: "never its private items"): a name that is private in the imported file, or
\*                    public in a file that is NOT imported, clashes with nothing; a clash between an imported public
\*                    name and a local one is not documented: unconstrained
NsDocumented == {"const+struct", "struct+const", "const+fn", "fn+const", "struct+fn", "fn+struct", "word+const", "const+word",
                 "word+fn"}
RuleDupV(what, dup, v) ==
    IF ~dup THEN Acc
    ELSE IF what = "ns" THEN (IF v \in NsDocumented THEN Acc ELSE Unc)
    ELSE IF v \in {"import:private+local", "import:unimported+local"} THEN Acc
    ELSE IF v = "import:pub+local" THEN Unc
    ELSE CASE what = "fn" -> Rej({421}) [] what = "const" -> Rej({423}) [] what = "param" -> Rej({424})
           [] what \in {"struct", "structword"} -> Rej({425}) [] what = "member" -> Rej({426})
RuleDup(what, dup) == RuleDupV(what, dup, "")

(***************************************************************************)
(* A -- the table of the code                                              *)
(***************************************************************************)
\* the transcription follows the tree under test: PENNE_FIXED_LIKE_ELEMENT=1 (set by the check after
\* probing the compiler) means can_be_element(Arraylike) = false
FixedLikeElement == "PENNE_FIXED_LIKE_ELEMENT" \in DOMAIN IOEnv /\ IOEnv["PENNE_FIXED_LIKE_ELEMENT"] = "1"
RECURSIVE WF(_, _), WFInner(_, _)
CanElem(t, i) == t[i] \notin {"void", "slice", "sptr", "endless", "view"} \cup (IF FixedLikeElement THEN {"like"} ELSE {})
WFElem(t, i) == CanElem(t, i) /\ WFInner(t, i)
WF(t, i) == CASE t[i] \in {"arr", "narr", "slice", "sptr", "endless", "like"} -> WFElem(t, i + 1)
              [] t[i] \in {"ptr", "view"} -> WFInner(t, i + 1)
              [] OTHER -> TRUE
WFInner(t, i) == CASE t[i] = "void" -> FALSE
                   [] t[i] \in {"arr", "narr", "endless", "like"} -> WFElem(t, i + 1)
                   [] t[i] \in {"slice", "sptr", "view"} -> FALSE
                   [] t[i] = "ptr" -> WFInner(t, i + 1)
                   [] OTHER -> TRUE
CanSized(t) == t[1] \notin {"void", "slice", "sptr", "endless", "like", "view"}
CanSMember(t) == t[1] \notin {"void", "slice", "sptr", "endless", "like", "view"} /\ WF(t, 1)
CanWMember(t) == CanSMember(t) /\ Len(t) = 1 /\ t[1] \in FixedInts \cup {"char8", "bool", "W"}
CanConst(t) == t[1] \notin {"void", "slice", "sptr", "endless", "like"} /\ WF(t, 1)
CanVar(t) == t[1] \notin {"void", "sptr", "endless", "like", "view"} /\ WF(t, 1)
CanParam(t) == t[1] \notin {"void", "arr", "narr", "endless", "like", "S"} /\ WF(t, 1)
CanRet(t) == t[1] \notin {"arr", "narr", "slice", "sptr", "endless", "like", "S", "view"} /\ WF(t, 1)
\* fix_type_for_flags without `extern`
Fix(t, ctx) == IF t[1] = "like" THEN <<"slice">> \o Rest(t, 2)
               ELSE IF t = <<"S">> /\ ctx \in {"param", "ret"} THEN <<"view", "S">>
               ELSE IF Len(t) >= 2 /\ t[1] = "ptr" /\ t[2] = "like" THEN <<"sptr">> \o Rest(t, 3)
               ELSE t
\* externalize_type: <<>> stands for E358
RECURSIVE Ext(_, _)
Ext(t, i) == IF i = Len(t) THEN (IF t[i] \in AbiInts \cup {"char8"} THEN <<t[i]>> ELSE <<>>)
             ELSE IF t[i] \in {"like", "ptr", "view"}
             THEN LET sub == Ext(t, i + 1)
                  IN IF sub = <<>> THEN <<>> ELSE <<IF t[i] = "like" THEN "endless" ELSE t[i]>> \o sub
             ELSE <<>>
FixExtern(t) == IF t[1] = "like"
                THEN LET sub == Ext(t, 2) IN IF sub = <<>> THEN <<>> ELSE <<"view", "endless">> \o sub
                ELSE Ext(t, 1)
Ok == [ok |-> TRUE, code |-> 0]
No(c) == [ok |-> FALSE, code |-> c]
ModelType(t, p) ==
    IF ~WF(t, 1) THEN No(350)                                          \* parser: parse_wellformed_type
    ELSE CASE p = "var" -> IF CanVar(t) THEN Ok ELSE No(352)
           [] p = "const" -> IF CanConst(Fix(t, p)) THEN Ok ELSE No(353)
           [] p = "param" -> IF CanParam(Fix(t, p)) THEN Ok ELSE No(354)
           [] p = "smember" -> IF CanSMember(Fix(t, p)) THEN Ok ELSE No(356)
           [] p = "wmember" -> IF CanWMember(Fix(t, p)) THEN Ok ELSE No(356)
           [] p = "ret" -> IF t = <<"void">> THEN Ok ELSE IF CanRet(Fix(t, p)) THEN Ok ELSE No(351)
           [] p = "xparam" -> LET x == FixExtern(t) IN IF x = <<>> THEN No(358) ELSE IF CanParam(x) THEN Ok ELSE No(354)
           [] p = "xret" -> IF t = <<"void">> THEN Ok
                            ELSE LET x == FixExtern(t) IN IF x = <<>> THEN No(358) ELSE IF CanRet(x) THEN Ok ELSE No(351)
           [] p = "sizeof" -> IF CanSized(t) THEN Ok ELSE No(359)
\* align_struct: natural alignment capped at 8 bytes, accepted iff aligned size <= declared size
RECURSIVE Layout(_, _, _, _)
Layout(ms, i, off, maxal) ==
    IF i > Len(ms) THEN ((off + maxal - 1) \div maxal) * maxal
    ELSE LET al == IF BitsOf(ms[i]) > 64 THEN 64 ELSE BitsOf(ms[i])
             start == ((off + al - 1) \div al) * al
         IN Layout(ms, i + 1, start + BitsOf(ms[i]), IF al > maxal THEN al ELSE maxal)
ModelWord(ms, bits) == IF Layout(ms, 1, 0, 8) <= bits THEN Ok ELSE No(380)
ModelLen(where, what) == CASE what \in {"const", "constexpr", "constchain"} -> Ok [] what \in {"var", "param"} -> No(433)
                           [] what = "consti32" -> No(500)
\* declare_variable looks through every scope, layer 0 (the constants) included: a member or parameter named like a
\* constant is a duplicate for the code; functions and structures live in lists of their own
ModelDupV(what, dup, v) ==
    IF ~dup THEN Ok
    ELSE IF what = "ns" THEN (CASE v \in {"member+const", "const+member"} -> No(426)
                                [] v \in {"param+const"} -> No(424)
                                [] OTHER -> Ok)
    ELSE IF v \in {"import:private+local", "import:unimported+local"} THEN Ok
    ELSE CASE what = "fn" -> No(421) [] what = "const" -> No(423) [] what = "param" -> No(424)
           [] what \in {"struct", "structword"} -> No(425) [] what = "member" -> No(426)
ModelDup(what, dup) == ModelDupV(what, dup, "")
ModelPair(f, t, p) ==
    LET m1 == ModelType(f.ty, f.pos)
        m2 == ModelType(t, p)
    IN IF m1.ok /\ m2.ok THEN Ok
       ELSE IF ~WF(f.ty, 1) \/ ~WF(t, 1) THEN No(350)      \* the parser reports first
       ELSE IF ~m1.ok THEN m1 ELSE m2

(***************************************************************************)
(* Gen                                                                     *)
(***************************************************************************)
WordMembers == {"i8", "i16", "i32", "bool", "W", "T", "u64", "u128"}
\* the NUMBER of members is a dimension too: words of 4 / 8 / 9 / 16 / 17 one-byte members (exactly filled, one over)
ManyBytes == {4, 8, 9, 16, 17}
\* flags x kinds (lesson 9): `pub` and `extern` are allowed on every top-level declaration; "Structures and constants can
\* also be declared extern, but as of v0.3.0 this has no effect", `pub` is about imports only -- the legality of a type in a
\* position does not depend on them (an `extern fn` is the positions xparam / xret).  Enumerated for nesting depth <= 2.
FlagsOf(p) == IF p \in {"param", "ret", "xparam", "xret"} THEN {"pub"} ELSE {"pub", "extern", "pubextern"}
\* second cells of the pair family: nesting depth <= 1 over the main leaves
PairDepth == 1
WordBits == {8, 16, 32, 64, 128}
LenWhere == {"var", "smember", "param", "const", "sizeof", "nested"}
LenWhat == {"const", "var", "param", "consti32", "constexpr", "constchain"}
\* order independence: the constant is declared before or after the declaration that uses it as a length
LenOrder == {"before", "after"}
DupWhat == {"fn", "const", "param", "struct", "structword", "member", "ns"}
\* WHERE the two names stand does not matter to the rule (docs/errors.md E421-E426: "two functions ...", "another
\* parameter or constant in scope" -- constants are in scope throughout the module); it is a dimension of Gen:
\*   fn      which of the two declarations has a body / is extern / is pub
\*   const   adjacent, with another declaration in between, the second one pub
\*   param   the other name is a parameter (of a head, a function with a body, an extern head, a pub function; the
\*           pair is the first two or the last two parameters) or a constant declared before / after the function
\*   struct  struct + struct, word + struct; structword = struct + word (the documented example)
\*   member  of a struct / of a word / the first and the last of three
\*   triple / last / first-last   three declarations of one name; the pair is the LAST two declarations of a longer file;
\*           the first and the last declaration of a longer file
\*   import:*  the first declaration stands in another file (see RuleDupV)
DupVariants(w) ==
    CASE w = "fn" -> {"head+head", "body+head", "head+body", "body+body", "extern+head", "pub+head",
                      "triple", "last", "first-last", "extern+extern", "import:private+local", "import:pub+local",
                      "import:unimported+local"}
      [] w = "const" -> {"adjacent", "apart", "pub", "triple", "last", "first-last", "extern", "import:private+local",
                         "import:pub+local", "import:unimported+local"}
      [] w = "ns" -> NsDocumented \cup {"member+const", "const+member", "param+fn", "param+struct",
                                        "member+fn", "member+struct", "member+param"}
      [] w = "param" -> {"param@head", "param@body", "param@extern", "param@pub", "param@head-first",
                         "const-before@head", "const-after@head", "const-before@body", "const-after@body",
                         "const-before@extern", "const-after@extern", "const-after@pub"}
      [] w = "struct" -> {"struct+struct", "word+struct", "word+word", "triple", "last", "pub+extern", "opaque+struct",
                          "import:private+local", "import:pub+local", "import:unimported+local"}
      [] w = "structword" -> {"struct+word"}
      [] w = "member" -> {"struct", "word", "first-last", "triple", "last-two-of-four"}

Init == /\ fam = "none" /\ ty = <<>> /\ pos = "none" /\ aux = <<>> /\ phase = "family"

ChooseFamily == /\ phase = "family"
                /\ \/ fam' = "type" /\ phase' = "grow" /\ UNCHANGED <<ty, pos, aux>>
                   \/ fam' = "word" /\ phase' = "word" /\ UNCHANGED <<ty, pos, aux>>
                   \/ /\ fam' = "len" /\ phase' = "end"
                      /\ \E w \in LenWhere, x \in LenWhat, o \in LenOrder :
                            /\ ~(w \in {"smember", "const", "sizeof"} /\ x \in {"var", "param"}) /\ ~(w = "param" /\ x = "var")
                            /\ (o = "after" => x \notin {"var", "param"})
                            \* the cells that existed before the order became a dimension keep their one-element aux (keys)
                            /\ pos' = w /\ aux' = (IF o = "before" THEN <<x>> ELSE <<x, o>>)
                      /\ UNCHANGED ty
                   \/ fam' = "pair" /\ phase' = "grow" /\ UNCHANGED <<ty, pos, aux>>
                   \/ /\ fam' = "dup" /\ phase' = "end"
                      /\ \E w \in DupWhat, d \in BOOLEAN : \E v \in DupVariants(w) : pos' = w /\ aux' = <<d, v>>
                      /\ UNCHANGED ty
AddCtor == /\ phase = "grow" /\ Len(ty) < (IF fam = "pair" THEN PairDepth ELSE MaxDepth)
           /\ \E c \in Ctors : ty' = Append(ty, c)
           /\ UNCHANGED <<fam, pos, aux, phase>>
PickLeaf == /\ phase = "grow"
            /\ \E l \in MainLeaves \cup (IF Len(ty) <= ExtraDepth /\ fam = "type" THEN ExtraLeaves ELSE {}) : ty' = Append(ty, l)
            /\ phase' = "pos"
            /\ UNCHANGED <<fam, pos, aux>>
PickPos == /\ phase = "pos"
           /\ \E p \in Positions :
                 /\ pos' = p
                 /\ \/ fam = "type" /\ UNCHANGED aux
                    \/ fam = "type" /\ Len(ty) <= 3 /\ \E fl \in FlagsOf(p) : aux' = <<fl>>
                    \/ fam = "pair" /\ \E x \in 1..Len(FirstCells) : aux' = <<x>>
           /\ phase' = "end"
           /\ UNCHANGED <<fam, ty>>
AddMember == /\ phase = "word" /\ Len(ty) < 3
             /\ \E m \in WordMembers : ty' = Append(ty, m)
             /\ UNCHANGED <<fam, pos, aux, phase>>
AddBytes == /\ phase = "word" /\ ty = <<>>
            /\ \E k \in ManyBytes : ty' = [x \in 1..k |-> "i8"]
            /\ UNCHANGED <<fam, pos, aux, phase>>
PickBits == /\ phase = "word" /\ Len(ty) >= 1
            /\ \E b \in WordBits : aux' = <<b>>
            /\ phase' = "end"
            /\ UNCHANGED <<fam, ty, pos>>

Next == ChooseFamily \/ AddCtor \/ PickLeaf \/ PickPos \/ AddMember \/ AddBytes \/ PickBits
Spec == Init /\ [][Next]_vars

PairRule == RulePair(FirstCells[aux[1]], ty, pos)
\* flags: `pub` never matters.  `extern` on a constant / structure / word: docs/features.md says "as of v0.3.0 this has no
\* effect", docs/errors.md E358 speaks of FUNCTIONS marked extern only -- but the code applies the ABI restriction to the
\* type of an extern constant and to the members of an extern structure (`extern struct Q { m: bool, }` -> E358).  The two
\* documents do not settle it: such cells are constrained only where both readings agree (a single ABI integer is
\* accepted; what is illegal without the flag stays illegal, E358 being one more admissible code).
RuleFlagged(t, p, fl) ==
    LET r == RuleType(t, p)
    IN IF fl \in {"extern", "pubextern"} /\ p \in {"const", "smember", "wmember"}
       THEN (IF r.v = "R" THEN Rej(r.codes \cup {358} \cup (IF p = "const" THEN 500..599 ELSE {}))   \* or its initialiser
             ELSE IF r.v = "A" /\ Len(t) = 1 /\ t[1] \in AbiInts THEN Acc
             ELSE Unc)
       ELSE r
RuleCell == CASE fam = "type" -> (IF aux = <<>> THEN RuleType(ty, pos) ELSE RuleFlagged(ty, pos, aux[1]))
              [] fam = "word" -> RuleWord(ty, aux[1])
              [] fam = "len" -> RuleLen(pos, aux[1])
              [] fam = "dup" -> RuleDupV(pos, aux[1], aux[2])
              [] fam = "pair" -> [v |-> PairRule.v, codes |-> PairRule.codes]
\* fix_type_for_flags with `extern` on a constant / structure: the type is externalized like a parameter's
ModelFlagged(t, p, fl) ==
    IF fl \in {"extern", "pubextern"} /\ p \in {"const", "smember", "wmember"} /\ WF(t, 1)
    THEN LET x == FixExtern(t)
         IN IF x = <<>> THEN No(358)
            \* `extern const X: []i32` becomes a view of [..]i32, which can_be_constant admits; no initialiser has that type
            ELSE IF p = "const" THEN (IF ~CanConst(x) THEN No(353) ELSE IF t[1] = "like" THEN No(500) ELSE Ok)
            ELSE IF p = "smember" THEN (IF CanSMember(x) THEN Ok ELSE No(356))
            ELSE IF CanWMember(x) THEN Ok ELSE No(356)
    ELSE ModelType(t, p)
ModelCell == CASE fam = "type" -> (IF aux = <<>> THEN ModelType(ty, pos) ELSE ModelFlagged(ty, pos, aux[1]))
               [] fam = "word" -> ModelWord(ty, aux[1])
               [] fam = "len" -> ModelLen(pos, aux[1])
               [] fam = "dup" -> ModelDupV(pos, aux[1], aux[2])
               [] fam = "pair" -> ModelPair(FirstCells[aux[1]], ty, pos)

\* shapes of known findings (so that they can be keyed by input shape):
\*   like-element   an array view []T used as the element of [3]T, [N]T or []T (documented invalid, E350)
CellTags == IF fam \in {"type", "pair"} /\ \E i \in 1..(Len(ty) - 1) : ty[i] \in {"arr", "narr", "like"} /\ ty[i + 1] = "like"
            THEN {"like-element"} ELSE {}
\* the table of the code obeys the documented rule wherever the rule says anything
Obeys(r, m) == /\ r.v = "A" => m.ok
               /\ r.v = "R" => (~m.ok /\ m.code \in r.codes)
ModelObeysRule == phase = "end" => Obeys(RuleCell, ModelCell)
\* ... except for the known finding (the unrestricted invariant is kept as a design-level guard)
ModelObeysRuleElsewhere == (phase = "end" /\ CellTags = {}) => Obeys(RuleCell, ModelCell)
=============================================================================

SPECIFICATION Spec
INVARIANTS Sane EmitCase
CHECK_DEADLOCK FALSE

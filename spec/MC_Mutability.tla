--------------------------- MODULE MC_Mutability ---------------------------
(***************************************************************************)
(* Gen + model checking + case emission for C08 (TLC only): every          *)
(* (base kind x declared shape x well-typed path of at most MaxSteps steps *)
(* x address depth x context) cell is a state; invariants Agree            *)
(* (A = R) and Emit (one CASE per cell for the replay on the compiler).    *)
(***************************************************************************)
EXTENDS Mutability, TLC, Json, SequencesExt

CONSTANTS MaxSteps, Thorough

VARIABLE c

I32   == P("i32")
A2(t) == Arr("2", t)
St(n) == <<"struct", n>>
Wd    == <<"word", "W">>

VarShapes   == {I32, A2(I32), St("S"), Wd, Ptr(I32), Ptr(Ptr(I32)), A2(Ptr(I32)), St("SP"), Ptr(St("S")),
                Ptr(A2(I32)), A2(St("S")), St("SS"), Ptr(St("SP"))}
               \cup (IF Thorough THEN {A2(St("SS")), Ptr(Ptr(St("S"))), A2(A2(I32)), Ptr(St("SS")), A2(Wd)} ELSE {})
ParamShapes == {I32, Wd, Slice(I32), View(St("S")), SPtr(I32), Ptr(I32), Ptr(Ptr(I32)), Slice(Ptr(I32)),
                View(St("SP")), Ptr(St("S")), Ptr(A2(I32)), Ptr(St("SP")), View(St("SS")), Slice(St("S")), SPtr(St("S"))}
               \cup (IF Thorough THEN {Slice(St("SS")), Ptr(Ptr(St("S"))), SPtr(Ptr(I32)), Slice(A2(I32)), Ptr(St("SS")), Slice(Wd)} ELSE {})
ConstShapes == {I32, A2(I32), St("S"), Wd, A2(St("S"))}

Bases == {<<"var", t>> : t \in VarShapes} \cup {<<"param", t>> : t \in ParamShapes} \cup {<<"const", t>> : t \in ConstShapes}

\* the steps that can be written after a reference of type t
StepsOf(t) == LET core == FullyDeref(t)
              IN IF Kind(core) \in {"arr", "slice", "sptr"} THEN {"i"} ELSE MemberNames(core)
StepType(t, s) == LET core == FullyDeref(t)
                  IN IF s = "i" THEN ElemOf(core) ELSE Members(core[2])[s]
RECURSIVE PathsFrom(_, _)
PathsFrom(t, n) == {<<>>} \cup (IF n = 0 THEN {}
                               ELSE UNION {{<<s>> \o p : p \in PathsFrom(StepType(t, s), n - 1)} : s \in StepsOf(t)})

Final(d, path) == RWalk(d, path, FALSE).t

CellOK(ctx, d, path, k) ==
    LET F    == Final(d, path)
        n    == PtrDepth(F)
        core == StripPtr(F)
        et   == ExpectType(F, k)
    IN CASE ctx = "assign"  -> k <= n /\ ~(Kind(core) \in {"slice", "view", "sptr"} /\ k = 0) /\ ~(Kind(core) \in {"slice", "view"})
         [] ctx = "read"    -> k <= n + 1 /\ ~(Kind(core) = "sptr" /\ k # 1)
         [] ctx = "arg"     -> k <= n + 1 /\ ~(Kind(core) = "sptr" /\ k # 1)
         [] ctx = "argmiss" -> k <= n /\ Kind(core) \notin {"sptr", "slice", "view"}
         [] ctx = "argcast" -> Kind(core) \in {"arr", "slice"} /\ n = 0 /\ k = 0 /\ IsPrim(ElemOf(core))
         [] ctx = "argxp"   -> /\ Kind(core) \in {"arr", "slice", "sptr"} /\ n = (IF Kind(core) = "sptr" THEN 1 ELSE 0)
                               /\ k <= 1 /\ ~(Kind(core) = "sptr" /\ k # 1)
                               /\ IsPrim(ElemOf(core))

YContexts == {"block", "loop", "then", "else", "elif_then", "elif_else", "elif2", "label"}
\* ... and the places where a CALL with the address-of argument can stand inside a larger expression: the subscript of
\* a read (`ta[f(&b)]`), the subscript of an assignment target, an operand of a binary operator, of a cast, of a
\* comparison, an argument of a builtin.  The rule does not look at where the call stands.
\* Dimension audit: the address expression as element / member of a literal in an INITIALISER (not an argument), as
\* the value that re-seats a pointer variable (`&tq = &b`), as operand of a bit cast; the call with the address
\* argument as operand of a unary operator, as assigned value; the address as second of two / middle of three
\* arguments; the callee called twice in one statement, once with a harmless address, once with the one described.
XContexts == {"paren", "elem", "member", "nested", "ret", "cond", "index", "index_set", "binop", "castop", "condcall", "builtin",
              "initelem", "initmember", "reseat", "bitcast", "unop", "assigncall", "arg2", "argmid", "twice_r", "twice_l"}
\* Sibling contexts of a whole-aggregate copy (read cells whose value is an array or a struct): the copy
\* stands next to an expression that is evaluated EARLIER in the same statement -- a call with an argument
\* in the index of the assignment target, in an earlier member of a struct literal, in an earlier nested
\* array literal -- or next to the same shapes without a call / with a call without arguments.  The rule
\* ignores what stands next to the copy.
SibContexts == {"sib_idx", "sib_idx0", "sib_zero", "sib_member", "sib_member0", "sib_nested"}
\* A SECOND unit next to the construct (field pre; the rule judges every construct on its own):
\*   s_call                a legal call statement with an argument right before the construct
\*   s_bad / s_bad_after   an independent illegal statement (assignment to a constant) before / after the construct
\*   f_bad / f_bad_after   a function that assigns to its by-value parameter before / after the function of the construct
\*   f_samename            a function before, in which a `var` of the SAME NAME as the base is legally mutated
\* Flags of the enclosing function (field v): `pub fn t`, `extern fn t` -- parameters are immutable whatever the flags.
\*   f_first               a function with a body (a legal mutation of its own local) BEFORE the declaration of the base
Pres == {"s_call", "s_bad", "s_bad_after", "f_bad", "f_bad_after", "f_samename", "f_first"}
Contexts == {<<"direct", "top", "none", "">>} \cup {<<"direct", y, "none", "">> : y \in YContexts} \cup {<<x, "top", "none", "">> : x \in XContexts}
                \cup {<<"elem", "elif_then", "none", "">>, <<"member", "elif2", "none", "">>, <<"nested", "elif_else", "none", "">>}
                \cup {<<x, "top", "none", "">> : x \in SibContexts} \cup {<<"sib_idx", "elif_then", "none", "">>, <<"sib_member", "block", "none", "">>}
                \cup {<<"direct", "top", p, "">> : p \in Pres}
                \* (v = "ixptr", ninth round of seeded changes: the SUBSCRIPT reads through a reference pointer, `b[pi]` with `pi: &usize`;
                \* what the index expression is made of is no part of the rule)
                \cup {<<"direct", "top", "none", f>> : f \in {"pub", "extern", "ixptr"}}
                \cup {<<"direct", "loop", "s_bad", "">>, <<"direct", "label", "f_bad", "pub">>}

MkCell(b, p, k, ctx, q) == [kind |-> b[1], d |-> b[2], path |-> p, k |-> k, ctx |-> ctx, x |-> q[1], y |-> q[2], pre |-> q[3], v |-> q[4]]

\* the independent neighbours, as cells judged by the same rule
PreCell(p) == CASE p \in {"s_bad", "s_bad_after"} -> MkCell(<<"const", I32>>, <<>>, 0, "assign", <<"direct", "top", "none", "">>)
                [] p \in {"f_bad", "f_bad_after"} -> MkCell(<<"param", I32>>, <<>>, 0, "assign", <<"direct", "top", "none", "">>)
                [] OTHER -> MkCell(<<"var", I32>>, <<>>, 0, "assign", <<"direct", "top", "none", "">>)

\* contexts are crossed with a reduced set of cells: statement contexts with paths of at most two steps,
\* expression contexts with address-of arguments of a declarable pointer type (not the address of a view)
ContextOK(cl) ==
    LET F == Final(cl.d, cl.path)
        core == StripPtr(F)
        et == ExpectType(F, cl.k)
    IN /\ (cl.ctx \in {"argxp", "argcast"} => cl.x = "direct" /\ cl.v = "")
       /\ (cl.y # "top" => Len(cl.path) <= 2)
       \* (a local variable named like a constant is a shadowing error of its own: no same-name function for constants)
       /\ (cl.pre # "none" => Len(cl.path) <= 1 /\ ~(cl.pre = "f_samename" /\ cl.kind = "const"))
       \* (the renderer has a second, harmless value of the pointer type only up to these depths)
       /\ (cl.x \in {"reseat", "twice_r", "twice_l"} =>
               et \in {Ptr(I32), Ptr(Ptr(I32)), Ptr(St("S")), Ptr(Ptr(St("S"))), Ptr(St("SP")), Ptr(St("SS")), Ptr(A2(I32)), Ptr(Wd)})
       \* extern signatures: pointers and primitive types only (features.md "Interoperability with C")
       /\ (cl.v = "ixptr" => \E j \in 1..Len(cl.path) : cl.path[j] = "i")
       /\ (cl.v # "" => /\ cl.kind = "param" /\ Len(cl.path) <= 1
                        \* (twelfth round, C08k: an array view `[]i32` in an extern signature is an array WITHOUT length; its
                        \* elements are as immutable as those of any other view parameter)
                        /\ (cl.v = "extern" => \/ cl.d \in {I32, Ptr(I32), Ptr(Ptr(I32))}
                                               \/ (cl.d = Slice(I32) /\ cl.path = <<"i">> /\ cl.ctx \in {"assign", "read", "arg"})))
       /\ (cl.x \in SibContexts => /\ cl.ctx = "read" /\ cl.k = 0 /\ Len(cl.path) <= 2
                                     /\ Kind(et) \in {"arr", "struct"} /\ Declarable(et))
       /\ (cl.x \notin SibContexts \cup {"direct"} => /\ cl.ctx = "arg" /\ cl.k >= 1 /\ Len(cl.path) <= 2
                               /\ Kind(et) = "ptr" /\ Declarable(et)
                               /\ Kind(core) \notin {"view", "slice", "sptr"})

(***************************************************************************)
(* One seed state per base; its successors are the cells of that base, so  *)
(* that the workers enumerate, judge and emit different bases in parallel  *)
(* (TLC generates initial states with a single thread).                    *)
(***************************************************************************)
IsSeed == "seed" \in DOMAIN c
Init == c \in {[seed |-> b] : b \in Bases}
Next == /\ IsSeed
        /\ \E p \in PathsFrom(c.seed[2], MaxSteps), k \in 0..3, ctx \in {"assign", "read", "arg", "argmiss", "argxp", "argcast"} :
              /\ CellOK(ctx, c.seed[2], p, k)
              /\ \E q \in Contexts : LET cl == MkCell(c.seed, p, k, ctx, q)
                                     IN ContextOK(cl) /\ c' = cl

\* the algorithm as it is meant (without the three unification quirks) implements the rule ...
Agree == IsSeed \/ MutAgreeOn(c, FALSE)
\* ... the algorithm as it is written does not (expected to be VIOLATED: MC_Mutability_defect.cfg)
AgreeFaithful == IsSeed \/ MutAgreeOn(c, TRUE)

\* pok / pcodes: the verdict of the rule on the NEIGHBOUR of the construct (field pre), judged on its own
Emit == IsSeed \/
        LET v == RVerdict(c)
            a == AVerdict(c, TRUE)
            F == Final(c.d, c.path)
            ai == AVerdict(c, FALSE)
            pv == RVerdict(PreCell(c.pre))
        IN PrintT(<<"CASE", ToJson([c |-> c, ok |-> v.ok, unc |-> v.unc, codes |-> SetToSortSeq(v.codes, <),
                                    pok |-> pv.ok, pcodes |-> SetToSortSeq(pv.codes, <),
                                    iout |-> ai.out, icodes |-> SetToSortSeq(ai.codes, <),
                                    f |-> F, et |-> ExpectType(F, c.k), tt |-> Target(c),
                                    crossed |-> RWalk(c.d, c.path, FALSE).crossed,
                                    agree |-> MutAgreeOn(c, TRUE), mout |-> a.out, mcodes |-> SetToSortSeq(a.codes, <), taken |-> a.taken])>>)
============================================================================

--------------------------- MODULE MC_Mutability ---------------------------
(***************************************************************************)
(* Gen + model checking + case emission for C08 (TLC only): every          *)
(* (base kind x declared shape x well-typed path of at most MaxSteps steps *)
(* x address depth x context) cell is an initial state; invariants Agree   *)
(* (A = R) and Emit (one CASE per cell for the replay on the compiler).    *)
(***************************************************************************)
EXTENDS Mutability, TLC, Json, SequencesExt

CONSTANTS MaxSteps, Thorough

VARIABLE c

I32   == P("i32")
A2(t) == Arr("2", t)
St(n) == <<"struct", n>>
Wd    == <<"word", "W">>

VarShapes   == {I32, A2(I32), St("S"), Wd, Ptr(I32), Ptr(Ptr(I32)), A2(Ptr(I32)), St("SP"), Ptr(St("S")),
                Ptr(A2(I32)), A2(St("S")), St("SS"), Ptr(St("SP"))}
               \cup (IF Thorough THEN {A2(St("SS")), Ptr(Ptr(St("S"))), A2(A2(I32)), Ptr(St("SS")), A2(Wd)} ELSE {})
ParamShapes == {I32, Wd, Slice(I32), View(St("S")), SPtr(I32), Ptr(I32), Ptr(Ptr(I32)), Slice(Ptr(I32)),
                View(St("SP")), Ptr(St("S")), Ptr(A2(I32)), Ptr(St("SP")), View(St("SS")), Slice(St("S")), SPtr(St("S"))}
               \cup (IF Thorough THEN {Slice(St("SS")), Ptr(Ptr(St("S"))), SPtr(Ptr(I32)), Slice(A2(I32)), Ptr(St("SS")), Slice(Wd)} ELSE {})
ConstShapes == {I32, A2(I32), St("S"), Wd, A2(St("S"))}

Bases == {<<"var", t>> : t \in VarShapes} \cup {<<"param", t>> : t \in ParamShapes} \cup {<<"const", t>> : t \in ConstShapes}

\* the steps that can be written after a reference of type t
StepsOf(t) == LET core == FullyDeref(t)
              IN IF Kind(core) \in {"arr", "slice", "sptr"} THEN {"i"} ELSE MemberNames(core)
StepType(t, s) == LET core == FullyDeref(t)
                  IN IF s = "i" THEN ElemOf(core) ELSE Members(core[2])[s]
RECURSIVE PathsFrom(_, _)
PathsFrom(t, n) == {<<>>} \cup (IF n = 0 THEN {}
                               ELSE UNION {{<<s>> \o p : p \in PathsFrom(StepType(t, s), n - 1)} : s \in StepsOf(t)})

Final(d, path) == RWalk(d, path, FALSE).t

CellOK(ctx, d, path, k) ==
    LET F    == Final(d, path)
        n    == PtrDepth(F)
        core == StripPtr(F)
        et   == ExpectType(F, k)
    IN CASE ctx = "assign"  -> k <= n /\ ~(Kind(core) \in {"slice", "view", "sptr"} /\ k = 0) /\ ~(Kind(core) \in {"slice", "view"})
         [] ctx = "read"    -> k <= n + 1 /\ ~(Kind(core) = "sptr" /\ k # 1)
         [] ctx = "arg"     -> k <= n + 1 /\ ~(Kind(core) = "sptr" /\ k # 1)
         [] ctx = "argmiss" -> k <= n /\ Kind(core) \notin {"sptr", "slice", "view"}
         [] ctx = "argxp"   -> /\ Kind(core) \in {"arr", "slice", "sptr"} /\ n = (IF Kind(core) = "sptr" THEN 1 ELSE 0)
                               /\ k <= 1 /\ ~(Kind(core) = "sptr" /\ k # 1)
                               /\ IsPrim(ElemOf(core))

YContexts == {"block", "loop", "then", "else", "elif_then", "elif_else", "elif2", "label"}
\* ... and the places where a CALL with the address-of argument can stand inside a larger expression: the subscript of
\* a read (`ta[f(&b)]`), the subscript of an assignment target, an operand of a binary operator, of a cast, of a
\* comparison, an argument of a builtin.  The rule does not look at where the call stands.
XContexts == {"paren", "elem", "member", "nested", "ret", "cond", "index", "index_set", "binop", "castop", "condcall", "builtin"}
\* Sibling contexts of a whole-aggregate copy (read cells whose value is an array or a struct): the copy
\* stands next to an expression that is evaluated EARLIER in the same statement -- a call with an argument
\* in the index of the assignment target, in an earlier member of a struct literal, in an earlier nested
\* array literal -- or next to the same shapes without a call / with a call without arguments.  The rule
\* ignores what stands next to the copy.
SibContexts == {"sib_idx", "sib_idx0", "sib_zero", "sib_member", "sib_member0", "sib_nested"}
Contexts == {<<"direct", "top">>} \cup {<<"direct", y>> : y \in YContexts} \cup {<<x, "top">> : x \in XContexts}
                \cup {<<"elem", "elif_then">>, <<"member", "elif2">>, <<"nested", "elif_else">>}
                \cup {<<x, "top">> : x \in SibContexts} \cup {<<"sib_idx", "elif_then">>, <<"sib_member", "block">>}

Cells == {[kind |-> b[1], d |-> b[2], path |-> p, k |-> k, ctx |-> ctx, x |-> xy[1], y |-> xy[2]] :
              b \in Bases, p \in UNION {PathsFrom(x[2], MaxSteps) : x \in Bases}, k \in 0..3,
              ctx \in {"assign", "read", "arg", "argmiss", "argxp"}, xy \in Contexts}

\* contexts are crossed with a reduced set of cells: statement contexts with paths of at most two steps,
\* expression contexts with address-of arguments of a declarable pointer type (not the address of a view)
ContextOK(cl) ==
    LET F == Final(cl.d, cl.path)
        core == StripPtr(F)
        et == ExpectType(F, cl.k)
    IN /\ (cl.ctx = "argxp" => cl.x = "direct")
       /\ (cl.y # "top" => Len(cl.path) <= 2)
       /\ (cl.x \in SibContexts => /\ cl.ctx = "read" /\ cl.k = 0 /\ Len(cl.path) <= 2
                                     /\ Kind(et) \in {"arr", "struct"} /\ Declarable(et))
       /\ (cl.x \notin SibContexts \cup {"direct"} => /\ cl.ctx = "arg" /\ cl.k >= 1 /\ Len(cl.path) <= 2
                               /\ Kind(et) = "ptr" /\ Declarable(et)
                               /\ Kind(core) \notin {"view", "slice", "sptr"})

Init == /\ c \in Cells
        /\ c.path \in PathsFrom(c.d, MaxSteps)
        /\ CellOK(c.ctx, c.d, c.path, c.k)
        /\ ContextOK(c)
Next == UNCHANGED c

\* the algorithm as it is meant (without the three unification quirks) implements the rule ...
Agree == MutAgreeOn(c, FALSE)
\* ... the algorithm as it is written does not (expected to be VIOLATED: MC_Mutability_defect.cfg)
AgreeFaithful == MutAgreeOn(c, TRUE)

Emit == LET v == RVerdict(c)
            a == AVerdict(c, TRUE)
            F == Final(c.d, c.path)
            ai == AVerdict(c, FALSE)
        IN PrintT(<<"CASE", ToJson([c |-> c, ok |-> v.ok, unc |-> v.unc, codes |-> SetToSortSeq(v.codes, <),
                                    iout |-> ai.out, icodes |-> SetToSortSeq(ai.codes, <),
                                    f |-> F, et |-> ExpectType(F, c.k), tt |-> Target(c),
                                    crossed |-> RWalk(c.d, c.path, FALSE).crossed,
                                    agree |-> MutAgreeOn(c, TRUE), mout |-> a.out, mcodes |-> SetToSortSeq(a.codes, <), taken |-> a.taken])>>)
============================================================================

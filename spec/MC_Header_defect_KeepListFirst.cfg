SPECIFICATION Spec
CONSTANTS
  MaxDecls = 2
  Names <- MCNames
  Shapes <- RichShapes
  SkipOffByOne = FALSE
  KeepListFirst = TRUE
  KeepPublicFlag = FALSE
  NoBodyZone = FALSE
INVARIANTS Incremental ParseFaithful ZonesOK ZoneCoverage HeaderIsRule RefsIntact NothingPrivate Conservation
CHECK_DEADLOCK FALSE

SPECIFICATION Spec
CONSTANTS
  Types = {"i8", "i16", "i32", "i64", "u8", "u16", "u32", "u64", "usize"}
  Dirs = {"p2c", "c2p", "p2p", "plain"}
  Families = {"scalar", "view", "viewlit", "mut", "mix", "cb", "sig", "len"}
  MaxMix = 8
  MoreValues = FALSE
  ZeroLen = TRUE
  Fuel = 20000
INVARIANTS Sane Agree NonVacuous EmitCase EmitLib
CHECK_DEADLOCK FALSE

SPECIFICATION Spec
CONSTANTS
  MinN = 1
  MaxN = 3
  Kinds = {"c", "s", "f"}
  AllowSelf = TRUE
  AllowPtr = TRUE
  AllowConstPtr = FALSE
  AllPerms = TRUE
  ChainMode = FALSE
  Stepwise = FALSE
INVARIANTS VerifySound
CHECK_DEADLOCK FALSE

SPECIFICATION Spec
CONSTANTS
  MaxLen = 8
  MinFns = 1
  MaxFns = 1
  Phased = FALSE
  NeedResult = FALSE
  MaxDepth = 1
  VNames = {"a"}
  LNames = {"y", "z"}
  BodyKinds = {"O", "C", "V", "U", "L", "G"}
  Configs <- NoConfig
CONSTRAINT DeadShape
INVARIANTS AgreeScoper Sound EmitCase
CHECK_DEADLOCK FALSE

SPECIFICATION Spec
CONSTANTS
  MaxLen = 7
  MaxDepth = 3
  Names = {"a", "b"}
INVARIANTS StackOK Agree ForwardOutward EmitCase
CHECK_DEADLOCK FALSE

------------------------------- MODULE Fuzzer -------------------------------
(***************************************************************************)
(* C19 -- the emission automaton of `fill_to_capacity_with_tokens`         *)
(* (src/delta/fuzzer.rs), model A, checked against the reference lexer     *)
(* PenneLex (rule R: the text consists solely of valid lexemes).           *)
(*                                                                         *)
(* One iteration of the generator's loop: line breaks ("\n" or "\r\n"),    *)
(* comments ("//" + arbitrary characters except "\n" + "\n", optionally    *)
(* preceded by "\n"), add_whitespace (indentation after a line break,      *)
(* otherwise at most one space), then one token: word-like tokens call     *)
(* add_space_if_necessary (a space if the last byte written is an          *)
(* identifier continuation), everything else is appended directly.         *)
(*                                                                         *)
(* Lexing is local to a line and an error can only arise inside one        *)
(* emission or where two emissions touch, so the state keeps `cur`: the    *)
(* last emission on the current line plus the separators written after it. *)
(* `chk` is the text the last step produced; the invariant demands that    *)
(* both generations lex it without a single lexical error and that it is   *)
(* valid UTF-8.  Emissions are concrete representative spellings of every  *)
(* spelling class the generator has (table generated from the code).       *)
(***************************************************************************)
EXTENDS PenneLex, PenneLexSpellings, Json

CONSTANT Core        \* TRUE: the core subset of the spelling table (quick tier)


Em == IF Core THEN SelectSeq(Emissions, LAMBDA e : e.core) ELSE Emissions

VARIABLES cur, chk, how
vars == <<cur, chk, how>>

LastByte(t) == IF t = <<>> THEN 0 ELSE t[Len(t)]
Rep(b, n) == [i \in 1..n |-> b]

\* add_whitespace: after a line break 0..3 tabs or 0, 4, 8, 12 spaces; otherwise nothing or one space; nothing in an empty buffer
Whitespace(t) == IF t = <<>> THEN {<<>>}
                 ELSE IF LastByte(t) = 10 THEN {Rep(9, n) : n \in 0..3} \cup {Rep(32, 4 * n) : n \in 0..3}
                 ELSE {<<>>, <<32>>}
\* add_space_if_necessary
Space(t) == IF t # <<>> /\ IsIdCont(LastByte(t)) THEN <<32>> ELSE <<>>

Init == cur = <<>> /\ chk = <<>> /\ how = "init"

LineBreak == \E crlf \in BOOLEAN :
    /\ cur # <<>>                                    \* next_newline_at >= 10: never at the very start
    /\ chk' = cur \o (IF crlf THEN <<13, 10>> ELSE <<10>>)
    /\ cur' = <<10>> /\ how' = "linebreak"
Comment == \E pre \in BOOLEAN, i \in 1..Len(CommentBodies) :
    /\ cur # <<>>
    /\ chk' = cur \o (IF pre THEN <<10>> ELSE <<>>) \o <<47, 47>> \o CommentBodies[i] \o <<10>>
    /\ cur' = <<10>> /\ how' = "comment"
Token == \E i \in 1..Len(Em) : \E ws \in Whitespace(cur) :
    LET e == Em[i]
        t1 == cur \o ws
        t2 == IF e.word THEN t1 \o Space(t1) ELSE t1
    IN /\ chk' = t2 \o e.text
       /\ cur' = e.text /\ how' = e.kind
Next == LineBreak \/ Comment \/ Token
Spec == Init /\ [][Next]_vars

NoLexicalError(g, t) == LET items == Lex(g, t) IN \A k \in 1..Len(items) : items[k].code = 0
\* R: everything the generator can write is valid UTF-8 and consists solely of valid lexemes, for both lexers
OnlyValidLexemes == chk # <<>> => /\ Utf8Valid(chk)
                                  /\ NoLexicalError("delta", chk)
                                  /\ NoLexicalError("alpha", chk)
\* the requested size: the loop ends when 100 * len >= 95 * capacity and `penne fuzz` asks for kb * 1096 bytes
\* (dimension audit: also the sizes beyond 64 KB that the check requests; 95 * 2048 * 1096 still fits TLC's integers)
SizeArithmetic == \A kb \in (1..64) \cup {65, 100, 128, 130, 200, 256, 300, 512, 1024, 2048} : \A len \in {(95 * kb * 1096) \div 100, (95 * kb * 1096) \div 100 + 1} :
                      (100 * len >= 95 * kb * 1096) => len >= 1024 * kb

(* ---- which (kind, gap, kind) adjacencies can the generator produce?  (binding of A to the code: the ----
   ---- same triples are extracted from real fuzzer output; one that the model cannot produce is MODEL-DRIFT) *)
Gap(t, a, b) == LET g == SubSeq(t, a + 1, b) IN
                IF g = <<>> THEN "none" ELSE IF \E k \in 1..Len(g) : g[k] = 10 THEN "line" ELSE "blank"
Adjacencies == LET items == SelectSeq(Lex("delta", chk), LAMBDA it : it.k # "EndOfSource")
               IN {<<items[k].k, Gap(chk, items[k].be, items[k + 1].bs), items[k + 1].k>> : k \in 1..(Len(items) - 1)}
EmitAdj == PrintT(<<"ADJ", ToJson(Adjacencies)>>)
=============================================================================

SPECIFICATION ESpec
CHECK_DEADLOCK FALSE

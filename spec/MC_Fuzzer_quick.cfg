SPECIFICATION Spec
CONSTANTS
  Core = TRUE
INVARIANTS OnlyValidLexemes SizeArithmetic EmitAdj
CHECK_DEADLOCK FALSE

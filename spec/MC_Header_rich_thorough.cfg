SPECIFICATION Spec
CONSTANTS
  MaxDecls = 2
  Names <- MCNames
  Shapes <- RichShapes
  SkipOffByOne = FALSE
  KeepListFirst = FALSE
  KeepPublicFlag = FALSE
  NoBodyZone = FALSE
INVARIANTS Incremental ParseFaithful ZonesOK ZoneCoverage HeaderIsRule RefsIntact NothingPrivate Conservation EmitCase
CHECK_DEADLOCK FALSE

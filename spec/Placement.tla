----------------------------- MODULE Placement -----------------------------
(***************************************************************************)
(* C06 -- loop and if-branches only appear where the language allows them. *)
(*                                                                         *)
(* A function body is a sequence of tokens [k, p] (p = source position of  *)
(* the token, used for reporting), written in statement-prefix form:       *)
(*    stmt ::= S | G | LP | L | V | O stmt* C | I stmt [E stmt]            *)
(*   S assignment   G goto   LP loop   L label   V declaration             *)
(*   O {   C }      I `if c` (the then-branch follows)   E `else`          *)
(* A dangling E binds to the nearest I, as in the parser.                  *)
(*                                                                         *)
(*   Gen  grows every well-formed token sequence (grammar stack in `ctx`). *)
(*   R    the rule of the property, by structural recursion.               *)
(*   A    src/alpha/analyzer/syntax.rs (flags is_naked_then_branch,        *)
(*        is_naked_else_branch, is_in_block) and the L1800 part of         *)
(*        src/alpha/linter.rs (is_naked_branch,                            *)
(*        is_first_statement_of_branch), threaded exactly as the code      *)
(*        threads them; A also yields the sequence of visits, which the    *)
(*        trace specification matches against the `visit` hook events.     *)
(***************************************************************************)
EXTENDS Naturals, Integers, Sequences, FiniteSets, TLC

CONSTANTS MaxLen, MaxDepth, TokenKinds,
          MinFns, MaxFns,   \* number of function bodies of a module: a token F ends one body and starts the next
          ElseFlagCleared   \* TRUE: Statement::If clears is_naked_else_branch before its then-branch (the repaired code)

\* (M: a call statement `h();`, V: a declaration -- every kind of statement in every context;
\*  MX, MY, SX: statements that ALSO carry an error of a later analysis -- a call with an excess argument (E511), a call
\*  whose argument lacks an address-of (E513/E512), an assignment to a constant (E530).  The rule treats them as plain
\*  statements: a misplaced one still gets its E840 whatever else is wrong with it, seeded change C06g)
Simple == {"S", "G", "LP", "L", "V", "M", "MX", "MY", "SX"}

(***************************************************************************)
(* Structure.                                                              *)
(***************************************************************************)
RECURSIVE CloseFrom(_, _, _)
CloseFrom(t, i, d) ==
    IF t[i].k = "C" THEN (IF d = 0 THEN i ELSE CloseFrom(t, i + 1, d - 1))
    ELSE IF t[i].k = "O" THEN CloseFrom(t, i + 1, d + 1)
    ELSE CloseFrom(t, i + 1, d)
CloseOf(t, o) == CloseFrom(t, o + 1, 0)
RECURSIVE StmtEnd(_, _)
StmtEnd(t, p) ==
    CASE t[p].k = "O" -> CloseOf(t, p)
      [] t[p].k = "I" -> LET e == StmtEnd(t, p + 1)
                         IN IF e + 1 <= Len(t) /\ t[e + 1].k = "E" THEN StmtEnd(t, e + 2) ELSE e
      [] OTHER -> p
HasElse(t, p) == LET e == StmtEnd(t, p + 1) IN e + 1 <= Len(t) /\ t[e + 1].k = "E"
ElseStart(t, p) == StmtEnd(t, p + 1) + 2
RECURSIVE Starts(_, _, _)
Starts(t, lo, hi) == IF lo > hi THEN <<>> ELSE <<lo>> \o Starts(t, StmtEnd(t, lo) + 1, hi)

(***************************************************************************)
(* R -- the rule.  ctx is the syntactic position of the statement:         *)
(* "body" directly in the function body, "mid"/"last" in a braced block,   *)
(* "then"/"else" a branch of an if.  A statement rejected with E840 is     *)
(* not examined further (cascade suppression, DESIGN.md section 3).        *)
(***************************************************************************)
BranchOK(k, ctx) == k \in {"G", "O"} \/ (ctx = "else" /\ k = "I")
RECURSIVE RuleStmt(_, _, _), RuleSeq(_, _, _, _)
RuleStmt(t, p, ctx) ==
    IF ctx \in {"then", "else"} /\ ~BranchOK(t[p].k, ctx) THEN {<<t[p].p, 840>>}
    ELSE CASE t[p].k = "LP" -> (IF ctx = "mid" THEN {<<t[p].p, 800>>}
                                ELSE IF ctx = "body" THEN {<<t[p].p, 801>>} ELSE {})
           [] t[p].k = "O" -> RuleSeq(t, Starts(t, p + 1, CloseOf(t, p) - 1), 1, FALSE)
           [] t[p].k = "I" -> RuleStmt(t, p + 1, "then")
                                \cup (IF HasElse(t, p) THEN RuleStmt(t, ElseStart(t, p), "else") ELSE {})
           [] OTHER -> {}
\* statements of a block (isBody = FALSE) or of the function body (isBody = TRUE)
RuleSeq(t, starts, x, isBody) ==
    IF x > Len(starts) THEN {}
    ELSE RuleStmt(t, starts[x], IF isBody THEN "body" ELSE IF x = Len(starts) THEN "last" ELSE "mid")
           \cup RuleSeq(t, starts, x + 1, isBody)
RuleErrors1(t) == RuleSeq(t, Starts(t, 1, Len(t)), 1, TRUE)

\* the statements the analysis has to look at: all but those inside a statement rejected with E840
RECURSIVE SeenStmt(_, _, _), SeenSeq(_, _, _)
SeenStmt(t, p, ctx) ==
    {<<t[p].p, t[p].k>>} \cup
    (IF ctx \in {"then", "else"} /\ ~BranchOK(t[p].k, ctx) THEN {}
     ELSE CASE t[p].k = "O" -> SeenSeq(t, Starts(t, p + 1, CloseOf(t, p) - 1), 1)
            [] t[p].k = "I" -> SeenStmt(t, p + 1, "then")
                                 \cup (IF HasElse(t, p) THEN SeenStmt(t, ElseStart(t, p), "else") ELSE {})
            [] OTHER -> {})
SeenSeq(t, starts, x) == IF x > Len(starts) THEN {} ELSE SeenStmt(t, starts[x], "any") \cup SeenSeq(t, starts, x + 1)
RuleSeen1(t) == SeenSeq(t, Starts(t, 1, Len(t)), 1)

\* L1800: the first statement of a braced branch is `loop`
RECURSIVE LintStmt(_, _, _), LintSeq(_, _, _)
LintStmt(t, p, isBranch) ==
    CASE t[p].k = "O" ->
           LET ss == Starts(t, p + 1, CloseOf(t, p) - 1)
           IN (IF isBranch /\ Len(ss) > 0 /\ t[ss[1]].k = "LP" THEN {t[ss[1]].p} ELSE {}) \cup LintSeq(t, ss, 1)
      [] t[p].k = "I" -> LintStmt(t, p + 1, TRUE)
                           \cup (IF HasElse(t, p) THEN LintStmt(t, ElseStart(t, p), TRUE) ELSE {})
      [] OTHER -> {}
LintSeq(t, starts, x) == IF x > Len(starts) THEN {} ELSE LintStmt(t, starts[x], FALSE) \cup LintSeq(t, starts, x + 1)
RuleLints1(t) == LintSeq(t, Starts(t, 1, Len(t)), 1)

(***************************************************************************)
(* Modules with several functions.  A token F (one source line:            *)
(* `} fn g<k>() { var x: i32 = 0;`) ends a function body and starts the    *)
(* next.  The rule speaks about one body: it is applied to every segment   *)
(* (the tokens keep their positions p, so the verdicts need no lifting).   *)
(***************************************************************************)
FPos(t) == {0} \cup { i \in 1..Len(t) : t[i].k = "F" }
FEndT(t, f) == LET later == { g \in FPos(t) : g > f }
               IN IF later = {} THEN Len(t) + 1 ELSE CHOOSE g \in later : \A h \in later : g <= h
SegT(t, f) == SubSeq(t, f + 1, FEndT(t, f) - 1)
RuleErrors(t) == UNION { RuleErrors1(SegT(t, f)) : f \in FPos(t) }
RuleSeen(t) == UNION { RuleSeen1(SegT(t, f)) : f \in FPos(t) }
RuleLints(t) == UNION { RuleLints1(SegT(t, f)) : f \in FPos(t) }

(***************************************************************************)
(* A -- analyzer/syntax.rs.  f = [nt, ne, ib]; the result carries the      *)
(* flags after the visit, the errors and the visits in order.              *)
(***************************************************************************)
F0 == [nt |-> FALSE, ne |-> FALSE, ib |-> FALSE]
Visit(t, p, f) == [p |-> t[p].p, k |-> t[p].k, nt |-> f.nt, ne |-> f.ne, ib |-> f.ib]
Res(f, errs, vis) == [f |-> f, errs |-> errs, vis |-> vis]

RECURSIVE AStmt(_, _, _), ABlock(_, _, _, _)
AStmt(t, p, f) ==
    LET k == t[p].k
        v == <<Visit(t, p, f)>>
    IN IF (f.nt \/ f.ne) /\ ~(k \in {"G", "O"} \/ (k = "I" /\ f.ne))
       THEN Res(f, {<<t[p].p, 840>>}, v)
       ELSE CASE k = "LP" -> Res(f, IF f.ib THEN {} ELSE {<<t[p].p, 801>>}, v)
              [] k = "I" ->
                   LET f1 == [f EXCEPT !.ib = FALSE, !.nt = TRUE, !.ne = IF ElseFlagCleared THEN FALSE ELSE @]
                       r1 == AStmt(t, p + 1, f1)
                       f2 == [r1.f EXCEPT !.nt = FALSE]
                   IN IF HasElse(t, p)
                      THEN LET r2 == AStmt(t, ElseStart(t, p), [f2 EXCEPT !.ne = TRUE])
                           IN Res([r2.f EXCEPT !.ne = FALSE], r1.errs \cup r2.errs, v \o r1.vis \o r2.vis)
                      ELSE Res(f2, r1.errs, v \o r1.vis)
              [] k = "O" ->
                   LET r == ABlock(t, Starts(t, p + 1, CloseOf(t, p) - 1), 1, [f EXCEPT !.nt = FALSE, !.ne = FALSE])
                   IN Res(r.f, r.errs, v \o r.vis)
              [] OTHER -> Res(f, {}, v)
\* Block::analyze: is_in_block is set before every statement and cleared after the last one;
\* a `loop` that survives as a non-final statement becomes E800
ABlock(t, starts, x, f) ==
    IF x > Len(starts) THEN Res(f, {}, <<>>)
    ELSE LET p == starts[x]
             r == AStmt(t, p, [f EXCEPT !.ib = TRUE])
         IN IF x = Len(starts)
            THEN Res([r.f EXCEPT !.ib = FALSE], r.errs, r.vis)
            ELSE LET e800 == IF t[p].k = "LP" /\ r.errs = {} THEN {<<t[p].p, 800>>} ELSE {}
                     rest == ABlock(t, starts, x + 1, r.f)
                 IN Res(rest.f, r.errs \cup e800 \cup rest.errs, r.vis \o rest.vis)
RECURSIVE ABodySeq(_, _, _, _)
ABodySeq(t, starts, x, f) ==
    IF x > Len(starts) THEN Res(f, {}, <<>>)
    ELSE LET r == AStmt(t, starts[x], f)
             rest == ABodySeq(t, starts, x + 1, r.f)
         IN Res(rest.f, r.errs \cup rest.errs, r.vis \o rest.vis)
\* FunctionBody::analyze
Alg1(t) == ABodySeq(t, Starts(t, 1, Len(t)), 1, [F0 EXCEPT !.ib = FALSE])
\* analyzer::analyze makes a fresh Analyzer for every declaration
RECURSIVE AlgFrom(_, _)
AlgFrom(t, f) == LET r == Alg1(SegT(t, f))
                 IN IF FEndT(t, f) > Len(t) THEN r
                    ELSE LET rest == AlgFrom(t, FEndT(t, f))
                         IN Res(rest.f, r.errs \cup rest.errs, r.vis \o rest.vis)
Alg(t) == AlgFrom(t, 0)

(***************************************************************************)
(* A (linter.rs, L1800 only).  g = [nb, first].                            *)
(***************************************************************************)
G0 == [nb |-> FALSE, first |-> FALSE]
RECURSIVE LStmt(_, _, _), LBlockRest(_, _, _, _)
LRes(g, lints) == [g |-> g, lints |-> lints]
LStmt(t, p, g) ==
    CASE t[p].k = "LP" -> IF g.first THEN LRes([g EXCEPT !.first = FALSE], {t[p].p}) ELSE LRes(g, {})
      [] t[p].k = "I" ->
           LET r1 == LStmt(t, p + 1, [g EXCEPT !.first = FALSE, !.nb = TRUE])
           IN IF HasElse(t, p)
              THEN LET r2 == LStmt(t, ElseStart(t, p), [r1.g EXCEPT !.nb = TRUE])
                   IN LRes([r2.g EXCEPT !.nb = FALSE], r1.lints \cup r2.lints)
              ELSE LRes([r1.g EXCEPT !.nb = FALSE], r1.lints)
      [] t[p].k = "O" ->
           LET ss == Starts(t, p + 1, CloseOf(t, p) - 1)
           IN IF Len(ss) = 0 THEN LRes(g, {})
              ELSE LET r1 == LStmt(t, ss[1], [g EXCEPT !.first = g.nb, !.nb = FALSE])
                       rest == LBlockRest(t, ss, 2, [r1.g EXCEPT !.first = FALSE])
                   IN LRes(rest.g, r1.lints \cup rest.lints)
      [] OTHER -> LRes(g, {})
LBlockRest(t, ss, x, g) ==
    IF x > Len(ss) THEN LRes(g, {})
    ELSE LET r == LStmt(t, ss[x], g)
             rest == LBlockRest(t, ss, x + 1, r.g)
         IN LRes(rest.g, r.lints \cup rest.lints)
\* the Linter lives as long as the Compiler: its two flags are threaded from one function into the next
RECURSIVE LFrom(_, _, _)
LFrom(t, f, g) == LET seg == SegT(t, f)
                      r == LBlockRest(seg, Starts(seg, 1, Len(seg)), 1, g)
                  IN IF FEndT(t, f) > Len(t) THEN r
                     ELSE LET rest == LFrom(t, FEndT(t, f), r.g)
                          IN LRes(rest.g, r.lints \cup rest.lints)
AlgLints(t) == LFrom(t, 0, G0).lints

(***************************************************************************)
(* Gen.  ctx is the grammar stack: "F" function body, "B" block, "T" a     *)
(* then-branch is due, "Q" an else may follow, "X" an else-branch is due.  *)
(***************************************************************************)
RECURSIVE Complete(_)
\* a statement has just been completed under stack s
Complete(s) == LET top == s[Len(s)]
               IN CASE top = "T" -> SubSeq(s, 1, Len(s) - 1) \o <<"Q">>
                    [] top = "X" -> Complete(SubSeq(s, 1, Len(s) - 1))
                    [] OTHER -> s
RECURSIVE Settle(_)
\* the next token is not an `else`: pending optional elses are closed
Settle(s) == IF s[Len(s)] = "Q" THEN Settle(Complete(SubSeq(s, 1, Len(s) - 1))) ELSE s

VARIABLES toks, ctx, done
vars == <<toks, ctx, done>>

Tok(k) == [k |-> k, p |-> Len(toks) + 1]
Init == toks = <<>> /\ ctx = <<"F">> /\ done = FALSE
Add(k) ==
    /\ ~done /\ Len(toks) < MaxLen /\ k \in TokenKinds
    /\ IF k = "E"
       THEN ctx[Len(ctx)] = "Q" /\ ctx' = SubSeq(ctx, 1, Len(ctx) - 1) \o <<"X">>
       ELSE LET s == Settle(ctx) IN
            CASE k \in Simple -> ctx' = Complete(s)
              [] k = "O" -> Len(s) < MaxDepth /\ ctx' = s \o <<"B">>
              [] k = "I" -> Len(s) < MaxDepth /\ ctx' = s \o <<"T">>
              [] k = "C" -> s[Len(s)] = "B" /\ ctx' = Complete(SubSeq(s, 1, Len(s) - 1))
              [] k = "F" -> s = <<"F">> /\ Cardinality(FPos(toks)) < MaxFns /\ ctx' = <<"F">>
    /\ toks' = Append(toks, Tok(k))
    /\ UNCHANGED done
Finish == /\ ~done /\ Settle(ctx) = <<"F">> /\ Cardinality(FPos(toks)) >= MinFns
          /\ done' = TRUE /\ UNCHANGED <<toks, ctx>>
Next == (\E k \in TokenKinds : Add(k)) \/ Finish
Spec == Init /\ [][Next]_vars

(***************************************************************************)
(* Invariants: A |= R.                                                     *)
(***************************************************************************)
Agree == done => /\ Alg(toks).errs = RuleErrors(toks)
                 /\ LET v == Alg(toks).vis IN { <<v[i].p, v[i].k>> : i \in 1..Len(v) } = RuleSeen(toks)
AgreeLints == (done /\ RuleErrors(toks) = {}) => AlgLints(toks) = RuleLints(toks)
=============================================================================

-------------------------- MODULE Trace_Diagnostics --------------------------
(***************************************************************************)
(* Trace validation for C13 (impl -> spec): for every failing (or linted)  *)
(* run of the worker, the input description, one `diag` event per          *)
(* diagnostic with all Location fields and the four rendering results,     *)
(* and a closing `diags-end`.  TLC evaluates Diagnostics.tla on each.      *)
(* A rejected run is printed and validation resumes at the next input.     *)
(***************************************************************************)
EXTENDS Diagnostics, Json, IOUtils, TLC, TLCExt

Rec == ndJsonDeserialize(IOEnv.TRACE)

VARIABLES l, cur, seen, done
tvars == <<l, cur, seen, done>>

Idle == [idle |-> TRUE]
TInit == l = 1 /\ cur = Idle /\ seen = <<>> /\ done = FALSE
Ev(e) == l <= Len(Rec) /\ Rec[l].ev = e
Active == "id" \in DOMAIN cur

TInput == /\ Ev("diags-input") /\ ~Active
          /\ cur' = Rec[l] /\ seen' = <<>> /\ l' = l + 1 /\ UNCHANGED done
Note(what) == PrintT(<<"NOTE", ToJson([id |-> cur.id, what |-> what, code |-> Rec[l].code, line |-> Rec[l].line])>>)
TDiag == /\ Ev("diag") /\ Active
         \* a code of the table the catalogue check (CatalogueHolds: Producible \subseteq Documented) covers
         /\ Rec[l].code \in Producible
         /\ WellLocated(Rec[l], cur.mods)
         /\ Renders(Rec[l])
         /\ IF ColOK(Rec[l], cur.mods) THEN TRUE ELSE Note("col")
         /\ IF RenderClean(Rec[l]) THEN TRUE ELSE Note("render-not-clean")
         /\ seen' = Append(seen, [code |-> Rec[l].code, start |-> Rec[l].start, end |-> Rec[l].end, line |-> Rec[l].line, file |-> Rec[l].file])
         /\ l' = l + 1 /\ UNCHANGED <<cur, done>>
TEndRun == /\ Ev("diags-end") /\ Active
           \* (compared with TRUE so that TLC EVALUATES the quantifiers: as conjuncts of an action every witness of every \E
           \* is a successor of its own -- ten expected places with ten candidates each were 10^10 successor states)
           /\ ("fault" \in DOMAIN cur) => (Covers(seen, cur.fault) = TRUE)
           /\ ("fault" \in DOMAIN cur /\ "parts" \in DOMAIN cur.fault) => (CoversParts(seen, cur.fault) = TRUE)
           /\ ("faults" \in DOMAIN cur) => ((\A x \in 1..Len(cur.faults) : CoversAt(seen, cur.faults[x])) = TRUE)
           /\ cur' = Idle /\ seen' = <<>> /\ l' = l + 1 /\ UNCHANGED done
TNormal == TInput \/ TDiag \/ TEndRun

RECURSIVE NextInput(_)
NextInput(x) == IF x > Len(Rec) THEN x ELSE IF Rec[x].ev = "diags-input" THEN x ELSE NextInput(x + 1)
Why == IF ~Ev("diag") THEN (IF Ev("diags-end") THEN (IF "faults" \in DOMAIN cur THEN "variant-not-covered" ELSE "fault-not-covered") ELSE "malformed")
       ELSE IF Rec[l].code \notin Producible THEN "code-unknown"
       ELSE IF FileOf(cur.mods, Rec[l].file) = {} THEN "file-unknown"
       ELSE IF ~\A i \in FileOf(cur.mods, Rec[l].file) : InsideFile(Rec[l], cur.mods[i]) THEN "span-outside-file"
       ELSE IF ~WellLocated(Rec[l], cur.mods) THEN "span-not-on-reported-line"
       ELSE IF ~Renders(Rec[l]) THEN "render-failed"
       ELSE "other"
TReject == /\ ~done /\ ~ENABLED TNormal /\ (l <= Len(Rec) \/ Active)
           /\ PrintT(<<"REJECT", ToJson([line |-> l, id |-> (IF Active THEN cur.id ELSE "?"),
                                         ev |-> (IF l <= Len(Rec) THEN Rec[l].ev ELSE "end-of-trace"),
                                         why |-> (IF l <= Len(Rec) /\ Active THEN Why ELSE "malformed"),
                                         code |-> (IF Ev("diag") THEN Rec[l].code ELSE 0),
                                         after |-> <<"diag", Len(seen)>>])>>)
           /\ l' = NextInput(l + 1) /\ cur' = Idle /\ seen' = <<>> /\ UNCHANGED done
TEnd == /\ ~done /\ l > Len(Rec) /\ ~Active
        /\ PrintT(<<"TRACE", ToJson([accepted |-> TRUE, matched |-> Len(Rec), total |-> Len(Rec)])>>)
        /\ done' = TRUE /\ UNCHANGED <<l, cur, seen>>
TNext == (TNormal /\ UNCHANGED done) \/ TReject \/ TEnd
TSpec == TInit /\ [][TNext]_tvars

\* the catalogue cross-check itself: one line per undocumented code
CatalogueReport == (l = 1) => PrintT(<<"CASE", ToJson([undocumented |-> Undocumented, documented |-> Cardinality(Documented),
                                            producible |-> Cardinality(Producible)])>>)
\* state-level wrapper of Diagnostics!CatalogueOK (TLC refuses constant-level invariants)
CatalogueHolds == (l >= 1) => CatalogueOK
=============================================================================

-------------------------- MODULE Trace_TypeRules --------------------------
(***************************************************************************)
(* Trace validation for C07 (impl -> spec).  The harness compiles larger   *)
(* generated well-typed programs, the valid corpus and single-edit mutants *)
(* with the real front end and records                                     *)
(*   prog  one per program: kind gen|corpus, accepted or not;              *)
(*   fact  one per typed node of the RESOLVED tree of an accepted program  *)
(*         (operand types a, b and result type r as recorded in the tree); *)
(*   mut   one per mutant: the edited construct as a cell of TypeRules and *)
(*         the codes reported on its line.                                 *)
(* Every line must satisfy the judgement of TypeRules.tla:                 *)
(*   - a generated well-typed program is accepted;                         *)
(*   - no accepted program contains an ill-typed node;                     *)
(*   - every mutant is rejected with a code the rule names.                *)
(* A line that does not satisfy it is printed as <<"BAD", line>> and       *)
(* counted (TLC register 1), and the validation continues, so that one     *)
(* run classifies the whole recording.  Acceptance is by POSTCONDITION:    *)
(* all lines consumed and none of them bad.                                *)
(***************************************************************************)
EXTENDS TypeRules, TLC, TLCExt, Json, IOUtils

Rec == ndJsonDeserialize(IOEnv.TRACE)

VARIABLE l

SeqSet(s) == {s[i] : i \in 1..Len(s)}
Endless(t) == <<"endless">> \o t

\* equality up to the alias char8 / u8 of element types (undocumented, see UNCONSTRAINED-types.md)
AliasEq(x, y) == Len(x) = Len(y) /\ \A i \in 1..Len(x) : x[i] = y[i] \/ {x[i], y[i]} = {"char8", "u8"}

\* the documented coercions of arguments (features.md "Views", "Reference pointers",
\* "Interoperability with C": array views in extern functions are pointers without a length)
CoerceOK(a, b) ==
    \/ \E b2 \in {b} : Coerces(a, b2)
    \/ (Kind(a) = "arr" /\ AliasEq(b, Slice(Elem(a))))
    \/ (Kind(a) = "arr" /\ AliasEq(b, View(Endless(Elem(a)))))
    \/ (Kind(a) = "slice" /\ AliasEq(b, View(Endless(Rest(a)))))
    \/ (Kind(a) = "sptr" /\ AliasEq(b, Ptr(Endless(Rest(a)))))
    \/ (Kind(a) = "ptr" /\ Kind(Rest(a)) = "arr" /\ AliasEq(b, SPtr(Elem(Rest(a)))))
    \/ (Kind(a) = "ptr" /\ Kind(Rest(a)) = "arr" /\ AliasEq(b, Ptr(Endless(Elem(Rest(a))))))

SameType == {"assign", "init", "const", "arg", "argn", "ret", "elem", "member", "index", "deref", "castoperand", "callret"}

FactOK(r) ==
    CASE r.ctx = "bin"  -> IF r.op = "adv" THEN TRUE
                           ELSE r.a = r.b /\ OpClass(r.op, r.a) # "no" /\ r.r = r.a
      [] r.ctx = "un"   -> OpClass(r.op, r.a) # "no" /\ r.r = r.a
      [] r.ctx = "cmp"  -> r.a = r.b /\ OpClass(r.op, r.a) # "no" /\ r.r = r.a
      [] r.ctx = "as"   -> CastOK(r.a, r.b).ok
      [] r.ctx = "cast" -> BitCastOK(r.a, r.b).ok
      [] r.ctx = "coerce" -> CoerceOK(r.a, r.b)
      [] r.ctx \in SameType -> r.a = r.b
      [] OTHER -> FALSE

ProgOK(r) == (r.kind = "gen") => (r.ok /\ "panic" \notin DOMAIN r)

MutOK(r) == LET v == Verdict(r.c)
            IN /\ "panic" \notin DOMAIN r
               /\ "silent" \notin DOMAIN r
               /\ \/ v.unc
                  \/ (v.ok /\ r.ok)
                  \/ (~v.ok /\ ~r.ok /\ SeqSet(r.codes) \cap v.codes # {})

LineOK(r) == CASE r.ev = "prog" -> ProgOK(r)
               [] r.ev = "fact" -> FactOK(r)
               [] r.ev = "mut"  -> MutOK(r)
               [] r.ev = "note" -> TRUE
               [] OTHER -> FALSE

TInit == l = 1 /\ TLCSet(1, 0)
TNext == /\ l <= Len(Rec)
         /\ IF LineOK(Rec[l]) THEN TRUE ELSE (PrintT(<<"BAD", l>>) /\ TLCSet(1, TLCGet(1) + 1))
         /\ l' = l + 1
TSpec == TInit /\ [][TNext]_l

Accepted == LET d == TLCGet("stats").diameter - 1
            IN PrintT(<<"TRACE", ToJson([accepted |-> (d = Len(Rec) /\ TLCGet(1) = 0), matched |-> d,
                                         total |-> Len(Rec), bad |-> TLCGet(1)])>>)
=============================================================================

SPECIFICATION Spec
CONSTANTS
  MaxLen = 5
  NeedResult = FALSE
  MinFns = 2
  MaxFns = 2
  MaxDepth = 2
  Names = {"a", "b"}
INVARIANTS StackOK Agree ForwardOutward EmitCase
CHECK_DEADLOCK FALSE

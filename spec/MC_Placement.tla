---------------------------- MODULE MC_Placement ----------------------------
EXTENDS Placement, Json, TLCExt, SequencesExt
PairSeq(S) == SetToSeq(S)
Str(t) == [i \in 1..Len(t) |-> t[i].k]
EmitCase == done =>
    PrintT(<<"CASE", ToJson([b |-> Str(toks),
                             errs |-> PairSeq(RuleErrors(toks)),
                             lints |-> SetToSeq(RuleLints(toks)),
                             ok |-> (RuleErrors(toks) = {}),
                             merrs |-> PairSeq(Alg(toks).errs)])>>)
=============================================================================

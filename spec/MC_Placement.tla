---------------------------- MODULE MC_Placement ----------------------------
EXTENDS Placement, Json, TLCExt, SequencesExt
PairSeq(S) == SetToSeq(S)
Str(t) == [i \in 1..Len(t) |-> t[i].k]
\* state constraint of the `ifelse` configurations: bodies that begin with an if statement (longer bodies, fewer of them)
IfFirst == Len(toks) = 0 \/ toks[1].k = "I"
EmitCase == done =>
    PrintT(<<"CASE", ToJson([b |-> Str(toks),
                             errs |-> PairSeq(RuleErrors(toks)),
                             lints |-> SetToSeq(RuleLints(toks)),
                             ok |-> (RuleErrors(toks) = {}),
                             merrs |-> PairSeq(Alg(toks).errs)])>>)
=============================================================================

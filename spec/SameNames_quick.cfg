SPECIFICATION Spec
CONSTANTS
  Tier = "quick"
INVARIANTS Sane EmitCase
CHECK_DEADLOCK FALSE

SPECIFICATION Spec
CONSTANTS
  Names = {"a", "b"}
  MaxCalls = 4
INVARIANTS Agree
CHECK_DEADLOCK FALSE

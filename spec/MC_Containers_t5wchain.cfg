SPECIFICATION Spec
CONSTANTS
  MinN = 5
  MaxN = 5
  Kinds = {"c", "s", "w"}
  AllowSelf = TRUE
  AllowPtr = TRUE
  AllowConstPtr = FALSE
  AllPerms = FALSE
  ChainMode = TRUE
  Stepwise = FALSE
INVARIANTS VerifySound
CHECK_DEADLOCK FALSE

SPECIFICATION Spec
CONSTANTS
  Fuel = 400
  As_ = {1}
  Bs = {2}
  Sibs = {TRUE}
  Inc1s = {TRUE}
  Tls = {TRUE}
  Decls = {TRUE}
INVARIANTS Sane AllValid EmitCase
CHECK_DEADLOCK FALSE

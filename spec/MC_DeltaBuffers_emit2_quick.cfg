SPECIFICATION Spec
CONSTANTS
  CapFactor = 4
  TokMin = 65536
  TokMax = 16777216
  ErrCap = 100
  MaxToks = 9
  MaxAborts = 2
  MaxBad = 2
  Densities = {3}
  DeclAlts = {"import", "const", "opaque", "struct", "word", "fn", "extern"}
  StmtAlts = {"loop", "goto", "label", "call", "bcall", "assign", "aassign", "var", "block", "if"}
  PrimAlts = {"lit", "suf", "str", "addr", "fcall", "bcall", "structural", "id", "array", "paren", "index", "member"}
  UnaryAlts = {"neg", "sizeof", "lenof"}
  TypeAlts = {"kw", "named", "ptr", "arr"}
  ExprAlts = {"add", "bit", "shift", "mul", "cast", "as"}
  ExpectationTextComplete = TRUE
INVARIANTS SetLenArg CursorOK OutcomeOK Verdict ResourceLimit EmitCase

CHECK_DEADLOCK FALSE

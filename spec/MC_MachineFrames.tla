-------------------------- MODULE MC_MachineFrames --------------------------
(***************************************************************************)
(* C01, dimension audit: FRAMES and the passing of parameters.             *)
(*   rec     a function that calls itself (or, mutually, a second function *)
(*           that calls it again) to depth 0..8: every activation owns a   *)
(*           local `loc`, hands its address down, and the callee writes    *)
(*           through it while its own `loc` is live -- two live            *)
(*           activations of one function must not share their locals.  The *)
(*           recursive call is a statement `r = f(..)`, the whole right    *)
(*           hand side of an assignment, or an initialiser.                *)
(*   params  functions with 1..12 parameters of mixed widths (every        *)
(*           rotation of i8 u128 i16 word16 i128 u8 bool i64 u32 usize u16 *)
(*           word64 i32 u64), boundary or small values, passed from        *)
(*           variables or as literals; the callee prints every parameter   *)
(*           in ONE print! call and returns its last / first parameter: so *)
(*           every type is a return type (words, i128, bool, u8, ...).     *)
(*   names   names of C library functions / basic blocks / one name in     *)
(*           every namespace, in every role (see below)                    *)
(***************************************************************************)
EXTENDS MachineBuild
CONSTANTS Fuel, Depths, Counts

(**************************** rec *******************************************)
Rec(p) ==
    LET T == p.t
        TT == PrimT(T)
        lit(n) == Lit(T, n)
        args == <<Bin("+", RV("n"), lit(1)), Ref("loc", 1, <<>>)>>
        callnext(g) == CASE p.way = "stmt" -> <<CallI(g, args, "r")>>
                         [] p.way = "assign" -> <<SetV("r", CallE(g, args))>>
                         [] p.way = "init" -> <<VarI("r2", TT, CallE(g, args)), SetV("r", RV("r2"))>>
        body(g, k) == <<VarI("loc", TT, Bin("*", RV("n"), lit(k))),
                        SetV("up", Bin("+", Bin("+", RV("up"), lit(1)), RV("n"))),
                        VarI("r", TT, RV("loc")),
                        IG_(Cmp(">=", RV("n"), lit(p.depth)), "return")>>
                        \o callnext(g)
                        \o <<Pr(RV("loc")), SetV("r", Bin("+", RV("r"), RV("loc"))), Lbl("return")>>
        ps == <<Par("n", TT), Par("up", PtrT(TT))>>
        f == Fn("f", ps, TT, body(IF p.mutual THEN "g" ELSE "f", 10), RV("r"))
        g == Fn("g", ps, TT, body("f", 7), RV("r"))
    IN Program(<<>>, <<>>,
               <<MainFn(<<VarI("x", TT, lit(100)), VarI("t", TT, CallE("f", <<lit(0), Ref("x", 1, <<>>)>>)), Pr(RV("x")), Pr(RV("t"))>>), f>>
                 \o (IF p.mutual THEN <<g>> ELSE <<>>))
RecParams == {[fam |-> "rec", t |-> t, depth |-> d, way |-> w, mutual |-> mu] :
                 t \in {"i32", "u8", "i128"}, d \in Depths, w \in {"stmt", "assign", "init"}, mu \in BOOLEAN}

(**************************** params ****************************************)
PTypes == <<"i8", "u128", "i16", "W16", "i128", "u8", "bool", "i64", "u32", "usize", "u16", "W64", "i32", "u64">>
WDecls == <<WD("W16", 16, <<Mem("a", PrimT("u8")), Mem("b", PrimT("u8"))>>),
            \* a word with a nested word member: a word PARAMETER is read two member levels deep (`p.n.b`)
            WD("W64", 64, <<Mem("a", PrimT("i32")), Mem("n", NamedT("W16")), Mem("c", PrimT("u16"))>>)>>
IsW(s) == s \in {"W16", "W64"}
TyOf(s) == IF IsW(s) THEN NamedT(s) ELSE PrimT(s)
Cyc(s, k) == PTypes[((s + k - 2) % Len(PTypes)) + 1]
\* the value of the k-th argument: boundary values (the minimum of a signed type + k, the maximum of an unsigned type - k) or k
ValOf(s, k, variant) ==
    CASE s = "bool" -> BoolL(k % 2 = 1)
      [] s = "W16" -> StE("W16", <<Fld("a", Lit("u8", 255 - k)), Fld("b", Lit("u8", k))>>)
      [] s = "W64" -> StE("W64", <<Fld("a", LitV("i32", Add(MinSigned(32), FromNat(k, 32)))),
                                   Fld("n", StE("W16", <<Fld("a", Lit("u8", 100 + k)), Fld("b", Lit("u8", 200 + k))>>)),
                                   Fld("c", LitV("u16", Sub(Ones(16), FromNat(k, 16))))>>)
      [] OTHER -> LET w == Width(s)
                  IN IF variant = "small" THEN Lit(s, k)
                     ELSE IF Signed(s) THEN LitV(s, Add(MinSigned(w), FromNat(k, w))) ELSE LitV(s, Sub(Ones(w), FromNat(k, w)))
\* the scalars of a place of type s
Scalars(x, s) == CASE s = "W16" -> <<Ref(x, 0, <<Mb("a")>>), Ref(x, 0, <<Mb("b")>>)>>
                   [] s = "W64" -> <<Ref(x, 0, <<Mb("a")>>), Ref(x, 0, <<Mb("n"), Mb("a")>>), Ref(x, 0, <<Mb("n"), Mb("b")>>), Ref(x, 0, <<Mb("c")>>)>>
                   [] OTHER -> <<RV(x)>>
PName(k) == "p" \o ToString(k)
AName(k) == "a" \o ToString(k)
ParamsProg(p) ==
    LET n == p.n
        ty(k) == Cyc(p.start, k)
        rk == IF p.ret = "last" THEN n ELSE 1
        many == Fn("many", [k \in 1..n |-> Par(PName(k), TyOf(ty(k)))], TyOf(ty(rk)),
                   <<PrAll(Flatten([k \in 1..n |-> Scalars(PName(k), ty(k))]))>>, RV(PName(rk)))
        decls == IF p.from = "vars" THEN [k \in 1..n |-> VarI(AName(k), TyOf(ty(k)), ValOf(ty(k), k, p.variant))] ELSE <<>>
        args == [k \in 1..n |-> IF p.from = "vars" THEN RV(AName(k)) ELSE ValOf(ty(k), k, p.variant)]
    IN Program(WDecls, <<>>,
               <<MainFn(decls \o <<VarI("r", TyOf(ty(rk)), CallE("many", args)), PrAll(Scalars("r", ty(rk)))>>), many>>)
ParamsParams == {[fam |-> "params", start |-> s, n |-> n, variant |-> v, from |-> f, ret |-> r] :
                    s \in 1..Len(PTypes), n \in Counts, v \in {"bound", "small"}, f \in {"vars", "lits"}, r \in {"last", "first"}}
                \ {q \in [fam : {"params"}, start : 1..Len(PTypes), n : {1}, variant : {"bound", "small"}, from : {"vars", "lits"}, ret : {"first"}] : TRUE}

(**************************** names *****************************************)
(* Names are a dimension too: names the tool chain declares on its own (the C library functions the generated code calls   *)
(* for `print!`, the names of the basic blocks it creates) and ONE name shared across namespaces (function, variable,       *)
(* parameter, label, member, structure, constant).  The meaning of a program does not depend on how its things are called. *)
NamePool == {"write", "snprintf", "abort", "memcpy", "memset", "printf", "exit", "malloc", "strlen", "entry", "after", "then", "llvm", "nm"}
Roles == {"fn", "var", "param", "label", "member", "struct", "const", "mix"}
Wide128 == LitV("i128", MaxSigned(128))
Names(p) ==
    LET nm == p.name
        i32 == PrimT("i32")
        inc(f, q) == Fn(f, <<Par(q, i32)>>, i32, <<>>, Bin("+", RV(q), Lit("i32", 1)))
        pre == <<PrAll(<<Lit("i32", 1), Wide128>>)>>
        post == <<PrAll(<<Wide128, Lit("u8", 2)>>)>>
        r == CASE p.role = "fn" -> [s |-> <<>>, c |-> <<>>, f |-> <<inc(nm, "x")>>, b |-> <<VarI("t", i32, CallE(nm, <<Lit("i32", 41)>>)), Pr(RV("t"))>>]
               [] p.role = "var" -> [s |-> <<>>, c |-> <<>>, f |-> <<>>, b |-> <<VarI(nm, i32, Lit("i32", 41)), SetV(nm, Bin("+", RV(nm), Lit("i32", 1))), Pr(RV(nm))>>]
               [] p.role = "param" -> [s |-> <<>>, c |-> <<>>, f |-> <<inc("f", nm)>>, b |-> <<Pr(CallE("f", <<Lit("i32", 41)>>))>>]
               [] p.role = "label" -> [s |-> <<>>, c |-> <<>>, f |-> <<>>,
                                       b |-> <<VarI("t", i32, Lit("i32", 41)), O_, IG_(Cmp("==", RV("t"), Lit("i32", 41)), nm), SetV("t", Lit("i32", 0)), Lbl(nm),
                                               SetV("t", Bin("+", RV("t"), Lit("i32", 1))), C_, Pr(RV("t"))>>]
               [] p.role = "member" -> [s |-> <<SD("SN", <<Mem("a", PrimT("u8")), Mem(nm, i32)>>)>>, c |-> <<>>, f |-> <<>>,
                                        b |-> <<VarI("s", NamedT("SN"), StE("SN", <<Fld("a", Lit("u8", 3)), Fld(nm, Lit("i32", 41))>>)),
                                                Asg("s", 0, <<Mb(nm)>>, Bin("+", Ref("s", 0, <<Mb(nm)>>), Lit("i32", 1))), Pr(Ref("s", 0, <<Mb(nm)>>))>>]
               [] p.role = "struct" -> [s |-> <<SD(nm, <<Mem("a", PrimT("u8")), Mem("b", i32)>>)>>, c |-> <<>>, f |-> <<>>,
                                        b |-> <<VarI("s", NamedT(nm), StE(nm, <<Fld("a", Lit("u8", 3)), Fld("b", Lit("i32", 42))>>)), Pr(Ref("s", 0, <<Mb("b")>>))>>]
               [] p.role = "const" -> [s |-> <<>>, c |-> <<[x |-> nm, ty |-> i32, e |-> Lit("i32", 41)]>>, f |-> <<>>, b |-> <<Pr(Bin("+", RV(nm), Lit("i32", 1)))>>]
               \* one name for a function, its parameter, a variable, a label and a member at once
               [] p.role = "mix" -> [s |-> <<SD("SN", <<Mem("a", PrimT("u8")), Mem(nm, i32)>>)>>, c |-> <<>>, f |-> <<inc(nm, nm)>>,
                                     b |-> <<VarI(nm, i32, CallE(nm, <<Lit("i32", 40)>>)),
                                             VarI("s", NamedT("SN"), StE("SN", <<Fld("a", Lit("u8", 3)), Fld(nm, RV(nm))>>)),
                                             O_, IG_(Cmp("==", RV(nm), Lit("i32", 41)), nm), SetV(nm, Lit("i32", 0)), Lbl(nm), C_,
                                             Pr(Bin("+", Ref("s", 0, <<Mb(nm)>>), Lit("i32", 1)))>>]
    IN Program(r.s, r.c, <<MainFn(pre \o r.b \o post)>> \o r.f)
NamesParams == {[fam |-> "names", name |-> n, role |-> r] : n \in NamePool, r \in Roles}

(***************************************************************************)
Params == RecParams \cup ParamsParams \cup NamesParams
Build(p) == CASE p.fam = "rec" -> Rec(p) [] p.fam = "params" -> ParamsProg(p) [] p.fam = "names" -> Names(p)

None == [fam |-> ""]
VARIABLES par, prog, res, done
vars == <<par, prog, res, done>>
Init == par = None /\ prog = <<>> /\ res = [status |-> "none"] /\ done = FALSE
Pick == /\ par = None
        /\ \E p \in Params : \E pr \in {Build(p)} : par' = p /\ prog' = pr /\ res' = MInit(pr, Fuel)
        /\ UNCHANGED done
Exec == /\ par # None /\ ~done
        /\ \E m2 \in {RunChunk(prog, res, ChunkSize)} : res' = m2 /\ done' = (m2.status # "run")
        /\ UNCHANGED <<par, prog>>
Next == Pick \/ Exec
Spec == Init /\ [][Next]_vars

Sane == done => (res.status = "done" /\ res.bad = <<>>)
\* locals of two live activations are distinct cells: the deepest activation leaves its own `loc` untouched (the rule, stated
\* on the output): the first value printed is the `loc` of the last-but-one activation after the write of the last one
EmitCase == done =>
    PrintT(<<"CASE", ToJson([par |-> par, status |-> res.status, out |-> IF res.status = "done" THEN OutOf(res) ELSE <<>>,
                             exit |-> IF res.status = "done" THEN res.exit ELSE <<>>, why |-> res.why, prog |-> prog])>>)
=============================================================================

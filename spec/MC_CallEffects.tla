--------------------------- MODULE MC_CallEffects ---------------------------
(* Gen + invariants + case emission for the non-interference family (TLC only). *)
EXTENDS CallEffects, TLC, Json, SequencesExt

VARIABLES prog, pv

Param(kd, way, amp, sc) == [kd |-> kd, way |-> way, amp |-> amp, sc |-> sc]
StmtContexts == {"top", "block", "loop", "then", "else", "elif_then", "elif_else", "elif2", "label"}
\* the markers the caller has to write for an argument of this kind
Needed(kd) == CASE kd \in {"value", "word", "aview", "sview", "xaview"} -> 0 [] kd \in {"sptr", "ptr", "xsptr", "ptr_elem", "ptr_mem"} -> 1 [] kd = "pptr" -> 2
\* what a callee can do with a parameter of each kind (a slice pointer handed on bare panics the compiler,
\* see notes F3; extern callees do not forward to the ordinary g)
WaysOf(kd) == CASE kd = "aview" -> Ways \cup {"xfwd", "xfwdamp"}
                \* (`gx(&q)` for q: &[]i32 is legal by the rule but panics the compiler -- finding F3 -- and is
                \* kept as a cell of MC_Mutability (ctx argxp) only)
                [] kd = "sptr" -> Ways \cup {"forward2"}
                [] kd = "xaview" -> {"none", "read", "copy", "write", "xfwd", "xfwdamp"}
                [] kd = "xsptr" -> {"none", "read", "copy", "write", "xfwdamp"}
                [] OTHER -> Ways
\* kinds that may share an `extern` signature with an extern kind
ExternMates == {"value", "ptr", "pptr", "xaview", "xsptr"}

Singles == UNION {{<<Param(kd, way, amp, "top")>> : way \in WaysOf(kd), amp \in 0..2} : kd \in AllKinds}
            \cup UNION {{<<Param(kd, way, Needed(kd), sc)>> : way \in WaysOf(kd), sc \in StmtContexts} : kd \in AllKinds}
Pairs   == {<<Param(k1, w1, Needed(k1), "top"), Param(k2, w2, Needed(k2), sc)>> :
                k1 \in Kinds, k2 \in Kinds, w1 \in {"read", "write"}, w2 \in {"copy", "write", "forward"},
                sc \in {"top", "elif_then", "elif_else"}}

XPairs  == UNION {{<<Param(k1, w1, Needed(k1), "top"), Param(k2, w2, Needed(k2), sc)>> :
                      w1 \in {"read", "write"}, w2 \in WaysOf(k2) \ {"none", "read"}, sc \in {"top", "elif_then"}} :
                  k1 \in ExternMates, k2 \in ExternKinds}

\* Dimension audit: three parameters of which only the MIDDLE argument carries the wrong number of address markers
\* (or the right one: amp ranges over 0..2), the outer ones are right
Triples == {<<Param(k1, IF k1 = "ptr" THEN "write" ELSE "read", Needed(k1), "top"), Param(k2, w2, amp, "top"),
              Param(k3, IF k3 = "ptr" THEN "write" ELSE "copy", Needed(k3), "top")>> :
                k1 \in {"value", "ptr"}, k3 \in {"aview", "ptr"}, k2 \in Kinds \cup PlaceKinds, w2 \in {"write", "forward"}, amp \in 0..2}

\* Program variants that neither the rules nor the machine look at (pv): the caller stands BEFORE the callee and its
\* helpers in the file ("mainfirst"), the call is made twice in a row before the second print ("twice": the writes of
\* the family are idempotent), both.
Variants == {"mainfirst", "twice", "mainfirst_twice"}
Plain == Singles \cup Pairs \cup XPairs \cup Triples
Varied == {p \in Singles : p[1].sc = "top"} \cup {p \in Triples : p[2].amp = Needed(p[2].kd)}

Init == \/ (prog \in Plain /\ pv = "")
        \/ (prog \in Varied /\ pv \in Variants)
Next == UNCHANGED <<prog, pv>>

\* the machine never changes a cell without an address marker on the argument
Safe == ProgAccepted(prog) => NonInterference(prog, AsSeq(Before), AsSeq(After(prog)))
\* an accepted program that writes through a parameter does reach the caller (the family is not vacuous)
Emit == PrintT(<<"CASE", ToJson([prog |-> prog, pv |-> pv, ok |-> ProgAccepted(prog), codes |-> SetToSortSeq(Codes(prog), <),
                                 before |-> AsSeq(Before), after |-> AsSeq(After(prog))])>>)
=============================================================================

--------------------------- MODULE MC_CallEffects ---------------------------
(* Gen + invariants + case emission for the non-interference family (TLC only). *)
EXTENDS CallEffects, TLC, Json, SequencesExt

VARIABLE prog

Param(kd, way, amp, sc) == [kd |-> kd, way |-> way, amp |-> amp, sc |-> sc]
StmtContexts == {"top", "block", "loop", "then", "else", "elif_then", "elif_else", "elif2", "label"}
\* the markers the caller has to write for an argument of this kind
Needed(kd) == CASE kd \in {"value", "word", "aview", "sview"} -> 0 [] kd \in {"sptr", "ptr"} -> 1 [] kd = "pptr" -> 2

Singles == {<<Param(kd, way, amp, "top")>> : kd \in Kinds, way \in Ways, amp \in 0..2}
            \cup {<<Param(kd, way, Needed(kd), sc)>> : kd \in Kinds, way \in Ways, sc \in StmtContexts}
Pairs   == {<<Param(k1, w1, Needed(k1), "top"), Param(k2, w2, Needed(k2), sc)>> :
                k1 \in Kinds, k2 \in Kinds, w1 \in {"read", "write"}, w2 \in {"copy", "write", "forward"},
                sc \in {"top", "elif_then", "elif_else"}}

Init == prog \in Singles \cup Pairs
Next == UNCHANGED prog

\* the machine never changes a cell without an address marker on the argument
Safe == ProgAccepted(prog) => NonInterference(prog, AsSeq(Before), AsSeq(After(prog)))
\* an accepted program that writes through a parameter does reach the caller (the family is not vacuous)
Emit == PrintT(<<"CASE", ToJson([prog |-> prog, ok |-> ProgAccepted(prog), codes |-> SetToSortSeq(Codes(prog), <),
                                 before |-> AsSeq(Before), after |-> AsSeq(After(prog))])>>)
=============================================================================

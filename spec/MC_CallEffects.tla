--------------------------- MODULE MC_CallEffects ---------------------------
(* Gen + invariants + case emission for the non-interference family (TLC only). *)
EXTENDS CallEffects, TLC, Json, SequencesExt

VARIABLE prog

Param(kd, way, amp) == [kd |-> kd, way |-> way, amp |-> amp]
\* the markers the caller has to write for an argument of this kind
Needed(kd) == CASE kd \in {"value", "word", "aview", "sview"} -> 0 [] kd \in {"sptr", "ptr"} -> 1 [] kd = "pptr" -> 2

Singles == {<<Param(kd, way, amp)>> : kd \in Kinds, way \in Ways, amp \in 0..2}
Pairs   == {<<Param(k1, w1, Needed(k1)), Param(k2, w2, Needed(k2))>> :
                k1 \in Kinds, k2 \in Kinds, w1 \in {"read", "write"}, w2 \in {"copy", "write", "forward"}}

Init == prog \in Singles \cup Pairs
Next == UNCHANGED prog

\* the machine never changes a cell without an address marker on the argument
Safe == ProgAccepted(prog) => NonInterference(prog, AsSeq(Before), AsSeq(After(prog)))
\* an accepted program that writes through a parameter does reach the caller (the family is not vacuous)
Emit == PrintT(<<"CASE", ToJson([prog |-> prog, ok |-> ProgAccepted(prog), codes |-> SetToSortSeq(Codes(prog), <),
                                 before |-> AsSeq(Before), after |-> AsSeq(After(prog))])>>)
=============================================================================

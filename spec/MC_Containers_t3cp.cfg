SPECIFICATION Spec
CONSTANTS
  MinN = 2
  MaxN = 3
  Kinds = {"c", "s"}
  AllowSelf = TRUE
  AllowPtr = FALSE
  AllowConstPtr = TRUE
  AllPerms = TRUE
  ChainMode = FALSE
  Stepwise = FALSE
INVARIANTS EmitOnly
CHECK_DEADLOCK FALSE

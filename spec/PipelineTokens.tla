--------------------------- MODULE PipelineTokens ---------------------------
(***************************************************************************)
(* C02 input space (a): ALL token sequences up to length K over the token  *)
(* alphabet of src/alpha/lexer.rs -- one representative spelling per token *)
(* kind, plus invalid lexemes with the code docs/errors.md gives them --   *)
(* at top level and inside a function body.  One CASE per sequence, with   *)
(* the expectation of invariant I3: the first invalid lexeme (its code and *)
(* the line it is rendered on; the renderer puts one token per line).      *)
(* With Core = TRUE only the core symbols are used (longer sequences).     *)
(***************************************************************************)
EXTENDS Naturals, Sequences, FiniteSets, TLC, Json

CONSTANTS K, Core

Alphabet == <<
    [s |-> "(", e |-> 0, core |-> TRUE],
    [s |-> ")", e |-> 0, core |-> TRUE],
    [s |-> "{", e |-> 0, core |-> TRUE],
    [s |-> "}", e |-> 0, core |-> TRUE],
    [s |-> "[", e |-> 0, core |-> TRUE],
    [s |-> "]", e |-> 0, core |-> TRUE],
    [s |-> "<", e |-> 0, core |-> TRUE],
    [s |-> "|", e |-> 0, core |-> TRUE],
    [s |-> "&", e |-> 0, core |-> TRUE],
    [s |-> "!", e |-> 0, core |-> TRUE],
    [s |-> "_", e |-> 0, core |-> TRUE],
    [s |-> "-", e |-> 0, core |-> TRUE],
    [s |-> "*", e |-> 0, core |-> TRUE],
    [s |-> ":", e |-> 0, core |-> TRUE],
    [s |-> ";", e |-> 0, core |-> TRUE],
    [s |-> ".", e |-> 0, core |-> TRUE],
    [s |-> ",", e |-> 0, core |-> TRUE],
    [s |-> "=", e |-> 0, core |-> TRUE],
    [s |-> "==", e |-> 0, core |-> TRUE],
    [s |-> "->", e |-> 0, core |-> TRUE],
    [s |-> "|:", e |-> 0, core |-> TRUE],
    [s |-> "..", e |-> 0, core |-> TRUE],
    [s |-> "fn", e |-> 0, core |-> TRUE],
    [s |-> "var", e |-> 0, core |-> TRUE],
    [s |-> "const", e |-> 0, core |-> TRUE],
    [s |-> "if", e |-> 0, core |-> TRUE],
    [s |-> "goto", e |-> 0, core |-> TRUE],
    [s |-> "loop", e |-> 0, core |-> TRUE],
    [s |-> "else", e |-> 0, core |-> TRUE],
    [s |-> "cast", e |-> 0, core |-> TRUE],
    [s |-> "as", e |-> 0, core |-> TRUE],
    [s |-> "import", e |-> 0, core |-> TRUE],
    [s |-> "pub", e |-> 0, core |-> TRUE],
    [s |-> "extern", e |-> 0, core |-> TRUE],
    [s |-> "struct", e |-> 0, core |-> TRUE],
    [s |-> "word64", e |-> 0, core |-> TRUE],
    [s |-> "x", e |-> 0, core |-> TRUE],
    [s |-> "main", e |-> 0, core |-> TRUE],
    [s |-> "print!", e |-> 0, core |-> TRUE],
    [s |-> "17", e |-> 0, core |-> TRUE],
    [s |-> "0x1F", e |-> 0, core |-> TRUE],
    [s |-> "42u8", e |-> 0, core |-> TRUE],
    [s |-> "'a'", e |-> 0, core |-> TRUE],
    [s |-> "true", e |-> 0, core |-> TRUE],
    [s |-> "\"s\"", e |-> 0, core |-> TRUE],
    [s |-> "void", e |-> 0, core |-> TRUE],
    [s |-> "i32", e |-> 0, core |-> TRUE],
    [s |-> "usize", e |-> 0, core |-> TRUE],
    [s |-> "bool", e |-> 0, core |-> TRUE],
    [s |-> "@", e |-> 110, core |-> TRUE],
    [s |-> "#", e |-> 110, core |-> TRUE],
    [s |-> "1z", e |-> 141, core |-> TRUE],
    [s |-> "0q", e |-> 141, core |-> TRUE],
    [s |-> "9999999999999999999999999999999999999999", e |-> 140, core |-> TRUE],
    [s |-> "\"abc", e |-> 160, core |-> TRUE],
    [s |-> "\"ab\\", e |-> 161, core |-> FALSE],
    [s |-> "\"\\q\"", e |-> 162, core |-> FALSE],
    [s |-> "'ab'", e |-> 163, core |-> TRUE],
    [s |-> ">", e |-> 0, core |-> FALSE],
    [s |-> "^", e |-> 0, core |-> FALSE],
    [s |-> "+", e |-> 0, core |-> FALSE],
    [s |-> "/", e |-> 0, core |-> FALSE],
    [s |-> "%", e |-> 0, core |-> FALSE],
    [s |-> "!=", e |-> 0, core |-> FALSE],
    [s |-> ">=", e |-> 0, core |-> FALSE],
    [s |-> "<=", e |-> 0, core |-> FALSE],
    [s |-> "<<", e |-> 0, core |-> FALSE],
    [s |-> ">>", e |-> 0, core |-> FALSE],
    [s |-> "word8", e |-> 0, core |-> FALSE],
    [s |-> "word16", e |-> 0, core |-> FALSE],
    [s |-> "word32", e |-> 0, core |-> FALSE],
    [s |-> "word128", e |-> 0, core |-> FALSE],
    [s |-> "0b101", e |-> 0, core |-> FALSE],
    [s |-> "false", e |-> 0, core |-> FALSE],
    [s |-> "i8", e |-> 0, core |-> FALSE],
    [s |-> "i16", e |-> 0, core |-> FALSE],
    [s |-> "i64", e |-> 0, core |-> FALSE],
    [s |-> "i128", e |-> 0, core |-> FALSE],
    [s |-> "u8", e |-> 0, core |-> FALSE],
    [s |-> "u16", e |-> 0, core |-> FALSE],
    [s |-> "u32", e |-> 0, core |-> FALSE],
    [s |-> "u64", e |-> 0, core |-> FALSE],
    [s |-> "u128", e |-> 0, core |-> FALSE],
    [s |-> "char8", e |-> 0, core |-> FALSE],
    [s |-> "return", e |-> 0, core |-> FALSE],
    [s |-> "0", e |-> 0, core |-> FALSE],
    \* every builtin the lexer knows (common.rs Builtin) and a name with `!` that is none
    [s |-> "eprint!", e |-> 0, core |-> FALSE],
    [s |-> "format!", e |-> 0, core |-> FALSE],
    [s |-> "dbg!", e |-> 0, core |-> FALSE],
    [s |-> "panic!", e |-> 0, core |-> FALSE],
    [s |-> "abort!", e |-> 0, core |-> FALSE],
    [s |-> "file!", e |-> 0, core |-> FALSE],
    [s |-> "line!", e |-> 0, core |-> FALSE],
    [s |-> "include_bytes!", e |-> 0, core |-> FALSE],
    [s |-> "nosuch!", e |-> 0, core |-> FALSE] >>

Sym == { i \in 1..Len(Alphabet) : Core => Alphabet[i].core }

VARIABLES toks, ctx
vars == <<toks, ctx>>

Init == toks = <<>> /\ ctx \in {"top", "body"}
Next == /\ Len(toks) < K
        /\ \E i \in Sym : toks' = Append(toks, i)
        /\ UNCHANGED ctx
Spec == Init /\ [][Next]_vars

Offset == IF ctx = "body" THEN 2 ELSE 0
BadIdx == { x \in 1..Len(toks) : Alphabet[toks[x]].e # 0 }
FirstBad == CHOOSE x \in BadIdx : \A y \in BadIdx : x <= y
Expect == IF BadIdx = {} THEN [t |-> "nolex", code |-> 0, line |-> 0]
          ELSE [t |-> "lex", code |-> Alphabet[toks[FirstBad]].e, line |-> FirstBad + Offset]

EmitCase == PrintT(<<"CASE", ToJson([ctx |-> ctx,
                                     toks |-> [x \in 1..Len(toks) |-> Alphabet[toks[x]].s],
                                     expect |-> Expect])>>)
\* the alphabet is well formed: distinct spellings, codes from the lexical part of the catalogue
AlphabetOK == /\ \A i, j \in 1..Len(Alphabet) : i # j => Alphabet[i].s # Alphabet[j].s
              /\ \A i \in 1..Len(Alphabet) : Alphabet[i].e \in {0, 110, 140, 141, 160, 161, 162, 163}
=============================================================================

---------------------------- MODULE MC_Positions ----------------------------
(* Model-checking / case-emitting wrapper of Positions (TLC only). *)
EXTENDS Positions, Json, TLCExt

\* one line per cell: the input, the rule's verdict, the model's
EmitCase == phase = "end" =>
    LET r == RuleCell
        m == ModelCell
    IN PrintT(<<"CASE", ToJson([fam |-> fam, ty |-> ty, pos |-> pos, aux |-> aux,
                                 tags |-> SetToSeq(CellTags), v |-> r.v, codes |-> SetToSortSeq(r.codes, <),
                                 mok |-> m.ok, mcode |-> m.code])>>)
=============================================================================

---------------------------- MODULE MC_Positions ----------------------------
(* Model-checking / case-emitting wrapper of Positions (TLC only). *)
EXTENDS Positions, Json, TLCExt

\* one line per cell: the input, the rule's verdict, the model's
EmitCase == phase = "end" =>
    LET r == RuleCell
        m == ModelCell
        base == [fam |-> fam, ty |-> ty, pos |-> pos, aux |-> aux,
                 tags |-> SetToSeq(CellTags), v |-> r.v, codes |-> SetToSortSeq(r.codes, <),
                 mok |-> m.ok, mcode |-> m.code]
    IN IF fam = "pair"
       THEN LET pr == PairRule
                f == FirstCells[aux[1]]
            IN PrintT(<<"CASE", ToJson(base @@ [first |-> [ty |-> f.ty, pos |-> f.pos],
                                                 clean1 |-> pr.clean1, clean2 |-> pr.clean2,
                                                 must1 |-> SetToSortSeq(pr.must1, <), must2 |-> SetToSortSeq(pr.must2, <)])>>)
       ELSE PrintT(<<"CASE", ToJson(base)>>)
=============================================================================

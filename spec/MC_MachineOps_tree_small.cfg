SPECIFICATION Spec
CONSTANTS
  Types = {"i8", "i32", "u16", "u64"}
  Thorough = FALSE
  Mode = "tree"
INVARIANTS WellTyped EmitCase
CHECK_DEADLOCK FALSE

---------------------------- MODULE MC_SyntaxSeq ----------------------------
(***************************************************************************)
(* Gen (1) of the `syntax` work package: ALL sequences of token classes up *)
(* to length K over Alphabet, placed in each context (a context is a fixed *)
(* token prefix and suffix, so the recogniser always judges a whole file): *)
(* module level, function body, expression, right side of a condition,     *)
(* type, parameter list, structure body.  Sequences are extended token by  *)
(* token (one Shift of SyntaxRules per Next step); beyond length FullK a   *)
(* sequence is only extended while its prefix is viable, so that every     *)
(* emitted case of the longer lengths is a viable prefix plus at most one  *)
(* offending token.  One CASE per sequence: the verdict of R.              *)
(***************************************************************************)
EXTENDS SyntaxRules, Json

CONSTANTS K, FullK, Alphabet

FnOpen == <<"fn", "id", "(", ")", "{">>
Contexts == <<
    [name |-> "top", pre |-> <<>>, suf |-> <<>>],
    [name |-> "body", pre |-> FnOpen, suf |-> <<"}">>],
    [name |-> "expr", pre |-> FnOpen \o <<"id", "=">>, suf |-> <<";", "}">>],
    [name |-> "cond", pre |-> FnOpen \o <<"if", "id", "cmp">>, suf |-> <<"{", "}", "}">>],
    [name |-> "type", pre |-> FnOpen \o <<"var", "id", ":">>, suf |-> <<";", "}">>],
    [name |-> "params", pre |-> <<"fn", "id", "(">>, suf |-> <<")", ";">>],
    [name |-> "members", pre |-> <<"struct", "id", "{">>, suf |-> <<"}">>] >>

AlphaAll == Classes \ {"eof"}
\* one representative of each group of classes that the grammar treats alike
AlphaCore == AlphaAll \ {"_", "^", "sh", "mul", "!", "|:", "..", "void", "int", "lit", "bi", "extern", "word", "import", "cast",
                         "loop", "const", "pub"}

ASSUME TableOK /\ LeadsOK
ASSUME Alphabet \subseteq AlphaAll

VARIABLES c, seq, rs
vars == <<c, seq, rs>>

Init == /\ c \in 1..Len(Contexts)
        /\ seq = <<>>
        /\ rs = Run(Start, Contexts[c].pre)
Next == /\ Len(seq) < K
        /\ rs.alive \/ Len(seq) < FullK
        /\ \E k \in Alphabet : seq' = Append(seq, k) /\ rs' = Shift(rs, k)
        /\ c' = c
Spec == Init /\ [][Next]_vars

Final == Verdict(Shift(Run(rs, Contexts[c].suf), "eof"))
EmitCase == LET f == Final IN
            PrintT(<<"CASE", ToJson([c |-> Contexts[c].name, s |-> seq, np |-> Len(Contexts[c].pre),
                                     v |-> f.v, lo |-> f.lo, hi |-> f.hi, u |-> f.u, exp |-> f.exp, soft |-> f.soft])>>)
EmitContexts == (seq = <<>> /\ c = 1) => PrintT(<<"CTX", ToJson(Contexts)>>)
\* every context by itself is a valid file (the empty sequence), except where something is required
PrefixViable == rs.alive \/ seq # <<>>
=============================================================================

------------------------------ MODULE MC_Layout ------------------------------
(* Enumerates structures with up to MaxMembers members over a member alphabet, and array lengths x
   passing modes; one CASE per structure / per (length, mode, element type). *)
EXTENDS Layout, Json, TLCExt
CONSTANTS MaxMembers, MaxLen,
          MaxExtra,     \* a structure that holds a member of the Extra alphabet has at most MaxExtra members
          Deep          \* structures over the alignment alphabet {u8, i16, i32, i64, i128} have up to Deep members

Prim(t) == [k |-> "prim", t |-> t]
P8 == [k |-> "struct", ms |-> <<Prim("u8"), Prim("i32")>>]           \* struct P8 { a: u8, x: i32 }
W2 == [k |-> "word", bytes |-> 2, malign |-> 1]                                     \* word16 W2 { a: u8, b: u8 }
Alphabet == { Prim("i8"), Prim("i16"), Prim("i32"), Prim("i64"), Prim("i128"), Prim("u8"), Prim("bool"), Prim("usize"),
              [k |-> "ptr"], [k |-> "array", n |-> 2, e |-> Prim("i16")], [k |-> "array", n |-> 3, e |-> Prim("u8")],
              [k |-> "array", n |-> 0, e |-> Prim("i64")], P8, W2 }
(* Dimension audit: further type forms.  Pointers to arrays and arrays of pointers, words of every declared size
   (word8 WA { a: u8 }, word32 WB { a: u16, b: u8, c: u8 }, word64 WC { a: i32, b: i32 }, word128 WE { a: i64, b: i64 }),
   a structure nested three deep (Q3 { a: u8, p: P8, b: u8 } as a member).  The field nm carries the source spelling. *)
PA == [k |-> "ptr", nm |-> "&[4]u8"]
AP == [k |-> "array", n |-> 2, e |-> [k |-> "ptr"], nm |-> "[2]&i32"]
WA == [k |-> "word", bytes |-> 1, malign |-> 1, nm |-> "WA"]
WB == [k |-> "word", bytes |-> 4, malign |-> 2, nm |-> "WB"]
WC == [k |-> "word", bytes |-> 8, malign |-> 4, nm |-> "WC"]
WE == [k |-> "word", bytes |-> 16, malign |-> 8, nm |-> "WE"]
Q3 == [k |-> "struct", ms |-> <<Prim("u8"), P8, Prim("u8")>>, nm |-> "Q3"]
Extra == { PA, AP, WA, WB, WC, WE, Q3 }
AlignAlphabet == { Prim("u8"), Prim("i16"), Prim("i32"), Prim("i64"), Prim("i128") }
Name(ty) == IF "nm" \in DOMAIN ty THEN ty.nm ELSE
            CASE ty.k = "prim" -> ty.t
              [] ty.k = "ptr" -> "&i32"
              [] ty.k = "array" -> (CASE ty.n = 0 -> "[0]" [] ty.n = 2 -> "[2]" [] ty.n = 3 -> "[3]") \o ty.e.t
              [] ty.k = "struct" -> "P8"
              [] ty.k = "word" -> "W2"
\* row / constrow / elemmember: the array is an ELEMENT (or a member of an element) of an outer array of another length
\* (n + 2): `|x[1]|`, `|K[0]|`, `|hs[1].m|` denote the inner array
Modes == {"name", "view", "slicepointer", "arraypointer", "const", "namedlength", "member", "row", "constrow", "elemmember"}
Elems == {"i32", "u8", "i128", "bool"}

(***************************************************************************)
(* Huge types.  `|:T|` is a compile-time constant, so a type need not be   *)
(* allocated to be measured: the equations `|:[N]T|` = N * `|:T|` and      *)
(* "structure sizes follow member sizes and alignment" also hold where the *)
(* size in BITS passes 2^32 and the size in bytes passes 2^31 / 2^32 (the  *)
(* places where a narrower intermediate type would wrap).  Sizes are Wide  *)
(* 64-bit limb sequences (TLC's integers are 32-bit); lengths stay below   *)
(* 2^32 (an array type of >= 2^32 elements ends without a diagnostic: the  *)
(* open finding C02-internal-error-huge-array-length).                     *)
(*   total   the size aimed at is 2^total bytes                            *)
(*   delta   the length is 2^total / |:T| + delta - 2   (delta in 1..3)    *)
(*   form    "array" [n]T | "nested" [n][2]T | "struct" { a: [n]T, x: i32 }*)
(***************************************************************************)
W == INSTANCE Wide
HugeTotals == {29, 30, 31, 32, 33}
HugeElems == {"u8", "i32", "i128"}
HugeForms == {"array", "nested", "struct"}
Log2Size(t) == CASE t = "u8" -> 0 [] t = "i32" -> 2 [] t = "i128" -> 4
W64(n) == W!FromNat(n, 64)
HugeLen(total, t, delta) ==
    LET base == W!Shl(W64(1), total - Log2Size(t))
    IN CASE delta = 1 -> W!Sub(base, W64(1)) [] delta = 2 -> base [] delta = 3 -> W!Add(base, W64(1))
\* v rounded up to a multiple of the power of two a
AlignUpW(v, a) == W!WAnd(W!Add(v, W64(a - 1)), W!WNot(W64(a - 1)))
HugeSize(form, t, n) ==
    LET arr == W!Mul(n, W64(PrimSize(t)))
        al == Min(PrimSize(t), MaxAlign)
    IN CASE form = "array" -> arr
         [] form = "nested" -> W!Mul(arr, W64(2))
         [] form = "struct" -> AlignUpW(W!Add(AlignUpW(arr, 4), W64(4)), Max(al, 4))
\* below 2^32 elements (limbs 5..8 of the length are zero)
HugeOK(n) == \A i \in 5..8 : n[i] = 0

VARIABLES ms, done, len, mode, elem
vars == <<ms, done, len, mode, elem>>
Init == ms = <<>> /\ done = "no" /\ len = 0 /\ mode = "" /\ elem = ""
HasExtra == \E i \in 1..Len(ms) : ms[i] \in Extra
AllAlign == \A i \in 1..Len(ms) : ms[i] \in AlignAlphabet
Grow == /\ done = "no"
        /\ \/ (Len(ms) < (IF HasExtra THEN MaxExtra ELSE MaxMembers) /\ \E ty \in Alphabet : ms' = Append(ms, ty))
           \/ (Len(ms) < MaxExtra /\ \E ty \in Extra : ms' = Append(ms, ty))
           \/ (AllAlign /\ Len(ms) < Deep /\ \E ty \in AlignAlphabet : ms' = Append(ms, ty))
        /\ UNCHANGED <<done, len, mode, elem>>
FinishStruct == done = "no" /\ done' = "struct" /\ UNCHANGED <<ms, len, mode, elem>>
PickLen == /\ done = "no" /\ ms = <<>> /\ done' = "len"
           /\ len' \in 0..MaxLen /\ mode' \in Modes /\ elem' \in Elems /\ UNCHANGED ms
\* len = exponent of the total, ms = <<delta>>, mode = form
PickHuge == /\ done = "no" /\ ms = <<>> /\ done' = "huge"
            /\ \E tot \in HugeTotals, d \in 1..3, f \in HugeForms, t \in HugeElems :
                  /\ HugeOK(HugeLen(tot, t, d))
                  /\ len' = tot /\ ms' = <<d>> /\ mode' = f /\ elem' = t
Next == Grow \/ FinishStruct \/ PickLen \/ PickHuge
Spec == Init /\ [][Next]_vars

S == [k |-> "struct", ms |-> ms]
\* the property's own consequences, checked on the rule
\* the wide arithmetic agrees with the native one where both can speak (2^29 bytes of u8: 2^29 elements)
HugeSane == done = "huge" =>
              LET n == HugeLen(len, elem, ms[1]) IN
              /\ (W!FitsNat(HugeSize("array", elem, n)) /\ W!FitsNat(n)) =>
                    W!ToNat(HugeSize("array", elem, n)) = SizeOf([k |-> "array", n |-> W!ToNat(n), e |-> Prim(elem)])
              /\ HugeSize("nested", elem, n) = W!Add(HugeSize("array", elem, n), HugeSize("array", elem, n))
RuleSane == done = "struct" =>
              /\ SizeOfT(S, "declared", 8) = SizeOf(S)          \* the parameterised layout IS the native one for 8-byte pointers
              /\ SizeOfT(S, "declared", 4) <= SizeOf(S)
              /\ SizeOf([k |-> "array", n |-> 3, e |-> S]) = 3 * SizeOf(S)
              /\ SizeOf(S) % AlignOf(S) = 0
              /\ \A i \in 1..Len(ms) : SizeOf(S) >= SizeOf(ms[i])
EmitCase ==
    /\ done = "struct" => PrintT(<<"CASE", ToJson([kind |-> "struct", ms |-> [i \in 1..Len(ms) |-> Name(ms[i])],
                                                   size |-> SizeOf(S), align |-> AlignOf(S),
                                                   size2 |-> SizeOfM(S, "members"),
                                                   wsize |-> SizeOfT(S, "declared", 4), wsize2 |-> SizeOfT(S, "members", 4)])>>)
    /\ done = "huge" => LET n == HugeLen(len, elem, ms[1]) IN
                       PrintT(<<"CASE", ToJson([kind |-> "huge", total |-> len, delta |-> ms[1], form |-> mode, elem |-> elem,
                                                n |-> n, size |-> HugeSize(mode, elem, n),
                                                size3 |-> W!Mul(HugeSize(mode, elem, n), W64(3))])>>)
    /\ done = "len" => PrintT(<<"CASE", ToJson([kind |-> "len", n |-> len, mode |-> mode, elem |-> elem,
                                                expect |-> LenOf(len, mode),
                                                size |-> SizeOf([k |-> "array", n |-> len, e |-> Prim(elem)])])>>)
==============================================================================

------------------------------ MODULE MC_Layout ------------------------------
(* Enumerates structures with up to MaxMembers members over a member alphabet, and array lengths x
   passing modes; one CASE per structure / per (length, mode, element type). *)
EXTENDS Layout, Json, TLCExt
CONSTANTS MaxMembers, MaxLen

Prim(t) == [k |-> "prim", t |-> t]
P8 == [k |-> "struct", ms |-> <<Prim("u8"), Prim("i32")>>]           \* struct P8 { a: u8, x: i32 }
W2 == [k |-> "word", bytes |-> 2, malign |-> 1]                                     \* word16 W2 { a: u8, b: u8 }
Alphabet == { Prim("i8"), Prim("i16"), Prim("i32"), Prim("i64"), Prim("i128"), Prim("u8"), Prim("bool"), Prim("usize"),
              [k |-> "ptr"], [k |-> "array", n |-> 2, e |-> Prim("i16")], [k |-> "array", n |-> 3, e |-> Prim("u8")],
              [k |-> "array", n |-> 0, e |-> Prim("i64")], P8, W2 }
Name(ty) == CASE ty.k = "prim" -> ty.t
              [] ty.k = "ptr" -> "&i32"
              [] ty.k = "array" -> (CASE ty.n = 0 -> "[0]" [] ty.n = 2 -> "[2]" [] ty.n = 3 -> "[3]") \o ty.e.t
              [] ty.k = "struct" -> "P8"
              [] ty.k = "word" -> "W2"
\* row / constrow / elemmember: the array is an ELEMENT (or a member of an element) of an outer array of another length
\* (n + 2): `|x[1]|`, `|K[0]|`, `|hs[1].m|` denote the inner array
Modes == {"name", "view", "slicepointer", "arraypointer", "const", "namedlength", "member", "row", "constrow", "elemmember"}
Elems == {"i32", "u8", "i128", "bool"}

VARIABLES ms, done, len, mode, elem
vars == <<ms, done, len, mode, elem>>
Init == ms = <<>> /\ done = "no" /\ len = 0 /\ mode = "" /\ elem = ""
Grow == done = "no" /\ Len(ms) < MaxMembers /\ \E ty \in Alphabet : ms' = Append(ms, ty) /\ UNCHANGED <<done, len, mode, elem>>
FinishStruct == done = "no" /\ done' = "struct" /\ UNCHANGED <<ms, len, mode, elem>>
PickLen == /\ done = "no" /\ ms = <<>> /\ done' = "len"
           /\ len' \in 0..MaxLen /\ mode' \in Modes /\ elem' \in Elems /\ UNCHANGED ms
Next == Grow \/ FinishStruct \/ PickLen
Spec == Init /\ [][Next]_vars

S == [k |-> "struct", ms |-> ms]
\* the property's own consequences, checked on the rule
RuleSane == done = "struct" =>
              /\ SizeOf([k |-> "array", n |-> 3, e |-> S]) = 3 * SizeOf(S)
              /\ SizeOf(S) % AlignOf(S) = 0
              /\ \A i \in 1..Len(ms) : SizeOf(S) >= SizeOf(ms[i])
EmitCase ==
    /\ done = "struct" => PrintT(<<"CASE", ToJson([kind |-> "struct", ms |-> [i \in 1..Len(ms) |-> Name(ms[i])],
                                                   size |-> SizeOf(S), align |-> AlignOf(S),
                                                   size2 |-> SizeOfM(S, "members")])>>)
    /\ done = "len" => PrintT(<<"CASE", ToJson([kind |-> "len", n |-> len, mode |-> mode, elem |-> elem,
                                                expect |-> LenOf(len, mode),
                                                size |-> SizeOf([k |-> "array", n |-> len, e |-> Prim(elem)])])>>)
==============================================================================

SPECIFICATION Spec
CONSTANTS
  Fuel = 500
  Ops1 = {"+", "-", "*"}
  Ops2 = {"+", "*"}
  Chains = {1, 2, 3}
INVARIANTS Sane ConstEqualsVar EmitCase
CHECK_DEADLOCK FALSE

SPECIFICATION TSpec
CONSTANTS
  MaxLen = 0
  MaxDepth = 0
  VNames = {"a"}
  LNames = {"a"}
  BodyKinds = {"O"}
  Configs = {}
  Strict = FALSE
POSTCONDITION Accepted
CHECK_DEADLOCK FALSE

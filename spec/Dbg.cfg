

SPECIFICATION Spec
CONSTANTS
  Core = TRUE
  AllSeps = TRUE
INVARIANT PairOK
CHECK_DEADLOCK FALSE

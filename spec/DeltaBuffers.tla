---------------------------- MODULE DeltaBuffers ----------------------------
(***************************************************************************)
(* C15 -- the second-generation front end is total and memory-safe.        *)
(*                                                                         *)
(* The front end works on two pre-sized, uninitialised buffers that are    *)
(* published with `unsafe set_len`:                                        *)
(*   tokens  (src/delta/lexer/tokens.rs)   capacity from the source length *)
(*   nodes   (src/delta/parser/parse_tree.rs) capacity from the token count*)
(* Safety and totality depend on counters staying inside those capacities  *)
(* for every input.  This module contains                                  *)
(*                                                                         *)
(*   the buffer protocol: PushToken (bound check, else E103), PushNode     *)
(*        (bound check, else the code PANICS -- bad state `crash`),        *)
(*        SetLen(n) (n must be the number of initialised slots and <= cap),*)
(*        Take (cursor + 1, possibly past a reservation window / past the  *)
(*        last real token, never past the second EndOfSource);             *)
(*   Gen: a grammar of the token language of parser.rs in which every      *)
(*        production is annotated with (tokens consumed, nodes pushed),    *)
(*        read off parser.rs; a derivation is at the same time an input    *)
(*        and the run of the parser on it.  Derivations may be aborted by  *)
(*        a token no production accepts (`_`), truncated (end of file) or  *)
(*        polluted with an invalid lexeme;                                 *)
(*   R:   no crash; SetLen argument = number of initialised slots <= cap;  *)
(*        cursor <= number of tokens; the outcome is either "accepted      *)
(*        without diagnostics" or "rejected with codes"; well-formed       *)
(*        derivations are accepted, inputs with an invalid lexeme are      *)
(*        rejected, an exhausted token buffer is reported as E103.         *)
(*                                                                         *)
(* With CapFactor = 2 (the pinned tree: 5 + 2 * tokens) NoCrash is         *)
(* violated -- a genuine defect (MC_DeltaBuffers_defect.cfg).  The worst   *)
(* reachable ratio is 4 nodes per token (`x + x + x ...`: 2 tokens -> 8    *)
(* nodes); MC_DeltaBuffers_k4*.cfg check that 5 + 4 * tokens suffices.     *)
(***************************************************************************)
EXTENDS Naturals, Sequences, FiniteSets, TLC

CONSTANTS CapFactor,      \* node capacity = Pad + CapFactor * (number of tokens incl. 2 x EndOfSource)
          TokMin, TokMax, \* token capacity = min(max(source_len / 2, TokMin), TokMax)
          ErrCap,         \* MAX_NUM_LEXING_ERRORS (scaled down in model checking)
          MaxToks,        \* bound on the number of generated lexemes
          MaxAborts,      \* junk tokens / truncations per derivation
          MaxBad,         \* invalid lexemes per derivation
          Densities,      \* bytes per lexeme (source_len = density * lexemes)
          DeclAlts, StmtAlts, PrimAlts, UnaryAlts, TypeAlts, ExprAlts,  \* enabled productions
          ExpectationTextComplete  \* FALSE = the pinned tree: Tokens::consume has no expectation text for Comma
                                   \* and Colon and runs into unreachable!() when such a token is missing

Pad == 5
MinOf(a, b) == IF a < b THEN a ELSE b
MaxOf(a, b) == IF a > b THEN a ELSE b

(***************************************************************************)
(* The buffer protocol.                                                    *)
(***************************************************************************)
TokCap(len) == MinOf(MaxOf(len \div 2, TokMin), TokMax)          \* Tokens::empty
ErrorCap(len) == MinOf(len, ErrCap)
NodeCap(ntok) == Pad + CapFactor * ntok                      \* ParseTree::empty
NodeErrCap(ntok) == MinOf(NodeCap(ntok), 100)

\* a pre-sized buffer: cap slots, `pushes` of them initialised, `n` = published length,
\* full = a push was refused (tokens), crash = a push was refused by panicking (nodes)
Buf(cap, len) == [cap |-> cap, len |-> len, pushes |-> 0, n |-> 0, full |-> FALSE, crash |-> FALSE]
PushToken(b) == IF b.full THEN b                              \* the `?` already left the loop
                ELSE IF b.pushes < b.cap THEN [b EXCEPT !.pushes = @ + 1]
                ELSE [b EXCEPT !.full = TRUE]                 \* Err(TokenAllocError) -> E103
PushNode(b) == IF b.crash THEN b
               ELSE IF b.pushes < b.cap THEN [b EXCEPT !.pushes = @ + 1]
               ELSE [b EXCEPT !.crash = TRUE]                 \* panic!("Number of parse nodes greatly exceeds ...")
RECURSIVE PushNodes(_, _)
PushNodes(b, k) == IF k = 0 THEN b ELSE PushNodes(PushNode(b), k - 1)
SetLen(b) == [b EXCEPT !.n = b.pushes]                        \* into_num_initialized_* -> set_*_len
SetLenOK(b) == b.n = b.pushes /\ b.n <= b.cap                 \* the SAFETY comment of set_tokens_len / set_nodes_len

(***************************************************************************)
(* Gen: the annotated grammar.  A task is                                  *)
(*   T(a, n)     take token a, then push n nodes; the parser insists on    *)
(*               this token (consume(..)? / unconditional take), so any    *)
(*               other token here is a parse error that costs one take     *)
(*   U(a, n)     the same through Tokens::consume with a token kind for    *)
(*               which consume has no expectation text (Comma, Colon)      *)
(*   O(a, n)     a token the parser selected by peeking                    *)
(*   NT(a)       expand nonterminal a                                      *)
(*   P(n)        push n nodes                                              *)
(*   Z(a)        set_private / set_public (a node only if the zone state   *)
(*               changes)                                                  *)
(*   W(a)        open / close the reservation window of an if-condition    *)
(*   DEnd        finish_declaration                                        *)
(***************************************************************************)
Task(k, a, n, m) == [k |-> k, a |-> a, n |-> n, m |-> m]
T(a, n) == Task("T", a, n, "t")
U(a, n) == Task("T", a, n, "u")
O(a, n) == Task("T", a, n, "o")
NT(a) == Task("N", a, 0, "")
P(n) == Task("P", "", n, "")
Z(a) == Task("Z", a, 0, "")
W(a) == Task("W", a, 0, "")
DEnd == Task("D", "", 0, "")
Greedy == Task("G", "", 0, "")   \* the sub-expression just parsed was greedy: no operator can follow it

\* minimal number of tokens a nonterminal still needs (for pruning derivations that cannot finish)
MinT(a) == CASE a \in {"Decls", "Ret", "VarType", "VarInit", "Else", "AddRest", "BitRest", "MulRest", "AsRest",
                       "Dots", "Steps"} -> 0
             [] a \in {"Stmt"} -> 2
             [] a \in {"Cmp"} -> 3
             [] OTHER -> 1
RECURSIVE Need(_)
Need(stack) == IF stack = <<>> THEN 0
               ELSE LET h == Head(stack)
                    IN (IF h.k = "T" THEN 1 ELSE IF h.k = "N" THEN MinT(h.a) ELSE 0) + Need(Tail(stack))

En(set, name) == name \in set

\* Alternatives of a nonterminal: a set of task sequences.  pubfn: the enclosing function is pub;
\* inw: inside the reservation window of an if-condition (no `{` may be consumed there).
TypeInner ==
    { <<O("ty", 1)>>, <<O("&", 0), NT("Inner"), P(1)>>, <<O("[", 0), T("]", 0), NT("Inner"), P(1)>> }
Alts(name, inw) ==
    CASE name = "Decls" ->
            {<<>>}
            \* after `pub` / `extern` the parser insists on a declaring keyword; a private declaration
            \* starts where find_next(starts_declaration) found such a keyword
            \* `extern` is a modifier of every kind of declaration but imports (docs/features.md: "Structures and
            \* constants can also be declared extern"), found by peeking; the declaring keyword after a modifier
            \* is insisted upon
            \cup UNION { { (IF p THEN <<O("pub", 0), Z("pub")>> ELSE <<Z("priv")>>)
                   \o (IF e THEN <<O("extern", 0)>> ELSE <<>>)
                   \o <<(IF p \/ e THEN T(body[1], 0) ELSE O(body[1], 0))>>
                   \o body[2] \o <<DEnd, NT("Decls")>> :
                     body \in
                       (IF En(DeclAlts, "import") /\ ~e THEN {<<"import", <<T("str", 0), T(";", 3)>>>>} ELSE {})
                       \cup (IF En(DeclAlts, "const")
                             THEN {<<"const", <<T("id", 0), T(":", 0), NT("Type"), T("=", 0), NT("Expr"), T(";", 4)>>>>} ELSE {})
                       \cup (IF En(DeclAlts, "opaque") THEN {<<"struct", <<T("id", 0), O(";", 6)>>>>} ELSE {})
                       \cup (IF En(DeclAlts, "struct") THEN {<<"struct", <<T("id", 0), T("{", 0), NT("Members")>>>>} ELSE {})
                       \cup (IF En(DeclAlts, "word") THEN {<<"word8", <<T("id", 0), T("{", 0), NT("Members")>>>>} ELSE {})
                       \cup (IF En(DeclAlts, "fn")
                             THEN {<<"fn", <<T("id", 0), T("(", 0), NT("Params"), NT("Ret"), P(6),
                                           NT(IF p THEN "FnRestP" ELSE "FnRestQ")>>>>} ELSE {})
                   } : p \in BOOLEAN, e \in (IF En(DeclAlts, "extern") THEN BOOLEAN ELSE {FALSE}) }
      \* the list item is pushed before the parser looks for the comma; the last member needs no comma
      \* (pinned tree: consume(Comma) without expectation text after every member)
      [] name = "Members" -> { <<O("}", 6)>>,
                               <<T("id", 0), T(":", 0), NT("Type"), P(2), NT("MembersMore")>> }
      [] name = "MembersMore" -> IF ExpectationTextComplete
                                 THEN { <<O(",", 0), NT("Members")>>, <<T("}", 6)>> }
                                 ELSE { <<U(",", 0), NT("Members")>> }
      [] name = "Params" -> { <<O(")", 1)>>, <<T("id", 0), T(":", 0), NT("Type"), P(2), NT("ParamsMore")>> }
      [] name = "ParamsMore" -> { <<O(",", 0), NT("Params")>>, <<T(")", 1)>> }
      [] name = "Ret" -> { <<P(1)>>, <<O("->", 0), NT("Type")>> }
      [] name = "FnRestP" -> { <<O(";", 0)>>, <<Z("priv"), T("{", 0), NT("BodyP")>> }
      [] name = "FnRestQ" -> { <<O(";", 0)>>, <<T("{", 0), NT("BodyQ")>> }
      [] name \in {"BodyP", "BodyQ"} ->
            LET close == IF name = "BodyP" THEN <<Z("pub")>> ELSE <<>>
            IN { <<O("}", 4)>> \o close,
                 <<O("return", 1), U(":", 0), NT("Expr"), P(3)>> \o close \o <<O("}", 0)>>,
                 <<NT("Stmt"), P(1), NT(name)>> }
      [] name = "Stmt" ->
            (IF En(StmtAlts, "loop") THEN {<<T("loop", 0), T(";", 1)>>} ELSE {})
            \cup (IF En(StmtAlts, "goto") THEN {<<T("goto", 0), T("id", 0), T(";", 2)>>} ELSE {})
            \cup (IF En(StmtAlts, "label") THEN {<<T("id", 0), O(":", 2)>>} ELSE {})
            \cup (IF En(StmtAlts, "call") THEN {<<T("id", 0), O("(", 0), NT("Args"), T(";", 3)>>} ELSE {})
            \cup (IF En(StmtAlts, "bcall") THEN {<<T("bi", 0), T("(", 0), NT("Args"), T(";", 3)>>} ELSE {})
            \cup (IF En(StmtAlts, "assign")
                  THEN {<<T("id", 0), NT("Steps"), P(4), T("=", 0), NT("Expr"), T(";", 2)>>} ELSE {})
            \cup (IF En(StmtAlts, "aassign")
                  THEN {<<T("&", 0), T("id", 0), NT("Steps"), P(4), T("=", 0), NT("Expr"), T(";", 2)>>} ELSE {})
            \cup (IF En(StmtAlts, "var") THEN {<<T("var", 0), T("id", 0), NT("VarType"), NT("VarInit"), T(";", 3)>>} ELSE {})
            \cup (IF En(StmtAlts, "block") THEN {<<T("{", 0), NT("Block")>>} ELSE {})
            \cup (IF En(StmtAlts, "if")
                  THEN {<<T("if", 0), W("open"), NT("Cmp"), W("close"), NT("Stmt"), NT("Else"), P(1)>>} ELSE {})
      [] name = "VarType" -> { <<>>, <<O(":", 0), NT("Type")>> }
      [] name = "VarInit" -> { <<>>, <<O("=", 0), NT("Expr")>> }
      [] name = "Block" -> { <<O("}", 2)>>, <<NT("Stmt"), P(1), NT("Block")>> }
      [] name = "Cmp" -> { <<NT("Expr"), T("==", 0), NT("Expr"), P(3)>> }
      [] name = "Else" -> { <<P(1)>>, <<O("else", 0), NT("Stmt"), P(1)>> }
      [] name = "Args" -> { <<O(")", 1)>>, <<NT("Expr"), P(1), NT("ArgsMore")>> }
      [] name = "ArgsMore" -> { <<O(",", 0), NT("Args")>>, <<T(")", 1)>> }
      [] name = "Elems" -> { <<O("]", 1)>>, <<NT("Expr"), P(1), NT("ElemsMore")>> }
      [] name = "ElemsMore" -> { <<O(",", 0), NT("Elems")>>, <<T("]", 1)>> }
      [] name = "Fields" -> { <<O("}", 1)>> }
                            \cup { <<T("id", 0)>> \o v \o <<P(2), NT("FieldsMore")>> : v \in {<<O(":", 0), NT("Expr")>>, <<P(5)>>} }
      [] name = "FieldsMore" -> { <<O(",", 0), NT("Fields")>>, <<T("}", 1)>> }
      [] name = "Expr" -> { <<NT("Mul"), NT("AddRest")>> }
      [] name = "AddRest" ->
            {<<>>}
            \cup (IF En(ExprAlts, "add") THEN {<<O("+", 0), NT("Mul"), P(3), NT("AddRest")>>} ELSE {})
            \cup (IF En(ExprAlts, "bit") THEN {<<O("^", 0), NT("Unary"), P(3), NT("BitRest")>>} ELSE {})
            \cup (IF En(ExprAlts, "shift") THEN {<<O("<<", 0), NT("Unary"), P(3)>>} ELSE {})
      [] name = "BitRest" -> { <<>>, <<O("^", 0), NT("Unary"), P(3), NT("BitRest")>> }
      [] name = "Mul" -> { <<NT("Sing"), NT("MulRest")>> }
      [] name = "MulRest" -> {<<>>} \cup (IF En(ExprAlts, "mul") THEN {<<O("*", 0), NT("Sing"), P(3), NT("MulRest")>>} ELSE {})
      [] name = "Sing" -> {<<NT("Unary"), NT("AsRest")>>}
                          \cup (IF En(ExprAlts, "cast") THEN {<<O("cast", 0), NT("Unary"), P(1), NT("AsRest")>>} ELSE {})
      [] name = "AsRest" -> {<<>>} \cup (IF En(ExprAlts, "as") THEN {<<O("as", 0), NT("Type"), P(2), NT("AsRest")>>} ELSE {})
      [] name = "Unary" ->
            {<<NT("Prim")>>}
            \cup (IF En(UnaryAlts, "neg") THEN {<<O("-", 0), NT("Prim"), P(2)>>} ELSE {})
            \cup (IF En(UnaryAlts, "sizeof") THEN {<<O("|:", 0), NT("Type"), T("|", 1)>>} ELSE {})
            \cup (IF En(UnaryAlts, "lenof") THEN {<<O("|", 0), T("id", 0), NT("Steps"), P(4), T("|", 1)>>} ELSE {})
      [] name = "Prim" ->
            (IF En(PrimAlts, "lit") THEN {<<T("lit", 1)>>} ELSE {})
            \cup (IF En(PrimAlts, "suf") THEN {<<T("suf", 2)>>} ELSE {})
            \cup (IF En(PrimAlts, "str") THEN {<<T("str", 1)>>, <<T("str", 0), O("str", 2)>>} ELSE {})
            \cup (IF En(PrimAlts, "addr") THEN {<<T("&", 0), T("id", 0), NT("Steps"), P(4), NT("Dots")>>} ELSE {})
            \cup (IF En(PrimAlts, "fcall") THEN {<<T("id", 0), O("(", 0), NT("Args"), P(3)>>} ELSE {})
            \cup (IF En(PrimAlts, "bcall") THEN {<<T("bi", 0), T("(", 0), NT("Args"), P(3)>>} ELSE {})
            \cup (IF En(PrimAlts, "structural") /\ ~inw THEN {<<T("id", 0), O("{", 0), NT("Fields"), P(2)>>} ELSE {})
            \cup (IF En(PrimAlts, "id") THEN {<<T("id", 0), NT("Steps"), P(4)>>} ELSE {})
            \cup (IF En(PrimAlts, "array") THEN {<<T("[", 0), NT("Elems"), P(2)>>} ELSE {})
            \cup (IF En(PrimAlts, "paren") THEN {<<T("(", 0), NT("Expr"), T(")", 1)>>} ELSE {})
      \* the offset of `&x .. e` is a whole expression: whatever operator follows was consumed by it
      [] name = "Dots" -> { <<>>, <<O("..", 0), NT("Expr"), P(3), Greedy>> }
      [] name = "Steps" ->
            {<<P(1)>>}
            \cup (IF En(PrimAlts, "index") THEN {<<O("[", 0), NT("Expr"), T("]", 2), NT("Steps")>>} ELSE {})
            \cup (IF En(PrimAlts, "member") THEN {<<O(".", 0), T("id", 2), NT("Steps")>>} ELSE {})
      [] name = "Type" ->
            (IF En(TypeAlts, "kw") THEN {<<T("ty", 1)>>} ELSE {})
            \cup (IF En(TypeAlts, "named") THEN {<<T("id", 1)>>} ELSE {})
            \cup (IF En(TypeAlts, "ptr") THEN {<<T("&", 0), NT("Inner"), P(3)>>} ELSE {})
            \cup (IF En(TypeAlts, "arr") THEN {<<T("[", 0), T("]", 0), NT("Inner"), P(3)>>} ELSE {})
      [] name = "Inner" ->
            {<<T("ty", 1)>>}
            \cup (IF En(TypeAlts, "ptr") THEN {<<T("&", 0), NT("Inner"), P(1)>>} ELSE {})
            \cup (IF En(TypeAlts, "arr") THEN {<<T("[", 0), T("]", 0), NT("Inner"), P(1)>>} ELSE {})
      [] OTHER -> {}

\* nonterminals at which a token that fits no alternative is taken and rejected before any node is pushed
TakesFirst == {"Members", "MembersMore", "Params", "ParamsMore", "BodyP", "BodyQ", "Stmt", "Block", "Cmp", "Args", "ArgsMore",
               "Elems", "ElemsMore", "Fields", "FieldsMore", "Expr", "Mul", "Sing", "Unary", "Prim", "Type", "Inner"}

(***************************************************************************)
(* A derivation state.  cost[i + 1] = nodes pushed after taking token i    *)
(* and before taking token i + 1; cost[1] = the padding.                   *)
(***************************************************************************)
G0 == [toks |-> <<>>, cost |-> <<Pad>>, stack |-> <<NT("Decls")>>, zone |-> FALSE, inw |-> FALSE,
       errs |-> 0, trunc |-> FALSE, bad |-> 0, takes |-> 0, decls |-> 0, unreachable |-> FALSE, greedy |-> FALSE]

AddCost(g, n) == [g EXCEPT !.cost[Len(g.cost)] = @ + n]

RunOne(g) ==
    LET h == Head(g.stack)
        r == Tail(g.stack)
    IN CASE h.k = "T" -> [g EXCEPT !.toks = Append(@, h.a), !.cost = Append(@, h.n), !.stack = r, !.takes = @ + 1,
                                   !.greedy = FALSE]
         [] h.k = "G" -> [g EXCEPT !.stack = r, !.greedy = TRUE]
         [] h.k = "P" -> [AddCost(g, h.n) EXCEPT !.stack = r]
         [] h.k = "Z" ->
              IF h.a = "priv"
              THEN (IF g.zone THEN [g EXCEPT !.stack = r] ELSE [AddCost(g, 1) EXCEPT !.stack = r, !.zone = TRUE])
              ELSE (IF g.zone THEN [AddCost(g, 1) EXCEPT !.stack = r, !.zone = FALSE] ELSE [g EXCEPT !.stack = r])
         [] h.k = "W" -> [g EXCEPT !.stack = r, !.inw = (h.a = "open")]
         [] h.k = "D" -> [g EXCEPT !.stack = r, !.decls = @ + 1]
         [] OTHER -> g

\* the tasks after the end of the current declaration
RECURSIVE AfterDecl(_)
AfterDecl(stack) == IF stack = <<>> THEN <<>>
                    ELSE IF Head(stack).k = "D" THEN Tail(stack) ELSE AfterDecl(Tail(stack))
InDecl(stack) == \E x \in 1..Len(stack) : stack[x].k = "D"

\* a token that no production accepts is taken where the parser insists on something else: one take,
\* one stored error, the rest of the declaration is skipped (find_next(starts_declaration))
AbortAt(g) == [g EXCEPT !.toks = Append(@, "_"), !.cost = Append(@, 0), !.stack = AfterDecl(g.stack),
                        !.errs = @ + 1, !.inw = FALSE, !.takes = @ + 1]
\* end of file at the same place: the take goes one past the last real token
TruncAt(g) == [g EXCEPT !.stack = <<>>, !.errs = @ + 1, !.trunc = TRUE, !.inw = FALSE, !.takes = @ + 1]
CanAbort(g) == g.errs < MaxAborts /\ InDecl(g.stack)

\* consume(Comma) / consume(Colon) on any other token: unreachable!() instead of a ParsingError
Unreachable(g0) == [g0 EXCEPT !.stack = <<>>, !.unreachable = TRUE]
Blow(h, g1) == IF h.m = "u" /\ ~ExpectationTextComplete THEN Unreachable(g1) ELSE g1

\* run the leading deterministic tasks; at every mandatory token the derivation may be aborted / truncated
RECURSIVE Runs(_)
Runs(g) == IF g.stack = <<>> \/ Head(g.stack).k = "N" THEN {g}
           ELSE LET h == Head(g.stack)
                IN (IF h.k = "T" /\ h.m \in {"t", "u"} /\ CanAbort(g)
                    THEN {Blow(h, TruncAt(g))} \cup (IF Len(g.toks) < MaxToks THEN {Blow(h, AbortAt(g))} ELSE {})
                    ELSE {})
                   \cup Runs(RunOne(g))

(***************************************************************************)
(* Running the front end on a finished derivation (lexer, then parser).    *)
(***************************************************************************)
RECURSIVE LexFrom(_, _, _, _)
LexFrom(b, toks, i, errs) ==       \* b: token buffer; returns [b, errs]
    IF i > Len(toks) THEN [b |-> b, errs |-> errs]
    ELSE IF toks[i] \in {"bad", "badstr", "badchr"}
         THEN IF errs < ErrorCap(b.len)     \* push_error: beyond the cap the lexeme is dropped silently
              THEN LET b1 == PushToken(b) IN LexFrom(b1, toks, i + 1, IF b1.full THEN errs ELSE errs + 1)
              ELSE LexFrom(b, toks, i + 1, errs)
         ELSE LexFrom(PushToken(b), toks, i + 1, errs)
Lex(toks, dens) ==
    LET len == dens * Len(toks)
        b0 == Buf(TokCap(len), len)
        r == LexFrom(b0, toks, 1, 0)
        b2 == SetLen(PushToken(PushToken(r.b)))                 \* push_end_of_source: two EndOfSource tokens
    IN [b |-> b2, errs |-> r.errs, len |-> len]

RECURSIVE ParseFrom(_, _, _)
ParseFrom(b, cost, i) == IF i > Len(cost) \/ b.crash THEN b ELSE ParseFrom(PushNodes(b, cost[i]), cost, i + 1)
Parse(gg, ntok) == SetLen(ParseFrom(Buf(NodeCap(ntok), ntok), gg.cost, 1))

Run(gg, dens) ==
    LET lx == Lex(gg.toks, dens)
        ntok == lx.b.n
        parsed == ~lx.b.full /\ lx.errs = 0
        nb == IF parsed THEN Parse(gg, ntok) ELSE Buf(0, 0)
        crash == parsed /\ (nb.crash \/ gg.unreachable)
        codes == IF lx.b.full THEN {"E103"}
                 ELSE IF lx.errs > 0 THEN {"E1xx"}
                 ELSE IF gg.errs > 0 THEN {"E3xx"} ELSE {}
    IN [tok |-> lx.b, lexerrs |-> lx.errs, len |-> lx.len, parsed |-> parsed, node |-> nb,
        ntok |-> ntok, cursor |-> gg.takes,
        crash |-> crash,
        \* which of the two panics: the node buffer overflows first if it overflows at all
        how |-> IF ~crash THEN "" ELSE IF nb.crash THEN "nodes" ELSE "unreachable",
        outcome |-> IF crash THEN "crash" ELSE IF codes = {} THEN "accepted" ELSE "rejected",
        codes |-> codes]

(***************************************************************************)
(* The state machine TLC explores.                                         *)
(***************************************************************************)
VARIABLES g, phase, res
vars == <<g, phase, res>>

NoRes == [outcome |-> "none"]
Init == g = G0 /\ phase = "gen" /\ res = NoRes

\* expand the leading nonterminal by one production and run what is determined
Expand == /\ phase = "gen" /\ g.stack # <<>> /\ Head(g.stack).k = "N"
          /\ \E alt \in (IF g.greedy /\ Head(g.stack).a \in {"AsRest", "MulRest", "AddRest", "BitRest"}
                         THEN {<<>>} ELSE Alts(Head(g.stack).a, g.inw)) :
                LET g1 == [g EXCEPT !.stack = alt \o Tail(g.stack)]
                IN /\ Len(g1.toks) + Need(g1.stack) <= MaxToks
                   /\ g' \in Runs(g1)
          /\ UNCHANGED <<phase, res>>

\* junk / end of file where the parser must take a token to go on
AbortN == /\ phase = "gen" /\ g.stack # <<>> /\ Head(g.stack).k = "N" /\ Head(g.stack).a \in TakesFirst
          /\ CanAbort(g)
          /\ \/ (Len(g.toks) < MaxToks /\ g' \in Runs(AbortAt(g)))
             \/ g' = TruncAt(g)
          /\ UNCHANGED <<phase, res>>

\* an invalid lexeme anywhere
BadLexeme == /\ phase = "gen" /\ g.bad < MaxBad /\ Len(g.toks) + Need(g.stack) < MaxToks /\ ~g.trunc
             /\ g' = [g EXCEPT !.toks = Append(@, "bad"), !.cost = Append(@, 0), !.bad = @ + 1]
             /\ UNCHANGED <<phase, res>>

\* an invalid lexeme IN THE PLACE OF A LITERAL: a string or character literal of a finished, otherwise error-free
\* derivation holds a raw control character (docs/errors.md E110: U+0000..U+001F and U+007F must be escaped).
\* Everything else of the module stays well formed, so only the lexer can reject it (an extra token anywhere, as
\* in BadLexeme, is rejected by the parser as well).  The token keeps its place and its cost.
BadLiteral == /\ phase = "gen" /\ g.stack = <<>> /\ g.bad = 0 /\ g.bad < MaxBad /\ g.errs = 0 /\ ~g.trunc
              /\ \E i \in 1..Len(g.toks) :
                    /\ g.toks[i] \in {"str", "chr"}
                    /\ g' = [g EXCEPT !.toks[i] = (IF @ = "str" THEN "badstr" ELSE "badchr"), !.bad = @ + 1]
              /\ UNCHANGED <<phase, res>>

Finish == /\ phase = "gen" /\ g.stack = <<>>
          /\ \E dens \in Densities : res' = Run(g, dens)
          /\ phase' = "done"
          /\ UNCHANGED g

Next == Expand \/ AbortN \/ BadLexeme \/ BadLiteral \/ Finish
Spec == Init /\ [][Next]_vars

(***************************************************************************)
(* R.                                                                      *)
(***************************************************************************)
WellFormed == g.errs = 0 /\ g.bad = 0 /\ ~g.trunc
Done == phase = "done"

NoCrash == Done => ~res.crash
SetLenArg == Done => SetLenOK(res.tok) /\ (res.parsed => SetLenOK(res.node))
CursorOK == Done /\ res.parsed => res.cursor <= res.ntok
OutcomeOK == Done /\ ~res.crash =>
                /\ res.outcome \in {"accepted", "rejected"}
                /\ (res.outcome = "accepted") = (res.codes = {})
Verdict == Done /\ ~res.crash =>
                /\ (WellFormed /\ ~res.tok.full => res.outcome = "accepted")
                /\ (g.bad > 0 => res.outcome = "rejected")
                /\ (res.tok.full => res.codes = {"E103"})
                /\ (res.codes = {"E103"} => res.tok.full)
\* E103 is a limit on the number of tokens, never raised below TokMin tokens
ResourceLimit == Done /\ res.tok.full => Len(g.toks) + 2 > TokMin

\* the quantity the capacity formula must bound: nodes pushed vs tokens (incl. 2 x EndOfSource)
RECURSIVE Sum(_, _)
Sum(s, i) == IF i > Len(s) THEN 0 ELSE s[i] + Sum(s, i + 1)
NodesNeeded == Sum(g.cost, 1)
\* VIEW for the model-checking configurations: the text of the derivation does not matter for the counters
CounterView == <<g.stack, Len(g.toks), NodesNeeded, g.zone, g.inw, g.errs, g.trunc, g.bad, g.unreachable, g.greedy, phase,
                 IF phase = "done" THEN res.outcome ELSE "">>
=============================================================================

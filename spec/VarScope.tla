------------------------------ MODULE VarScope ------------------------------
(***************************************************************************)
(* C05 -- no variable is used out of scope, shadowed, or with its          *)
(* declaration skipped.                                                    *)
(*                                                                         *)
(*   Gen   grows bodies over { } var a/b, use a/b, x:, goto x, if-goto x,  *)
(*         loop; a module configuration adds constants and parameters.     *)
(*   R     the syntactic rule: E402 (no textually earlier declaration in   *)
(*         the same or an enclosing scope; constants and parameters are    *)
(*         visible throughout), E422 (a declaration reuses a visible       *)
(*         name), E424 (a parameter reuses a name), E482 (a forward jump   *)
(*         skips the declaration a later use resolves to).                 *)
(*   Path  the independent, operational definition: TLC walks the          *)
(*         control-flow graph of every body the rule accepts, with the set *)
(*         `live` of executed declarations, and checks that every use      *)
(*         finds its declaration executed (invariant Sound).               *)
(*   A     src/alpha/scoper/variable_references.rs as a state machine:     *)
(*         variable_stack, unresolved_labels (intersection of in-scope     *)
(*         sets over the gotos of a label), pruned_variables,              *)
(*         poisoned_variables; one step per push_scope / pop_scope /       *)
(*         declare_variable / use_variable / prepare_to_prune_at_goto /    *)
(*         prune_at_label.                                                 *)
(*                                                                         *)
(* Declarations are identified by integers: body position p >= 1 for       *)
(* `var`, 0 for the harness variable x (first statement of the body),      *)
(* -i for the i-th parameter, -(10+i) for the i-th constant.               *)
(***************************************************************************)
EXTENDS FlatBody

CONSTANTS MaxLen, MaxDepth,
          MinFns, MaxFns,   \* number of function bodies of a module (items "F", see FlatBody.tla)
          NeedResult,    \* TRUE: only modules in which some function ends with `return:` and a result are finished
          Phased,        \* TRUE: only bodies of the form gotos* declarations* (labels | uses)* (longer bodies, fewer)
          VNames,        \* names of variables in bodies
          LNames,        \* label names
          BodyKinds,     \* item kinds the generator may use
          Configs        \* set of [consts |-> seq of names, params |-> seq of names]

Item(k, n) == [k |-> k, n |-> n]
\* Dimension audit: further use contexts
\*   W n   n = x;             the variable as assignment target
\*   VR n  var n: i32 = n;    a use inside its own declaration (the initialiser is analysed first)
\*   RV n  n                  the result expression after `return:` (last statement of a function body)
\*   F     a new function starts (its `var x` is declaration f = the position of the item)
DeclKinds == {"V", "VR"}
UseKinds == {"U", "W", "VR", "RV"}
\* (Z: a statement that holds an EMPTY array literal, `var zz: [0]i32 = [];` with a name of its own -- a plain statement for the rule;
\* ninth round of seeded changes: the scoper's visit of `[]` left a scope layer behind)
Items == {Item(k, "") : k \in (Openers \cup {"C", "LP", "S", "Z"}) \cap BodyKinds}
           \cup {Item(k, n) : k \in (DeclKinds \cup UseKinds) \cap BodyKinds, n \in VNames}
           \cup {Item(k, n) : k \in (GotoKinds \cup {"L"}) \cap BodyKinds, n \in LNames}
           \cup {Item("F", "x")}

IsV(b, i) == b[i].k \in DeclKinds
IsU(b, i) == b[i].k \in UseKinds
ParamId(i) == 0 - i
ConstId(i) == 0 - (10 + i)
ParamIds(c) == { ParamId(i) : i \in 1..Len(c.params) }
ConstIds(c) == { ConstId(i) : i \in 1..Len(c.consts) }
\* name of any declaration id
NameOf(b, c, d) == IF d >= 1 THEN b[d].n
                   ELSE IF d = 0 THEN "x"
                   ELSE IF d > 0 - 10 THEN c.params[0 - d]
                   ELSE c.consts[0 - d - 10]

(***************************************************************************)
(* Label resolution (rule of C04): the variable rule is stated for bodies  *)
(* whose gotos and labels are all legal.                                   *)
(***************************************************************************)
LabelOK(b) == RuleAccepts(b)
\* Unique when LabelOK.  Otherwise the label scoper picks the label of the outermost block, and
\* within a block the textually last one (first pushed in its right-to-left scan).
Target(b, g) == CHOOSE j \in LegalTargets(b, g) : \A j2 \in LegalTargets(b, g) :
                    (BlockOf(b, j) < BlockOf(b, j2)) \/ (BlockOf(b, j) = BlockOf(b, j2) /\ j >= j2)

(***************************************************************************)
(* R -- the syntactic rule.                                                *)
(***************************************************************************)
\* declarations (of any name) visible at item i: textually earlier, same or enclosing block
VarVisible(b, d, i) == d >= 1 /\ d < i /\ IsV(b, d) /\ Encloses(b, BlockOf(b, d), i)
VisibleDecls(b, c, i) == { d \in 1..Len(b) : VarVisible(b, d, i) } \cup {0} \cup ParamIds(c) \cup ConstIds(c)
DeclsFor(b, c, i) == { d \in VisibleDecls(b, c, i) : NameOf(b, c, d) = b[i].n }
R402(b, c) == { u \in 1..Len(b) : IsU(b, u) /\ DeclsFor(b, c, u) = {} }
R422(b, c) == { d \in 1..Len(b) : IsV(b, d) /\ DeclsFor(b, c, d) # {} }
\* a parameter reuses the name of a constant or of an earlier parameter
R424(c) == { i \in 1..Len(c.params) :
               (\E j \in 1..Len(c.consts) : c.consts[j] = c.params[i])
                  \/ (\E q \in 1..(i - 1) : c.params[q] = c.params[i]) }
\* a constant reuses the name of an earlier constant (E423, outside the property's family but a root cause)
R423(c) == { i \in 1..Len(c.consts) : \E j \in 1..(i - 1) : c.consts[j] = c.consts[i] }
NoDup(b, c) == R422(b, c) = {} /\ R424(c) = {} /\ R423(c) = {}

\* a goto g jumps over declaration d: d lies between g and its label, in the label's own block
JumpsOver(b, g, d) == LET t == Target(b, g)
                      IN IsG(b, g) /\ ~BadGoto(b, g) /\ g < d /\ d < t /\ BlockOf(b, d) = BlockOf(b, t)
\* use u is reached by a jump that skips the declaration d it resolves to
BadUse(b, c, u, d) == /\ IsU(b, u) /\ d >= 1 /\ DeclsFor(b, c, u) = {d}
                      /\ \E g \in 1..Len(b) : JumpsOver(b, g, d) /\ Target(b, g) < u
BadUses(b, c) == { u \in 1..Len(b) : \E d \in 1..Len(b) : BadUse(b, c, u, d) }
R482decl(b, c) == { d \in 1..Len(b) : \E u \in 1..Len(b) : BadUse(b, c, u, d) }
FirstBadUse(b, c, d) == CHOOSE u \in 1..Len(b) : BadUse(b, c, u, d) /\ \A v \in 1..Len(b) : BadUse(b, c, v, d) => u <= v
R482first(b, c) == { FirstBadUse(b, c, d) : d \in R482decl(b, c) }

RuleAcceptsVars(b, c) == LabelOK(b) /\ R402(b, c) = {} /\ NoDup(b, c) /\ R482decl(b, c) = {}

(***************************************************************************)
(* Modules with several functions: the rule above is applied to every      *)
(* function body on its own (FlatBody.tla, Seg) -- variables, parameters   *)
(* and labels of one function mean nothing in another, constants are       *)
(* visible in all of them.  The parameters of the configuration belong to  *)
(* the FIRST function; the others have none.  Declaration ids are lifted:  *)
(* local position q >= 1 is f + q, the `var x` of the function (local 0)   *)
(* is f, parameters and constants keep their (negative) ids.               *)
(***************************************************************************)
CfgOf(c, f) == IF f = 0 THEN c ELSE [c EXCEPT !.params = <<>>]
LiftIds(f, S) == { IF d >= 0 THEN f + d ELSE d : d \in S }
MLabelOK(b) == MRuleAccepts(b)
MR402(b, c) == UNION { Lift(f, R402(Seg(b, f), CfgOf(c, f))) : f \in FStarts(b) }
MR422(b, c) == UNION { Lift(f, R422(Seg(b, f), CfgOf(c, f))) : f \in FStarts(b) }
MNoDup(b, c) == MR422(b, c) = {} /\ R424(c) = {} /\ R423(c) = {}
MBadUses(b, c) == UNION { Lift(f, BadUses(Seg(b, f), CfgOf(c, f))) : f \in FStarts(b) }
MR482decl(b, c) == UNION { Lift(f, R482decl(Seg(b, f), CfgOf(c, f))) : f \in FStarts(b) }
MR482first(b, c) == UNION { Lift(f, R482first(Seg(b, f), CfgOf(c, f))) : f \in FStarts(b) }
MDeclsFor(b, c, i) == LET f == FOf(b, i) IN LiftIds(f, DeclsFor(Seg(b, f), CfgOf(c, f), i - f))
MRuleAcceptsVars(b, c) == \A f \in FStarts(b) : RuleAcceptsVars(Seg(b, f), CfgOf(c, f))
MTarget(b, g) == LET f == FOf(b, g) IN f + Target(Seg(b, f), g - f)

(***************************************************************************)
(* A -- variable_references.rs.                                            *)
(*   st        variable_stack: sequence of layers (layer 1 = constants,    *)
(*             2 = parameters, 3 = function body, ...), each a sequence of *)
(*             declaration ids in push order                               *)
(*   unres     unresolved_labels: label position -> set of ids, or {-99}   *)
(*             when no goto has been seen                                  *)
(*   pruned    pruned_variables (ids); poisoned  poisoned_variables        *)
(***************************************************************************)
None == {0 - 99}
RECURSIVE FindIn(_, _, _, _, _), FindSt(_, _, _, _, _)
FindIn(b, c, layer, x, n) == IF x > Len(layer) THEN 0 - 99
                             ELSE IF NameOf(b, c, layer[x]) = n THEN layer[x]
                             ELSE FindIn(b, c, layer, x + 1, n)
FindSt(b, c, st, s, n) == IF s > Len(st) THEN 0 - 99
                          ELSE LET d == FindIn(b, c, st[s], 1, n)
                               IN IF d # 0 - 99 THEN d ELSE FindSt(b, c, st, s + 1, n)
InScope(st) == UNION { { st[s][x] : x \in 1..Len(st[s]) } : s \in 1..Len(st) }

\* the schedule: <<op, arg>> in the order the code works
RECURSIVE SchedItems(_, _)
SchedItems(b, i) ==
    IF i > Len(b) THEN <<>>
    ELSE (CASE b[i].k \in Openers -> <<<<"push", i>>>>
            [] b[i].k = "C" -> <<<<"pop", i>>>>
            [] b[i].k = "V" -> <<<<"decl", i>>>>
            [] b[i].k = "VR" -> <<<<"use", i>>, <<"decl", i>>>>
            [] b[i].k \in {"U", "W", "RV"} -> <<<<"use", i>>>>
            \* the next function: both scopes of the previous one are popped, the analyzer lives on
            [] b[i].k = "F" -> <<<<"pop", i>>, <<"pop", i>>, <<"push", 0 - 1>>, <<"push", i>>, <<"decl", i>>>>
            [] b[i].k \in GotoKinds -> <<<<"goto", i>>>>
            [] b[i].k = "L" -> <<<<"label", i>>>>
            [] OTHER -> <<>>) \o SchedItems(b, i + 1)
RECURSIVE SchedDecls(_, _, _)
SchedDecls(op, n, i) == IF i > n THEN <<>>
                        ELSE <<<<op, IF op = "cdecl" THEN ConstId(i) ELSE ParamId(i)>>>> \o SchedDecls(op, n, i + 1)
Sched(b, c) ==
    SchedDecls("cdecl", Len(c.consts), 1)
      \o <<<<"push", 0 - 1>>>>
      \o SchedDecls("pdecl", Len(c.params), 1)
      \o <<<<"push", 0>>, <<"decl", 0>>>>
      \o SchedItems(b, 1)
      \o <<<<"pop", 0>>, <<"pop", 0 - 1>>>>

AInit == [st |-> << <<>> >>, unres |-> <<>>, pruned |-> {}, poisoned |-> {},
          e402 |-> {}, e422 |-> {}, e423 |-> {}, e424 |-> {}, e482 |-> {}, e482d |-> {}]
AStart(b) == [AInit EXCEPT !.unres = [i \in 1..Len(b) |-> None]]

Top(st) == Len(st)
AStep(b, c, a, step) ==
    LET op == step[1]
        p == step[2]
    IN CASE op = "push" -> [a EXCEPT !.st = Append(@, <<>>)]
         [] op = "pop" -> [a EXCEPT !.st = SubSeq(@, 1, Len(@) - 1)]
         [] op = "cdecl" ->
              \* declare_constant: duplicates are detected among constants only
              LET dup == \E x \in 1..Len(a.st[1]) : NameOf(b, c, a.st[1][x]) = NameOf(b, c, p)
                  a1 == IF dup THEN [a EXCEPT !.e423 = @ \cup {p}] ELSE a
              IN [a1 EXCEPT !.st[1] = Append(@, p)]
         [] op \in {"decl", "pdecl"} ->
              \* declare_variable: any layer, outermost first; the declaration is pushed even when duplicate
              LET prev == FindSt(b, c, a.st, 1, NameOf(b, c, p))
                  a1 == IF prev = 0 - 99 THEN a
                        ELSE IF op = "pdecl" THEN [a EXCEPT !.e424 = @ \cup {p}]
                        ELSE [a EXCEPT !.e422 = @ \cup {p}]
              IN [a1 EXCEPT !.st[Top(a1.st)] = Append(@, p)]
         [] op = "use" ->
              LET d == FindSt(b, c, a.st, 1, b[p].n)
              IN IF d = 0 - 99 THEN [a EXCEPT !.e402 = @ \cup {p}]
                 ELSE IF d \in a.pruned
                      THEN [a EXCEPT !.pruned = @ \ {d}, !.poisoned = @ \cup {d},
                                     !.e482 = @ \cup {p}, !.e482d = @ \cup {d}]
                      ELSE a
         [] op = "goto" ->
              \* gotos whose label did not resolve were poisoned by the label scoper and are not seen
              IF MBadGoto(b, p) THEN a
              ELSE LET t == MTarget(b, p)
                       cur == InScope(a.st)
                   IN [a EXCEPT !.unres[t] = IF @ = None THEN cur ELSE @ \cap cur]
         [] op = "label" ->
              \* a clashing (earlier) label was poisoned by the label scoper and is not seen
              IF \E q \in 1..Len(b) : MClashPair(b, p, q) THEN a
              ELSE LET u == a.unres[p]
                       layer == a.st[Top(a.st)]
                       pr == IF u = None THEN {} ELSE { layer[x] : x \in 1..Len(layer) } \ u
                   IN [a EXCEPT !.pruned = @ \cup pr, !.unres[p] = None]

(***************************************************************************)
(* Control flow of a body (the operational rule).                          *)
(***************************************************************************)
\* declarations that stop being live when control arrives at position q (leaving their blocks)
StillLive(b, live, q) == { d \in live : d < 1 \/ Encloses(b, BlockOf(b, d), q) }
\* successors of (pc, live): a set of <<pc', live'>>
Succ(b, pc, live) ==
    LET it == b[pc]
        fall == <<pc + 1, StillLive(b, live, pc + 1)>>
        jump(t) == <<t, StillLive(b, live, t)>>
    IN CASE it.k \in DeclKinds -> {<<pc + 1, live \cup {pc}>>}
         [] it.k \in {"G", "EG"} -> {jump(Target(b, pc))}
         [] it.k \in {"IG", "EIG"} -> {fall, jump(Target(b, pc))}
         [] it.k = "LP" -> LET o == BlockOf(b, pc) IN {<<o + 1, StillLive(b, { d \in live : d < o }, o + 1)>>}
         [] it.k = "IO" -> {fall, jump(CloseOf(b, pc))}     \* the branch may be skipped (continue at its "}")
         [] OTHER -> {fall}

(***************************************************************************)
(* The state machine TLC explores.                                         *)
(***************************************************************************)
VARIABLES body, depth, cfg, phase, sched, k, alg, pc, live,
          opens,     \* kinds of the blocks currently open (else-parts only follow if-parts)
          last       \* "if" when an else-part may follow the previous item
vars == <<body, depth, cfg, phase, sched, k, alg, pc, live, opens, last>>

\* Phased bodies: the kinds come in the order gotos, declarations, labels and uses
PhaseOf(kd) == IF kd \in GotoKinds THEN 1 ELSE IF kd \in DeclKinds THEN 2 ELSE 3

Init == /\ body = <<>> /\ depth = 0 /\ cfg \in Configs /\ phase = "gen" /\ opens = <<>> /\ last = "none"
        /\ sched = <<>> /\ k = 0 /\ alg = AInit /\ pc = 0 /\ live = {}

Add(it) ==
    /\ phase = "gen" /\ Len(body) < MaxLen
    /\ (it.k \in ElseKinds) => last = "if"
    /\ CASE it.k \in Openers -> /\ depth < MaxDepth /\ depth' = depth + 1
                                /\ opens' = Append(opens, it.k) /\ last' = "none"
         [] it.k = "C" -> /\ depth > 0 /\ depth' = depth - 1
                          /\ opens' = SubSeq(opens, 1, Len(opens) - 1)
                          /\ last' = IF opens[Len(opens)] \in IfKinds THEN "if" ELSE "none"
         [] OTHER -> /\ depth' = depth /\ opens' = opens
                     /\ last' = IF it.k \in IfKinds THEN "if" ELSE "none"
    /\ (it.k = "F") => (depth = 0 /\ Cardinality(FStarts(body)) < MaxFns)
    \* `return:` only as the last statement of a function body, followed by the result expression
    /\ (it.k = "L" /\ it.n = "return") => depth = 0
    /\ (it.k = "RV") = (Len(body) > 0 /\ body[Len(body)] = Item("L", "return"))
    /\ (Len(body) > 0 /\ body[Len(body)].k = "RV") => it.k = "F"
    /\ (Phased /\ Len(body) > 0) => PhaseOf(body[Len(body)].k) <= PhaseOf(it.k)
    \* `loop` is only generated in its legal place (C06 covers the others): the next item closes the block
    /\ (Len(body) > 0 /\ body[Len(body)].k = "LP") => it.k = "C"
    /\ it.k = "LP" => depth > 0
    /\ body' = Append(body, it)
    /\ UNCHANGED <<cfg, phase, sched, k, alg, pc, live>>

Finish == /\ phase = "gen" /\ depth = 0 /\ Cardinality(FStarts(body)) >= MinFns
          /\ (Len(body) > 0 => body[Len(body)].k # "LP" /\ body[Len(body)] # Item("L", "return"))
          /\ NeedResult => \E i \in 1..Len(body) : body[i].k = "RV"
          /\ phase' = "scan" /\ sched' = Sched(body, cfg) /\ k' = 1 /\ alg' = AStart(body)
          /\ UNCHANGED <<body, depth, cfg, pc, live, opens, last>>

Scan == /\ phase = "scan" /\ k <= Len(sched)
        /\ alg' = AStep(body, cfg, alg, sched[k]) /\ k' = k + 1
        /\ UNCHANGED <<body, depth, cfg, phase, sched, pc, live, opens, last>>

Done == /\ phase = "scan" /\ k > Len(sched)
        /\ phase' = "end"
        /\ UNCHANGED <<body, depth, cfg, sched, k, alg, pc, live, opens, last>>

\* path exploration of accepted bodies (single function bodies without else-parts: the rule for a module is the
\* rule for each of its bodies, and Succ does not know else-chains)
Start == /\ phase = "end" /\ Len(body) > 0 /\ RuleAcceptsVars(body, cfg)
         /\ FStarts(body) = {0} /\ \A i \in 1..Len(body) : body[i].k \notin ElseKinds
         /\ phase' = "run" /\ pc' = 1 /\ live' = {0} \cup ParamIds(cfg) \cup ConstIds(cfg)
         /\ UNCHANGED <<body, depth, cfg, sched, k, alg, opens, last>>
Step == /\ phase = "run" /\ pc >= 1 /\ pc <= Len(body)
        /\ \E s \in Succ(body, pc, live) : pc' = s[1] /\ live' = s[2]
        /\ UNCHANGED <<body, depth, cfg, phase, sched, k, alg, opens, last>>

Next == (\E it \in Items : Add(it)) \/ Finish \/ Scan \/ Done \/ Start \/ Step
Spec == Init /\ [][Next]_vars

(***************************************************************************)
(* Invariants.                                                             *)
(***************************************************************************)
\* A |= R
AgreeScoper == phase = "end" =>
    /\ alg.e402 = MR402(body, cfg)
    /\ alg.e422 = MR422(body, cfg)
    /\ alg.e424 = { ParamId(i) : i \in R424(cfg) }
    /\ alg.e423 = { ConstId(i) : i \in R423(cfg) }
    /\ (MLabelOK(body) /\ MNoDup(body, cfg)) =>
           /\ alg.e482d = MR482decl(body, cfg)
           \* one E482 per skipped variable is demanded (at its first bad use), more are permitted
           /\ MR482first(body, cfg) \subseteq alg.e482
           /\ alg.e482 \subseteq MBadUses(body, cfg)
    /\ Len(alg.st) = 1
\* the rule is sound with respect to real control flow
Sound == (phase = "run" /\ pc >= 1 /\ pc <= Len(body) /\ IsU(body, pc)) =>
             DeclsFor(body, cfg, pc) \subseteq live
=============================================================================

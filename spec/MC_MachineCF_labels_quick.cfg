SPECIFICATION Spec
CONSTANTS
  MaxLen = 6
  MaxDepth = 3
  Fuel = 80
  Alphabet = {"O", "C", "G", "L", "P"}
  Shape = "any"
  Names = {"y", "z"}
INVARIANTS MachineSane NoUB Monitors Scans EmitCase
CHECK_DEADLOCK FALSE

SPECIFICATION Spec
CONSTANTS
  Core = FALSE
  AllSeps = TRUE
INVARIANT PairOK
CHECK_DEADLOCK FALSE

SPECIFICATION Spec
CONSTANTS
  Mode = "mc"
  MaxNodes = 60
  Enabled = {"Module", "Fn", "Head", "Const", "Struct", "Opaque", "Word", "Import", "Param", "Member", "TyPrim", "TyNamed", "TyPtr", "TyView", "TyArray", "TyArrayC", "TySlice", "TyEndless", "TyArraylike", "Var", "Set", "Call", "BCall", "Loop", "Goto", "Label", "If", "Block", "BinAdd", "BinMul", "BinBit", "BinShift", "Advance", "As", "Cast", "Un", "Paren", "Len", "SizeOf", "Int", "Bool", "Char", "Str", "FCall", "BFCall", "Array", "Structural", "FieldFull", "FieldShort", "Deref", "Idx", "Mem"}
  FlagSets <- FlagSets_all
  VarForms <- VarForms_doc
  FnNames = {"f", "main"}
  ParamNames = {"p", "q"}
  VarNames = {"x", "y"}
  LabelNames = {"l"}
  GotoNames = {"l", "return"}
  MemberNames = {"m", "n"}
  TypeNames = {"S"}
  ConstNames = {"N"}
  Builtins = {"abort", "format", "print", "eprint", "file", "line", "dbg", "panic", "include_bytes"}
  PrimTypes = {"i8", "i16", "i32", "i64", "i128", "u8", "u16", "u32", "u64", "u128", "usize", "bool", "char8"}
  WordSizes = {1, 2, 4, 8, 16}
  Files <- Files_all
  IntLits <- IntLits_all
  CharLits <- CharLits_all
  StrLits <- StrLits_all
  ArrayLens <- ArrayLens_all
  AddOps = {"+", "-"}
  MulOps = {"*", "/", "%"}
  BitOps = {"&", "|", "^"}
  ShiftOps = {"<<", ">>"}
  UnOps = {"-", "!"}
  CmpOps = {"==", "!=", "<", ">", "<=", ">="}
  MaxDecls = 4
  MaxParams = 3
  MaxMembers = 3
  MaxStmts = 6
  MaxBlock = 4
  MaxArgs = 4
  MaxElems = 4
  MaxFields = 3
  MaxSteps = 3
  Addrs = {0, 1, 2}
  SetAddrs = {0, 1}
  LenAddrs = {0}
  TrailingCommas = {TRUE, FALSE}
  LooseMembers = TRUE
INVARIANTS EmitCase
CHECK_DEADLOCK FALSE

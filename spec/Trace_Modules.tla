---------------------------- MODULE Trace_Modules ----------------------------
(***************************************************************************)
(* Trace validation for C12 (impl -> spec).                                *)
(*                                                                         *)
(* "mods" runs: random module sets (<= 5 modules, sub-directory, imports   *)
(* written as full or relative paths, unresolvable imports) are driven     *)
(* through the real expander and scoper.  Recorded: what the real parser   *)
(* saw, every `splice` hook event (the hash order actually taken), the     *)
(* declarations of every module after expansion and, for every (module,    *)
(* declared name of the program), the diagnostics of a probe that uses     *)
(* the name there.  Checked against                                        *)
(*   R (always): each splice is one of the import pairs, taken once, with  *)
(*      as many declarations as the includee has public ones; afterwards   *)
(*      every module holds exactly Visible(m), imported items not public   *)
(*      and without function bodies; a probe is rejected (E401 / E402 /    *)
(*      E405 by kind) iff the name is not visible; unresolved imports give *)
(*      E470 on their line;                                                *)
(*   A (Strict = TRUE): the declaration SEQUENCES are those that Splice    *)
(*      produces for the logged order.                                     *)
(* "split" records: a generated program, partitioned into 2-4 files with   *)
(* the corresponding pub / import declarations, compiled, linked and       *)
(* executed in every file order.  R: all of them behave like the single    *)
(* file.  "hist" records: a module compiled alone and after an unrelated   *)
(* module through the same Compiler.  R: same verdict, diagnostics, lints  *)
(* and behaviour.                                                          *)
(***************************************************************************)
EXTENDS Modules, Json, IOUtils, TLCExt

CONSTANT Strict
TraceDirs == {<<>>, <<"d">>, <<"e">>}

Rec == ndJsonDeserialize(IOEnv.TRACE)

VARIABLES l, tphase, taken
tvars == <<l, tphase, taken, mods, cur, todo, phase>>

TInit == /\ l = 1 /\ tphase = "idle" /\ taken = {}
         /\ mods = <<>> /\ cur = <<>> /\ todo = {} /\ phase = "trace"

Ev(e) == l <= Len(Rec) /\ Rec[l].ev = e

Mod(r) == [dir |-> r.dir, name |-> r.name,
           imports |-> [x \in 1..Len(r.imports) |-> [dir |-> r.imports[x].dir, name |-> r.imports[x].name]],
           decls |-> [x \in 1..Len(r.decls) |-> [n |-> r.decls[x].n, k |-> r.decls[x].k, pub |-> r.decls[x].pub,
                                                 body |-> r.decls[x].body, ext |-> r.decls[x].ext]]]

TMods == /\ Ev("mods") /\ tphase = "idle"
         /\ LET ms == [i \in 1..Len(Rec[l].mods) |-> Mod(Rec[l].mods[i])]
            IN /\ mods' = ms
               /\ cur' = [i \in 1..Len(ms) |-> ms[i].decls]
               /\ todo' = { p \in ImportPairs(ms) : p[1] # p[2] }
         /\ taken' = {} /\ tphase' = "splice" /\ l' = l + 1 /\ UNCHANGED phase

TSplice == /\ Ev("splice") /\ tphase = "splice"
           /\ LET p == <<Rec[l].includer + 1, Rec[l].includee + 1>>
              IN /\ p \in todo                                                     \* R: an import pair, once, never a self-import
                 /\ Rec[l].count = Cardinality(Pub(mods, p[2]))                    \* R: exactly the public declarations
                 /\ cur' = SpliceInto(cur, p[1], p[2])
                 /\ todo' = todo \ {p}
                 /\ taken' = taken \cup {p}
           /\ l' = l + 1 /\ UNCHANGED <<tphase, mods, phase>>

Obs(d) == [n |-> d.n, k |-> d.k, pub |-> d.pub, body |-> d.body, ext |-> d.ext]
KindOfName(nm) == DeclOf(mods, nm).k
ProbeOK(i, p) == IF p.n \in Visible(mods, i) THEN p.codes = <<>>
                 ELSE \E x \in 1..Len(p.codes) : p.codes[x] = UndefinedCode(KindOfName(p.n))
TFinal == /\ Ev("final") /\ tphase = "splice"
          /\ todo = {}                                                             \* every import pair was spliced
          /\ LET ms == Rec[l].modules IN
             /\ Len(ms) = Len(mods)
             /\ \A i \in 1..Len(mods) :
                   LET ds == ms[i].decls IN
                   /\ { ds[x].n : x \in 1..Len(ds) } = Visible(mods, i)            \* R
                   /\ Len(ds) = Cardinality(Visible(mods, i))
                   /\ \A x \in 1..Len(ds) : Obs(ds[x]) = SeenAs(mods, i, ds[x].n)
                   /\ Strict => [x \in 1..Len(ds) |-> Obs(ds[x])] = cur[i]
             /\ IF Unresolved(mods) = {}
                THEN \A i \in 1..Len(mods) :
                        /\ ms[i].reached
                        /\ Len(ms[i].probes) = Cardinality(AllNames(mods))
                        /\ \A x \in 1..Len(ms[i].probes) : ProbeOK(i, ms[i].probes[x])
                        /\ ms[i].other = <<>>
                ELSE /\ ~Rec[l].ok
                     /\ \A u \in Unresolved(mods) :
                           \E x \in 1..Len(ms[u[1]].other) : ms[u[1]].other[x].code = 470 /\ ms[u[1]].other[x].import = u[2]
             /\ Rec[l].ok = (Unresolved(mods) = {} /\ \A i \in 1..Len(mods) : AllNames(mods) \subseteq Visible(mods, i))
          /\ tphase' = "idle" /\ l' = l + 1 /\ UNCHANGED <<taken, mods, cur, todo, phase>>

\* split programs: every file order behaves like the single file.  The record carries the module
\* structure (declaration: name n, module m, pub, kind k, cont = constant or structure, refs = names
\* its text mentions; imports per module) so that the shape of a failing split can be named.
Same(a, b) == a.ok = b.ok /\ a.out = b.out /\ a.exit = b.exit
SDecls(r) == { r.decls[x] : x \in 1..Len(r.decls) }
SImports(r, m) == { r.imports[m][x] : x \in 1..Len(r.imports[m]) }
SVisible(r, m) == { d.n : d \in { e \in SDecls(r) : e.m = m \/ (e.pub /\ e.m \in SImports(r, m)) } }
SRefs(d) == { d.refs[x] : x \in 1..Len(d.refs) }
\* the split is what the property calls "the corresponding pub / import declarations":
\* everything a module's own declarations mention is visible in it
WellSplit(r) == \A d \in SDecls(r) : SRefs(d) \subseteq SVisible(r, d.m)
\* shapes of known findings
\* what travels with an import of d: the definition of a constant / structure, the SIGNATURE of a function
Travels(d) == IF d.cont THEN SRefs(d) ELSE { d.sig[x] : x \in 1..Len(d.sig) }
Leaky(r) == \E m \in 1..r.nmods : \E d \in SDecls(r) :
                d.pub /\ d.m # m /\ d.m \in SImports(r, m) /\ ~(Travels(d) \subseteq SVisible(r, m))
\* two files declare PRIVATE structures / words of the same name (each with a layout of its own)
SameNamedPrivateStructures(r) == \E d, e \in SDecls(r) :
                d.k = "struct" /\ e.k = "struct" /\ d.m # e.m /\ ~d.pub /\ ~e.pub /\ d.src = e.src
\* a public structure with a member of structure / word type that some other module imports
ImportedNestedStructure(r) == \E d \in SDecls(r) :
                /\ d.pub /\ d.k = "struct"
                /\ \E e \in SDecls(r) : e.k = "struct" /\ e.n \in SRefs(d)
                /\ \E m \in 1..r.nmods : m # d.m /\ d.m \in SImports(r, m)
RunProblem(r, x) == IF r.runs[x].died # "" THEN "died"
                    ELSE IF ~r.runs[x].ok THEN "rejected" ELSE "differs"
TSplit == /\ Ev("split") /\ tphase = "idle"
          /\ LET r == Rec[l]
                 bad == { x \in 1..Len(r.runs) : ~Same(r.runs[x], r.single) }
                 problems == (IF ~r.single.ok \/ Len(r.runs) < 2 \/ ~WellSplit(r) THEN {"generator"} ELSE {})
                             \cup { RunProblem(r, x) : x \in bad }
             IN problems # {} =>
                  PrintT(<<"BAD", ToJson([ev |-> "split", prog |-> r.prog, seed |-> r.seed, closed |-> r.closed, nmods |-> r.nmods,
                                          problems |-> SetToSeq(problems),
                                          tags |-> SetToSeq((IF Leaky(r) THEN {"pub-definition-needs-invisible"} ELSE {})
                                                            \cup (IF ImportedNestedStructure(r) THEN {"imported-nested-structure"} ELSE {})
                                                            \cup (IF SameNamedPrivateStructures(r) THEN {"same-named-private-structures"} ELSE {})),
                                          badruns |-> [x \in 1..Len(r.runs) |-> IF x \in bad THEN r.runs[x] ELSE [order |-> r.runs[x].order]]])>>)
          /\ l' = l + 1 /\ UNCHANGED <<tphase, taken, mods, cur, todo, phase>>
\* histories: the result for a module does not depend on unrelated modules compiled before it
THist == /\ Ev("hist") /\ tphase = "idle"
         /\ LET r == Rec[l] IN
            \* the three compilations ended by themselves (a compiler process that dies is no result at all)
            /\ "died" \notin DOMAIN r
            /\ Same(r.alone, r.after) /\ r.alone.diags = r.after.diags /\ r.alone.lints = r.after.lints
            /\ r.alone.ok => Same(r.alone, r.linked)
         /\ l' = l + 1 /\ UNCHANGED <<tphase, taken, mods, cur, todo, phase>>

TNext == TMods \/ TSplice \/ TFinal \/ TSplit \/ THist
TSpec == TInit /\ [][TNext]_tvars

Accepted == LET d == TLCGet("stats").diameter - 1
            IN PrintT(<<"TRACE", ToJson([accepted |-> (d = Len(Rec)), matched |-> d, total |-> Len(Rec)])>>)
=============================================================================

---------------------------- MODULE LabelScope ----------------------------
(***************************************************************************)
(* C04 -- goto only ever jumps forward and outward.                        *)
(*                                                                         *)
(* Three parts (DESIGN.md 2.1):                                            *)
(*   Gen  actions that grow every function body of the documented language *)
(*        over blocks, if-blocks, else(-if) chains, labels and gotos;      *)
(*   R    the rule, stated declaratively over the finished body;           *)
(*   A    the label scoper of src/alpha/scoper/label_references.rs as a    *)
(*        state machine: one step per push_scope / pop_scope /             *)
(*        declare_label / use_label, in the order the code takes them.     *)
(* TLC checks A |= R on every generated body (invariant Agree) and prints  *)
(* one CASE line per finished body for replay on the real compiler.        *)
(*                                                                         *)
(* A body is a flat sequence of items, one source line each:               *)
(*   O    {              IO   if c {      EO   else {     EIO else if c {  *)
(*   C    }              G n  goto n;     IG n if c goto n;                *)
(*   EG n else goto n;   EIG n else if c goto n;          L n  n:          *)
(* Items are strings (kind followed by the name) so that the emitted JSON  *)
(* is compact.                                                             *)
(***************************************************************************)
EXTENDS FlatBody

CONSTANTS MaxLen, MaxDepth, Names,
          NeedResult, \* TRUE: only modules in which some function ends with `return:` and a result are finished
          MinFns,    \* only modules with at least this many function bodies are finished (and emitted)
          MaxFns     \* number of function bodies of a module (1 = the single body of the first build round)

Item(k, n) == [k |-> k, n |-> n]
Items == {Item(k, "") : k \in Openers \cup {"C"}}
           \cup {Item(k, n) : k \in GotoKinds \cup {"L"}, n \in Names}
           \cup {Item("F", "x")}      \* end of one function body, start of the next (FlatBody.tla)
           \cup {Item("RV", "x")}     \* the result expression; `return:` is the label in front of it

(***************************************************************************)
(* R -- the rule (docs/features.md "Scoped goto statements", property C04) *)
(***************************************************************************)
\* Visible, LegalTargets, BadGoto, ClashPair, RuleE400, RuleClashEarlier, RuleClashMembers and
\* RuleAccepts are defined in FlatBody.tla (the variable scoper needs goto targets too).

(***************************************************************************)
(* The order in which the code visits the body.  Block::analyze and        *)
(* FunctionBody::analyze push a scope, visit their statements in REVERSE   *)
(* and pop; Statement::If visits the then-branch and then the else-branch. *)
(* Sched(b) is the resulting sequence of <<op, position>>.                 *)
(***************************************************************************)
PartEnd(b, p) == IF b[p].k \in Openers THEN CloseOf(b, p) ELSE p
HasElse(b, p) == LET e == PartEnd(b, p)
                 IN b[p].k \in IfKinds /\ e + 1 <= Len(b) /\ b[e + 1].k \in ElseKinds
RECURSIVE ChainEnd(_, _)
ChainEnd(b, p) == IF HasElse(b, p) THEN ChainEnd(b, PartEnd(b, p) + 1) ELSE PartEnd(b, p)
RECURSIVE StmtStarts(_, _, _)
StmtStarts(b, lo, hi) == IF lo > hi THEN <<>> ELSE <<lo>> \o StmtStarts(b, ChainEnd(b, lo) + 1, hi)
Reverse(s) == [x \in 1..Len(s) |-> s[Len(s) + 1 - x]]

RECURSIVE SchedBlock(_, _, _), SchedChain(_, _), SchedSeq(_, _, _)
SchedPart(b, p) ==
    IF b[p].k \in Openers
    THEN <<<<"push", p>>>> \o SchedBlock(b, p + 1, CloseOf(b, p) - 1) \o <<<<"pop", p>>>>
    ELSE IF b[p].k \in GotoKinds THEN <<<<"use", p>>>>
    ELSE IF b[p].k = "L" THEN <<<<"decl", p>>>>
    ELSE <<>>      \* other statements (declarations, assignments, loop, the result expression) are not looked at
SchedChain(b, p) == SchedPart(b, p) \o (IF HasElse(b, p) THEN SchedChain(b, PartEnd(b, p) + 1) ELSE <<>>)
SchedSeq(b, starts, x) == IF x > Len(starts) THEN <<>>
                          ELSE SchedChain(b, starts[x]) \o SchedSeq(b, starts, x + 1)
SchedBlock(b, lo, hi) == SchedSeq(b, Reverse(StmtStarts(b, lo, hi)), 1)
Sched(b) == <<<<"push", 0>>>> \o SchedBlock(b, 1, Len(b)) \o <<<<"pop", 0>>>>
\* a module: the functions one after the other (the analyzer, and with it label_stack and
\* resolution_id, lives as long as the module); positions are those of the whole item sequence
LiftSched(f, s) == [x \in 1..Len(s) |-> <<s[x][1], s[x][2] + f>>]
RECURSIVE MSchedFrom(_, _)
MSchedFrom(b, f) == LiftSched(f, Sched(Seg(b, f)))
                       \o (IF FEnd(b, f) > Len(b) THEN <<>> ELSE MSchedFrom(b, FEnd(b, f)))
MSched(b) == MSchedFrom(b, 0)

(***************************************************************************)
(* A -- label_references.rs.  st is label_stack: a sequence of scopes,     *)
(* outermost first; a scope is a sequence of <<name, position>> in push    *)
(* order.  Both declare_label and use_label search the scopes outermost    *)
(* first and each scope in push order.                                     *)
(***************************************************************************)
FindIn(scope, n) == LET hits == { x \in 1..Len(scope) : scope[x][1] = n }
                    IN IF hits = {} THEN 0
                       ELSE scope[CHOOSE x \in hits : \A y \in hits : x <= y][2]
RECURSIVE FindStack(_, _, _)
FindStack(st, s, n) == IF s > Len(st) THEN 0
                       ELSE LET p == FindIn(st[s], n)
                            IN IF p # 0 THEN p ELSE FindStack(st, s + 1, n)

\* one step of the scoper: a = [st, e400, e420, n420]
AStep(b, a, step) ==
    LET op == step[1]
        p == step[2]
    IN CASE op = "push" -> [a EXCEPT !.st = Append(@, <<>>)]
         [] op = "pop" -> [a EXCEPT !.st = SubSeq(@, 1, Len(@) - 1)]
         [] op = "use" -> IF FindStack(a.st, 1, b[p].n) = 0
                          THEN [a EXCEPT !.e400 = @ \cup {p}] ELSE a
         [] op = "decl" ->
              LET prev == FindStack(a.st, 1, b[p].n)
                  \* the diagnostic is located at the label found (the later one in the text)
                  a1 == IF prev # 0 THEN [a EXCEPT !.e420 = @ \cup {prev}, !.n420 = @ + 1] ELSE a
              IN [a1 EXCEPT !.st[Len(a1.st)] = Append(@, <<b[p].n, p>>)]
AInit == [st |-> <<>>, e400 |-> {}, e420 |-> {}, n420 |-> 0]

(***************************************************************************)
(* Gen + run: the state machine TLC explores.                              *)
(***************************************************************************)
VARIABLES body,      \* the body built so far
          opens,     \* kinds of the blocks currently open, outermost first
          last,      \* "if" when an else-part may follow the previous item
          phase,     \* "gen" | "scan" | "end"
          sched, k,  \* the schedule of the finished body and the next step in it
          alg        \* the scoper's state
vars == <<body, opens, last, phase, sched, k, alg>>

Init == /\ body = <<>> /\ opens = <<>> /\ last = "none" /\ phase = "gen"
        /\ sched = <<>> /\ k = 0 /\ alg = AInit

Add(it) ==
    /\ phase = "gen" /\ Len(body) < MaxLen
    /\ (it.k \in ElseKinds) => last = "if"
    /\ (it.k = "F") => (opens = <<>> /\ Cardinality(FStarts(body)) < MaxFns)
    \* `return:` only as the last statement of a function body, followed by the result expression
    \* (docs/features.md: `goto return;`); nothing but the next function follows the result
    /\ (it.k = "L" /\ it.n = "return") => opens = <<>>
    /\ (it.k = "RV") = (Len(body) > 0 /\ body[Len(body)] = Item("L", "return"))
    /\ (Len(body) > 0 /\ body[Len(body)].k = "RV") => it.k = "F"
    /\ CASE it.k \in Openers ->
              /\ Len(opens) < MaxDepth
              /\ opens' = Append(opens, it.k) /\ last' = "none"
         [] it.k = "C" ->
              /\ Len(opens) > 0
              /\ opens' = SubSeq(opens, 1, Len(opens) - 1)
              /\ last' = IF opens[Len(opens)] \in IfKinds THEN "if" ELSE "none"
         [] OTHER ->
              /\ opens' = opens
              /\ last' = IF it.k \in IfKinds THEN "if" ELSE "none"
    /\ body' = Append(body, it)
    /\ UNCHANGED <<phase, sched, k, alg>>

Finish == /\ phase = "gen" /\ opens = <<>> /\ Cardinality(FStarts(body)) >= MinFns
          /\ (Len(body) > 0 => body[Len(body)] # Item("L", "return"))
          /\ NeedResult => \E i \in 1..Len(body) : body[i].k = "RV"
          /\ phase' = "scan" /\ sched' = MSched(body) /\ k' = 1 /\ alg' = AInit
          /\ UNCHANGED <<body, opens, last>>

Scan == /\ phase = "scan" /\ k <= Len(sched)
        /\ alg' = AStep(body, alg, sched[k]) /\ k' = k + 1
        /\ UNCHANGED <<body, opens, last, phase, sched>>

Done == /\ phase = "scan" /\ k > Len(sched)
        /\ phase' = "end"
        /\ UNCHANGED <<body, opens, last, sched, k, alg>>

Next == (\E it \in Items : Add(it)) \/ Finish \/ Scan \/ Done
Spec == Init /\ [][Next]_vars

(***************************************************************************)
(* Invariants.                                                             *)
(***************************************************************************)
\* the scoper's stack discipline: never pops below the function scope while scanning
\* (between two functions the stack is empty: the next step pushes the scope of a function body)
StackOK == phase = "scan" /\ k > 1 /\ k <= Len(sched) =>
              IF sched[k][1] = "push" /\ sched[k][2] \in FStarts(body) THEN alg.st = <<>> ELSE Len(alg.st) >= 1
\* A |= R at the level of the property statement
Agree == phase = "end" =>
            /\ alg.st = <<>>
            /\ alg.e400 = MRuleE400(body)
            /\ (alg.e420 = {}) = (MRuleClashMembers(body) = {})
            /\ alg.e420 \subseteq MRuleClashMembers(body)
            /\ alg.n420 = Cardinality(MRuleClashEarlier(body))
\* forward/outward: every goto the rule accepts has exactly the targets the scoper would pick from
ForwardOutward == phase = "end" =>
            \A f \in FStarts(body) : LET s == Seg(body, f) IN
              \A i \in 1..Len(s) : IsG(s, i) /\ ~BadGoto(s, i) =>
                \A j \in LegalTargets(s, i) : j > i /\ Encloses(s, BlockOf(s, j), i)

=============================================================================

SPECIFICATION Spec
CONSTANTS
  MinN = 1
  MaxN = 2
  Kinds = {"c", "s"}
  AllowSelf = TRUE
  AllowPtr = FALSE
  AllowConstPtr = FALSE
  AllPerms = TRUE
  ChainMode = FALSE
  Stepwise = FALSE
INVARIANTS CodesOK
CHECK_DEADLOCK FALSE

SPECIFICATION TSpec
CONSTANTS
  MaxDecls = 0
  Names <- TNames
  Shapes <- TShapes
  SkipOffByOne = FALSE
  KeepListFirst = FALSE
  KeepPublicFlag = FALSE
  NoBodyZone = FALSE
  Strict = TRUE
POSTCONDITION Accepted
CHECK_DEADLOCK FALSE

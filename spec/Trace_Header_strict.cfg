SPECIFICATION TSpec
CONSTANTS
  MaxDecls = 0
  Names <- TNames
  Shapes <- TShapes
  SkipOffByOne = FALSE
  KeepListFirst = FALSE
  KeepPublicFlag = FALSE
  NoBodyZone = FALSE
  Strict = TRUE
VIEW TView
POSTCONDITION Accepted
CHECK_DEADLOCK FALSE

--------------------------- MODULE MC_MachineOps ---------------------------
(***************************************************************************)
(* C01/C10 operator matrix: every binary operator, unary operator,         *)
(* comparison and primitive cast of Machine.tla on every integer type and  *)
(* every pair of boundary operands.  One CASE per cell with the value the  *)
(* documented semantics give (or ub); Python packs the cells into programs *)
(* that print each cell evaluated at run time (operands in variables) and  *)
(* at compile time (constant operands), and compares.                      *)
(***************************************************************************)
EXTENDS Machine, Json, TLCExt, SequencesExt

CONSTANTS Types, Mode,    \* Mode \in {"bin", "cmp", "un", "cast", "tree", "chain"}
          Thorough        \* FALSE: fewer operands for the expensive wide cells

Unsigned == IntTypes \ SignedTypes
\* a value that is a boundary only when its low half is looked at alone: 2^(w/2) + 8 (upper half one, lower half a power
\* of two; seeded change C10j read a 128-bit divisor through its low 64 bits)
HalfCross(w) == Add(Shl(FromNat(1, w), w \div 2), FromNat(8, w))
\* boundary operands of width w (bit patterns)
Bnd(w) == { Zero(w), FromNat(1, w), FromNat(2, w), FromNat(3, w), FromNat(7, w), FromNat(w - 1, w), FromNat(w, w),
            Ones(w), Sub(Ones(w), FromNat(1, w)), MinSigned(w), MaxSigned(w), Add(MinSigned(w), FromNat(1, w)),
            Shl(FromNat(1, w), w \div 2), Sub(Shl(FromNat(1, w), w \div 2), FromNat(1, w)), FromNat(100, w),
            Mul(FromNat(193, w), Shl(FromNat(1, w), w - 8)), HalfCross(w) }
\* a smaller set for the expensive cells (division on 64 and 128 bits costs TLC ~1 s per cell)
Few(w) == { Zero(w), FromNat(1, w), FromNat(7, w), Ones(w), MinSigned(w), MaxSigned(w), HalfCross(w) }
           \cup (IF Thorough THEN { FromNat(3, w), Sub(Ones(w), FromNat(1, w)), Shl(FromNat(1, w), w \div 2),
                                    Mul(FromNat(193, w), Shl(FromNat(1, w), w - 8)) } ELSE {})
TreeOperands(w) == { FromNat(1, w), FromNat(3, w), Ones(w), MinSigned(w) } \cup (IF Thorough THEN { MaxSigned(w), FromNat(w - 1, w) } ELSE {})
\* further operands for the thorough tier: small values, -3, max-1, 2^(w-2), alternating bit patterns, 2^(w/2)+1
Pattern(w, byte) == [i \in 1..Limbs(w) |-> byte]
More(w) == { FromNat(5, w), FromNat(10, w), Shl(FromNat(1, w), w - 2), Sub(Ones(w), FromNat(2, w)), Sub(MaxSigned(w), FromNat(1, w)),
             Pattern(w, 85), Pattern(w, 170), Add(Shl(FromNat(1, w), w \div 2), FromNat(1, w)) }
Operands(ty, o) == LET w == Width(ty)
                   IN IF Mode = "tree" THEN TreeOperands(w)
                      ELSE IF Thorough THEN (IF o \in {"/", "%"} /\ w >= 64 THEN Bnd(w) ELSE Bnd(w) \cup More(w))
                      ELSE IF o \in {"/", "%"} /\ w >= 64 THEN Few(w)
                      ELSE IF w = 128 /\ Mode = "bin" THEN Few(w) \cup {FromNat(2, w), FromNat(127, w), FromNat(128, w)}
                      ELSE Bnd(w)
\* bitwise operators and shifts on usize are an unconstrained cell (docs silent, code rejects): not enumerated
BitTypes == {"u8", "u16", "u32", "u64", "u128"}
BinOps(t) == {"+", "-", "*", "/", "%"} \cup (IF t \in BitTypes THEN {"&", "|", "^", "<<", ">>"} ELSE {})
CmpOps == {"==", "!=", "<", ">", "<=", ">="}
UnOps(t) == IF t \in SignedTypes THEN {"-"} ELSE IF t \in BitTypes THEN {"!"} ELSE {}

VARIABLES t, op, a, b, lvl, res, op2, c,     \* res: the cell's value, computed once by the action that completes the cell
          t3                                 \* chain mode: ((a as op) as op2) as t3
vars == <<t, op, a, b, lvl, res, op2, c, t3>>
Init == t = "" /\ op = "" /\ a = <<>> /\ b = <<>> /\ lvl = 0 /\ res = UB /\ op2 = "" /\ c = <<>> /\ t3 = ""
Ops(ty) == CASE Mode \in {"bin", "tree"} -> BinOps(ty) [] Mode = "cmp" -> CmpOps [] Mode = "un" -> UnOps(ty)
             [] Mode \in {"cast", "chain"} -> (IntTypes \cap Types) \ {ty}
PickT == lvl = 0 /\ t' \in Types /\ lvl' = 1 /\ UNCHANGED <<op, a, b, res, op2, c, t3>>
PickOp == lvl = 1 /\ op' \in Ops(t) /\ lvl' = 2 /\ UNCHANGED <<t, a, b, res, op2, c, t3>>
Cell(x, y) == CASE Mode = "bin" -> BinOp(op, Val(t, x), Val(t, y))
                [] Mode = "cmp" -> Compare(op, Val(t, x), Val(t, y))
                [] Mode = "un" -> UnOp(op, Val(t, x))
                [] Mode = "cast" -> CastTo(op, Val(t, x))
PickA == /\ lvl = 2 /\ Mode # "chain" /\ a' \in Operands(t, op) /\ UNCHANGED <<t, op, b, op2, c, t3>>
         /\ IF Mode \in {"un", "cast"} THEN lvl' = 4 /\ res' = Cell(a', <<>>) ELSE lvl' = 3 /\ res' = res
PickB == /\ lvl = 3 /\ b' \in Operands(t, op) /\ UNCHANGED <<t, op, a, t3>>
         /\ IF Mode = "tree" THEN lvl' = 5 /\ res' = res /\ UNCHANGED <<op2, c>>
            ELSE lvl' = 4 /\ res' = Cell(a, b') /\ UNCHANGED <<op2, c>>
\* tree mode: (a op b) op2 c
PickC == /\ lvl = 5 /\ op2' \in BinOps(t) /\ c' \in TreeOperands(Width(t)) /\ lvl' = 4
         /\ res' = BinOp(op2', BinOp(op, Val(t, a), Val(t, b)), Val(t, c'))
         /\ UNCHANGED <<t, op, a, b, t3>>
\* chain mode: casts chained three deep, ((a as op) as op2) as t3: every step truncates, sign-extends or zero-extends by
\* the signedness of ITS source type (an i8 -1 widened to u16 is 65535 and stays 65535 when widened again to i128)
ChainOperands(w) == { FromNat(1, w), Ones(w), MinSigned(w), MaxSigned(w), Pattern(w, 165) }
PickChain == /\ lvl = 2 /\ Mode = "chain"
             /\ op2' \in (IntTypes \cap Types) \ {op} /\ t3' \in (IntTypes \cap Types) /\ t3' # op2'
             /\ a' \in ChainOperands(Width(t)) /\ lvl' = 4
             /\ res' = CastTo(t3', CastTo(op2', CastTo(op, Val(t, a'))))
             /\ UNCHANGED <<t, op, b, c>>
Next == PickT \/ PickOp \/ PickA \/ PickB \/ PickC \/ PickChain
Spec == Init /\ [][Next]_vars

Result == res
\* sanity of the semantics itself: results stay inside their type
WellTyped == lvl = 4 => (IsUB(Result) \/ (Len(Result.v) = Limbs(Width(Result.t)) /\ \A i \in 1..Len(Result.v) : Result.v[i] \in 0..255))
EmitCase == lvl = 4 =>
    PrintT(<<"CASE", ToJson([mode |-> Mode, t |-> t, op |-> op, a |-> a, b |-> b, op2 |-> op2, c |-> c, t3 |-> t3,
                             ub |-> IsUB(Result), rt |-> Result.t, r |-> Result.v])>>)
=============================================================================

SPECIFICATION TSpec
CONSTANTS
  MaxModules = 0
  MaxDecls = 0
  MaxTotal = 0
  MaxImports = 0
  MaxBadImports = 0
  ExportKeepsPoison = FALSE
  PoisonNeedsRoot = TRUE
  RequireIR = FALSE
CHECK_DEADLOCK FALSE

---------------------------- MODULE CallEffects ----------------------------
(***************************************************************************)
(* C08, the "consequently" clause: in any accepted program a call can      *)
(* change a variable of its caller only if the caller wrote `&` on that    *)
(* argument.                                                               *)
(*                                                                         *)
(* The program family: a caller `main` with the cells                      *)
(*     x = 1   arr = [2, 3]   s.m = 4   w.m = 5      (and p: &i32 = &x)    *)
(* prints them, calls f with one argument per parameter, prints them       *)
(* again.  Every parameter of f has a kind                                 *)
(*     value i32 | word W | aview []i32 | sview S | sptr &[]i32 |          *)
(*     ptr &i32 | pptr &&i32                                               *)
(* and f treats it in one of the ways                                      *)
(*     none | read | copy (writes a local copy) | write (writes through    *)
(*     it) | forward (hands its address on to g, which writes)             *)
(* and the caller writes 0, 1 or 2 address markers on the argument.        *)
(*                                                                         *)
(* The verdict of a program is the conjunction of the rules of             *)
(* TypeRules.tla (argument / parameter) and Mutability.tla (the statements *)
(* of f).  For accepted programs the machine below gives the state of the  *)
(* caller after the call; NonInterference is its invariant.                *)
(***************************************************************************)
EXTENDS Mutability

Kinds == {"value", "word", "aview", "sview", "sptr", "ptr", "pptr"}
Ways  == {"none", "read", "copy", "write", "forward"}
\* `extern` callees (features.md "Interoperability with C"; a Penne body is allowed): xaview = `[]i32` of an
\* extern function (a view without length), xsptr = `&[]i32` of an extern function (a pointer to an array
\* without length).  Two more ways: the callee hands its parameter on to `extern fn gx(r: &[]i32)`, which
\* writes, either bare (`gx(q)`: xfwd) or with an address marker (`gx(&q)`: xfwdamp).
ExternKinds == {"xaview", "xsptr"}
\* Dimension audit: the argument is the address of a PLACE inside a caller variable -- `&arr[1usize]` (ptr_elem) or
\* `&s.m` (ptr_mem) for a parameter `&i32`; the cell the callee can reach is then a1 resp. sm.
PlaceKinds == {"ptr_elem", "ptr_mem"}
AllKinds == Kinds \cup ExternKinds \cup PlaceKinds
ExternWays == {"xfwd", "xfwdamp"}
XPtr == Ptr(EndlessOf(I32t))

SS_ == <<"struct", "S">>
WW_ == <<"word", "W">>
\* declared type of the parameter / of the caller variable handed over / the cell it stands for
ParamShape(kd) == CASE kd = "value" -> I32t [] kd = "word" -> WW_ [] kd = "aview" -> Slice(I32t)
                    [] kd = "sview" -> SS_ [] kd = "sptr" -> SPtr(I32t) [] kd \in {"ptr", "ptr_elem", "ptr_mem"} -> Ptr(I32t)
                    [] kd = "pptr" -> Ptr(Ptr(I32t))
                    [] kd = "xaview" -> View(EndlessOf(I32t)) [] kd = "xsptr" -> XPtr
ArgDecl(kd) == CASE kd \in {"value", "ptr", "ptr_elem", "ptr_mem"} -> I32t [] kd = "word" -> WW_
                 [] kd \in {"aview", "sptr", "xaview", "xsptr"} -> Arr("2", I32t)
                 [] kd = "sview" -> SS_ [] kd = "pptr" -> Ptr(I32t)
TargetCell(kd) == CASE kd \in {"value", "ptr", "pptr"} -> "x" [] kd = "word" -> "wm"
                [] kd = "ptr_elem" -> "a1" [] kd = "ptr_mem" -> "sm"
                [] kd \in {"aview", "sptr", "xaview", "xsptr"} -> "a0"
                [] kd = "sview" -> "sm"
\* the path f uses to reach the i32 it reads / writes through parameter q
QPath(kd) == CASE kd \in {"value", "ptr", "pptr", "ptr_elem", "ptr_mem"} -> <<>> [] kd \in {"word", "sview"} -> <<"m">>
               [] kd \in {"aview", "sptr", "xaview", "xsptr"} -> <<"i">>

\* --- verdicts -------------------------------------------------------------
QCell(kd, ctx, path, k) == [kind |-> "param", d |-> ParamType(ParamShape(kd)), path |-> path, k |-> k, ctx |-> ctx]
\* the address markers f writes when it hands q on to g(r: pointer to what q stands for)
ForwardK(kd) == IF kd = "pptr" THEN 2 ELSE 1
WayVerdict(kd, way) ==
    CASE way \in {"none", "read", "copy"} -> Ok(<<>>)
      [] way = "write" -> RVerdict(QCell(kd, "assign", QPath(kd), 0))
      [] way = "forward" -> RVerdict(QCell(kd, "arg", <<>>, ForwardK(kd)))
      \* handing q on to `extern fn gx(r: &[]i32)`: q is a variable declared with the parameter type
      \* a slice pointer handed on to g(r: &[]i32) with a surplus address marker: `g(&&q)`
      [] way = "forward2" -> ArgOK(ParamType(ParamShape(kd)), 2, SPtr(I32t))
      [] way = "xfwd" -> ArgOK(ParamType(ParamShape(kd)), 0, XPtr)
      [] way = "xfwdamp" -> ArgOK(ParamType(ParamShape(kd)), 1, XPtr)
ArgVerdict(kd, amp) == ArgOK(ArgDecl(kd), amp, ParamShape(kd))

\* a program is a sequence of parameters [kd, way, amp, sc]; sc is the STATEMENT CONTEXT in which the
\* callee places what it does with the parameter (top level, block, loop block, then / else / else-if
\* arms, after a label; always executed exactly once).  Verdicts and the machine ignore it: the rules
\* are context independent.
ProgAccepted(prog) == \A i \in 1..Len(prog) : ArgVerdict(prog[i].kd, prog[i].amp).ok /\ WayVerdict(prog[i].kd, prog[i].way).ok
Codes(prog) == UNION {ArgVerdict(prog[i].kd, prog[i].amp).codes \cup WayVerdict(prog[i].kd, prog[i].way).codes : i \in 1..Len(prog)}

\* --- the machine ----------------------------------------------------------
Before == [x |-> 1, a0 |-> 2, a1 |-> 3, sm |-> 4, wm |-> 5]
Written(i) == 10 + i                       \* the value parameter i writes
\* a parameter reaches the caller's cell only through an address the caller wrote
Reaches(p) == p.amp >= 1 /\ p.kd \in {"sptr", "ptr", "pptr", "xsptr", "ptr_elem", "ptr_mem"}
Writes(p)  == p.way \in {"write", "forward", "forward2", "xfwd", "xfwdamp"}
RECURSIVE Run(_, _, _)
Run(prog, i, cells) == IF i > Len(prog) THEN cells
                       ELSE Run(prog, i + 1, IF Writes(prog[i]) /\ Reaches(prog[i])
                                             THEN [cells EXCEPT ![TargetCell(prog[i].kd)] = Written(i)] ELSE cells)
After(prog) == Run(prog, 1, Before)

AsSeq(cells) == <<cells.x, cells.a0, cells.a1, cells.sm, cells.wm>>
CellNames == <<"x", "a0", "a1", "sm", "wm">>

\* a cell may only differ after the call if some argument standing for it carried an address marker
NonInterference(prog, before, after) ==
    \A n \in 1..5 : before[n] # after[n] => \E i \in 1..Len(prog) : prog[i].amp >= 1 /\ TargetCell(prog[i].kd) = CellNames[n]
=============================================================================

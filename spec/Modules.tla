------------------------------- MODULE Modules -------------------------------
(***************************************************************************)
(* C12 -- imports expose exactly the public interface.                     *)
(*                                                                         *)
(* A program is a sequence of modules (in the order the files are given).  *)
(* Module i has a path [dir, name] (dir a sequence of directory names), a  *)
(* sequence of import declarations (each a path as written in the source)  *)
(* and a sequence of declarations [n |-> name, k |-> "fn"|"const"|"struct",*)
(* pub |-> BOOLEAN, body |-> BOOLEAN] (body: a function with a body, or a  *)
(* constant / structure with its definition).  Names are unique in the     *)
(* whole program (name clashes are C11's duplicates).  `ipos` is the       *)
(* number of own declarations written BEFORE the import lines: the         *)
(* documentation does not say where imports have to stand, so the position *)
(* is a dimension of Gen and no part of R.                                 *)
(*                                                                         *)
(*   Gen  every program up to MaxMods modules x MaxDecls declarations x    *)
(*        pub/private flags x import relation (self- and mutual imports    *)
(*        included).  Every file order of a set of modules is one of the   *)
(*        generated programs (module i IS position i), so "all file        *)
(*        orders" is part of the enumeration;                              *)
(*   R    Visible(m) = Own(m) \cup UNION { Pub(n) : m imports n }: never   *)
(*        private items, never items n itself imported; imported items are *)
(*        signatures (no function bodies) and are not public in m;         *)
(*   A    src/alpha/expander.rs expand: the import pairs are a SET that is *)
(*        iterated in hash order -- action Splice(m, n) takes ANY          *)
(*        remaining pair -- and splices Export(n) in front of m.           *)
(* TLC checks that every splice order ends in R's visible sets (confluence *)
(* as sets, invariant VisibleOK) and, separately, whether it ends in the   *)
(* same declaration SEQUENCES (SequencesConfluent -- expected to fail: the *)
(* order of spliced heads follows the hash order; that is C13's subject).  *)
(***************************************************************************)
EXTENDS Naturals, Sequences, FiniteSets, TLC, SequencesExt, FiniteSetsExt

CONSTANTS MaxMods, MaxDecls,
          Dirs,         \* set of directory sequences modules may live in, e.g. {<<>>}
          ImportPositions, \* TRUE: the import lines of a module stand at every position among its declarations
          ImportTwice,  \* TRUE: additionally every program with all its import lines written twice
          Restricted    \* TRUE (more modules): every module has exactly MaxDecls declarations, at most one declaration
                        \* of the program is private, no self-imports, and only the splice order of the code (pairs in
                        \* ascending order) is followed

VARIABLES mods,         \* the program as parsed: sequence of [dir, name, imports, decls]
          cur,          \* the current declaration sequence of every module (expand works in place)
          todo,         \* import pairs still to be spliced
          phase
vars == <<mods, cur, todo, phase>>

\* "head" is a function declared without a body (`pub fn h();`): exported like a function, its k is "fn".
\* Every other declaration is additionally marked `extern` (ext), which import leaves alone (only `pub` is cleared).
Kinds == <<"fn", "const", "struct", "head">>
KindOf(i, j) == Kinds[((i + j) % 4) + 1]
ExtOf(i, j) == (i + 2 * j) % 2 = 1
Letter(k) == CASE k = "fn" -> "f" [] k = "const" -> "c" [] k = "struct" -> "s" [] k = "head" -> "h"
Digit(x) == CASE x = 0 -> "0" [] x = 1 -> "1" [] x = 2 -> "2" [] x = 3 -> "3" [] x = 4 -> "4" [] x = 5 -> "5"
              [] x = 6 -> "6" [] x = 7 -> "7" [] x = 8 -> "8" [] x = 9 -> "9"
NameOf(i, j) == Letter(KindOf(i, j)) \o Digit(i) \o Digit(j)
FileName(i) == "m" \o Digit(i)

(***************************************************************************)
(* R -- the rule                                                           *)
(***************************************************************************)
\* an import written `imp` in a file living in `dir` names the module whose path is exactly `imp`,
\* or else the one whose path is `imp` relative to `dir` (docs: E470; expander.rs get_key_offset)
PathOf(ms, i) == [dir |-> ms[i].dir, name |-> ms[i].name]
Resolve(ms, i, imp) ==
    LET exact == { j \in 1..Len(ms) : PathOf(ms, j) = imp }
        rel == { j \in 1..Len(ms) : PathOf(ms, j) = [dir |-> ms[i].dir \o imp.dir, name |-> imp.name] }
    IN IF exact # {} THEN exact ELSE rel
ImportPairs(ms) == { <<i, j>> \in (1..Len(ms)) \X (1..Len(ms)) :
                        \E x \in 1..Len(ms[i].imports) : j \in Resolve(ms, i, ms[i].imports[x]) }
Unresolved(ms) == { <<i, x>> \in (1..Len(ms)) \X (1..MaxMods * 2) :
                        x <= Len(ms[i].imports) /\ Resolve(ms, i, ms[i].imports[x]) = {} }
Own(ms, i) == { ms[i].decls[x].n : x \in 1..Len(ms[i].decls) }
Pub(ms, i) == { ms[i].decls[x].n : x \in { y \in 1..Len(ms[i].decls) : ms[i].decls[y].pub } }
Visible(ms, i) == Own(ms, i) \cup UNION { Pub(ms, p[2]) : p \in { q \in ImportPairs(ms) : q[1] = i } }
\* what a declaration looks like inside module i
DeclOf(ms, nm) == LET i == CHOOSE i \in 1..Len(ms) : nm \in Own(ms, i)
                      x == CHOOSE x \in 1..Len(ms[i].decls) : ms[i].decls[x].n = nm
                  IN ms[i].decls[x]
SeenAs(ms, i, nm) == IF nm \in Own(ms, i) THEN DeclOf(ms, nm)
                     ELSE [DeclOf(ms, nm) EXCEPT !.pub = FALSE, !.body = (DeclOf(ms, nm).k # "fn")]
\* the code a reference to an invisible name must be rejected with
UndefinedCode(k) == CASE k = "fn" -> 401 [] k = "const" -> 402 [] k = "struct" -> 405
AllNames(ms) == UNION { Own(ms, i) : i \in 1..Len(ms) }

(***************************************************************************)
(* A -- expand                                                             *)
(***************************************************************************)
Export(seq) == LET pubs == SelectSeq(seq, LAMBDA d : d.pub)
               IN [x \in 1..Len(pubs) |-> [pubs[x] EXCEPT !.pub = FALSE, !.body = (pubs[x].k # "fn")]]
SpliceInto(c, i, j) == [c EXCEPT ![i] = Export(c[j]) \o c[i]]
RECURSIVE ApplyAll(_, _, _)
ApplyAll(c, order, x) == IF x > Len(order) THEN c ELSE ApplyAll(SpliceInto(c, order[x][1], order[x][2]), order, x + 1)
PairLess(p, q) == p[1] < q[1] \/ (p[1] = q[1] /\ p[2] < q[2])

(***************************************************************************)
(* Gen                                                                     *)
(***************************************************************************)
FlagSeqs == UNION { [1..d -> BOOLEAN] : d \in 0..MaxDecls }
DeclsOf(i, flags) == [j \in 1..Len(flags) |->
                        [n |-> NameOf(i, j), k |-> IF KindOf(i, j) = "head" THEN "fn" ELSE KindOf(i, j), pub |-> flags[j],
                         body |-> KindOf(i, j) # "head", ext |-> ExtOf(i, j)]]

Init == /\ mods = <<>> /\ cur = <<>> /\ todo = {} /\ phase = "modules"

AddModule == /\ phase = "modules" /\ Len(mods) < MaxMods
             /\ \E flags \in FlagSeqs, d \in Dirs :
                \E ip \in (IF ImportPositions THEN 0..Len(flags) ELSE {0}) :
                   /\ (Restricted => Len(flags) = MaxDecls)
                   /\ mods' = Append(mods, [dir |-> d, name |-> FileName(Len(mods) + 1), imports |-> <<>>,
                                        decls |-> DeclsOf(Len(mods) + 1, flags), ipos |-> ip])
             /\ UNCHANGED <<cur, todo, phase>>
\* every module imports a subset of the modules (by exact path), in ascending order
Privates(ms) == Cardinality({ <<i, x>> \in (1..Len(ms)) \X (1..MaxDecls) : x <= Len(ms[i].decls) /\ ~ms[i].decls[x].pub })
ChooseImports == /\ phase = "modules" /\ Len(mods) >= 1
                 /\ Restricted => (Len(mods) = MaxMods /\ Privates(mods) <= 1)
                 /\ \E rel \in SUBSET { p \in (1..Len(mods)) \X (1..Len(mods)) : ~Restricted \/ p[1] # p[2] } :
                    \E twice \in (IF ImportTwice /\ rel # {} THEN BOOLEAN ELSE {FALSE}) :
                       mods' = [i \in 1..Len(mods) |->
                                  [mods[i] EXCEPT !.imports =
                                      LET js == SetToSortSeq({ p[2] : p \in { q \in rel : q[1] = i } }, <)
                                          ps == [x \in 1..Len(js) |-> PathOf(mods, js[x])]
                                      IN IF twice THEN ps \o ps ELSE ps]]
                 /\ phase' = "collect"
                 /\ UNCHANGED <<cur, todo>>
\* expand, first loop: resolve the imports into a set of pairs, drop the self-imports
Collect == /\ phase = "collect"
           /\ cur' = [i \in 1..Len(mods) |-> mods[i].decls]
           /\ todo' = { p \in ImportPairs(mods) : p[1] # p[2] }
           /\ phase' = "splice"
           /\ UNCHANGED mods
\* expand, second loop: any remaining pair
Splice == /\ phase = "splice" /\ todo # {}
          /\ \E p \in (IF Restricted THEN { q \in todo : \A r \in todo : r = q \/ PairLess(q, r) } ELSE todo) :
                /\ cur' = SpliceInto(cur, p[1], p[2])
                /\ todo' = todo \ {p}
          /\ UNCHANGED <<mods, phase>>
Finish == /\ phase = "splice" /\ todo = {}
          /\ phase' = "end"
          /\ UNCHANGED <<mods, cur, todo>>

Next == AddModule \/ ChooseImports \/ Collect \/ Splice \/ Finish
Spec == Init /\ [][Next]_vars

(***************************************************************************)
(* A |= R                                                                  *)
(***************************************************************************)
NamesOf(seq) == { seq[x].n : x \in 1..Len(seq) }
\* confluence of Splice as SETS of visible declarations: whatever order was taken, every module ends
\* with exactly its visible names, each seen as the rule says (imported: not public, no function body),
\* and nothing twice
VisibleOK == phase = "end" =>
    \A i \in 1..Len(mods) :
        /\ NamesOf(cur[i]) = Visible(mods, i)
        /\ Len(cur[i]) = Cardinality(Visible(mods, i))
        /\ \A x \in 1..Len(cur[i]) : cur[i][x] = SeenAs(mods, i, cur[i][x].n)
\* along the way nothing private and nothing imported by the includee ever travels
NoLeak == phase \in {"splice", "end"} =>
    \A i \in 1..Len(mods) : NamesOf(cur[i]) \subseteq Visible(mods, i)
\* confluence as SEQUENCES (the IR text follows the declaration order): does not hold -- C13
Canonical == ApplyAll([i \in 1..Len(mods) |-> mods[i].decls],
                      SetToSortSeq({ p \in ImportPairs(mods) : p[1] # p[2] }, PairLess), 1)
SequencesConfluent == phase = "end" => cur = Canonical
=============================================================================

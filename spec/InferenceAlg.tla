--------------------------- MODULE InferenceAlg ---------------------------
(***************************************************************************)
(* A -- a model of how src/alpha/typer.rs propagates types (scalar         *)
(* variables, the statement / expression forms of MC_Inference.tla).       *)
(* Same state as the Rust struct `Typer`:                                  *)
(*    sym   the symbol table  resolution id -> Poisonable<ValueType>,      *)
(*          here  name -> "none" | type name | "poison";                   *)
(*    ctx   `contextual_type`, threaded as a parameter (every analysis in  *)
(*          this fragment sets it explicitly before it descends).          *)
(* `Declaration::Function::analyze` makes THREE passes over the body:      *)
(*    P1  forward over the parsed body (statements, then the return value),*)
(*    P2  over the statements of P1's RESULT in reverse order (literals    *)
(*        and references that P1 typed are kept as they are: `Deref {      *)
(*        deref_type: Some(_) } => self`), the result is thrown away,      *)
(*    P3  forward over the parsed body again; its result is resolved.      *)
(* Only the symbol table survives from one pass to the next.  One step of  *)
(* the model = one visit (AnStmt / An).  put_symbol = do_update_symbol for *)
(* primitive types: first writer wins, a different type is E500/E504.     *)
(* Two CANDIDATE REPAIRS of the defects found (docs/notes-infer.md F-I1,   *)
(* F-I2) can be switched on through the parameter fx; they only serve to   *)
(* label a rejected-though-determined body with the repair that would make *)
(* the algorithm accept it (known findings are matched by that label):     *)
(*    "left"  an operand of a comparison / binary operator that is still   *)
(*            untyped after both were analysed is analysed again with the  *)
(*            other operand's type;                                        *)
(*    "cast"  `e as T` does not hand T down to a variable operand.         *)
(* The verdict afterwards is what analyzer + resolver do with P3's tree:   *)
(* an untyped node is E580/E581/E582/E332, a poisoned one rejects, operand *)
(* / argument / index / return types are compared (E551, E512, E503, E333).*)
(***************************************************************************)
EXTENDS Inference

Get(sym, x) == LET s == SelectSeq(sym, LAMBDA r : r.x = x) IN IF s = <<>> THEN "none" ELSE s[1].v
Set(sym, x, v) == IF \E i \in 1..Len(sym) : sym[i].x = x
                  THEN [i \in 1..Len(sym) |-> IF sym[i].x = x THEN [x |-> x, v |-> v] ELSE sym[i]]
                  ELSE Append(sym, [x |-> x, v |-> v])
\* put_symbol: [sym, err]
Put(sym, x, vt) ==
    LET cur == Get(sym, x)
    IN IF vt = "none" THEN [sym |-> sym, err |-> FALSE]
       ELSE IF vt = "poison" THEN [sym |-> Set(sym, x, "poison"), err |-> FALSE]
       ELSE IF cur = "none" THEN [sym |-> Set(sym, x, vt), err |-> FALSE]
       ELSE IF cur = "poison" \/ cur = vt THEN [sym |-> sym, err |-> FALSE]
       ELSE [sym |-> sym, err |-> TRUE]

FilterNaked(ctx) == IF ctx \in {"none", "poison"} THEN ctx ELSE IF ctx \in LitTypes THEN ctx ELSE "i32"

RECURSIVE VT(_)
VT(e) == CASE e.k = "lit"   -> IF "t" \in DOMAIN e THEN e.t ELSE IF "vt" \in DOMAIN e THEN e.vt ELSE "none"
           [] e.k \in {"var", "idx"} -> IF "vt" \in DOMAIN e THEN e.vt ELSE "none"
           [] e.k = "bin"   -> VT(e.l)
           [] e.k = "paren" -> VT(e.e)
           [] e.k = "as"    -> e.t
           [] e.k = "call"  -> IF "vt" \in DOMAIN e THEN e.vt ELSE "none"
           [] e.k = "len"   -> "usize"
           [] OTHER -> "none"

PrimName(t) == IF t.k = "prim" THEN t.t ELSE "#agg"

RECURSIVE An(_, _, _, _, _, _)
\* -> [e |-> annotated expression, sym |-> symbol table]
An(fx, P, env, e, ctx, sym) ==
    CASE e.k = "lit" ->
            IF "t" \in DOMAIN e \/ ("vt" \in DOMAIN e /\ e.vt # "none") THEN [e |-> e, sym |-> sym]
            ELSE [e |-> [k |-> "lit", v |-> e.v, id |-> e.id, vt |-> FilterNaked(ctx)], sym |-> sym]
      [] e.k = "var" ->
            IF "vt" \in DOMAIN e /\ e.vt # "none" THEN [e |-> e, sym |-> sym]
            ELSE LET known == Get(sym, e.x)
                     declared == Lookup(env, e.x)
                     k2 == IF declared.k = "node" THEN known ELSE PrimName(StripPtr(declared))
                 IN IF k2 = "poison" THEN [e |-> [k |-> "var", x |-> e.x, vt |-> "poison"], sym |-> sym]
                    ELSE IF k2 # "none" THEN [e |-> [k |-> "var", x |-> e.x, vt |-> k2], sym |-> sym]
                    ELSE IF ctx = "none" THEN [e |-> [k |-> "var", x |-> e.x, vt |-> "none"], sym |-> sym]
                    ELSE [e |-> [k |-> "var", x |-> e.x, vt |-> ctx], sym |-> Put(sym, e.x, ctx).sym]   \* simple_deref
      [] e.k = "idx" ->
            IF "vt" \in DOMAIN e /\ e.vt # "none" THEN [e |-> e, sym |-> sym]
            ELSE LET i == An(fx, P, env, e.i, "usize", sym)
                 IN [e |-> [k |-> "idx", x |-> e.x, i |-> i.e, vt |-> PrimName(ElemOf(Lookup(env, e.x)))], sym |-> i.sym]
      [] e.k = "bin" ->
            LET cl == IF VT(e.r) # "none" THEN VT(e.r) ELSE ctx
                l  == An(fx, P, env, e.l, cl, sym)
                r  == An(fx, P, env, e.r, VT(l.e), l.sym)
                \* repair "left": an operand that is still untyped is analysed again with the other operand's type
                l2 == IF "left" \in fx /\ VT(l.e) = "none" /\ VT(r.e) \notin {"none", "poison"}
                      THEN An(fx, P, env, l.e, VT(r.e), r.sym) ELSE [e |-> l.e, sym |-> r.sym]
            IN [e |-> [k |-> "bin", op |-> e.op, l |-> l2.e, r |-> r.e], sym |-> l2.sym]
      [] e.k = "paren" ->
            LET i == An(fx, P, env, e.e, ctx, sym) IN [e |-> [k |-> "paren", e |-> i.e], sym |-> i.sym]
      [] e.k = "as" ->
            \* repair "cast": the target type is a hint for a naked literal operand only, never for a variable
            LET i == An(fx, P, env, e.e, IF "cast" \in fx /\ e.e.k # "lit" THEN "none" ELSE e.t, sym)
            IN [e |-> [k |-> "as", t |-> e.t, e |-> i.e], sym |-> i.sym]
      [] e.k = "call" ->
            LET g == FnOf(P, e.f)
                a == An(fx, P, env, e.args[1], PrimName(ParamTy(g.params[1])), sym)
            IN [e |-> [k |-> "call", f |-> e.f, args |-> <<a.e>>, vt |-> PrimName(g.ret)], sym |-> a.sym]
      [] OTHER -> [e |-> e, sym |-> sym]

AnCond(fx, P, env, c, sym) ==
    LET cl == VT(c.r)
        l  == An(fx, P, env, c.l, cl, sym)
        r  == An(fx, P, env, c.r, VT(l.e), l.sym)
        l2 == IF "left" \in fx /\ VT(l.e) = "none" /\ VT(r.e) \notin {"none", "poison"}
              THEN An(fx, P, env, l.e, VT(r.e), r.sym) ELSE [e |-> l.e, sym |-> r.sym]
    IN [c |-> [op |-> c.op, l |-> l2.e, r |-> r.e], sym |-> l2.sym]

\* -> [it |-> annotated item (field sv: what the statement ended with), sym]
AnStmt(fx, P, env, it, sym) ==
    CASE it.k = "V" /\ "ty" \in DOMAIN it ->
            IF it.ty.k # "prim"
            THEN [it |-> it @@ [sv |-> "ok"], sym |-> sym]          \* the prelude array: nothing to infer
            ELSE LET p1 == Put(sym, it.x, it.ty.t)
                     declared == Get(p1.sym, it.x)
                     v  == An(fx, P, env, it.e, declared, p1.sym)
                     vt == VT(v.e)
                     p2 == Put(v.sym, it.x, vt)
                 IN [it |-> [k |-> "V", x |-> it.x, ty |-> it.ty, e |-> v.e,
                             sv |-> IF vt = "none" THEN "none" ELSE IF vt = "poison" THEN "poison"
                                    ELSE IF p2.err THEN "error" ELSE Get(p2.sym, it.x)],
                     sym |-> p2.sym]
      [] it.k = "V" /\ "ty" \notin DOMAIN it ->
            LET v  == An(fx, P, env, it.e, Get(sym, it.x), sym)
                vt == VT(v.e)
                p  == Put(v.sym, it.x, vt)
            IN [it |-> [k |-> "V", x |-> it.x, e |-> v.e,
                        sv |-> IF vt \in {"none", "poison"} THEN vt ELSE IF p.err THEN "error" ELSE vt],
                sym |-> p.sym]
      [] it.k = "S" ->
            LET declared == Lookup(env, it.x)
                known == IF declared.k = "node" THEN Get(sym, it.x) ELSE PrimName(StripPtr(declared))
                v  == An(fx, P, env, it.e, known, sym)
                vt == VT(v.e)
                p  == IF known = "poison" THEN [sym |-> v.sym, err |-> FALSE] ELSE Put(v.sym, it.x, vt)
            IN [it |-> [k |-> "S", x |-> it.x, e |-> v.e,
                        sv |-> IF known = "poison" \/ vt = "poison" THEN "poison" ELSE IF vt = "none" THEN "none"
                               ELSE IF p.err \/ (declared.k # "node" /\ vt # known) THEN "error" ELSE "ok"],
                sym |-> p.sym]
      [] it.k = "IG" ->
            LET c == AnCond(fx, P, env, it.c, sym) IN [it |-> [k |-> "IG", n |-> it.n, c |-> c.c, sv |-> "ok"], sym |-> c.sym]
      [] it.k = "P" ->
            LET v == An(fx, P, env, it.e, "none", sym) IN [it |-> [k |-> "P", e |-> v.e, sv |-> "ok"], sym |-> v.sym]
      [] OTHER -> [it |-> it @@ [sv |-> "ok"], sym |-> sym]

RECURSIVE Forward(_, _, _, _, _, _), Backward(_, _, _, _, _, _)
Forward(fx, P, env, items, i, acc) ==      \* acc = [items, sym]
    IF i > Len(items) THEN acc
    ELSE LET r == AnStmt(fx, P, env, items[i], acc.sym)
         IN Forward(fx, P, env, items, i + 1, [items |-> Append(acc.items, r.it), sym |-> r.sym])
Backward(fx, P, env, items, i, sym) ==
    IF i < 1 THEN sym ELSE Backward(fx, P, env, items, i - 1, AnStmt(fx, P, env, items[i], sym).sym)

RetName(f) == IF f.ret.k = "void" THEN "none" ELSE PrimName(f.ret)
Pass(fx, P, env, f, sym) ==
    LET b == Forward(fx, P, env, f.body, 1, [items |-> <<>>, sym |-> sym])
    IN IF HasRes(f)
       THEN LET r == An(fx, P, env, f.res, RetName(f), b.sym) IN [items |-> b.items, sym |-> r.sym, res |-> r.e]
       ELSE [items |-> b.items, sym |-> b.sym, res |-> [k |-> "none"]]

(* -------------------- what analyzer + resolver do with P3's tree -------------------- *)
RECURSIVE Untyped(_), Mismatch(_, _), TypesIn(_)
Untyped(e) == CASE e.k = "lit"   -> VT(e) \in {"none", "poison"}
                [] e.k = "var"   -> VT(e) \in {"none", "poison"}
                [] e.k = "idx"   -> VT(e) \in {"none", "poison"} \/ Untyped(e.i)
                [] e.k = "bin"   -> Untyped(e.l) \/ Untyped(e.r)
                [] e.k \in {"paren", "as"} -> Untyped(e.e)
                [] e.k = "call"  -> Untyped(e.args[1])
                [] OTHER -> FALSE
Mismatch(P, e) ==
    \* (the decision tables of resolver.rs as transcribed in TypeRules.tla: MOperands, MCast)
    CASE e.k = "bin"  -> TR!MOperands(e.op, <<VT(e.l)>>, <<VT(e.r)>>) # {} \/ Mismatch(P, e.l) \/ Mismatch(P, e.r)
      [] e.k = "as"   -> TR!MCast(<<VT(e.e)>>, <<e.t>>) # {} \/ Mismatch(P, e.e)
      [] e.k = "paren" -> Mismatch(P, e.e)
      [] e.k = "call" -> VT(e.args[1]) # PrimName(ParamTy(FnOf(P, e.f).params[1])) \/ Mismatch(P, e.args[1])
      [] e.k = "idx"  -> VT(e.i) # "usize" \/ Mismatch(P, e.i)
      [] OTHER -> FALSE
TypesIn(e) == CASE e.k = "lit"  -> IF "t" \in DOMAIN e THEN {} ELSE {[n |-> e.id, t |-> VT(e)]}
                [] e.k = "bin"  -> TypesIn(e.l) \cup TypesIn(e.r)
                [] e.k \in {"paren", "as"} -> TypesIn(e.e)
                [] e.k = "call" -> TypesIn(e.args[1])
                [] e.k = "idx"  -> TypesIn(e.i)
                [] OTHER -> {}

ItemExprsA(it) == CASE it.k \in {"V", "S", "P"} -> <<it.e>>
                    [] it.k = "IG" -> <<it.c.l, it.c.r>>
                    [] OTHER -> <<>>

\* fx = {}: the pinned algorithm; "left" / "cast": the candidate repairs (see the header)
AlgRunFx(fx, P, f) ==
    LET env == Env(P, f)
        p1  == Pass(fx, P, env, f, <<>>)
        s2  == Backward(fx, P, env, p1.items, Len(p1.items), p1.sym)
        p3  == Pass(fx, P, env, f, s2)
        its == p3.items
        exprs == UNION {SeqToSet(ItemExprsA(its[i])) : i \in 1..Len(its)} \cup (IF HasRes(f) THEN {p3.res} ELSE {})
        conflict == \E i \in 1..Len(its) : its[i].sv = "error"
        untyped  == (\E i \in 1..Len(its) : its[i].sv \in {"none", "poison"}) \/ (\E e \in exprs : Untyped(e))
        condbad  == \E i \in 1..Len(its) : its[i].k = "IG" /\ VT(its[i].c.l) # VT(its[i].c.r)
        retbad   == HasRes(f) /\ VT(p3.res) # RetName(f)
        mismatch == (\E e \in exprs : Mismatch(P, e)) \/ condbad \/ retbad
        types == {[n |-> its[i].x, t |-> its[i].sv] : i \in {j \in 1..Len(its) : its[j].k = "V" /\ "ty" \notin DOMAIN its[j]}}
                 \cup UNION {TypesIn(e) : e \in exprs}
    IN [ok |-> ~conflict /\ ~untyped /\ ~mismatch,
        why |-> IF conflict THEN "conflict" ELSE IF untyped THEN "untyped" ELSE IF mismatch THEN "mismatch" ELSE "",
        types |-> types]
AlgRun(P, f) == AlgRunFx({}, P, f)
\* the smallest set of candidate repairs under which the algorithm accepts ("none": not even with both)
RepairNeeded(P, f) == IF AlgRunFx({"left"}, P, f).ok THEN "left"
                      ELSE IF AlgRunFx({"cast"}, P, f).ok THEN "cast"
                      ELSE IF AlgRunFx({"left", "cast"}, P, f).ok THEN "left+cast"
                      ELSE "none"
=============================================================================

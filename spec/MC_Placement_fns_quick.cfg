SPECIFICATION Spec
CONSTANTS
  MaxLen = 7
  MinFns = 2
  MaxFns = 2
  MaxDepth = 4
  TokenKinds = {"S", "G", "LP", "O", "C", "I", "E", "F"}
  ElseFlagCleared = TRUE
INVARIANTS Agree AgreeLints EmitCase
CHECK_DEADLOCK FALSE

------------------------------ MODULE CliDiag ------------------------------
(***************************************************************************)
(* C18, second part -- the rendering options hold for EVERY diagnostic.    *)
(*                                                                         *)
(* Cli.tla crosses all options with two faults (E110, E402).  The clause   *)
(* "rendered diagnostics that honour --color=never and --arrows=ascii" is  *)
(* about every diagnostic of the catalogue: each error and lint has its    *)
(* own rendering code (labels, notes, colours).  A catalogue configuration *)
(* is one sample file of the repository (sample s of NSamples; the check   *)
(* numbers the files that show an error code when compiled without options *)
(* 1..NInvalid, then the files that only show lint codes) compiled by one  *)
(* subcommand under every combination of --color and --arrows (and         *)
(* --verbose).  Files that only raise lints compile: they are run with     *)
(* `emit` only, so that no backend is started.                             *)
(*                                                                         *)
(* R: the options change the rendering only --                             *)
(*   codes     the set of [Exxx] / [Lxxxx] tags shown is the one shown     *)
(*             without options (same_codes), and it is not empty;          *)
(*   status    an invalid sample ends with a non-zero status whatever the  *)
(*             options are (a lint sample: unconstrained here, see Cli);   *)
(*   no_ansi   --color=never: no ESC byte anywhere in the output;          *)
(*   ascii     --arrows=ascii: every non-ASCII character of the output     *)
(*             occurs in the source text of the sample (quoted source).    *)
(***************************************************************************)
EXTENDS Naturals, TLC, Json

CONSTANTS NSamples,      \* samples 1..NInvalid fail to compile, NInvalid+1..NSamples raise lints only
          NInvalid,
          Verbs          \* {"default"} (quick) or {"default", "verbose"}

Subs == {"build", "run", "emit"}
Colors == {"default", "never", "always"}
Arrows == {"default", "ascii"}

Invalid(d) == d.sample <= NInvalid
DConfigs == { d \in [sample : 1..NSamples, sub : Subs, color : Colors, arrows : Arrows, verb : Verbs] :
                ~Invalid(d) => d.sub = "emit" }
DExpect(d) == [nonzero |-> Invalid(d), diag |-> TRUE, same_codes |-> TRUE,
               no_ansi |-> d.color = "never", ascii |-> d.arrows = "ascii"]

VARIABLE d
Init == d \in DConfigs
Next == UNCHANGED d
Spec == Init /\ [][Next]_d

\* sanity of R: every sample is crossed with every option value, and the plain configuration
\* (the reference for same_codes) is one of them
Sane == /\ [d EXCEPT !.sub = "emit", !.color = "default", !.arrows = "default", !.verb = "default"] \in DConfigs
        /\ DExpect(d).no_ansi => d.color # "always"
EmitCase == PrintT(<<"CASE", ToJson([cfg |-> d, expect |-> DExpect(d)])>>)
=============================================================================

SPECIFICATION TSpec
CONSTANTS
  Thorough = FALSE
POSTCONDITION Accepted
CHECK_DEADLOCK FALSE

SPECIFICATION TSpec
CONSTANTS
  CapFactor = 2
  TokMin = 65536
  TokMax = 16777216
  ErrCap = 100
  MaxToks = 0
  MaxAborts = 0
  MaxBad = 0
  Densities = {1}
  DeclAlts = {}
  StmtAlts = {}
  PrimAlts = {}
  UnaryAlts = {}
  TypeAlts = {}
  ExprAlts = {}
  ExpectationTextComplete = FALSE
  Strict = TRUE
POSTCONDITION Accepted
CHECK_DEADLOCK FALSE

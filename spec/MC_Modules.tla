----------------------------- MODULE MC_Modules -----------------------------
(* Model-checking / case-emitting wrapper of Modules (TLC only). *)
EXTENDS Modules, Json, TLCExt

FlatDirs == {<<>>}
Flags(i) == [x \in 1..Len(mods[i].decls) |-> mods[i].decls[x].pub]
\* the import lines as written (a module may be named twice), as module numbers
Imps(i) == [x \in 1..Len(mods[i].imports) |-> CHOOSE j \in 1..Len(mods) : PathOf(mods, j) = mods[i].imports[x]]
\* one line per terminal state: the input, the rule's visible sets, and ONE of the declaration
\* sequences the model allows (the replay groups the lines of one input)
EmitCase == phase = "end" =>
    PrintT(<<"CASE", ToJson([
        flags |-> [i \in 1..Len(mods) |-> Flags(i)],
        imports |-> [i \in 1..Len(mods) |-> Imps(i)],
        ipos |-> [i \in 1..Len(mods) |-> mods[i].ipos],
        decls |-> [i \in 1..Len(mods) |-> mods[i].decls],
        visible |-> [i \in 1..Len(mods) |-> SetToSortSeq(Visible(mods, i), LAMBDA a, b : TRUE)],
        seen |-> [i \in 1..Len(mods) |-> [x \in 1..Len(cur[i]) |-> SeenAs(mods, i, cur[i][x].n)]],
        final |-> [i \in 1..Len(mods) |-> [x \in 1..Len(cur[i]) |-> cur[i][x].n]]])>>)
=============================================================================

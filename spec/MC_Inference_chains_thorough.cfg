SPECIFICATION Spec
CONSTANTS
  TypeSeq <- TS2
  MaxVars = 2
  MaxStmts = 4
  Forms = {"tv", "chain", "asgu", "asgt", "cmp"}
  Rets = {"void", "i32"}
INVARIANTS ASound AUndet ASolution EmitCase
CHECK_DEADLOCK FALSE

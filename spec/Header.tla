------------------------------- MODULE Header -------------------------------
(***************************************************************************)
(* C17 -- the extracted header is exactly the public interface.            *)
(*                                                                         *)
(*   Gen  actions that grow a module, one top-level declaration at a time: *)
(*        function with body, function head, constant, struct, word,       *)
(*        import; each with a pub flag, an extern flag, a name, parameters,*)
(*        return type, type, value, members and body statements.           *)
(*   R    the rule (property statement, docs/features.md "Imports"): the   *)
(*        header is the module restricted to its pub declarations, in      *)
(*        order, flag cleared, bodies removed, everything else identical.  *)
(*   A    the flat node buffer of src/delta/parser/parse_tree.rs as a      *)
(*        sequence of records [k, ref, p]: the pushes parser.rs makes for  *)
(*        each declaration, the private-zone protocol (set_private /       *)
(*        set_public / patch_start_of_private_zone) and build_header_nodes *)
(*        with num_skipped_nodes and ParseNode::convert_for_head.          *)
(*                                                                         *)
(* TLC checks on every generated module that decoding A's header buffer    *)
(* (the way parse_tree_xml.rs reads it) gives exactly R's header, and that *)
(* every reference in the header points at the image of the node it        *)
(* pointed at in the original buffer.                                      *)
(*                                                                         *)
(* Types and expressions are sequences of strings in prefix form:          *)
(*   <<"i32">>  <<"&","i32">>  <<"[4]","u8">>     <<"1">>  <<"+","1","x">>  *)
(* Positions are 1-based (Rust index + 1); ref = 0 means "no reference".   *)
(***************************************************************************)
EXTENDS Naturals, Sequences, FiniteSets, TLC

CONSTANTS MaxDecls,          \* bound on the number of declarations
          Names,             \* sequence of declaration names, one per position
          Shapes(_),         \* name -> set of declaration records offered at a position
          \* knobs that make A defective on purpose (vacuity / self-test configurations)
          SkipOffByOne,      \* num_skipped += end - i       instead of end + 1 - i
          KeepListFirst,     \* convert_for_head leaves List.first unadjusted
          KeepPublicFlag,    \* convert_for_head keeps the Public flag
          NoBodyZone         \* no set_private / set_public around the body of a pub fn

(***************************************************************************)
(* Abstract declarations.                                                  *)
(***************************************************************************)
D0(name) == [k |-> "", pub |-> FALSE, ext |-> FALSE, opq |-> FALSE, name |-> name,
             params |-> <<>>, ret |-> <<>>, ty |-> <<>>, val |-> <<>>, mem |-> <<>>,
             size |-> 0, body |-> <<>>, res |-> <<>>]

\* literals of one node each: integers, and (dimension audit) string and character literals whose text needs escaping
\* in an XML dump (`<`, `&`, quotes, a backslash)
Lits == {"0", "1", "2", "3", "7", "42", "\"a<b&c>d\"", "\"q\\\"q\"", "'<'", "'&'", "'\\''", "'\"'"}
BinOps == {"+", "-", "*", "/", "%"}
UnOps == {"neg", "not"}

(***************************************************************************)
(* R -- the rule.                                                          *)
(***************************************************************************)
Strip(d) == [d EXCEPT !.pub = FALSE,
                      !.k = IF @ = "fn" THEN "head" ELSE @,
                      !.body = <<>>, !.res = <<>>]
RHeader(m) == LET pubs == SelectSeq(m, LAMBDA d : d.pub)
              IN [x \in 1..Len(pubs) |-> Strip(pubs[x])]

(***************************************************************************)
(* A, part 1 -- the node buffer while parsing.                             *)
(* s = [n: the nodes, z: position of the open EndlessPrivateZone or 0,     *)
(*      zones: closed zones <<start, end>> in closing order,               *)
(*      decls: positions of the declaration nodes]                         *)
(***************************************************************************)
N(k, ref, p) == [k |-> k, ref |-> ref, p |-> p]
Push(s, node) == [s EXCEPT !.n = Append(@, node)]
Top(s) == Len(s.n)

Pad == 5   \* MAX_PARSE_NODE_CONTEXT padding nodes pushed by parser::parse
S0 == [n |-> [x \in 1..Pad |-> N("NoMoreItems", 0, "")], z |-> 0, zones |-> <<>>, decls |-> <<>>]

SetPrivate(s) == IF s.z = 0
                 THEN [Push(s, N("EndlessPZ", 0, "")) EXCEPT !.z = Len(s.n) + 1]
                 ELSE s
SetPublic(s) == IF s.z # 0
                THEN LET e == Len(s.n) + 1
                     IN [s EXCEPT !.n = [Append(s.n, N("EndPZ", s.z, "")) EXCEPT ![s.z] = N("StartPZ", e, "")],
                                  !.z = 0,
                                  !.zones = Append(@, <<s.z, e>>)]
                ELSE s

\* parse_type / parse_inner_type
RECURSIVE PInner(_, _, _)
PInner(s, t, i) == IF i >= Len(t) THEN Push(s, N("BaseVT", 0, t[Len(t)]))
                   ELSE Push(PInner(s, t, i + 1), N("WrapVT", 0, t[i]))
PType(s, t) == LET a == PInner(s, t, 1)
               IN IF Len(t) > 1 THEN Push(Push(a, N("EndOfSpan", 0, "")), N("CompositeVT", 0, "")) ELSE a

\* parse_expression on the vocabulary {literal, identifier, binary, unary, parenthesized};
\* result [s, i]: the buffer and the next position in e; the top node is the last one pushed
RECURSIVE PE(_, _, _)
PE(s, e, i) ==
    IF e[i] \in BinOps
    THEN LET l == PE(s, e, i + 1)
             ltop == Top(l.s)
             r == PE(l.s, e, l.i)
         IN [s |-> Push(Push(Push(r.s, N("Item", ltop, "")), N("BinaryOp", 0, e[i])), N("Binary", 0, "")), i |-> r.i]
    ELSE IF e[i] \in UnOps
    THEN LET x == PE(s, e, i + 1)
         IN [s |-> Push(Push(x.s, N("UnaryOp", 0, e[i])), N("Unary", 0, "")), i |-> x.i]
    ELSE IF e[i] = "()"
    THEN LET x == PE(s, e, i + 1) IN [s |-> Push(x.s, N("Paren", 0, "")), i |-> x.i]
    ELSE IF e[i] \in Lits
    THEN [s |-> Push(s, N("Literal", 0, e[i])), i |-> i + 1]
    ELSE \* a bare identifier: empty step list, List, Identifier, DerefAddressDepth, Deref
         LET p == Top(s) + 1
         IN [s |-> Push(Push(Push(Push(Push(s, N("NoMoreItems", 0, "")), N("List", p, "")),
                                  N("Identifier", 0, e[i])), N("AddrDepth", 0, "")), N("Deref", 0, "")),
             i |-> i + 1]
PExpr(s, e) == PE(s, e, 1).s

\* a list of IdentifierAndType (parameters, members): push_list_item / push_end_of_list.
\* result [s, first]
RECURSIVE PPairsR(_, _, _, _, _)
PPairsR(s, ps, k, prev, first) ==
    IF k > Len(ps)
    THEN LET e == Top(s) + 1
             s1 == Push(s, N("NoMoreItems", 0, ""))
         IN [s |-> IF prev = 0 THEN s1 ELSE [s1 EXCEPT !.n[prev].ref = e],
             first |-> IF first = 0 THEN e ELSE first]
    ELSE LET a == Push(PType(s, ps[k][2]), N("IdentAndType", 0, ps[k][1]))
             li == Top(a) + 1
             b == Push(a, N("ListItem", 0, ""))
             c == IF prev = 0 THEN b ELSE [b EXCEPT !.n[prev].ref = li]
         IN PPairsR(c, ps, k + 1, li, IF first = 0 THEN li ELSE first)
PPairs(s, ps) == PPairsR(s, ps, 1, 0, 0)

\* parse_statement on the vocabulary {loop, goto, var, call, label}
PStmt(s, kind) ==
    CASE kind = "loop" -> Push(s, N("Loop", 0, ""))
      [] kind = "goto" -> Push(Push(s, N("Identifier", 0, "end")), N("Goto", 0, ""))
      [] kind = "label" -> Push(Push(s, N("Identifier", 0, "end")), N("Label", 0, ""))
      [] kind = "var" ->   \* var v: i32 = 1;
            LET a == PType(s, <<"i32">>)
                tt == Top(a)
                b == Push(a, N("Literal", 0, "1"))
                vt == Top(b)
            IN Push(Push(Push(b, N("Item", vt, "")), N("Item", tt, "")), N("VarDecl", 0, ""))
      [] kind = "call" ->  \* f(1);
            LET a == Push(s, N("Literal", 0, "1"))
                li == Top(a) + 1
                b == Push(Push(a, N("ListItem", li + 1, "")), N("NoMoreItems", 0, ""))
            IN Push(Push(Push(b, N("List", li, "")), N("Identifier", 0, "f")), N("MethodCall", 0, ""))
      [] OTHER -> Push(s, N("Unknown", 0, kind))

RECURSIVE PStmtsR(_, _, _, _, _)
PStmtsR(s, b, k, prev, first) ==
    IF k > Len(b)
    THEN LET e == Top(s) + 1
             s1 == Push(s, N("NoMoreItems", 0, ""))
         IN [s |-> IF prev = 0 THEN s1 ELSE [s1 EXCEPT !.n[prev].ref = e],
             first |-> IF first = 0 THEN e ELSE first]
    ELSE LET a == PStmt(s, b[k])
             li == Top(a) + 1
             c0 == Push(a, N("ListItem", 0, ""))
             c == IF prev = 0 THEN c0 ELSE [c0 EXCEPT !.n[prev].ref = li]
         IN PStmtsR(c, b, k + 1, li, IF first = 0 THEN li ELSE first)

FlagStr(pub, ext, opq) == (IF pub THEN "P" ELSE "") \o (IF ext THEN "E" ELSE "") \o (IF opq THEN "O" ELSE "")
SizeStr(n) == CASE n = 0 -> "struct" [] n = 1 -> "w8" [] n = 2 -> "w16" [] n = 4 -> "w32"
                [] n = 8 -> "w64" [] n = 16 -> "w128" [] OTHER -> "w?"

Finish(s) == [s EXCEPT !.decls = Append(@, Top(s))]

\* parse_declaration
PDecl(s, d) ==
    LET s0 == IF d.pub THEN SetPublic(s) ELSE SetPrivate(s)
        flags == N("Flags", 0, FlagStr(d.pub, d.ext, d.opq))
    IN CASE d.k = "import" ->
              Finish(Push(Push(Push(s0, N("SimpleString", 0, d.name)), flags), N("ImportDecl", 0, "")))
         [] d.k = "const" ->
              LET a == PType(s0, d.ty)
                  tt == Top(a)
                  b == PExpr(a, d.val)
              IN Finish(Push(Push(Push(Push(b, N("Item", tt, "")), N("Identifier", 0, d.name)), flags),
                             N("ConstDecl", 0, "")))
         [] d.k \in {"struct", "word"} ->
              LET l == IF d.opq THEN [s |-> Push(s0, N("NoMoreItems", 0, "")), first |-> Top(s0) + 1]
                                ELSE PPairs(s0, d.mem)
              IN Finish(Push(Push(Push(Push(Push(l.s, N("List", l.first, "")), N("StructuralType", 0, SizeStr(d.size))),
                                       N("Identifier", 0, d.name)), flags), N("StructDecl", 0, "")))
         [] d.k \in {"fn", "head"} ->
              LET l == PPairs(s0, d.params)
                  a == IF d.ret = <<>> THEN Push(l.s, N("BaseVT", 0, "void")) ELSE PType(l.s, d.ret)
                  rt == Top(a)
                  impl == rt + 1
                  b == Push(Push(Push(Push(Push(Push(a, N("Unpatched", 0, "")), N("Item", rt, "")), N("List", l.first, "")),
                                      N("Identifier", 0, d.name)), flags), N("FnDecl", 0, ""))
                  declnode == Top(b)
              IN IF d.k = "head"
                 THEN [b EXCEPT !.n[impl] = N("NoMoreItems", 0, ""), !.decls = Append(@, declnode)]
                 ELSE LET zoned == d.pub /\ ~NoBodyZone
                          c == IF zoned THEN SetPrivate(b) ELSE b
                          st == PStmtsR(c, d.body, 1, 0, 0)
                          e == IF d.res = <<>> THEN Push(st.s, N("NoMoreItems", 0, ""))
                                               ELSE LET x == PExpr(st.s, d.res) IN Push(x, N("Item", Top(x), ""))
                          f == Push(Push(e, N("List", st.first, "")), N("FunctionBody", 0, ""))
                          fb == Top(f)
                          g == IF zoned THEN SetPublic(f) ELSE f
                      IN [g EXCEPT !.n[impl] = N("FunctionImpl", fb, ""), !.decls = Append(@, declnode)]
         [] OTHER -> s0

RECURSIVE ParseFrom(_, _, _)
ParseFrom(s, m, k) == IF k > Len(m) THEN s ELSE ParseFrom(PDecl(s, m[k]), m, k + 1)
ParseModule(m) == ParseFrom(S0, m, 1)

(***************************************************************************)
(* A, part 2 -- build_header_nodes and convert_for_head.                   *)
(***************************************************************************)
RefKinds == {"Item", "List", "ListItem", "Block", "If", "ThenElse"}
ZoneKinds == {"StartPZ", "EndPZ", "EndlessPZ"}
DropP(f) == CASE f = "P" -> "" [] f = "PE" -> "E" [] f = "PO" -> "O" [] f = "PEO" -> "EO" [] OTHER -> f

Convert(node, skipped) ==
    CASE node.k = "Flags" -> IF KeepPublicFlag THEN node ELSE [node EXCEPT !.p = DropP(@)]
      [] node.k = "List" -> IF KeepListFirst THEN node ELSE [node EXCEPT !.ref = @ - skipped]
      [] node.k \in RefKinds -> [node EXCEPT !.ref = @ - skipped]
      [] node.k = "FunctionImpl" -> N("NoMoreItems", 0, "")
      [] OTHER -> node

\* result [out: the header buffer, skipped, stop: position where the scan ended,
\*         steps: <<"skip", end, skipped, public>> / <<"decl", i, skipped, public>> in scan order]
RECURSIVE BH(_, _, _, _, _)
BH(buf, i, skipped, out, steps) ==
    IF i > Len(buf) THEN [out |-> out, skipped |-> skipped, stop |-> i, steps |-> steps]
    ELSE CASE buf[i].k = "StartPZ" ->
                LET e == buf[i].ref
                    sk == skipped + (IF SkipOffByOne THEN e - i ELSE e + 1 - i)
                IN BH(buf, e + 1, sk, out, Append(steps, <<"skip", e, sk, Len(out)>>))
           [] buf[i].k \in {"EndlessPZ", "EndPZ"} ->
                [out |-> out, skipped |-> skipped, stop |-> i, steps |-> steps]
           [] OTHER ->
                LET o2 == Append(out, Convert(buf[i], skipped))
                IN BH(buf, i + 1, skipped, o2,
                      IF buf[i].k \in {"FnDecl", "ConstDecl", "StructDecl", "ImportDecl"}
                      THEN Append(steps, <<"decl", i, skipped, Len(o2)>>) ELSE steps)
BuildHeader(buf) == BH(buf, 1, 0, <<>>, <<>>)

(***************************************************************************)
(* Reading a buffer the way parse_tree_xml.rs does (5 nodes of context     *)
(* before a declaration node, lists by following ListItem.next).           *)
(***************************************************************************)
Bad == <<"?">>
In(buf, i) == i \in 1..Len(buf)

RECURSIVE DInner(_, _)
DInner(buf, i) == IF ~In(buf, i) THEN Bad
                  ELSE IF buf[i].k = "BaseVT" THEN <<buf[i].p>>
                  ELSE IF buf[i].k = "WrapVT" THEN <<buf[i].p>> \o DInner(buf, i - 1)
                  ELSE Bad
DType(buf, top) == IF ~In(buf, top) THEN Bad
                   ELSE IF buf[top].k = "CompositeVT" THEN DInner(buf, top - 2) ELSE DInner(buf, top)

RECURSIVE DExpr(_, _)
DExpr(buf, top) ==
    IF ~In(buf, top) THEN Bad
    ELSE CASE buf[top].k = "Literal" -> <<buf[top].p>>
           [] buf[top].k = "Deref" -> IF In(buf, top - 2) THEN <<buf[top - 2].p>> ELSE Bad
           [] buf[top].k = "Binary" ->
                IF In(buf, top - 3) /\ buf[top - 2].k = "Item" /\ buf[top - 2].ref < top
                THEN <<buf[top - 1].p>> \o DExpr(buf, buf[top - 2].ref) \o DExpr(buf, top - 3) ELSE Bad
           [] buf[top].k = "Unary" -> IF In(buf, top - 2) THEN <<buf[top - 1].p>> \o DExpr(buf, top - 2) ELSE Bad
           [] buf[top].k = "Paren" -> <<"()">> \o DExpr(buf, top - 1)
           [] OTHER -> Bad

RECURSIVE DPairs(_, _)
DPairs(buf, at) ==
    IF ~In(buf, at) THEN <<<<"?", Bad>>>>
    ELSE IF buf[at].k = "NoMoreItems" THEN <<>>
    ELSE IF buf[at].k = "ListItem" /\ buf[at].ref > at /\ In(buf, at - 2)
    THEN <<<<buf[at - 1].p, DType(buf, at - 2)>>>> \o DPairs(buf, buf[at].ref)
    ELSE <<<<"?", Bad>>>>

StmtKind(node) == CASE node.k = "Loop" -> "loop" [] node.k = "Goto" -> "goto" [] node.k = "Label" -> "label"
                    [] node.k = "VarDecl" -> "var" [] node.k = "MethodCall" -> "call" [] OTHER -> "?"
RECURSIVE DStmts(_, _)
DStmts(buf, at) ==
    IF ~In(buf, at) THEN Bad
    ELSE IF buf[at].k = "NoMoreItems" THEN <<>>
    ELSE IF buf[at].k = "ListItem" /\ buf[at].ref > at /\ In(buf, at - 1)
    THEN <<StmtKind(buf[at - 1])>> \o DStmts(buf, buf[at].ref)
    ELSE Bad

HasP(f) == f \in {"P", "PE", "PO", "PEO"}
HasE(f) == f \in {"E", "PE", "EO", "PEO"}
HasO(f) == f \in {"O", "PO", "EO", "PEO"}
SizeOf(p) == CASE p = "w8" -> 1 [] p = "w16" -> 2 [] p = "w32" -> 4 [] p = "w64" -> 8 [] p = "w128" -> 16 [] OTHER -> 0

DDecl(buf, i) ==
    LET f == buf[i - 1].p
        base == [D0(buf[i - 2].p) EXCEPT !.pub = HasP(f), !.ext = HasE(f), !.opq = HasO(f)]
    IN CASE buf[i].k = "ImportDecl" -> [base EXCEPT !.k = "import"]
         [] buf[i].k = "ConstDecl" ->
              [base EXCEPT !.k = "const",
                           !.ty = IF buf[i - 3].k = "Item" THEN DType(buf, buf[i - 3].ref) ELSE Bad,
                           !.val = DExpr(buf, i - 4)]
         [] buf[i].k = "StructDecl" ->
              [base EXCEPT !.k = IF buf[i - 3].p = "struct" THEN "struct" ELSE "word",
                           !.size = SizeOf(buf[i - 3].p),
                           !.mem = IF buf[i - 4].k = "List" THEN DPairs(buf, buf[i - 4].ref) ELSE <<<<"?", Bad>>>>]
         [] buf[i].k = "FnDecl" ->
              LET impl == buf[i - 5]
                  rt == IF buf[i - 4].k = "Item" THEN DType(buf, buf[i - 4].ref) ELSE Bad
                  common == [base EXCEPT !.params = IF buf[i - 3].k = "List" THEN DPairs(buf, buf[i - 3].ref)
                                                                             ELSE <<<<"?", Bad>>>>,
                                         !.ret = IF rt = <<"void">> THEN <<>> ELSE rt]
              IN IF impl.k = "FunctionImpl"
                 THEN LET fb == impl.ref
                      IN IF In(buf, fb) /\ fb > Pad /\ buf[fb].k = "FunctionBody"
                         THEN [common EXCEPT !.k = "fn",
                                             !.body = IF buf[fb - 1].k = "List" THEN DStmts(buf, buf[fb - 1].ref) ELSE Bad,
                                             !.res = IF buf[fb - 2].k = "Item" THEN DExpr(buf, buf[fb - 2].ref) ELSE <<>>]
                         ELSE [common EXCEPT !.k = "fn", !.body = Bad]
                 ELSE IF impl.k = "NoMoreItems" THEN [common EXCEPT !.k = "head"]
                 ELSE [common EXCEPT !.k = "malformed"]
         [] OTHER -> [base EXCEPT !.k = "?"]

DeclKinds == {"FnDecl", "ConstDecl", "StructDecl", "ImportDecl"}
\* import declarations carry their path in the string literal, not in an Identifier
DeclAt(buf, i) == IF buf[i].k = "ImportDecl"
                  THEN [DDecl(buf, i) EXCEPT !.name = buf[i - 2].p]
                  ELSE DDecl(buf, i)
Decode(buf) == LET idx == SelectSeq([j \in 1..Len(buf) |-> j], LAMBDA j : j > Pad /\ buf[j].k \in DeclKinds)
               IN [x \in 1..Len(idx) |-> DeclAt(buf, idx[x])]

(***************************************************************************)
(* Properties of one finished run: buf = the parser's buffer, h = the      *)
(* result of BuildHeader(buf).                                             *)
(***************************************************************************)
\* positions of buf that are copied (not inside a skipped zone, before the stop position)
RECURSIVE SkippedBefore(_, _, _)
SkippedBefore(zones, j, x) ==      \* number of nodes of closed zones that lie before position j
    IF x > Len(zones) THEN 0
    ELSE (IF zones[x][2] < j THEN zones[x][2] + 1 - zones[x][1] ELSE 0) + SkippedBefore(zones, j, x + 1)
InZone(zones, j) == \E x \in 1..Len(zones) : zones[x][1] <= j /\ j <= zones[x][2]
IsPublicPos(s, j) == j \in 1..Len(s.n) /\ ~InZone(s.zones, j) /\ (s.z = 0 \/ j < s.z)
Image(s, j) == j - SkippedBefore(s.zones, j, 1)

\* every public node is copied to its image, and every reference it carries points at the image of its target
RefIntegrity(s, h) ==
    /\ Len(h.out) = Cardinality({j \in 1..Len(s.n) : IsPublicPos(s, j)})
    /\ \A j \in 1..Len(s.n) : IsPublicPos(s, j) =>
          LET o == s.n[j]
              c == h.out[Image(s, j)]
          IN /\ Image(s, j) \in 1..Len(h.out)
             /\ IF o.k = "FunctionImpl" THEN c.k = "NoMoreItems" /\ c.ref = 0
                ELSE /\ c.k = o.k
                     /\ (o.ref = 0 => c.ref = 0)
                     /\ (o.ref # 0 => IsPublicPos(s, o.ref) /\ c.ref = Image(s, o.ref))

BodyKinds == {"FunctionBody", "FunctionImpl", "Loop", "Goto", "Label", "VarDecl", "MethodCall"}
NoBodiesNoZones(h) == \A j \in 1..Len(h.out) : h.out[j].k \notin (BodyKinds \cup ZoneKinds \cup {"Unpatched"})

\* zones are closed, disjoint, in increasing order; each one is bracketed by its markers
ZonesWellFormed(s) ==
    /\ \A x \in 1..Len(s.zones) :
          /\ s.zones[x][1] < s.zones[x][2]
          /\ s.n[s.zones[x][1]] = N("StartPZ", s.zones[x][2], "")
          /\ s.n[s.zones[x][2]] = N("EndPZ", s.zones[x][1], "")
          /\ (x > 1 => s.zones[x - 1][2] < s.zones[x][1])
    /\ (s.z # 0 => s.n[s.z].k = "EndlessPZ" /\ (Len(s.zones) > 0 => s.zones[Len(s.zones)][2] < s.z))
    \* a declaration node is private exactly if the declaration is
    /\ \A j \in 1..Len(s.n) : s.n[j].k \in ZoneKinds => (j = s.z \/ InZone(s.zones, j))

(***************************************************************************)
(* Gen + A: the state machine TLC explores.                                *)
(***************************************************************************)
VARIABLES mod,      \* the module generated so far
          st,       \* the parser's buffer state after parsing mod
          phase,    \* "gen" | "end"
          hdr       \* result of BuildHeader at the end
vars == <<mod, st, phase, hdr>>

NoHdr == [out |-> <<>>, skipped |-> 0, stop |-> 0, steps |-> <<>>]

Init == mod = <<>> /\ st = S0 /\ phase = "gen" /\ hdr = NoHdr

Add(d) == /\ phase = "gen" /\ Len(mod) < MaxDecls
          /\ mod' = Append(mod, d)
          /\ st' = PDecl(st, d)
          /\ UNCHANGED <<phase, hdr>>

Done == /\ phase = "gen"
        /\ phase' = "end"
        /\ hdr' = BuildHeader(st.n)
        /\ UNCHANGED <<mod, st>>

Next == (Len(mod) < MaxDecls /\ \E d \in Shapes(Names[Len(mod) + 1]) : Add(d)) \/ Done
Spec == Init /\ [][Next]_vars

(***************************************************************************)
(* Invariants.                                                             *)
(***************************************************************************)
\* the incremental buffer is the buffer of the whole module (Gen and A stay in step)
Incremental == st = ParseModule(mod)
\* sanity of the model: reading the parser's buffer gives back the module
ParseFaithful == Decode(st.n) = mod
ZonesOK == ZonesWellFormed(st)
\* private declarations are inside zones, public ones outside; bodies of public functions inside
ZoneCoverage == \A x \in 1..Len(mod) :
                    LET j == st.decls[x]
                    IN /\ mod[x].pub = IsPublicPos(st, j)
                       /\ (mod[x].k = "fn" /\ ~NoBodyZone => ~IsPublicPos(st, st.n[j - 5].ref))
\* A |= R
HeaderIsRule == phase = "end" => Decode(hdr.out) = RHeader(mod)
RefsIntact == phase = "end" => RefIntegrity(st, hdr)
NothingPrivate == phase = "end" => NoBodiesNoZones(hdr)
Conservation == phase = "end" =>
                    /\ hdr.stop = IF st.z = 0 THEN Len(st.n) + 1 ELSE st.z
                    /\ Len(hdr.out) + hdr.skipped + 1 = hdr.stop
=============================================================================

SPECIFICATION Spec
CONSTANTS
  MaxLen = 8
  MaxDepth = 1
  Fuel = 100
  Alphabet = {"O", "C", "IG", "L", "LP", "P", "INC"}
  Shape = "loop"
  Names = {"y"}
INVARIANTS MachineSane NoUB Monitors Scans EmitCase
CHECK_DEADLOCK FALSE

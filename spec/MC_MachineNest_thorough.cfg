SPECIFICATION Spec
CONSTANTS
  Fuel = 600
  As_ = {1, 2}
  Bs = {2, 3}
  Sibs = {TRUE, FALSE}
  Inc1s = {TRUE}
  Tls = {TRUE}
  Decls = {TRUE, FALSE}
INVARIANTS Sane AllValid EmitCase
CHECK_DEADLOCK FALSE

SPECIFICATION Spec
CONSTANTS
  MaxLen = 7
  NeedResult = TRUE
  MinFns = 1
  MaxFns = 2
  MaxDepth = 3
  Names = {"a", "return"}
INVARIANTS StackOK Agree ForwardOutward EmitCase
CHECK_DEADLOCK FALSE

SPECIFICATION TSpec
CONSTANTS
  Mode = "trace"
  MaxNodes = 0
  Enabled = {"Module", "Fn", "Head", "Const", "Struct", "Opaque", "Word", "Import", "Param", "Member", "TyPrim", "TyNamed", "TyPtr", "TyView", "TyArray", "TyArrayC", "TySlice", "TyEndless", "TyArraylike", "Var", "Set", "Call", "BCall", "Loop", "Goto", "Label", "If", "Block", "BinAdd", "BinMul", "BinBit", "BinShift", "Advance", "As", "Cast", "Un", "Paren", "Len", "SizeOf", "Int", "Bool", "Char", "Str", "FCall", "BFCall", "Array", "Structural", "FieldFull", "FieldShort", "Deref", "Idx", "Mem"}
  FlagSets = {}
  VarForms = {}
  FnNames = {"f"}
  ParamNames = {"p"}
  VarNames = {"x"}
  LabelNames = {"l"}
  GotoNames = {"l"}
  MemberNames = {"m"}
  TypeNames = {"S"}
  ConstNames = {"N"}
  Builtins = {"print"}
  PrimTypes = {"i8", "i16", "i32", "i64", "i128", "u8", "u16", "u32", "u64", "u128", "usize", "bool", "char8"}
  WordSizes = {1, 2, 4, 8, 16}
  Files = {}
  IntLits = {}
  CharLits = {}
  StrLits = {}
  ArrayLens = {}
  AddOps = {"+", "-"}
  MulOps = {"*", "/", "%"}
  BitOps = {"&", "|", "^"}
  ShiftOps = {"<<", ">>"}
  UnOps = {"-", "!"}
  CmpOps = {"==", "!=", "<", ">", "<=", ">="}
  MaxDecls = 1
  MaxParams = 0
  MaxMembers = 0
  MaxStmts = 0
  MaxBlock = 0
  MaxArgs = 0
  MaxElems = 0
  MaxFields = 0
  MaxSteps = 0
  Addrs = {0}
  SetAddrs = {0}
  LenAddrs = {0}
  TrailingCommas = {FALSE}
  LooseMembers = FALSE
CHECK_DEADLOCK FALSE
POSTCONDITION Accepted

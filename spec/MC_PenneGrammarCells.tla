------------------------ MODULE MC_PenneGrammarCells ------------------------
(***************************************************************************)
(* Cell generator of the `grammar` group (C16, C20): the dimensions that   *)
(* the exhaustive derivation of PenneGrammar.tla cannot reach within its   *)
(* node bounds (DESIGN.md 12.3, lessons 6-9; docs/notes-grammar.md,        *)
(* "Dimension audit").                                                     *)
(*                                                                         *)
(* A cell is a syntax tree written down directly as a preorder node        *)
(* sequence `pre` (the very node records the productions P_x of            *)
(* PenneGrammar create).  The rule is the one of C16:                      *)
(*       R:   Parse(Toks(Tree(pre))) = Tree(pre)                           *)
(* with Tree / Toks / WellFormed / Canon of PenneAst.tla: the module that  *)
(* is written is the canonical token list of the tree, respelled by Spell  *)
(* (hexadecimal / binary digits, string literals in several pieces), and   *)
(* CellsOK checks Canon(toks) = Toks(Tree(pre)) for every cell.  That a    *)
(* cell is a sentence of the grammar is checked by Trace_Grammar.tla on    *)
(* the recording of the real parser (C16 records every cell).              *)
(*                                                                         *)
(* Families (constant Families selects, the other constants size them):    *)
(*   wide    ONE list with n items, n past 2^7, 2^8, 2^10: statements of   *)
(*           a body / block (all statement kinds in turn), arguments,      *)
(*           elements, members, parameters, fields, declarations (every    *)
(*           kind x flag in turn), string pieces, operator chains, `as`    *)
(*   deep    ONE nest of depth d: parentheses, blocks, if, if/else, else-if*)
(*           chains, calls, array / structure literals, index, array types *)
(*   bound   the documented maxima (docs/errors.md E390): 126 / 127 access *)
(*           steps, 126 / 127 address markers on a reference and a type    *)
(*   pos     every primary expression (every literal kind, empty / non-    *)
(*           empty array and structure literal, call, reference, |x|, |:T|,*)
(*           parenthesis) in every expression position                     *)
(*   type    every type form in every type position                        *)
(*   stmt    every statement in every statement position                   *)
(*   name    identifiers: names of builtins and of C library functions,    *)
(*           keyword prefixes, one letter, underscores, 2^7 .. 2^16 + 1    *)
(*           characters, in every namespace role                           *)
(*   order   declarations a b a for every pair of (kind, flags)            *)
(*   decl    every declaration kind x flags x variant (0 / 1 / 3 items,    *)
(*           every word size), alone / after / before another declaration  *)
(*   indent  multi-line constructs of the rebuilder below d nested blocks  *)
(*   strlen  string literals of n characters (n around 2^7 .. 2^16)        *)
(* The .cfg files MC_PenneGrammarCells_<tier>.cfg are written by           *)
(* checks/grammar_cfgs.py.                                                 *)
(***************************************************************************)
EXTENDS MC_PenneGrammar

CONSTANTS Families, Sizes, Depths, IfDepths, IndentDepths, StrLens, NameLogs, OrderForms

(* ---- nodes (exactly the records the productions of PenneGrammar create) ---- *)
NMod(nd) == [k |-> "module", nd |-> nd]
NFnF(name, pb, ex, np, hasret, ns, hasres) ==
    [k |-> "fn", name |-> name, pub |-> pb, extern |-> ex, np |-> np, hasret |-> hasret, ns |-> ns, hasres |-> hasres]
NFn(name, np, hasret, ns, hasres) == NFnF(name, FALSE, FALSE, np, hasret, ns, hasres)
NHeadF(name, pb, ex, np, hasret) == [k |-> "head", name |-> name, pub |-> pb, extern |-> ex, np |-> np, hasret |-> hasret]
NHead(name, np, hasret) == NHeadF(name, FALSE, FALSE, np, hasret)
NConstF(name, pb, ex) == [k |-> "const", name |-> name, pub |-> pb, extern |-> ex]
NConst(name) == NConstF(name, FALSE, FALSE)
NStructF(name, pb, ex, nm, opq) == [k |-> "struct", name |-> name, pub |-> pb, extern |-> ex, nm |-> nm, opaque |-> opq]
NStruct(name, nm) == NStructF(name, FALSE, FALSE, nm, FALSE)
NWordF(name, pb, ex, nm, size) == [k |-> "word", name |-> name, pub |-> pb, extern |-> ex, nm |-> nm, size |-> size]
NWord(name, nm, size) == NWordF(name, FALSE, FALSE, nm, size)
NImport(f) == [k |-> "import", file |-> f.bytes]
NParam(name) == [k |-> "param", name |-> name]
NMember(name) == [k |-> "member", name |-> name]
NPrim(t) == [k |-> "prim", t |-> t]
NNamed(n) == [k |-> "named", n |-> n]
NPtr == [k |-> "ptr"]
NView == [k |-> "view"]
NSlice == [k |-> "slice"]
NEndless == [k |-> "endless"]
NArraylike == [k |-> "arraylike"]
NTArray(l) == [k |-> "tarray", n |-> l.v]
NTArrayC(c) == [k |-> "tarrayc", c |-> c]
NVar(x, hasty, hase) == [k |-> "var", x |-> x, hasty |-> hasty, hase |-> hase]
NSet(addr, base, nsteps) == [k |-> "set", addr |-> addr, base |-> base, nsteps |-> nsteps]
NCall(f, na) == [k |-> "call", f |-> f, na |-> na, builtin |-> FALSE]
NBCall(f, na) == [k |-> "call", f |-> f, na |-> na, builtin |-> TRUE]
NLoop == [k |-> "loop"]
NGoto(l) == [k |-> "goto", l |-> l]
NLabel(l) == [k |-> "label", l |-> l]
NIf(op, haselse) == [k |-> "if", op |-> op, haselse |-> haselse]
NBlock(ns) == [k |-> "block", ns |-> ns]
NBin(op) == [k |-> "bin", op |-> op]
NUn(op) == [k |-> "un", op |-> op]
NBool(v) == [k |-> "bool", v |-> v]
NInt(l) == [k |-> "int", v |-> l.v, suffix |-> l.suffix]
NChar(l) == [k |-> "char", v |-> l.v]
NStr(l) == [k |-> "str", bytes |-> Bytes(l.pieces)]
NStrB(bytes) == [k |-> "str", bytes |-> bytes]
NFCall(f, na) == [k |-> "fcall", f |-> f, na |-> na, builtin |-> FALSE]
NBFCall(f, na) == [k |-> "fcall", f |-> f, na |-> na, builtin |-> TRUE]
NArray(n) == [k |-> "array", n |-> n]
NStructural(name, nf) == [k |-> "structural", name |-> name, nf |-> nf]
NField(name) == [k |-> "field", name |-> name]
NParen == [k |-> "paren"]
NDeref(addr, base, nsteps) == [k |-> "deref", addr |-> addr, base |-> base, nsteps |-> nsteps]
NLen(addr, base, nsteps) == [k |-> "len", addr |-> addr, base |-> base, nsteps |-> nsteps]
NIdx == [k |-> "idx"]
NMem(m) == [k |-> "mem", m |-> m]
NCast == [k |-> "cast"]
NAs == [k |-> "as"]
NSizeOf == [k |-> "sizeof"]

(* ---- small pieces ---- *)
X == <<NDeref(0, "x", 0)>>
One == <<NInt(I_1)>>
U8 == <<NPrim("u8")>>
StLoop == <<NLoop>>
StGoto == <<NGoto("l")>>
StBlock0 == <<NBlock(0)>>
Cyc(seq, i) == seq[((i - 1) % Len(seq)) + 1]
CycCat(seq, n) == Concat([i \in 1..n |-> Cyc(seq, i)])
RepCat(n, s) == Concat(Rep(n, s))
FnBody(stmts, ns) == <<NMod(1), NFn("f", 0, FALSE, ns, FALSE)>> \o stmts
InStmt(s) == FnBody(s, 1)
InResult(e) == <<NMod(1), NFn("f", 0, FALSE, 0, TRUE)>> \o e

(* ---- spelling: hexadecimal / binary digits and string pieces for the literals that have them ---- *)
I_ffu8 == ILit(16, <<15, 15>>, <<>>, "u8")
I_b101 == ILit(2, <<1, 0, 1>>, <<>>, "i32")
I_17u8 == ILit(10, <<1, 7>>, <<>>, "u8")
I_128i8 == ILit(10, <<1, 2, 8>>, <<>>, "i8")
I_17usize == ILit(10, <<1, 7>>, <<>>, "usize")
I_2p32m1 == Dec(<<4, 2, 9, 4, 9, 6, 7, 2, 9, 5>>)
I_2p32 == Dec(<<4, 2, 9, 4, 9, 6, 7, 2, 9, 6>>)
I_2p64m1 == Dec(<<1, 8, 4, 4, 6, 7, 4, 4, 0, 7, 3, 7, 0, 9, 5, 5, 1, 6, 1, 5>>)
IntHints == {I_500M, I_hex, I_bin, I_big, I_ffu8, I_b101}
StrHints == {S_esc, S_two, S_three, S_raw, S_quoted}
SpellTok(t) ==
    IF t.k = "int" /\ (\E l \in IntHints : l.v = t.v /\ l.suffix = t.suffix)
    THEN <<t @@ [h |-> (CHOOSE l \in IntHints : l.v = t.v /\ l.suffix = t.suffix).h]>>
    ELSE IF t.k = "str" /\ (\E l \in StrHints : Bytes(l.pieces) = t.bytes)
    THEN LET l == CHOOSE l \in StrHints : Bytes(l.pieces) = t.bytes
         IN [i \in 1..Len(l.pieces) |-> WithHint(StrTok(l.pieces[i].bytes), l.pieces[i])]
    ELSE <<t>>
Spell(ts) == Concat([i \in 1..Len(ts) |-> SpellTok(ts[i])])

(***************************************************************************)
(* wide: one list of n items.                                              *)
(***************************************************************************)
StmtCycle == << <<NSet(0, "x", 0)>> \o X,                                         \* x = x;
                <<NCall("f", 1)>> \o X,                                           \* f(x);
                StLoop,                                                           \* loop;
                <<NVar("x", FALSE, TRUE)>> \o One,                                \* var x = 1;
                <<NLabel("l")>>,                                                  \* l:
                StGoto,                                                           \* goto l;
                StBlock0,                                                         \* { }
                <<NIf("==", FALSE)>> \o X \o One \o StGoto,                       \* if x == 1 goto l;
                <<NVar("x", TRUE, FALSE)>> \o U8,                                 \* var x: u8;
                <<NSet(1, "x", 1), NMem("m")>> \o One,                            \* &x.m = 1;
                <<NIf("<", TRUE)>> \o X \o X \o <<NBlock(1)>> \o StLoop \o StBlock0 >>   \* if x < x { loop; } else { }
ArgCycle == << X, One, <<NStr(S_hi)>>, <<NDeref(1, "x", 0)>>, <<NBool(TRUE)>>, <<NArray(0)>>, <<NFCall("f", 0)>>,
               <<NChar(CharLit(Ch(97)))>>, <<NInt(I_hex)>>, <<NStr(S_empty)>>, <<NStructural("S", 0)>> >>
MemberCycle == << <<NMember("m")>> \o U8, <<NMember("n"), NPtr, NNamed("S")>>, <<NMember("m"), NTArray(I_2), NPrim("bool")>> >>
ParamCycle == << <<NParam("p")>> \o U8, <<NParam("q"), NPtr, NNamed("S")>>, <<NParam("p"), NArraylike, NPrim("i32")>> >>
FieldCycle == << <<NField("m")>> \o One, <<NField("m"), NDeref(0, "m", 0)>>, <<NField("n")>> \o X >>
FlagSeq == << <<FALSE, FALSE>>, <<TRUE, FALSE>>, <<FALSE, TRUE>>, <<TRUE, TRUE>> >>
\* the declaration forms: 6 kinds x 4 flag sets, and the import
DeclForm(kind, fl) ==
    LET pb == FlagSeq[fl][1]
        ex == FlagSeq[fl][2]
    IN CASE kind = 1 -> <<NFnF("f", pb, ex, 0, FALSE, 1, FALSE)>> \o StLoop               \* fn f() { loop; }
         [] kind = 2 -> <<NHeadF("f", pb, ex, 1, TRUE), NParam("p")>> \o U8 \o U8          \* fn f(p: u8) -> u8;
         [] kind = 3 -> <<NConstF("N", pb, ex)>> \o U8 \o One                              \* const N: u8 = 1;
         [] kind = 4 -> <<NStructF("S", pb, ex, 1, FALSE), NMember("m")>> \o U8            \* struct S { m: u8, }
         [] kind = 5 -> <<NStructF("S", pb, ex, 0, TRUE)>>                                 \* struct S;
         [] kind = 6 -> <<NWordF("S", pb, ex, 1, 8), NMember("m")>> \o U8                  \* word64 S { m: u8, }
         [] kind = 7 -> <<NImport(F_a)>>                                                   \* import "a.pn";
DeclAt(i) == DeclForm(((i - 1) % 7) + 1, (((i - 1) \div 7) % 4) + 1)
AsTypes == << U8, <<NPrim("i32")>>, <<NPtr, NPrim("u8")>>, <<NPrim("i64")>> >>
PieceByte(i) == 97 + (i % 26)

\* the i-th of n DIFFERENT literals: an index confused with another one (payload tables, token numbers past 2^8, 2^16) shows
LimbsOf(i) == [b \in 1..16 |-> IF b = 1 THEN i % 256 ELSE IF b = 2 THEN (i \div 256) % 256
                                ELSE IF b = 3 THEN (i \div 65536) % 256 ELSE 0]
NumLit(i) == [v |-> LimbsOf(i), suffix |-> IF i % 5 = 4 THEN "u32" ELSE ""]
DigitBytes(i) == <<48 + ((i \div 10000) % 10), 48 + ((i \div 1000) % 10), 48 + ((i \div 100) % 10), 48 + ((i \div 10) % 10), 48 + (i % 10)>>
WideShapes == <<"body", "bodyres", "callargs", "fcallargs", "elems", "members", "wmembers", "params", "hparams", "fields",
                "block", "decls", "pieces", "addchain", "mulchain", "bitchain", "sumofproducts", "aschain", "ints", "strs", "chars",
                "callargs,", "fcallargs,", "elems,", "fields,">>
\* the same list written with the optional comma after its last item: k tokens follow the closing bracket of the list
WithTrailingComma(p, k) ==
    LET ts == Spell(Toks(Tree(p)))
        at == Len(ts) - k
    IN [pre |-> p, toks |-> SubSeq(ts, 1, at - 1) \o <<P(",")>> \o SubSeq(ts, at, Len(ts))]
WideCell(shape, n) ==
    CASE shape = "body" -> [pre |-> FnBody(CycCat(StmtCycle, n), n)]
      [] shape = "bodyres" -> [pre |-> <<NMod(1), NFn("f", 0, TRUE, n, TRUE)>> \o U8 \o CycCat(StmtCycle, n) \o X]
      [] shape = "callargs" -> [pre |-> InStmt(<<NCall("f", n)>> \o CycCat(ArgCycle, n))]
      [] shape = "fcallargs" -> [pre |-> InResult(<<NFCall("f", n)>> \o CycCat(ArgCycle, n))]
      [] shape = "elems" -> [pre |-> InResult(<<NArray(n)>> \o CycCat(ArgCycle, n))]
      [] shape = "members" -> [pre |-> <<NMod(1), NStruct("S", n)>> \o CycCat(MemberCycle, n)]
      [] shape = "wmembers" -> [pre |-> <<NMod(1), NWord("S", n, 16)>> \o CycCat(MemberCycle, n)]
      [] shape = "params" -> [pre |-> <<NMod(1), NFn("f", n, FALSE, 0, FALSE)>> \o CycCat(ParamCycle, n)]
      [] shape = "hparams" -> [pre |-> <<NMod(1), NHead("f", n, TRUE)>> \o CycCat(ParamCycle, n) \o U8]
      [] shape = "fields" -> [pre |-> InResult(<<NStructural("S", n)>> \o CycCat(FieldCycle, n))]
      [] shape = "block" -> [pre |-> InStmt(<<NBlock(n)>> \o CycCat(StmtCycle, n))]
      [] shape = "decls" -> [pre |-> <<NMod(n)>> \o Concat([i \in 1..n |-> DeclAt(i)])]
      [] shape = "pieces" ->
           LET p == InResult(<<NStrB([i \in 1..n |-> PieceByte(i)])>>)
               ts == Toks(Tree(p))
               at == CHOOSE i \in 1..Len(ts) : ts[i].k = "str"
           IN [pre |-> p, toks |-> SubSeq(ts, 1, at - 1) \o [i \in 1..n |-> StrTok(<<PieceByte(i)>>)] \o SubSeq(ts, at + 1, Len(ts))]
      [] shape = "addchain" -> [pre |-> InResult([i \in 1..(n - 1) |-> NBin(Cyc(<<"+", "-">>, i))] \o CycCat(<<X, One>>, n))]
      [] shape = "mulchain" -> [pre |-> InResult([i \in 1..(n - 1) |-> NBin(Cyc(<<"*", "/", "%">>, i))] \o CycCat(<<X, One>>, n))]
      [] shape = "bitchain" -> [pre |-> InResult(Rep(n - 1, NBin("|")) \o CycCat(<<X, One>>, n))]
      [] shape = "sumofproducts" ->
           [pre |-> InResult([i \in 1..(n - 1) |-> NBin(Cyc(<<"-", "+">>, i))] \o RepCat(n, <<NBin("*")>> \o X \o One))]
      [] shape = "aschain" -> [pre |-> InResult(Rep(n, NAs) \o X \o CycCat(AsTypes, n))]
      [] shape = "callargs," -> WithTrailingComma(InStmt(<<NCall("f", n)>> \o CycCat(ArgCycle, n)), 2)       \* f(.., ) ; }
      [] shape = "fcallargs," -> WithTrailingComma(InResult(<<NFCall("f", n)>> \o CycCat(ArgCycle, n)), 1)   \* f(.., ) }
      [] shape = "elems," -> WithTrailingComma(InResult(<<NArray(n)>> \o CycCat(ArgCycle, n)), 1)
      [] shape = "fields," -> WithTrailingComma(InResult(<<NStructural("S", n)>> \o CycCat(FieldCycle, n)), 1)
      \* [0, 1, 2, 3, 4u32, 5, ...]   ["00000", "00001", ...]   ['a', true, 'b', false, ...]
      [] shape = "ints" -> [pre |-> InResult(<<NArray(n)>> \o [i \in 1..n |-> NInt(NumLit(i - 1))])]
      [] shape = "strs" -> [pre |-> InResult(<<NArray(n)>> \o [i \in 1..n |-> NStrB(DigitBytes(i - 1))])]
      [] shape = "chars" -> [pre |-> InResult(<<NArray(n)>> \o [i \in 1..n |-> IF i % 2 = 1 THEN [k |-> "char", v |-> 33 + (i % 90)]
                                                                                  ELSE NBool(i % 4 = 0)])]

(***************************************************************************)
(* deep: one nest of depth d.                                              *)
(***************************************************************************)
IfHead == <<NIf("==", FALSE)>> \o X \o X \o <<NBlock(1)>>                         \* if x == x {
IfElseHead == <<NIf("!=", TRUE)>> \o X \o One \o <<NBlock(1)>>                    \* if x != 1 {  ...  } else { loop; }
ElseIfHead == <<NIf("==", TRUE)>> \o X \o X \o StGoto                             \* if x == x goto l; else
DeepShapes == <<"paren", "block", "call", "array", "structural", "index", "tyarray", "rparen", "negparen", "mixed">>
IfShapes == <<"if", "ifelse", "elseif">>
DeepCell(shape, d) ==
    CASE shape = "paren" -> [pre |-> InResult(Rep(d, NParen) \o X)]
      [] shape = "block" -> [pre |-> InStmt(Rep(d, NBlock(1)) \o StLoop)]
      [] shape = "call" -> [pre |-> InResult(Rep(d, NFCall("f", 1)) \o X)]
      [] shape = "array" -> [pre |-> InResult(Rep(d, NArray(1)) \o One)]
      [] shape = "structural" -> [pre |-> InResult(RepCat(d, <<NStructural("S", 1), NField("m")>>) \o One)]
      [] shape = "index" -> [pre |-> InResult(RepCat(d, <<NDeref(0, "x", 1), NIdx>>) \o One)]
      [] shape = "tyarray" -> [pre |-> <<NMod(1), NHead("f", 1, FALSE), NParam("p")>> \o Rep(d, NTArray(I_2)) \o U8]
      [] shape = "rparen" -> [pre |-> InResult(RepCat(d, <<NBin("+")>> \o X \o <<NParen>>) \o X)]
      [] shape = "negparen" -> [pre |-> InResult(RepCat(d, <<NUn("-"), NParen>>) \o X)]
      \* f([(S { m: f([( ... x ... )]) })])
      [] shape = "mixed" -> [pre |-> InResult(RepCat(d, <<NFCall("f", 1), NArray(1), NParen, NStructural("S", 1), NField("m")>>) \o X)]
      [] shape = "if" -> [pre |-> InStmt(RepCat(d, IfHead) \o StLoop)]
      [] shape = "ifelse" -> [pre |-> InStmt(RepCat(d, IfElseHead) \o StLoop \o RepCat(d, <<NBlock(1)>> \o StLoop))]
      [] shape = "elseif" -> [pre |-> InStmt(RepCat(d, ElseIfHead) \o StGoto)]

(***************************************************************************)
(* bound: the documented maxima (docs/errors.md E390: at most 127 address  *)
(* markers in front of a reference or type, at most 127 accesses chained). *)
(***************************************************************************)
StepCycle(kind) == IF kind = 1 THEN << <<NMem("m")>> >>
                   ELSE IF kind = 2 THEN << <<NIdx>> \o One >>
                   ELSE << <<NMem("m")>>, <<NIdx>> \o X, <<NMem("n")>> >>
BoundShapes == <<"steps.m", "steps[]", "steps.mix", "setsteps.m", "setsteps.mix", "lensteps.mix", "addr", "setaddr", "typtr", "advaddr">>
BoundNs == {126, 127}
BoundCell(shape, n) ==
    CASE shape = "steps.m" -> [pre |-> InResult(<<NDeref(0, "x", n)>> \o CycCat(StepCycle(1), n))]
      [] shape = "steps[]" -> [pre |-> InResult(<<NDeref(0, "x", n)>> \o CycCat(StepCycle(2), n))]
      [] shape = "steps.mix" -> [pre |-> InResult(<<NDeref(1, "x", n)>> \o CycCat(StepCycle(3), n))]
      [] shape = "setsteps.m" -> [pre |-> InStmt(<<NSet(0, "x", n)>> \o CycCat(StepCycle(1), n) \o One)]
      [] shape = "setsteps.mix" -> [pre |-> InStmt(<<NSet(1, "x", n)>> \o CycCat(StepCycle(3), n) \o One)]
      [] shape = "lensteps.mix" -> [pre |-> InResult(<<NLen(0, "x", n)>> \o CycCat(StepCycle(3), n))]
      [] shape = "addr" -> [pre |-> InResult(<<NDeref(n, "x", 0)>>)]
      [] shape = "setaddr" -> [pre |-> InStmt(<<NSet(n, "x", 0)>> \o One)]
      [] shape = "typtr" -> [pre |-> <<NMod(1), NHead("f", 1, FALSE), NParam("p")>> \o Rep(n, NPtr) \o U8]
      [] shape = "advaddr" -> [pre |-> InResult(<<NBin(".."), NDeref(n, "x", 1), NMem("m")>> \o One)]

(***************************************************************************)
(* pos: every primary expression in every expression position.             *)
(* lv: the level of the production that creates the atom (PenneGrammar);   *)
(* c: FALSE if the atom contains a structure literal (not in a condition). *)
(***************************************************************************)
A(name, lv, c, p) == [a |-> name, lv |-> lv, c |-> c, pre |-> p]
Atoms == <<
    A("x", 6, TRUE, X),
    A("&x", 6, TRUE, <<NDeref(1, "x", 0)>>),
    A("&&x.m[1]", 6, TRUE, <<NDeref(2, "x", 2), NMem("m"), NIdx>> \o One),
    A("x[x]", 6, TRUE, <<NDeref(0, "x", 1), NIdx>> \o X),
    A("0", 6, TRUE, <<NInt(I_0)>>),
    A("1", 6, TRUE, One),
    A("128", 6, TRUE, <<NInt(I_128)>>),
    A("imax", 6, TRUE, <<NInt(I_imax)>>),
    A("umax", 6, TRUE, <<NInt(I_umax)>>),
    A("500_000_000", 6, TRUE, <<NInt(I_500M)>>),
    A("0xfb4934ff", 6, TRUE, <<NInt(I_hex)>>),
    A("0b1000_0001", 6, TRUE, <<NInt(I_bin)>>),
    A("0x4..0", 6, TRUE, <<NInt(I_big)>>),
    A("17u8", 6, TRUE, <<NInt(I_17u8)>>),
    A("128i8", 6, TRUE, <<NInt(I_128i8)>>),
    A("17usize", 6, TRUE, <<NInt(I_17usize)>>),
    A("0xffu8", 6, TRUE, <<NInt(I_ffu8)>>),
    A("0b101i32", 6, TRUE, <<NInt(I_b101)>>),
    A("true", 6, TRUE, <<NBool(TRUE)>>),
    A("false", 6, TRUE, <<NBool(FALSE)>>),
    A("'a'", 6, TRUE, <<NChar(CharLit(Ch(97)))>>),
    A("'\\n'", 6, TRUE, <<NChar(CharLit(Esc("n")))>>),
    A("'\\''", 6, TRUE, <<NChar(CharLit(Esc("'")))>>),
    A("'\\xa3'", 6, TRUE, <<NChar(CharLit(EscX(<<10, 3>>)))>>),
    A("\"Hi\"", 6, TRUE, <<NStr(S_hi)>>),
    A("\"\"", 6, TRUE, <<NStr(S_empty)>>),
    A("string with escapes", 6, TRUE, <<NStr(S_esc)>>),
    A("string with quotes", 6, TRUE, <<NStr(S_quoted)>>),
    A("string ending in an escaped quote", 6, TRUE, <<NStr(S_endq)>>),
    A("raw utf-8 string", 6, TRUE, <<NStr(S_raw)>>),
    A("two string pieces", 6, TRUE, <<NStr(S_two)>>),
    A("three string pieces", 6, TRUE, <<NStr(S_three)>>),
    A("[]", 6, TRUE, <<NArray(0)>>),
    A("[1]", 6, TRUE, <<NArray(1)>> \o One),
    A("[x, \"\", []]", 6, TRUE, <<NArray(3)>> \o X \o <<NStr(S_empty), NArray(0)>>),
    A("S { }", 6, FALSE, <<NStructural("S", 0)>>),
    A("S { m: 1 }", 6, FALSE, <<NStructural("S", 1), NField("m")>> \o One),
    A("S { m }", 6, FALSE, <<NStructural("S", 1), NField("m"), NDeref(0, "m", 0)>>),
    A("S { m: S { }, n: [] }", 6, FALSE, <<NStructural("S", 2), NField("m"), NStructural("S", 0), NField("n"), NArray(0)>>),
    A("f()", 6, TRUE, <<NFCall("f", 0)>>),
    A("f(1, x)", 6, TRUE, <<NFCall("f", 2)>> \o One \o X),
    A("format!(x)", 6, TRUE, <<NBFCall("format", 1)>> \o X),
    A("(x)", 6, TRUE, <<NParen>> \o X),
    A("((1))", 6, TRUE, <<NParen, NParen>> \o One),
    A("|x|", 5, TRUE, <<NLen(0, "x", 0)>>),
    A("|x.m[1]|", 5, TRUE, <<NLen(0, "x", 2), NMem("m"), NIdx>> \o One),
    A("|:u8|", 5, TRUE, <<NSizeOf>> \o U8),
    A("|:[]S|", 5, TRUE, <<NSizeOf, NArraylike, NNamed("S")>>) >>

\* lv: the level of the slot (an atom fits iff slot level <= atom level); c: the slot lies in a condition
Cx(name, lv, c) == [x |-> name, lv |-> lv, c |-> c]
Contexts == <<
    Cx("result", 0, FALSE), Cx("const", 0, FALSE), Cx("var", 0, FALSE), Cx("typed var", 0, FALSE), Cx("set", 0, FALSE),
    Cx("set index", 0, FALSE), Cx("arg 1 of 3", 0, FALSE), Cx("arg 2 of 3", 0, FALSE), Cx("arg 3 of 3", 0, FALSE),
    Cx("call argument", 0, FALSE), Cx("builtin argument", 0, FALSE), Cx("element 1", 0, FALSE), Cx("element 2", 0, FALSE),
    Cx("field", 0, FALSE), Cx("index", 0, FALSE), Cx("+ left", 1, FALSE), Cx("- right", 2, FALSE), Cx("* left", 2, FALSE),
    Cx("% right", 3, FALSE), Cx("& left", 3, FALSE), Cx("^ right", 5, FALSE), Cx("<< left", 3, FALSE), Cx(">> right", 5, FALSE),
    Cx("- operand", 6, FALSE), Cx("! operand", 6, FALSE), Cx("cast operand", 5, FALSE), Cx("as operand", 3, FALSE),
    Cx("parenthesis", 0, FALSE), Cx("condition left", 0, TRUE), Cx("condition right", 0, TRUE), Cx("advance", 0, FALSE),
    Cx("argument in a then branch", 0, FALSE), Cx("set in an else branch", 0, FALSE), Cx("inner block", 0, FALSE),
    \* (eighth round of seeded changes) a comparison in front of a BLOCK: `if f(&x) == x { ... }` -- an identifier followed by `{`
    \* is a structure literal everywhere but here
    Cx("condition left before a block", 0, TRUE), Cx("condition right before a block", 0, TRUE),
    Cx("condition left before an empty block", 0, TRUE) >>
Wrap(cx, e) ==
    CASE cx = "result" -> InResult(e)
      [] cx = "const" -> <<NMod(1), NConst("N")>> \o U8 \o e
      [] cx = "var" -> InStmt(<<NVar("x", FALSE, TRUE)>> \o e)
      [] cx = "typed var" -> InStmt(<<NVar("x", TRUE, TRUE)>> \o U8 \o e)
      [] cx = "set" -> InStmt(<<NSet(0, "x", 0)>> \o e)
      [] cx = "set index" -> InStmt(<<NSet(0, "x", 1), NIdx>> \o e \o One)
      [] cx = "arg 1 of 3" -> InStmt(<<NCall("f", 3)>> \o e \o X \o One)
      [] cx = "arg 2 of 3" -> InStmt(<<NCall("f", 3)>> \o X \o e \o One)
      [] cx = "arg 3 of 3" -> InStmt(<<NCall("f", 3)>> \o X \o One \o e)
      [] cx = "call argument" -> InResult(<<NFCall("f", 2)>> \o X \o e)
      [] cx = "builtin argument" -> InStmt(<<NBCall("print", 2)>> \o e \o X)
      [] cx = "element 1" -> InResult(<<NArray(2)>> \o e \o One)
      [] cx = "element 2" -> InResult(<<NArray(2)>> \o One \o e)
      [] cx = "field" -> InResult(<<NStructural("S", 2), NField("m")>> \o e \o <<NField("n")>> \o One)
      [] cx = "index" -> InResult(<<NDeref(0, "x", 1), NIdx>> \o e)
      [] cx = "+ left" -> InResult(<<NBin("+")>> \o e \o X)
      [] cx = "- right" -> InResult(<<NBin("-")>> \o X \o e)
      [] cx = "* left" -> InResult(<<NBin("*")>> \o e \o X)
      [] cx = "% right" -> InResult(<<NBin("%")>> \o X \o e)
      [] cx = "& left" -> InResult(<<NBin("&")>> \o e \o X)
      [] cx = "^ right" -> InResult(<<NBin("^")>> \o X \o e)
      [] cx = "<< left" -> InResult(<<NBin("<<")>> \o e \o X)
      [] cx = ">> right" -> InResult(<<NBin(">>")>> \o X \o e)
      [] cx = "- operand" -> InResult(<<NUn("-")>> \o e)
      [] cx = "! operand" -> InResult(<<NUn("!")>> \o e)
      [] cx = "cast operand" -> InResult(<<NCast>> \o e)
      [] cx = "as operand" -> InResult(<<NAs>> \o e \o U8)
      [] cx = "parenthesis" -> InResult(<<NParen>> \o e)
      [] cx = "condition left" -> InStmt(<<NIf("==", FALSE)>> \o e \o X \o StGoto)
      [] cx = "condition right" -> InStmt(<<NIf(">=", TRUE)>> \o X \o e \o StGoto \o StLoop)
      [] cx = "advance" -> InResult(<<NBin(".."), NDeref(1, "x", 0)>> \o e)
      [] cx = "argument in a then branch" -> InStmt(<<NIf("==", TRUE)>> \o X \o X \o <<NCall("f", 1)>> \o e \o StBlock0)
      [] cx = "set in an else branch" -> InStmt(<<NIf("==", TRUE)>> \o X \o X \o StLoop \o <<NSet(0, "x", 0)>> \o e)
      [] cx = "condition left before a block" -> InStmt(<<NIf("==", FALSE)>> \o e \o X \o <<NBlock(1)>> \o StLoop)
      [] cx = "condition right before a block" -> InStmt(<<NIf(">=", TRUE)>> \o X \o e \o <<NBlock(1)>> \o StLoop \o StBlock0)
      [] cx = "condition left before an empty block" -> FnBody(<<NIf("==", FALSE)>> \o e \o X \o StBlock0 \o <<NSet(0, "x", 0)>> \o One, 2)
      [] cx = "inner block" -> FnBody(<<NBlock(1), NBlock(2)>> \o StLoop \o <<NSet(0, "x", 0)>> \o e \o <<NLabel("l")>>, 2)
PosOK(i, j) == Contexts[i].lv <= Atoms[j].lv /\ (Contexts[i].c => Atoms[j].c)

(***************************************************************************)
(* type: every type form in every type position.  ctx: the most nested     *)
(* context the form may stand in ("elem" anywhere, "inner" not as array    *)
(* element, "top" only at the top of a type).                              *)
(***************************************************************************)
TF(name, ctx, p) == [t |-> name, ctx |-> ctx, pre |-> p]
TypeForms == <<
    TF("u8", "elem", U8), TF("i128", "elem", <<NPrim("i128")>>), TF("usize", "elem", <<NPrim("usize")>>),
    TF("bool", "elem", <<NPrim("bool")>>), TF("char8", "elem", <<NPrim("char8")>>), TF("S", "elem", <<NNamed("S")>>),
    TF("&u8", "elem", <<NPtr>> \o U8), TF("&&S", "elem", <<NPtr, NPtr, NNamed("S")>>),
    TF("[2]u8", "elem", <<NTArray(I_2)>> \o U8), TF("[128]S", "elem", <<NTArray(I_128), NNamed("S")>>),
    TF("[0]u8", "elem", <<NTArray(I_0)>> \o U8), TF("[500_000_000]u8", "elem", <<NTArray(I_500M)>> \o U8),
    TF("[2^32 - 1]u8", "elem", <<NTArray(I_2p32m1)>> \o U8), TF("[2^32]u8", "elem", <<NTArray(I_2p32)>> \o U8),
    \* (a length of 2^64 or more is not Penne: since c3b38a7 generation 1 rejects what does not fit the length type)
    TF("[2^64 - 1]u8", "elem", <<NTArray(I_2p64m1)>> \o U8),
    TF("[N]u8", "elem", <<NTArrayC("N")>> \o U8), TF("[2][128]u8", "elem", <<NTArray(I_2), NTArray(I_128)>> \o U8),
    TF("[N][2]&S", "elem", <<NTArrayC("N"), NTArray(I_2), NPtr, NNamed("S")>>), TF("&[2]u8", "elem", <<NPtr, NTArray(I_2)>> \o U8),
    TF("[]u8", "inner", <<NArraylike>> \o U8), TF("[..]u8", "inner", <<NEndless>> \o U8),
    TF("&[]u8", "elem", <<NPtr, NArraylike>> \o U8), TF("&[..]S", "elem", <<NPtr, NEndless, NNamed("S")>>),
    TF("[][2]u8", "inner", <<NArraylike, NTArray(I_2)>> \o U8), TF("[2]&[]u8", "elem", <<NTArray(I_2), NPtr, NArraylike>> \o U8),
    TF("[:]u8", "top", <<NSlice>> \o U8), TF("(u8)", "top", <<NView>> \o U8), TF("([]u8)", "top", <<NView, NArraylike>> \o U8),
    TF("(&[2]S)", "top", <<NView, NPtr, NTArray(I_2), NNamed("S")>>), TF("[:][2]u8", "top", <<NSlice, NTArray(I_2)>> \o U8) >>
TPos(name, ctx) == [p |-> name, ctx |-> ctx]
TypePositions == <<
    TPos("parameter of a function", "top"), TPos("parameter of a head", "top"), TPos("second of three parameters", "top"),
    TPos("return type of a function", "top"), TPos("return type of a head", "top"), TPos("member of a struct", "top"),
    TPos("last member of a word", "top"), TPos("variable", "top"), TPos("initialised variable", "top"), TPos("constant", "top"),
    TPos("cast target", "top"), TPos("cast target in an argument", "top"), TPos("size-of operand", "top"),
    TPos("pointer target", "inner"), TPos("view target", "inner"), TPos("array element", "elem"), TPos("named-length array element", "elem"),
    TPos("slice element", "elem"), TPos("endless array element", "elem"), TPos("array view element", "elem") >>
CtxRank(c) == CASE c = "top" -> 0 [] c = "inner" -> 1 [] c = "elem" -> 2
TyWrap(pos, t) ==
    CASE pos = "parameter of a function" -> <<NMod(1), NFn("f", 1, FALSE, 0, FALSE), NParam("p")>> \o t
      [] pos = "parameter of a head" -> <<NMod(1), NHead("f", 1, FALSE), NParam("p")>> \o t
      [] pos = "second of three parameters" -> <<NMod(1), NHead("f", 3, FALSE), NParam("p")>> \o U8 \o <<NParam("q")>> \o t \o <<NParam("p")>> \o U8
      [] pos = "return type of a function" -> <<NMod(1), NFn("f", 0, TRUE, 0, TRUE)>> \o t \o X
      [] pos = "return type of a head" -> <<NMod(1), NHead("f", 1, TRUE), NParam("p")>> \o U8 \o t
      [] pos = "member of a struct" -> <<NMod(1), NStruct("S", 1), NMember("m")>> \o t
      [] pos = "last member of a word" -> <<NMod(1), NWord("S", 2, 16), NMember("m")>> \o U8 \o <<NMember("n")>> \o t
      [] pos = "variable" -> InStmt(<<NVar("x", TRUE, FALSE)>> \o t)
      [] pos = "initialised variable" -> InStmt(<<NVar("x", TRUE, TRUE)>> \o t \o X)
      [] pos = "constant" -> <<NMod(1), NConst("N")>> \o t \o One
      [] pos = "cast target" -> InResult(<<NAs>> \o X \o t)
      [] pos = "cast target in an argument" -> InStmt(<<NCall("f", 2), NAs>> \o X \o t \o One)
      [] pos = "size-of operand" -> InResult(<<NSizeOf>> \o t)
      [] pos = "pointer target" -> <<NMod(1), NHead("f", 1, FALSE), NParam("p"), NPtr>> \o t
      [] pos = "view target" -> <<NMod(1), NHead("f", 1, FALSE), NParam("p"), NView>> \o t
      [] pos = "array element" -> InStmt(<<NVar("x", TRUE, FALSE), NTArray(I_2)>> \o t)
      [] pos = "named-length array element" -> <<NMod(1), NStruct("S", 1), NMember("m"), NTArrayC("N")>> \o t
      [] pos = "slice element" -> <<NMod(1), NHead("f", 1, FALSE), NParam("p"), NSlice>> \o t
      [] pos = "endless array element" -> <<NMod(1), NHead("f", 1, FALSE), NParam("p"), NPtr, NEndless>> \o t
      [] pos = "array view element" -> <<NMod(1), NHead("f", 1, TRUE), NParam("p")>> \o U8 \o <<NArraylike>> \o t
TypeOK(i, j) == CtxRank(TypePositions[i].ctx) <= CtxRank(TypeForms[j].ctx)

(***************************************************************************)
(* stmt: every statement in every statement position.                      *)
(* ctx: "seq" (only in a sequence), "else" (also as else branch),          *)
(* "then" (anywhere)                                                       *)
(***************************************************************************)
SF(name, ctx, p) == [s |-> name, ctx |-> ctx, pre |-> p]
Stmts == <<
    SF("var x;", "seq", <<NVar("x", FALSE, FALSE)>>), SF("var x: u8;", "seq", <<NVar("x", TRUE, FALSE)>> \o U8),
    SF("var x = 1;", "seq", <<NVar("x", FALSE, TRUE)>> \o One), SF("var x: u8 = 1;", "seq", <<NVar("x", TRUE, TRUE)>> \o U8 \o One),
    SF("x = 1;", "then", <<NSet(0, "x", 0)>> \o One), SF("x.m[1] = x;", "then", <<NSet(0, "x", 2), NMem("m"), NIdx>> \o One \o X),
    SF("&x = 1;", "else", <<NSet(1, "x", 0)>> \o One), SF("&&x.m = &x;", "else", <<NSet(2, "x", 1), NMem("m"), NDeref(1, "x", 0)>>),
    SF("f();", "then", <<NCall("f", 0)>>), SF("f(x, 1);", "then", <<NCall("f", 2)>> \o X \o One),
    SF("print!(\"Hi\");", "then", <<NBCall("print", 1), NStr(S_hi)>>), SF("abort!();", "then", <<NBCall("abort", 0)>>),
    SF("loop;", "then", StLoop), SF("goto l;", "then", StGoto), SF("goto return;", "then", <<NGoto("return")>>),
    SF("l:", "seq", <<NLabel("l")>>),
    SF("if x == 1 goto l;", "else", <<NIf("==", FALSE)>> \o X \o One \o StGoto),
    SF("if x < 1 goto l; else loop;", "else", <<NIf("<", TRUE)>> \o X \o One \o StGoto \o StLoop),
    SF("if x != 1 { } else { }", "else", <<NIf("!=", TRUE)>> \o X \o One \o StBlock0 \o StBlock0),
    SF("if else-if else", "else", <<NIf("<=", TRUE)>> \o X \o One \o StGoto \o <<NIf(">", TRUE)>> \o X \o One \o StBlock0 \o StLoop),
    SF("{ }", "then", StBlock0), SF("{ loop; }", "then", <<NBlock(1)>> \o StLoop),
    SF("{ { } l: }", "then", <<NBlock(2)>> \o StBlock0 \o <<NLabel("l")>>) >>
SPos(name, ctx) == [p |-> name, ctx |-> ctx]
StmtPositions == <<
    SPos("only statement", "seq"), SPos("first of three", "seq"), SPos("last of three", "seq"), SPos("before the result", "seq"),
    SPos("after a label", "seq"), SPos("in a block", "seq"), SPos("in a block in a block", "seq"), SPos("last in a block before a statement", "seq"),
    SPos("then branch", "then"), SPos("then branch before else", "then"), SPos("else branch", "else"), SPos("then branch of an else-if", "then"),
    SPos("else branch of an else-if", "else"),
    \* (eighth round of seeded changes) the ONLY statement of a block that is itself a branch: `else { if c { } }` is not `else if c { }`
    SPos("alone in a then block", "seq"), SPos("alone in a then block before else", "seq"), SPos("alone in an else block", "seq"),
    SPos("alone in the else block of an else-if", "seq"), SPos("alone in a block in an else block", "seq") >>
StRank(c) == CASE c = "seq" -> 0 [] c = "else" -> 1 [] c = "then" -> 2
StWrap(pos, s) ==
    CASE pos = "only statement" -> FnBody(s, 1)
      [] pos = "first of three" -> FnBody(s \o StLoop \o StGoto, 3)
      [] pos = "last of three" -> FnBody(StLoop \o StGoto \o s, 3)
      [] pos = "before the result" -> <<NMod(1), NFn("f", 0, TRUE, 2, TRUE)>> \o U8 \o StLoop \o s \o X
      [] pos = "after a label" -> FnBody(<<NLabel("l")>> \o s, 2)
      [] pos = "in a block" -> FnBody(<<NBlock(1)>> \o s, 1)
      [] pos = "in a block in a block" -> FnBody(<<NBlock(2), NBlock(2)>> \o StLoop \o s \o StGoto, 1)
      [] pos = "last in a block before a statement" -> FnBody(<<NBlock(2)>> \o StLoop \o s \o StLoop, 2)
      [] pos = "then branch" -> FnBody(<<NIf("==", FALSE)>> \o X \o X \o s \o StLoop, 2)
      [] pos = "then branch before else" -> FnBody(<<NIf("==", TRUE)>> \o X \o X \o s \o StBlock0, 1)
      [] pos = "else branch" -> FnBody(<<NIf("==", TRUE)>> \o X \o X \o StGoto \o s \o StLoop, 2)
      [] pos = "then branch of an else-if" -> FnBody(<<NIf("==", TRUE)>> \o X \o X \o StGoto \o <<NIf("<", TRUE)>> \o X \o One \o s \o StLoop, 1)
      [] pos = "else branch of an else-if" -> FnBody(<<NIf("==", TRUE)>> \o X \o X \o StGoto \o <<NIf("<", TRUE)>> \o X \o One \o StLoop \o s, 1)
      [] pos = "alone in a then block" -> FnBody(<<NIf("==", FALSE)>> \o X \o X \o <<NBlock(1)>> \o s \o StLoop, 2)
      [] pos = "alone in a then block before else" -> FnBody(<<NIf("==", TRUE)>> \o X \o X \o <<NBlock(1)>> \o s \o StBlock0, 1)
      [] pos = "alone in an else block" -> FnBody(<<NIf("==", TRUE)>> \o X \o X \o StGoto \o <<NBlock(1)>> \o s \o StLoop, 2)
      [] pos = "alone in the else block of an else-if" ->
             FnBody(<<NIf("==", TRUE)>> \o X \o X \o StGoto \o <<NIf("<", TRUE)>> \o X \o One \o StLoop \o <<NBlock(1)>> \o s, 1)
      [] pos = "alone in a block in an else block" -> FnBody(<<NIf("==", TRUE)>> \o X \o X \o StGoto \o <<NBlock(1), NBlock(1)>> \o s, 1)
StmtOK(i, j) == StRank(StmtPositions[i].ctx) <= StRank(Stmts[j].ctx)

(***************************************************************************)
(* name: identifiers in every namespace role.  Names of builtins (without  *)
(* the exclamation mark) and of the C library functions the code generator *)
(* declares itself, identifiers that start with a keyword, one letter,     *)
(* underscores, upper case, digits, and long names.                        *)
(***************************************************************************)
RECURSIVE Pow2Name(_)
Pow2Name(k) == IF k = 0 THEN "a" ELSE LET h == Pow2Name(k - 1) IN h \o h
ShortNames == <<"print", "format", "abort", "file", "line", "main", "write", "snprintf", "memcpy", "returns", "return_",
                "_x", "x_", "__", "_1", "X", "Xy9", "i8_", "u", "word", "word7", "structure", "import_", "voidx", "gotox",
                "iffy", "loops", "variable", "constant", "trues", "falsey", "cast_to", "asx", "externs", "publ", "struct_", "fnx", "elsex">>
LogSeq == SelectSeq(<<7, 8, 10, 12, 16>>, LAMBDA k : k \in NameLogs)
LongNames == Concat([i \in 1..Len(LogSeq) |-> <<Pow2Name(LogSeq[i]), Pow2Name(LogSeq[i]) \o "b">>])
Names == ShortNames \o LongNames
NameRoles == <<"function", "call", "head", "parameter", "variable", "label", "member", "structure", "word", "opaque", "constant", "everything">>
NameCell(role, nm) ==
    LET R == <<NDeref(0, nm, 0)>> IN
    CASE role = "function" -> <<NMod(1), NFn(nm, 0, FALSE, 0, FALSE)>>
      [] role = "call" -> <<NMod(1), NFn("f", 0, FALSE, 1, TRUE), NCall(nm, 1)>> \o X \o <<NFCall(nm, 0)>>
      [] role = "head" -> <<NMod(1), NHeadF(nm, TRUE, TRUE, 0, FALSE)>>
      [] role = "parameter" -> <<NMod(1), NFn("f", 1, FALSE, 0, TRUE), NParam(nm)>> \o U8 \o R
      [] role = "variable" -> FnBody(<<NVar(nm, FALSE, TRUE)>> \o One \o <<NSet(1, nm, 0)>> \o <<NLen(0, nm, 0)>>, 2)
      [] role = "label" -> FnBody(<<NGoto(nm), NLabel(nm)>>, 2)
      [] role = "member" -> <<NMod(2), NStruct("S", 1), NMember(nm)>> \o U8
                              \o <<NFn("f", 0, FALSE, 1, TRUE), NSet(0, "x", 1), NMem(nm), NStructural("S", 2), NField(nm)>> \o One
                              \o <<NField(nm)>> \o R \o <<NDeref(1, "x", 2), NMem(nm), NMem(nm)>>
      [] role = "structure" -> <<NMod(2), NStruct(nm, 0), NFn("f", 1, TRUE, 0, TRUE), NParam("p"), NNamed(nm), NPtr, NNamed(nm),
                                 NAs, NStructural(nm, 0), NNamed(nm)>>
      [] role = "word" -> <<NMod(1), NWordF(nm, TRUE, FALSE, 1, 4), NMember("m"), NNamed(nm)>>
      [] role = "opaque" -> <<NMod(1), NStructF(nm, FALSE, TRUE, 0, TRUE)>>
      [] role = "constant" -> <<NMod(2), NConst(nm)>> \o U8 \o One \o <<NConstF("N", TRUE, FALSE), NTArrayC(nm)>> \o U8 \o <<NArray(1)>> \o R
      \* one name in every role of one module
      [] role = "everything" ->
           <<NMod(3), NStruct(nm, 1), NMember(nm)>> \o U8
           \o <<NConst(nm), NTArrayC(nm), NNamed(nm), NStructural(nm, 1), NField(nm)>> \o One
           \o <<NFn(nm, 1, TRUE, 3, TRUE), NParam(nm), NNamed(nm), NNamed(nm),
                NVar(nm, FALSE, TRUE), NDeref(0, nm, 1), NMem(nm), NLabel(nm), NGoto(nm),
                NFCall(nm, 1), NStructural(nm, 1), NField(nm)>> \o R

(***************************************************************************)
(* order: a b a for every pair of declaration forms (kind x flags).        *)
(***************************************************************************)
OrderCell(i, j) ==
    LET a == DeclForm(((i - 1) % 7) + 1, ((i - 1) \div 7) + 1)
        b == DeclForm(((j - 1) % 7) + 1, ((j - 1) \div 7) + 1)
    IN <<NMod(3)>> \o a \o b \o a
\* form numbers 1..28: kind + 7 * (flags - 1); the import ignores its flags, so forms 14, 21, 28 repeat form 7
FormOK(i) == ((i - 1) % 7) + 1 = 7 => i = 7

(***************************************************************************)
(* decl: every kind of declaration x every flag set x its variants (empty, *)
(* one, three items; with / without return type, body, result; every word  *)
(* size), alone and after another declaration.                             *)
(***************************************************************************)
Ps(n) == CycCat(ParamCycle, n)
Ms(n) == CycCat(MemberCycle, n)
DeclVariants == <<"no declaration", "fn0", "fn1", "fn3", "fnret", "fnres", "fnbody", "head0", "head1", "head3ret", "const", "constarr",
                  "struct0", "struct1", "struct3", "opaque", "word8", "word16", "word32", "word64", "word128", "word0", "import">>
DeclVariant(v, fl) ==
    LET pb == FlagSeq[fl][1]
        ex == FlagSeq[fl][2]
    IN CASE v = "no declaration" -> <<>>
         [] v = "fn0" -> <<NFnF("f", pb, ex, 0, FALSE, 0, FALSE)>>
         [] v = "fn1" -> <<NFnF("f", pb, ex, 1, FALSE, 0, FALSE)>> \o Ps(1)
         [] v = "fn3" -> <<NFnF("f", pb, ex, 3, FALSE, 0, FALSE)>> \o Ps(3)
         [] v = "fnret" -> <<NFnF("f", pb, ex, 0, TRUE, 0, TRUE), NPtr, NNamed("S")>> \o X
         [] v = "fnres" -> <<NFnF("f", pb, ex, 2, TRUE, 1, TRUE)>> \o Ps(2) \o U8 \o StLoop \o One
         [] v = "fnbody" -> <<NFnF("f", pb, ex, 1, FALSE, 3, FALSE)>> \o Ps(1) \o CycCat(StmtCycle, 3)
         [] v = "head0" -> <<NHeadF("f", pb, ex, 0, FALSE)>>
         [] v = "head1" -> <<NHeadF("f", pb, ex, 1, FALSE)>> \o Ps(1)
         [] v = "head3ret" -> <<NHeadF("f", pb, ex, 3, TRUE)>> \o Ps(3) \o U8
         [] v = "const" -> <<NConstF("N", pb, ex)>> \o U8 \o One
         [] v = "constarr" -> <<NConstF("N", pb, ex), NTArray(I_2)>> \o U8 \o <<NArray(2)>> \o One \o One
         [] v = "struct0" -> <<NStructF("S", pb, ex, 0, FALSE)>>
         [] v = "struct1" -> <<NStructF("S", pb, ex, 1, FALSE)>> \o Ms(1)
         [] v = "struct3" -> <<NStructF("S", pb, ex, 3, FALSE)>> \o Ms(3)
         [] v = "opaque" -> <<NStructF("S", pb, ex, 0, TRUE)>>
         [] v = "word8" -> <<NWordF("S", pb, ex, 1, 1)>> \o Ms(1)
         [] v = "word16" -> <<NWordF("S", pb, ex, 2, 2)>> \o Ms(2)
         [] v = "word32" -> <<NWordF("S", pb, ex, 1, 4)>> \o Ms(1)
         [] v = "word64" -> <<NWordF("S", pb, ex, 3, 8)>> \o Ms(3)
         [] v = "word128" -> <<NWordF("S", pb, ex, 2, 16)>> \o Ms(2)
         [] v = "word0" -> <<NWordF("S", pb, ex, 0, 4)>>
         [] v = "import" -> <<NImport(F_v)>>
\* i: variant, j: flags + 4 * (0 alone | 1 after `fn f() { loop; }` | 2 before a public constant)
DeclCell(i, j) ==
    LET d == DeclVariant(DeclVariants[i], ((j - 1) % 4) + 1)
        place == (j - 1) \div 4
        nd == IF d = <<>> THEN 0 ELSE 1
    IN IF place = 0 THEN <<NMod(nd)>> \o d
       ELSE IF place = 1 THEN <<NMod(nd + 1)>> \o DeclForm(1, 1) \o d
       ELSE <<NMod(nd + 1)>> \o d \o DeclForm(3, 2)

(***************************************************************************)
(* indent: the constructs the rebuilder writes on several lines, below d   *)
(* nested blocks.                                                          *)
(***************************************************************************)
IndentStmts == <<
    \* x = f([S { m: [1, x], n: S { } }, 1], "Hi");
    <<NSet(0, "x", 0), NFCall("f", 2), NArray(2), NStructural("S", 2), NField("m"), NArray(2)>> \o One \o X
        \o <<NField("n"), NStructural("S", 0)>> \o One \o <<NStr(S_hi)>>,
    \* if x == x goto l; else { loop; }
    <<NIf("==", TRUE)>> \o X \o X \o StGoto \o <<NBlock(1)>> \o StLoop,
    \* if x == [1] x = [1];
    <<NIf("==", FALSE)>> \o X \o <<NArray(1)>> \o One \o <<NSet(0, "x", 0), NArray(1)>> \o One,
    \* var x: [2]u8 = [1, [x], []];
    <<NVar("x", TRUE, TRUE), NTArray(I_2)>> \o U8 \o <<NArray(3)>> \o One \o <<NArray(1)>> \o X \o <<NArray(0)>>,
    \* f(S { m }, [], "" "x" "\0");
    <<NCall("f", 3), NStructural("S", 1), NField("m"), NDeref(0, "m", 0), NArray(0), NStr(S_three)>>,
    \* if x == x if x == x ... is not Penne; an else-if chain below the blocks
    <<NIf("==", TRUE)>> \o X \o X \o StGoto \o <<NIf("<", TRUE)>> \o X \o One \o StBlock0 \o <<NBlock(1), NSet(0, "x", 0), NArray(1)>> \o One >>
IndentCell(i, d) == InStmt(Rep(d, NBlock(1)) \o IndentStmts[i])

(***************************************************************************)
(* strlen: string literals of n plain characters followed by `\n`.         *)
(***************************************************************************)
StrLenCell(variant, n) ==
    LET bytes == [i \in 1..n |-> 97 + (i % 23)] \o <<10>>
    IN IF variant = 1 THEN InResult(<<NStrB(bytes)>>)
       ELSE <<NMod(1), NConst("N"), NArraylike, NPrim("char8"), NStrB(bytes)>>

(***************************************************************************)
(* The cells.                                                              *)
(***************************************************************************)
Fam(f, set) == IF f \in Families THEN set ELSE {}
Cells ==
    Fam("wide", {[fam |-> "wide", i |-> i, j |-> n] : i \in 1..Len(WideShapes), n \in Sizes})
    \cup Fam("deep", {[fam |-> "deep", i |-> i, j |-> d] : i \in 1..Len(DeepShapes), d \in Depths})
    \cup Fam("deep", {[fam |-> "deepif", i |-> i, j |-> d] : i \in 1..Len(IfShapes), d \in IfDepths})
    \cup Fam("bound", {[fam |-> "bound", i |-> i, j |-> n] : i \in 1..Len(BoundShapes), n \in BoundNs})
    \cup Fam("pos", {c \in [fam : {"pos"}, i : 1..Len(Contexts), j : 1..Len(Atoms)] : PosOK(c.i, c.j)})
    \cup Fam("type", {c \in [fam : {"type"}, i : 1..Len(TypePositions), j : 1..Len(TypeForms)] : TypeOK(c.i, c.j)})
    \cup Fam("stmt", {c \in [fam : {"stmt"}, i : 1..Len(StmtPositions), j : 1..Len(Stmts)] : StmtOK(c.i, c.j)})
    \cup Fam("name", [fam : {"name"}, i : 1..Len(NameRoles), j : 1..Len(Names)])
    \cup Fam("order", {c \in [fam : {"order"}, i : OrderForms, j : OrderForms] : FormOK(c.i) /\ FormOK(c.j)})
    \cup Fam("decl", {c \in [fam : {"decl"}, i : 1..Len(DeclVariants), j : 1..12] : DeclVariants[c.i] \in {"import", "no declaration"} => (c.j - 1) % 4 = 0})
    \cup Fam("indent", {[fam |-> "indent", i |-> i, j |-> d] : i \in 1..Len(IndentStmts), d \in IndentDepths})
    \cup Fam("strlen", {[fam |-> "strlen", i |-> i, j |-> n] : i \in 1..2, n \in StrLens})

\* [pre, what] (+ toks where the written tokens are not Spell(Toks(tree)))
CellOf(c) ==
    CASE c.fam = "wide" -> WideCell(WideShapes[c.i], c.j) @@ [what |-> WideShapes[c.i]]
      [] c.fam = "deep" -> DeepCell(DeepShapes[c.i], c.j) @@ [what |-> DeepShapes[c.i]]
      [] c.fam = "deepif" -> DeepCell(IfShapes[c.i], c.j) @@ [what |-> IfShapes[c.i]]
      [] c.fam = "bound" -> BoundCell(BoundShapes[c.i], c.j) @@ [what |-> BoundShapes[c.i]]
      [] c.fam = "pos" -> [pre |-> Wrap(Contexts[c.i].x, Atoms[c.j].pre), what |-> Contexts[c.i].x \o ": " \o Atoms[c.j].a]
      [] c.fam = "type" -> [pre |-> TyWrap(TypePositions[c.i].p, TypeForms[c.j].pre), what |-> TypePositions[c.i].p \o ": " \o TypeForms[c.j].t]
      [] c.fam = "stmt" -> [pre |-> StWrap(StmtPositions[c.i].p, Stmts[c.j].pre), what |-> StmtPositions[c.i].p \o ": " \o Stmts[c.j].s]
      [] c.fam = "name" -> [pre |-> NameCell(NameRoles[c.i], Names[c.j]),
                            what |-> NameRoles[c.i] \o ": " \o (IF c.j <= Len(ShortNames) THEN Names[c.j] ELSE "long name")]
      [] c.fam = "order" -> [pre |-> OrderCell(c.i, c.j), what |-> "a b a"]
      [] c.fam = "decl" -> [pre |-> DeclCell(c.i, c.j), what |-> DeclVariants[c.i]]
      [] c.fam = "indent" -> [pre |-> IndentCell(c.i, c.j), what |-> "statement below nested blocks"]
      [] c.fam = "strlen" -> [pre |-> StrLenCell(c.i, c.j), what |-> IF c.i = 1 THEN "result" ELSE "constant"]

(***************************************************************************)
(* Two steps per cell so that TLC's workers share the cells: pick, build.  *)
(* `stack` holds the phase, `cur` the cell (and its tree once built).      *)
(***************************************************************************)
CInit == toks = <<>> /\ pre = <<>> /\ stack = <<"init">> /\ cur = [fam |-> "none"]
CPick == /\ stack = <<"init">>
         /\ \E c \in Cells : cur' = c
         /\ stack' = <<"picked">> /\ UNCHANGED <<toks, pre>>
CBuild == /\ stack = <<"picked">>
          /\ LET cell == CellOf(cur)
                 tree == Tree(cell.pre)
             IN /\ pre' = cell.pre
                /\ toks' = (IF "toks" \in DOMAIN cell THEN cell.toks ELSE Spell(Toks(tree)))
                /\ cur' = [fam |-> cur.fam, i |-> cur.i, n |-> cur.j, what |-> cell.what, tree |-> tree]
          /\ stack' = <<>>
CNext == CPick \/ CBuild
CSpec == CInit /\ [][CNext]_gvars

Built == stack = <<>>
\* the written module is a well-formed tree and its canonical token list
CellsOK == Built => (WellFormed(pre) /\ Canon(toks) = Toks(cur.tree))
EmitCell == Built => PrintT(<<"CASE", ToJson([toks |-> toks, tree |-> cur.tree, n |-> Len(pre),
                                                cell |-> [fam |-> cur.fam, what |-> cur.what, n |-> cur.n]])>>)
=============================================================================

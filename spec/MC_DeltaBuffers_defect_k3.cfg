SPECIFICATION Spec
CONSTANTS
  CapFactor = 3
  TokMin = 65536
  TokMax = 16777216
  ErrCap = 100
  MaxToks = 30
  MaxAborts = 0
  MaxBad = 0
  Densities = {3}
  DeclAlts = {"const", "struct"}
  StmtAlts = {}
  PrimAlts = {"lit", "id"}
  UnaryAlts = {}
  TypeAlts = {"kw"}
  ExprAlts = {"add"}
  ExpectationTextComplete = TRUE
INVARIANTS NoCrash
VIEW CounterView
CHECK_DEADLOCK FALSE

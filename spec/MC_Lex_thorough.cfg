SPECIFICATION Spec
CONSTANTS
  MaxLen = 4
INVARIANT TilesOK
CHECK_DEADLOCK FALSE

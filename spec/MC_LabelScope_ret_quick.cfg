SPECIFICATION Spec
CONSTANTS
  MaxLen = 6
  NeedResult = TRUE
  MinFns = 1
  MaxFns = 2
  MaxDepth = 2
  Names = {"a", "return"}
INVARIANTS StackOK Agree ForwardOutward EmitCase
CHECK_DEADLOCK FALSE

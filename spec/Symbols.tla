------------------------------ MODULE Symbols ------------------------------
(***************************************************************************)
(* C03 -- the symbol table a successful compilation must show.             *)
(*                                                                         *)
(* R (property text): "it defines each function the source defines, with   *)
(* `main` and `pub` functions externally visible".  The abstract module is *)
(* the projection of what the real parser built (kind, name, pub, extern)  *)
(* after import expansion; a symbol is what an independent reader of the   *)
(* IR text extracted from a `define` / `declare` line:                     *)
(*   [name, base, kind \in {"define","declare"}, linkage, vis]             *)
(* (`vis`: the visibility style, "default" | "hidden" | "protected"; a     *)
(* symbol is externally visible iff its linkage is external AND its        *)
(* visibility is default)                                                  *)
(* (`base` = name without the `.fn.` prefix the generator gives to the     *)
(* symbol of a function that is neither pub, main, extern nor forward      *)
(* declared, and without the `.N` suffix LLVM's linker gives to a renamed  *)
(* local symbol).  The symbol NAME of a private function is no part of the *)
(* property: such a function is found by `name` or by `base`; a pub / main *)
(* function must carry exactly its own name and be visible.                *)
(*                                                                         *)
(* The stricter table the generator implements today (everything else      *)
(* private, heads declared external) is kept as StrictOK: a difference     *)
(* there is MODEL-DRIFT, never a violation.                                *)
(***************************************************************************)
EXTENDS Naturals, Sequences, FiniteSets

IsFn(d) == d.k = "fn" /\ d.p = "ok"
IsHead(d) == d.k = "head" /\ d.p = "ok"
MustBeExternal(d) == d.pub \/ d.name = "main"
Visible(sym) == sym.linkage = "external" /\ (("vis" \in DOMAIN sym) => sym.vis = "default")

Idx(s) == 1..Len(s)

\* the functions module ds defines, in one module's IR
DefinesAll(ds, syms) ==
    \A i \in Idx(ds) : IsFn(ds[i]) =>
        \E j \in Idx(syms) :
            /\ syms[j].kind = "define"
            /\ IF MustBeExternal(ds[i]) THEN syms[j].name = ds[i].name /\ Visible(syms[j])
                                         ELSE (syms[j].name = ds[i].name \/ syms[j].base = ds[i].name)

\* In the linked program every externally visible function must be defined and external.  A function
\* that is neither pub nor main has local linkage; LLVM's linker drops local symbols of the linked-in
\* modules that nothing references and may rename the others name.N -- the property text says nothing
\* about that, so the cell is UNCONSTRAINED (LocalsKept is only noted).
DefinesAllLinked(ds, syms) ==
    \A i \in Idx(ds) : (IsFn(ds[i]) /\ MustBeExternal(ds[i])) =>
        \E j \in Idx(syms) :
            /\ syms[j].kind = "define" /\ syms[j].name = ds[i].name /\ Visible(syms[j])
LocalsKept(ds, syms) ==
    \A i \in Idx(ds) : (IsFn(ds[i]) /\ ~MustBeExternal(ds[i])) =>
        \E j \in Idx(syms) :
            /\ syms[j].kind = "define" /\ syms[j].linkage # "external"
            /\ syms[j].name = ds[i].name \/ syms[j].base = ds[i].name

\* no symbol is defined twice in one IR text
NoDuplicateDefinitions(syms) ==
    \A i, j \in Idx(syms) : (i # j /\ syms[i].kind = "define" /\ syms[j].kind = "define") => syms[i].name # syms[j].name

SymbolsOK(ds, syms) == DefinesAll(ds, syms) /\ NoDuplicateDefinitions(syms)

\* all modules of the set, linked: mods is the sequence of declaration lists
LinkedOK(mods, syms) == /\ \A m \in Idx(mods) : DefinesAllLinked(mods[m], syms)
                        /\ NoDuplicateDefinitions(syms)

\* what generator.rs does today (model A): private unless pub / main; heads are declared external
StrictOK(ds, syms) ==
    /\ \A i \in Idx(ds) : IsFn(ds[i]) =>
         \E j \in Idx(syms) : /\ syms[j].kind = "define"
                              /\ IF MustBeExternal(ds[i]) THEN syms[j].name = ds[i].name /\ syms[j].linkage = "external"
                                 ELSE (syms[j].name = ds[i].name \/ syms[j].base = ds[i].name) /\ syms[j].linkage = "private"
    /\ \A i \in Idx(ds) : (IsHead(ds[i]) /\ ~\E q \in Idx(ds) : IsFn(ds[q]) /\ ds[q].name = ds[i].name) =>
         \E j \in Idx(syms) : /\ syms[j].kind = "declare" /\ syms[j].name = ds[i].name
                              /\ syms[j].linkage = "external"
=============================================================================

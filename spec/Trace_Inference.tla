--------------------------- MODULE Trace_Inference ---------------------------
(***************************************************************************)
(* impl -> spec for type inference.  The harness takes well-typed random   *)
(* programs of the C01 generator (`pvh_machine gen`), ERASES the           *)
(* annotation of a few scalar declarations / the suffix of a few integer   *)
(* literals (seeded), compiles the erased program and its annotated TWIN   *)
(* with the real compiler, runs both, and records one line per program:    *)
(*    [ev |-> "prog", i, p |-> the erased program (exchange format),       *)
(*     ok, codes, (panic), (silent),                                       *)
(*     types |-> << <<function, node, resolved type>>, ... >>  (from the   *)
(*               RESOLVED tree: declarations by name, naked literals by    *)
(*               source position),                                         *)
(*     same  |-> "yes" | "no" | "na"   output + exit status equal to the   *)
(*               twin's ("na": not run)]                                   *)
(* TLC evaluates the rule of Inference.tla on the logged program:          *)
(*    R-undet  some class undetermined (no cast hint)  => rejected         *)
(*    R1       some class conflicting                  => rejected         *)
(*    R3       all classes determined within the documented distance       *)
(*             => accepted                                                 *)
(*    R2       accepted => every node with a determined class has exactly  *)
(*             that type, and (if all classes are determined) the output   *)
(*             equals the twin's.                                          *)
(* A line that does not satisfy it is printed as <<"BAD", line, why>> and  *)
(* counted; validation continues.  Every line also yields                  *)
(* <<"VERDICT", line, verdict>> (statistics / vacuity guard).              *)
(***************************************************************************)
EXTENDS Inference, TLCExt, Json, IOUtils

Rec == ndJsonDeserialize(IOEnv.TRACE)

VARIABLE l

Results(p) == {FnResult(p, p.fns[i], FALSE) : i \in 1..Len(p.fns)}

TypeRecorded(r, f, n, t) == \E i \in 1..Len(r.types) : r.types[i][1] = f /\ r.types[i][2] = n /\ r.types[i][3] = t

Why(r) ==
    LET rs == Results(r.p)
        pv == PVerdictOf({x.v : x \in rs})
        alldet == \A x \in rs : \A s \in x.sol : IsType(s.c)
    IN IF "panic" \in DOMAIN r THEN <<pv, "panic">>
       ELSE IF "silent" \in DOMAIN r THEN <<pv, "silent">>
       ELSE IF pv = "reject" /\ r.ok THEN <<pv, "accepted-illtyped">>
       ELSE IF pv = "undet" /\ r.ok THEN <<pv, "accepted-undetermined">>
       ELSE IF pv = "accept" /\ ~r.ok THEN <<pv, "rejected-determined">>
       ELSE IF r.ok /\ \E x \in rs : \E s \in x.sol : IsType(s.c) /\ ~TypeRecorded(r, x.f, s.n, s.c) THEN <<pv, "wrong-type">>
       ELSE IF r.ok /\ alldet /\ r.same = "no" THEN <<pv, "output-differs">>
       ELSE <<pv, "">>

TInit == l = 1 /\ TLCSet(1, 0)
TNext == /\ l <= Len(Rec)
         /\ \E w \in {Why(Rec[l])} :        \* (bound once: an action-level LET is re-evaluated at every reference)
               /\ PrintT(<<"VERDICT", l, w[1]>>)
               /\ IF w[2] = "" THEN TRUE ELSE (PrintT(<<"BAD", l, w[2]>>) /\ TLCSet(1, TLCGet(1) + 1))
         /\ l' = l + 1
TSpec == TInit /\ [][TNext]_l

Accepted == LET d == TLCGet("stats").diameter - 1
            IN PrintT(<<"TRACE", ToJson([accepted |-> (d = Len(Rec) /\ TLCGet(1) = 0), matched |-> d,
                                         total |-> Len(Rec), bad |-> TLCGet(1)])>>)
=============================================================================

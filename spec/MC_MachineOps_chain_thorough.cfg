SPECIFICATION Spec
CONSTANTS
  Types = {"i8", "i16", "i32", "i128", "u8", "u16", "u64", "usize"}
  Thorough = TRUE
  Mode = "chain"
INVARIANTS WellTyped EmitCase
CHECK_DEADLOCK FALSE

SPECIFICATION Spec
CONSTANTS
  MaxLen = 6
  MinFns = 1
  MaxFns = 1
  Phased = TRUE
  NeedResult = FALSE
  MaxDepth = 0
  VNames = {"a", "b"}
  LNames = {"y", "z"}
  BodyKinds = {"V", "U", "L", "IG"}
  Configs <- NoConfig
INVARIANTS AgreeScoper Sound EmitCase
CHECK_DEADLOCK FALSE

------------------------------ MODULE MC_Wide ------------------------------
(* Checks Wide.tla against native arithmetic: exhaustively for 8 bits, on a grid for 16 bits. *)
EXTENDS Wide, TLC
CONSTANTS W, Grid

M == IF W = 8 THEN 256 ELSE 65536
S(x) == IF x >= M \div 2 THEN x - M ELSE x          \* signed reading
U(x) == IF x < 0 THEN x + M ELSE x
N(a) == ToNat(a)
F(n) == FromNat(n, W)
TruncDiv(x, y) == LET q == (IF x < 0 THEN 0 - x ELSE x) \div (IF y < 0 THEN 0 - y ELSE y)
                  IN IF (x < 0) # (y < 0) THEN 0 - q ELSE q

Grid8 == 0..255
Grid16 == {0, 1, 2, 3, 7, 127, 128, 129, 255, 256, 257, 1000, 12345, 32766, 32767, 32768, 32769, 40000, 65279, 65534, 65535}
VARIABLES x, y
Init == x \in Grid /\ y \in Grid
Next == UNCHANGED <<x, y>>
Spec == Init /\ [][Next]_<<x, y>>

OK == LET a == F(x)
          b == F(y)
      IN /\ N(a) = x /\ IsWide(a, W)
         /\ N(Add(a, b)) = (x + y) % M
         /\ N(Sub(a, b)) = (x - y + M) % M
         /\ N(Neg(a)) = (M - x) % M
         /\ N(Mul(a, b)) = ((((x \div 256) * y) % 256) * 256 + (x % 256) * y) % M
         /\ ULt(a, b) = (x < y) /\ SLt(a, b) = (S(x) < S(y))
         /\ N(WAnd(a, b)) = (x & y) /\ N(WOr(a, b)) = (x | y) /\ N(WXor(a, b)) = (x ^^ y)
         /\ N(WNot(a)) = M - 1 - x
         /\ (y # 0) => /\ N(UDiv(a, b)) = x \div y /\ N(URem(a, b)) = x % y
                       /\ N(SDiv(a, b)) = U(TruncDiv(S(x), S(y)) ) % M
                       /\ N(SRem(a, b)) = U(S(x) - S(y) * TruncDiv(S(x), S(y)))
         /\ \A n \in 0..(W - 1) : /\ N(Shl(a, n)) = (x % (2 ^ (W - n))) * (2 ^ n)
                                  /\ N(LShr(a, n)) = x \div (2 ^ n)
         /\ N(ZExt(a, 32)) = x
         /\ N(Trunc(SExt(a, 32), W)) = x /\ SignBit(SExt(a, 32)) = SignBit(a)
         /\ LET p == Parse(<<x % 10>>, 10) IN N(Trunc(p.v, 16)) = x % 10 /\ ~p.ovf
=============================================================================

SPECIFICATION Spec
CONSTANTS
  Fuel = 4000
  Depths = {0, 1, 2, 3, 5, 8}
  Counts = {1, 2, 3, 4, 5, 6, 7, 8, 9, 10, 11, 12}
INVARIANTS Sane EmitCase
CHECK_DEADLOCK FALSE

SPECIFICATION Spec
CONSTANTS
  MaxLen = 3
  MinFns = 2
  MaxFns = 2
  Phased = FALSE
  NeedResult = FALSE
  MaxDepth = 0
  VNames = {"a", "b"}
  LNames = {"y"}
  BodyKinds = {"V", "U"}
  Configs <- SomeConfigs
INVARIANTS AgreeScoper Sound EmitCase
CHECK_DEADLOCK FALSE

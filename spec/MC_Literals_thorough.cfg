SPECIFICATION Spec
CONSTANTS
  Thorough = TRUE
INVARIANTS Consistent EmitCase
CHECK_DEADLOCK FALSE

SPECIFICATION Spec
CONSTANTS
  MaxLen = 6
  MinFns = 1
  MaxFns = 1
  Phased = FALSE
  NeedResult = FALSE
  MaxDepth = 2
  VNames = {"a", "b"}
  LNames = {"y"}
  BodyKinds = {"O", "C", "V", "U", "L", "G", "IG", "LP"}
  Configs <- NoConfig
INVARIANTS AgreeScoper Sound EmitCase
CHECK_DEADLOCK FALSE

----------------------------- MODULE Containers -----------------------------
(***************************************************************************)
(* C11 (a) -- constants and structures may not depend on themselves, and   *)
(* the order of the top-level declarations is irrelevant.                  *)
(*                                                                         *)
(* A module is a set of declarations 1..n.  kind[a] is "c" (constant),     *)
(* "s" (structure) or "f" (function; functions are nodes without edges:    *)
(* they take part in the permutations only).  `val` is the relation        *)
(* "a contains b BY VALUE":                                                *)
(*    c -> c   the initialiser of constant a mentions constant b           *)
(*    c -> s   the initialiser of constant a takes the size |:b|           *)
(*    s -> c   a member of structure a is an array of named length b       *)
(*    s -> s   a member of structure a has type b                          *)
(* `ptr` holds the references that do NOT embed anything: a member of type *)
(* &b or &[b]i32, or the size of a pointer |:&b| in an initialiser.        *)
(* perm is the order in which the declarations are written in the file.    *)
(*                                                                         *)
(*   Gen  grows every (n, kind, val, ptr, perm) up to the bound;           *)
(*   R    the rule (property C11; docs/errors.md E413, E415, E416):        *)
(*        accepted iff val is acyclic -- a statement about the SET of      *)
(*        declarations, perm does not occur in it;                         *)
(*   A    src/alpha/scoper/variable_references.rs found_container_1 (one   *)
(*        step per call), determine_container_depths (peeling) and the     *)
(*        stable sort by depth of Compiler::analyze_and_resolve.           *)
(* TLC checks on every input that A's verdict equals R's (hence does not   *)
(* depend on perm) and prints one CASE per (graph, kinds, permutation).    *)
(***************************************************************************)
EXTENDS Naturals, Integers, Sequences, FiniteSets, TLC, SequencesExt, FiniteSetsExt, IOUtils

CONSTANTS MinN, MaxN,      \* number of declarations
          Kinds,           \* subset of {"c", "s", "f"}
          AllowSelf,       \* pairs <<a, a>> are enumerated too
          AllowPtr,        \* pointer members of structures are enumerated
          AllowConstPtr,   \* |:&b| in initialisers is enumerated
          AllPerms,        \* every permutation (TRUE) or only 1..n (FALSE)
          Stepwise,        \* one TLC state per found_container_1 call (TRUE) or the whole run in one step
          ChainMode        \* TRUE: the graphs are the chain 1 -> 2 -> ... -> n plus at most one more reference
                           \* (dependency chains longer than the exhaustive bound, diamonds, one back edge), in a
                           \* sample of n file orders

VARIABLES n, kind, val, ptr, pairs, cur, perm, phase, sched, k, alg

vars == <<n, kind, val, ptr, pairs, cur, perm, phase, sched, k, alg>>

\* The algorithm model follows the tree under test: the check probes the compiler and tells the model
\* through the environment which of the fixes it contains (the rule R never changes).
\*   PENNE_FIXED_E416        E416 only if a constant is part of the cycle (not merely contained)
\*   PENNE_FIXED_SIZEOF_PTR  |:&S| in an initialiser registers no containment
\*   PENNE_FIXED_PTR_UNFOUNDED  cyclical structures are poisoned in the typer before anything is typed
\*   PENNE_FIXED_SIZEOF_PTR_ARRAY  |:&[2]S| in an initialiser registers no containment either (any pointee)
EnvIs(name) == name \in DOMAIN IOEnv /\ IOEnv[name] = "1"
FixedE416 == EnvIs("PENNE_FIXED_E416")
FixedSizeofPtr == EnvIs("PENNE_FIXED_SIZEOF_PTR")
FixedPtrUnfounded == EnvIs("PENNE_FIXED_PTR_UNFOUNDED")
FixedSizeofPtrArray == EnvIs("PENNE_FIXED_SIZEOF_PTR_ARRAY")

\* kind "w" is a word (word8 .. word128): a structure whose members are integers and other WORDS only, so the
\* only references a word makes are by-value references to words (no arrays, no pointers, no constants)
IsC(kd, a) == kd[a] = "c"
IsS(kd, a) == kd[a] \in {"s", "w"}
IsW(kd, a) == kd[a] = "w"
IsContainer(kd, a) == kd[a] \in {"c", "s", "w"}

\* HOW a reference is written is a dimension of Gen and no part of R (a function of the pair, so that it costs no
\* states).  By value, flavour 0 / 1 / 2:
\*    c -> c   `C<b>`          `|:[C<b>]u8|`      `(C<b> * 1)`
\*    c -> s   `|:S<b>|`       `|:[2]S<b>|`       `|:[2][2]S<b>|`
\*    s -> c   `[C<b>]i32`     `[2][C<b>]i32`     `[C<b>][2]u8`
\*    s -> s   `S<b>`          `[2]S<b>`          `[1][2]S<b>`           (w -> w: always `W<b>`)
\* by pointer:
\*    s -> s   `&S<b>`         `[2]&S<b>`         `&&S<b>`              (s -> c: always `&[C<b>]i32`)
\*    c -> s   `|:&S<b>|`      `|:[2]&S<b>|`      `|:&[2]S<b>|`
\* Modules with a member `&[C]T` are the input class of an open finding whose cascades (E433 on later users of C) depend
\* on how the other references are written: there everything is written in flavour 0.
Flavour(kd, P, a, b) == IF \E p \in P : IsS(kd, p[1]) /\ IsC(kd, p[2]) THEN 0 ELSE (a + 2 * b + Len(kd)) % 3
\* the size of a pointer to an ARRAY of structures (`|:&[2]S|`): registered as containment by trees without the fix
\* 9da61aa (finding `constptr-array`; the shape tag is kept, A follows the tree through PENNE_FIXED_SIZEOF_PTR_ARRAY)
ConstPtrArray(kd, P, p) == IsC(kd, p[1]) /\ Flavour(kd, P, p[1], p[2]) = 2

(***************************************************************************)
(* R -- the rule.                                                          *)
(***************************************************************************)
Succ(E, a) == { e[2] : e \in { x \in E : x[1] = a } }
RECURSIVE ReachFrom(_, _, _)
ReachFrom(E, F, S) == IF F = {} THEN S
                      ELSE LET nxt == UNION { Succ(E, a) : a \in F } \ S
                           IN ReachFrom(E, nxt, S \cup nxt)
\* everything a contains, directly or indirectly (at least one step)
Below(E, a) == ReachFrom(E, Succ(E, a), Succ(E, a))
StructEdges(kd, E) == { e \in E : IsS(kd, e[1]) /\ IsS(kd, e[2]) }
RECURSIVE Longest(_, _)
Longest(E, a) == IF Succ(E, a) = {} THEN 0 ELSE 1 + Max({ Longest(E, b) : b \in Succ(E, a) })

\* The verdict of the rule on the module (nn, kd, E), evaluated once:
\*   acc        accepted iff no declaration contains itself
\*   ok413/5/6  the declarations of which the code is a truthful description (docs/errors.md):
\*              E413 a constant whose definition depends on its own value,
\*              E415 a structure embedded into itself through structures only,
\*              E416 a structure that depends on itself through at least one constant
\*   unfounded  declarations on or above a cycle (they cannot be laid out)
\*   depth      longest containment path below a well-founded declaration, -1 for unfounded ones
\*   minimal    the cycles (as strongly connected sets) that do not sit above another cycle
Rule(nn, kd, E) ==
    LET B == [a \in 1..nn |-> Below(E, a)]
        BS == [a \in 1..nn |-> Below(StructEdges(kd, E), a)]
        cyc == { a \in 1..nn : a \in B[a] }
        scc(a) == { b \in B[a] : a \in B[b] } \cup {a}
        unf == { a \in 1..nn : ({a} \cup B[a]) \cap cyc # {} }
    IN [acc |-> cyc = {},
        cyclic |-> cyc,
        ok413 |-> { a \in cyc : IsC(kd, a) },
        ok415 |-> { a \in 1..nn : IsS(kd, a) /\ a \in BS[a] },
        ok416 |-> { a \in cyc : IsS(kd, a) /\ \E c \in scc(a) : IsC(kd, c) },
        unfounded |-> unf,
        depth |-> [a \in 1..nn |-> IF a \in unf THEN -1 ELSE Longest(E, a)],
        minimal |-> { scc(a) : a \in { x \in cyc : \A b \in B[x] \cap cyc : x \in B[b] } }]
RuleAccepts(nn, E) == \A a \in 1..nn : a \notin Below(E, a)
OkSet(r, code) == CASE code = 413 -> r.ok413 [] code = 415 -> r.ok415 [] code = 416 -> r.ok416 [] OTHER -> {}
IsPerm(s, nn) == Len(s) = nn /\ { s[x] : x \in 1..Len(s) } = 1..nn
\* does `order` (a sequence of declarations) put everything after what it contains?
Pos(order, a) == CHOOSE x \in 1..Len(order) : order[x] = a
Topological(E, order) == \A e \in E : Pos(order, e[2]) < Pos(order, e[1])

(***************************************************************************)
(* A -- the container analysis as the code performs it.                    *)
(* Declarations are analysed in file order; a constant first registers the *)
(* containees of its initialiser in source order, a structure those of its *)
(* members in member order.  The renderer writes the references of one     *)
(* declaration in ascending order of the referenced declaration.           *)
(***************************************************************************)
Refs(kd, V, P, a) == IF IsC(kd, a) THEN Succ(V, a) \cup (IF FixedSizeofPtr
                                                          THEN { b \in Succ(P, a) : ConstPtrArray(kd, P, <<a, b>>) /\ ~FixedSizeofPtrArray }
                                                          ELSE Succ(P, a))   \* |:&b| registers b as well
                     ELSE IF IsS(kd, a) THEN Succ(V, a)                     \* pointer members do not
                     ELSE {}
RECURSIVE SchedFrom(_, _, _, _, _)
SchedFrom(kd, V, P, pm, x) ==
    IF x > Len(pm) THEN <<>>
    ELSE LET a == pm[x]
             ts == SetToSortSeq(Refs(kd, V, P, a), <)
         IN [y \in 1..Len(ts) |-> <<a, ts[y]>>] \o SchedFrom(kd, V, P, pm, x + 1)
Sched(kd, V, P, pm) == SchedFrom(kd, V, P, pm, 1)

\* state of the analysis: contained_ids per container, the errors in the order raised,
\* and the result of the last call ("ok" | "cycle" | "poisoned")
AInit(nn) == [ids |-> [a \in 1..nn |-> {}], errs |-> <<>>, res |-> "none"]
AStep(kd, st, step) ==
    LET a == step[1]
        b == step[2]
        trans == st.ids[b] \cup {b}
        new == st.ids[a] \cup trans
    IN IF a \in st.ids[a] THEN [st EXCEPT !.res = "poisoned"]
       ELSE IF a \in new
       THEN LET code == IF IsS(kd, a)
                        THEN (IF \E c \in new : IsC(kd, c) /\ (FixedE416 => a \in st.ids[c]) THEN 416 ELSE 415)
                        ELSE 413
            IN [ids |-> [st.ids EXCEPT ![a] = new],
                errs |-> Append(st.errs, [node |-> a, code |-> code]),
                res |-> "cycle"]
       ELSE [ids |-> [o \in DOMAIN st.ids |->
                        IF o = a THEN new
                        ELSE IF a \in st.ids[o] THEN st.ids[o] \cup trans ELSE st.ids[o]],
             errs |-> st.errs,
             res |-> "ok"]

RECURSIVE ARun(_, _, _, _)
ARun(kd, st, sc, x) == IF x > Len(sc) THEN st ELSE ARun(kd, AStep(kd, st, sc[x]), sc, x + 1)

\* determine_container_depths: peel off the containers that contain nothing any more
RECURSIVE Peel(_, _, _, _, _)
Peel(cs, ids, dep, d, len) ==
    LET resolved == { a \in cs : dep[a] = -2 /\ ids[a] = {} }
    IN IF d >= len \/ resolved = {}
       THEN [a \in DOMAIN dep |-> IF dep[a] = -2 /\ a \in cs THEN -1 ELSE dep[a]]
       ELSE Peel(cs, [a \in DOMAIN ids |-> ids[a] \ resolved],
                 [a \in DOMAIN dep |-> IF a \in resolved THEN d ELSE dep[a]], d + 1, len)
ADepths(nn, kd, ids) ==
    LET cs == { a \in 1..nn : IsContainer(kd, a) }
    IN Peel(cs, ids, [a \in 1..nn |-> -2], 0, Cardinality(cs))
\* analyze_and_resolve: stable sort of the file order by depth; poisoned containers and functions last
SortKey(kd, dep, a) == IF IsContainer(kd, a) /\ dep[a] >= 0 THEN dep[a] ELSE 1000
RECURSIVE StableSort(_, _, _, _)
StableSort(kd, dep, pm, keys) ==
    IF keys = {} THEN <<>>
    ELSE LET m == Min(keys)
         IN SelectSeq(pm, LAMBDA a : SortKey(kd, dep, a) = m) \o StableSort(kd, dep, pm, keys \ {m})
AOrder(kd, dep, pm) == StableSort(kd, dep, pm, { SortKey(kd, dep, pm[x]) : x \in 1..Len(pm) })
\* Typing in that order.  The typer knows the value of a named array length only once the constant
\* has been typed successfully (Compiler::fetch_declared_constants), otherwise E433 on the structure.
\* By-value members are ordered by depth; a pointer member &[C]T registers no containment, so nothing
\* orders its structure after C.  A declaration that uses a failed one fails too (silently); a constant
\* whose initialiser mentions a failed CONSTANT reaches the generator without it (observed: panic).
\* Structures are forward declared per group (well-founded containers first, then functions together with
\* the poisoned containers); a well-founded structure with a pointer member to a poisoned structure is
\* typed while that structure is still unknown to the typer (observed: panic in the resolver).
APtrToUnfounded(kd, P, dep) ==
    ~FixedPtrUnfounded /\ \E p \in P : IsS(kd, p[1]) /\ IsS(kd, p[2]) /\ dep[p[1]] >= 0 /\ dep[p[2]] = -1
RECURSIVE TypeFrom(_, _, _, _, _, _)
TypeFrom(kd, V, P, order, x, acc) ==
    IF x > Len(order) THEN acc
    ELSE LET a == order[x]
             typed == { order[y] : y \in 1..(x - 1) } \ acc.failed
             lens == { q[2] : q \in { p \in V \cup P : p[1] = a /\ IsC(kd, p[2]) } }
             untyped == { b \in lens : b \notin typed }
             bad433 == IsS(kd, a) /\ untyped # {}
             \* a constant fails (without a value in the generator: "hollow") if it mentions something that
             \* failed or a constant whose symbol the typer poisoned; mentioning a hollow constant panics
             badDep == \/ \E b \in Succ(V, a) : b \in acc.failed \/ (IsC(kd, a) /\ b \in acc.sympois)
                       \/ IsS(kd, a) /\ \E b \in Succ(P, a) : IsS(kd, b) /\ b \in acc.failed   \* &S of a failed S
             crash == IsC(kd, a) /\ \E b \in Succ(V, a) : b \in acc.hollow
         IN TypeFrom(kd, V, P, order, x + 1,
                     [failed |-> IF bad433 \/ badDep THEN acc.failed \cup {a} ELSE acc.failed,
                      e433 |-> IF bad433 THEN acc.e433 \cup {a} ELSE acc.e433,
                      crash |-> acc.crash \/ crash,
                      hollow |-> IF IsC(kd, a) /\ badDep THEN acc.hollow \cup {a} ELSE acc.hollow,
                      sympois |-> IF bad433 THEN acc.sympois \cup untyped ELSE acc.sympois])
NoTyping == [failed |-> {}, e433 |-> {}, crash |-> FALSE, hollow |-> {}, sympois |-> {}]
\* only the well-founded containers are typed this way (the scoper's errors do not stop the typer)
ATyping(kd, V, P, order) == TypeFrom(kd, V, P, order, 1, NoTyping)
ATypingWF(kd, V, P, order, dep) ==
    ATyping(kd, V, P, SelectSeq(order, LAMBDA a : IsContainer(kd, a) /\ dep[a] >= 0))
ATypingErrs(kd, V, P, order) == ATyping(kd, V, P, order).e433

(***************************************************************************)
(* Gen                                                                     *)
(***************************************************************************)
\* the ordered pairs of containers, in lexicographic order
PairSeq(nn, kd) ==
    SetToSortSeq({ p \in (1..nn) \X (1..nn) : IsContainer(kd, p[1]) /\ IsContainer(kd, p[2])
                                                /\ (IsW(kd, p[1]) => IsW(kd, p[2]))
                                                /\ (AllowSelf \/ p[1] # p[2]) },
                 LAMBDA p, q : p[1] < q[1] \/ (p[1] = q[1] /\ p[2] < q[2]))
\* chain mode: the file orders x |-> (x * m) mod (n + 1), m = 1 (as written) .. n (reversed), those that are permutations
Perms(nn) == IF ChainMode THEN { p \in { [x \in 1..nn |-> (x * m) % (nn + 1)] : m \in 1..nn } : IsPerm(p, nn) }
             ELSE IF AllPerms THEN { p \in [1..nn -> 1..nn] : \A x, y \in 1..nn : x # y => p[x] # p[y] }
             ELSE { [x \in 1..nn |-> x] }
ChainPairs(nn) == { <<i, i + 1>> : i \in 1..(nn - 1) }

Init == /\ n = 0 /\ kind = <<>> /\ val = {} /\ ptr = {} /\ pairs = <<>> /\ cur = 0 /\ perm = <<>>
        /\ phase = "nodes" /\ sched = <<>> /\ k = 0 /\ alg = AInit(0)

AddNode == /\ phase = "nodes" /\ n < MaxN
           /\ \E kd \in Kinds : kind' = Append(kind, kd)
           /\ n' = n + 1
           /\ UNCHANGED <<val, ptr, pairs, cur, perm, phase, sched, k, alg>>
StartEdges == /\ phase = "nodes" /\ n >= MinN /\ ~ChainMode
              /\ phase' = "edges" /\ cur' = 1 /\ pairs' = PairSeq(n, kind)
              /\ UNCHANGED <<n, kind, val, ptr, perm, sched, k, alg>>
\* chain mode: 1 -> 2 -> ... -> n by value, then nothing more or exactly one of the remaining pairs
StartChain == /\ phase = "nodes" /\ n >= MinN /\ ChainMode
              /\ \A i \in 1..(n - 1) : IsContainer(kind, i) /\ IsContainer(kind, i + 1) /\ (IsW(kind, i) => IsW(kind, i + 1))
              /\ pairs' = SelectSeq(PairSeq(n, kind), LAMBDA p : p \notin ChainPairs(n))
              /\ \/ val' = ChainPairs(n) /\ UNCHANGED ptr
                 \/ \E x \in 1..Len(PairSeq(n, kind)) :
                       LET p == PairSeq(n, kind)[x]
                       IN /\ p \notin ChainPairs(n)
                          /\ \/ val' = ChainPairs(n) \cup {p} /\ UNCHANGED ptr
                             \/ /\ IsS(kind, p[1]) /\ ~IsW(kind, p[1]) /\ AllowPtr
                                /\ val' = ChainPairs(n) /\ ptr' = {p}
              /\ phase' = "edges" /\ cur' = Len(pairs') + 1
              /\ UNCHANGED <<n, kind, perm, sched, k, alg>>
\* decide the pair under the cursor: nothing, by value, or by pointer
DecideEdge == /\ phase = "edges" /\ cur <= Len(pairs)
              /\ LET p == pairs[cur]
                     mayPtr == (IsS(kind, p[1]) /\ ~IsW(kind, p[1]) /\ AllowPtr) \/ (IsC(kind, p[1]) /\ IsS(kind, p[2]) /\ AllowConstPtr)
                 IN \/ UNCHANGED <<val, ptr>>
                    \/ val' = val \cup {p} /\ UNCHANGED ptr
                    \/ mayPtr /\ ptr' = ptr \cup {p} /\ UNCHANGED val
              /\ cur' = cur + 1
              /\ UNCHANGED <<n, kind, pairs, perm, phase, sched, k, alg>>
ChoosePerm == /\ phase = "edges" /\ cur > Len(pairs)
              /\ \E pm \in Perms(n) :
                    LET sc == Sched(kind, val, ptr, pm)
                    IN /\ perm' = pm
                       /\ sched' = sc
                       /\ IF Stepwise THEN phase' = "run" /\ k' = 1 /\ alg' = AInit(n)
                          ELSE phase' = "end" /\ k' = Len(sc) + 1 /\ alg' = ARun(kind, AInit(n), sc, 1)
              /\ UNCHANGED <<n, kind, val, ptr, pairs, cur>>
Step == /\ phase = "run" /\ k <= Len(sched)
        /\ alg' = AStep(kind, alg, sched[k])
        /\ k' = k + 1
        /\ UNCHANGED <<n, kind, val, ptr, pairs, cur, perm, phase, sched>>
Finish == /\ phase = "run" /\ k > Len(sched)
          /\ phase' = "end"
          /\ UNCHANGED <<n, kind, val, ptr, pairs, cur, perm, sched, k, alg>>

Next == AddNode \/ StartEdges \/ StartChain \/ DecideEdge \/ ChoosePerm \/ Step \/ Finish
Spec == Init /\ [][Next]_vars

(***************************************************************************)
(* A |= R                                                                  *)
(***************************************************************************)
ModelDepths == ADepths(n, kind, alg.ids)
ModelOrder == AOrder(kind, ModelDepths, perm)
ModelTyping == ATypingWF(kind, val, ptr, ModelOrder, ModelDepths)
ModelTypingErrs == ModelTyping.e433
ModelAccepts == alg.errs = <<>> /\ ModelTypingErrs = {}
Cs == { a \in 1..n : IsContainer(kind, a) }

\* the verdict does not depend on the order of the declarations (R does not mention perm)
Agree == phase = "end" => (ModelAccepts = RuleAccepts(n, val))
\* what is reported is true of the declaration it is reported on
CodesOK == phase = "end" =>
    LET r == Rule(n, kind, val)
    IN \A x \in 1..Len(alg.errs) : alg.errs[x].node \in OkSet(r, alg.errs[x].code)
\* depth = longest containment path; poisoned iff on or above a cycle;
\* accepted modules are typed in a topological order, functions last;
\* every cycle that does not sit above another cycle is reported on one of its members
SoundBody(r, md, order) ==
    /\ \A a \in Cs : md[a] = r.depth[a]
    /\ r.acc => /\ Topological(val, order)
                /\ \A x, y \in 1..n : (IsContainer(kind, order[x]) /\ ~IsContainer(kind, order[y])) => x < y
    /\ \A c \in r.minimal : \E x \in 1..Len(alg.errs) : alg.errs[x].node \in c
Sound == phase = "end" => SoundBody(Rule(n, kind, val), ModelDepths, ModelOrder)
\* the closure is exact as long as nothing was rejected (Stepwise only)
ClosureOK == (phase = "run" /\ alg.errs = <<>>) =>
    \A a \in Cs : alg.ids[a] \subseteq Below(val \cup { p \in ptr : IsC(kind, p[1]) /\ (~FixedSizeofPtr \/ (ConstPtrArray(kind, ptr, p) /\ ~FixedSizeofPtrArray)) }, a)
=============================================================================

SPECIFICATION Spec
CONSTANTS
  Types = {"i8", "i16", "i32", "i64", "i128", "u8", "u16", "u32", "u64", "u128", "usize"}
  Thorough = TRUE
  Mode = "tree"
INVARIANTS WellTyped EmitCase
CHECK_DEADLOCK FALSE

-------------------------- MODULE Trace_VarScope --------------------------
(***************************************************************************)
(* Trace validation for C05 (impl -> spec): recordings of the variable     *)
(* scoper's hook events on random bodies are replayed against the rule R   *)
(* of VarScope (always) and, with Strict = TRUE, step by step against the  *)
(* algorithm model A (stack depths, in-scope sets at gotos, pruned sets).  *)
(***************************************************************************)
EXTENDS VarScope, Json, IOUtils, TLCExt

CONSTANT Strict

Rec == ndJsonDeserialize(IOEnv.TRACE)

VARIABLES l, cur, seen
tvars == <<l, cur, seen, body, depth, cfg, phase, sched, k, alg, pc, live, opens, last>>

Body(r) == [i \in 1..Len(r.b) |-> [k |-> r.b[i].k, n |-> r.b[i].n]]
Cfg(r) == [consts |-> [i \in 1..Len(r.consts) |-> r.consts[i].n],
           params |-> [i \in 1..Len(r.params) |-> r.params[i].n]]

TInit == /\ l = 1 /\ cur = [off |-> 0, plines |-> <<>>, clines |-> <<>>] /\ seen = {}
         /\ body = <<>> /\ depth = 0 /\ cfg = [consts |-> <<>>, params |-> <<>>] /\ phase = "idle"
         /\ sched = <<>> /\ k = 0 /\ alg = AInit /\ pc = 0 /\ live = {} /\ opens = <<>> /\ last = "none"

Ev(e) == l <= Len(Rec) /\ Rec[l].ev = e
Frozen == UNCHANGED <<depth, pc, live, opens, last>>

TInput == /\ Ev("input") /\ phase = "idle"
          /\ body' = Body(Rec[l]) /\ cfg' = Cfg(Rec[l])
          /\ cur' = [off |-> Rec[l].off,
                     plines |-> [i \in 1..Len(Rec[l].params) |-> Rec[l].params[i].line],
                     clines |-> [i \in 1..Len(Rec[l].consts) |-> Rec[l].consts[i].line]]
          /\ sched' = Sched(Body(Rec[l]), Cfg(Rec[l])) /\ k' = 1 /\ alg' = AStart(Body(Rec[l])) /\ seen' = {}
          /\ phase' = "scan" /\ l' = l + 1 /\ Frozen

\* declaration id of a source line
\* (constants may stand after the functions: their lines are looked up first)
IdOfLine(line) ==
    IF \E i \in 1..Len(cur.clines) : cur.clines[i] = line
         THEN ConstId(CHOOSE i \in 1..Len(cur.clines) : cur.clines[i] = line)
    ELSE IF \E i \in 1..Len(cur.plines) : cur.plines[i] = line
         THEN ParamId(CHOOSE i \in 1..Len(cur.plines) : cur.plines[i] = line)
    ELSE IF line > cur.off THEN line - cur.off
    ELSE IF line = cur.off THEN 0
    ELSE 0 - 98
IdsOfLines(ls) == { IdOfLine(ls[i]) : i \in 1..Len(ls) }

(* ---- the algorithm model in lock step (Strict) ---- *)
Silent(a, step) ==
    \/ step[1] = "goto" /\ MBadGoto(body, step[2])
    \/ step[1] = "label" /\ (\/ \E q \in 1..Len(body) : MClashPair(body, step[2], q)
                              \/ a.unres[step[2]] = None)
RECURSIVE Skip(_, _)
Skip(a, kk) == IF kk <= Len(sched) /\ Silent(a, sched[kk])
               THEN Skip(AStep(body, cfg, a, sched[kk]), kk + 1) ELSE [a |-> a, k |-> kk]
\* consume one event that corresponds to a model step with operation op on id/position p
Lock(ops, p, check(_, _)) ==
    IF Strict
    THEN LET s == Skip(alg, k) IN
         /\ s.k <= Len(sched) /\ sched[s.k][1] \in ops /\ (p # 0 - 98 => sched[s.k][2] = p)
         /\ check(s.a, AStep(body, cfg, s.a, sched[s.k]))
         /\ alg' = AStep(body, cfg, s.a, sched[s.k]) /\ k' = s.k + 1
    ELSE UNCHANGED <<alg, k>>
True2(a, b) == TRUE

Common == /\ l' = l + 1 /\ UNCHANGED <<cur, body, cfg, phase, sched>> /\ Frozen

TPush == /\ Ev("vpush") /\ phase = "scan"
         /\ Lock({"push"}, 0 - 98, LAMBDA a, b : Rec[l].depth = Len(b.st))
         /\ UNCHANGED seen /\ Common
TPop == /\ Ev("vpop") /\ phase = "scan"
        /\ Lock({"pop"}, 0 - 98, LAMBDA a, b : Rec[l].depth = Len(b.st))
        /\ UNCHANGED seen /\ Common

TCDecl == /\ Ev("cdecl") /\ phase = "scan"
          /\ LET d == IdOfLine(Rec[l].line) IN
             /\ d \in ConstIds(cfg) /\ d \notin seen
             /\ NameOf(body, cfg, d) = Rec[l].name
             /\ Rec[l].dup = ((0 - d - 10) \in R423(cfg))                      \* R
             /\ Lock({"cdecl"}, d, True2)
             /\ seen' = seen \cup {d}
          /\ Common

TVDecl == /\ Ev("vdecl") /\ phase = "scan"
          /\ LET d == IdOfLine(Rec[l].line) IN
             /\ d # 0 - 98 /\ d \notin seen
             /\ NameOf(body, cfg, d) = Rec[l].name
             \* a declaration of the body, or the `var x` of a later function (item "F")
             /\ d >= 1 => (IsV(body, d) \/ IsF(body, d))
             /\ Rec[l].dup = (IF d >= 1 THEN d \in MR422(body, cfg)           \* R
                              ELSE IF d = 0 THEN FALSE
                              ELSE (0 - d) \in R424(cfg))
             /\ Lock({"decl", "pdecl"}, d, LAMBDA a, b : Rec[l].depth = Len(b.st))
             /\ seen' = seen \cup {d}
          /\ Common

TUse == /\ Ev("vuse") /\ phase = "scan"
        /\ IF Rec[l].name = "x" /\ ~(LET q == Rec[l].line - cur.off IN
                                      q \in 1..Len(body) /\ IsU(body, q) /\ body[q].n = "x")
           THEN \* the harness variable (in a condition, as the value of `n = x;`): always declared, never
                \* skipped; it is the `var x` of the function the line lies in
                /\ Rec[l].res = "ok" /\ IdOfLine(Rec[l].decl) = FOf(body, Rec[l].line - cur.off)
                /\ UNCHANGED <<seen, alg, k>>
           ELSE LET p == Rec[l].line - cur.off IN
                /\ p \in 1..Len(body) /\ IsU(body, p) /\ (100000 + p) \notin seen
                /\ body[p].n = Rec[l].name
                /\ (Rec[l].res = "undefined") = (p \in MR402(body, cfg))                   \* R
                /\ (Rec[l].res # "undefined" /\ MNoDup(body, cfg)) =>
                       MDeclsFor(body, cfg, p) = {IdOfLine(Rec[l].decl)}
                /\ (MLabelOK(body) /\ MNoDup(body, cfg)) =>
                       /\ (Rec[l].res \in {"skipped", "poisoned"}) = (p \in MBadUses(body, cfg))
                       /\ (p \in MR482first(body, cfg)) => Rec[l].res = "skipped"
                /\ Lock({"use"}, p, LAMBDA a, b :
                           (Rec[l].res = "skipped") = (p \in b.e482 /\ p \notin a.e482))
                /\ seen' = seen \cup {100000 + p}
        /\ Common

TGoto == /\ Ev("vgoto") /\ phase = "scan"
         /\ LET p == Rec[l].line - cur.off IN
            /\ p \in 1..Len(body) /\ IsG(body, p) /\ ~MBadGoto(body, p)
            /\ body[p].n = Rec[l].label
            /\ Lock({"goto"}, p, LAMBDA a, b : IdsOfLines(Rec[l].inscope) = InScope(a.st))
         /\ UNCHANGED seen /\ Common

TPrune == /\ Ev("vprune") /\ phase = "scan"
          /\ LET p == Rec[l].line - cur.off IN
             /\ p \in 1..Len(body) /\ IsL(body, p)
             /\ body[p].n = Rec[l].label
             /\ Lock({"label"}, p, LAMBDA a, b :
                        IdsOfLines(Rec[l].pruned) = { a.st[Len(a.st)][x] : x \in 1..Len(a.st[Len(a.st)]) } \ a.unres[p])
          /\ UNCHANGED seen /\ Common

DiagLines(code) == { Rec[l].diags[x].line : x \in { y \in 1..Len(Rec[l].diags) : Rec[l].diags[y].code = code } }
DiagPos(code) == { line - cur.off : line \in DiagLines(code) }
TOutcome ==
    /\ Ev("outcome") /\ phase = "scan"
    /\ Strict => Skip(alg, k).k > Len(sched)
    \* every declaration and every use was visited exactly once
    /\ seen = { d \in 1..Len(body) : IsV(body, d) \/ IsF(body, d) } \cup {0} \cup ParamIds(cfg) \cup ConstIds(cfg)
                \cup { 100000 + u : u \in { v \in 1..Len(body) : IsU(body, v) } }
    /\ DiagPos(402) = MR402(body, cfg)
    /\ DiagPos(422) = MR422(body, cfg)
    /\ { IdOfLine(line) : line \in DiagLines(424) } = { ParamId(i) : i \in R424(cfg) }
    /\ (MLabelOK(body) /\ MNoDup(body, cfg)) =>
           /\ MR482first(body, cfg) \subseteq DiagPos(482)
           /\ DiagPos(482) \subseteq MBadUses(body, cfg)
    /\ MRuleAcceptsVars(body, cfg) => Rec[l].ok
    /\ (MLabelOK(body) /\ ~MRuleAcceptsVars(body, cfg)) => ~Rec[l].ok
    /\ phase' = "idle" /\ l' = l + 1
    /\ UNCHANGED <<cur, seen, body, cfg, sched, k, alg>> /\ Frozen

TNext == TInput \/ TPush \/ TPop \/ TCDecl \/ TVDecl \/ TUse \/ TGoto \/ TPrune \/ TOutcome
TSpec == TInit /\ [][TNext]_tvars

Accepted == LET d == TLCGet("stats").diameter - 1
            IN PrintT(<<"TRACE", ToJson([accepted |-> (d = Len(Rec)), matched |-> d, total |-> Len(Rec)])>>)
==========================================================================

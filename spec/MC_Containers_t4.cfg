SPECIFICATION Spec
CONSTANTS
  MinN = 4
  MaxN = 4
  Kinds = {"c", "s"}
  AllowSelf = FALSE
  AllowPtr = FALSE
  AllowConstPtr = FALSE
  AllPerms = TRUE
  ChainMode = FALSE
  Stepwise = FALSE
INVARIANTS VerifyAgreeSound
CHECK_DEADLOCK FALSE

SPECIFICATION Spec
CONSTANTS
  MinN = 2
  MaxN = 2
  Kinds = {"c", "s"}
  AllowSelf = FALSE
  AllowPtr = TRUE
  AllowConstPtr = FALSE
  AllPerms = TRUE
  ChainMode = FALSE
  Stepwise = FALSE
INVARIANTS Agree
CHECK_DEADLOCK FALSE

SPECIFICATION Spec
CONSTANTS
  Planes = 2
INVARIANT AliasOK
CHECK_DEADLOCK FALSE

INIT Init
NEXT Next
CONSTANTS
  MaxSteps = 3
  Thorough = FALSE
INVARIANTS AgreeFaithful
CHECK_DEADLOCK FALSE

SPECIFICATION Spec
CONSTANTS
  Kinds = {"value", "word", "aview", "sview", "sptr", "aptr", "ptr", "pptr", "sp", "wp"}
  Kinds2 = {"ptr", "aview", "sview"}
  MaxForm2 = 2
  Fuel = 400
INVARIANTS Legality Monitors NonInterference EmitCase
CHECK_DEADLOCK FALSE

SPECIFICATION Spec
CONSTANTS
  MinN = 6
  MaxN = 6
  Kinds = {"c", "s"}
  AllowSelf = TRUE
  AllowPtr = TRUE
  AllowConstPtr = FALSE
  AllPerms = FALSE
  ChainMode = TRUE
  Stepwise = FALSE
INVARIANTS VerifySound
CHECK_DEADLOCK FALSE

SPECIFICATION Spec
CONSTANTS
  Types = {"i8", "i32", "i128", "u16", "u64", "usize"}
  Thorough = FALSE
  Mode = "chain"
INVARIANTS WellTyped EmitCase
CHECK_DEADLOCK FALSE

--------------------------- MODULE MC_MachineData ---------------------------
(***************************************************************************)
(* C01, dimension audit: the DATA dimensions nobody varied so far.         *)
(* Every program is built from a parameter record (Gen = the set Params),  *)
(* executed by Machine.tla (R), emitted with its expected output, compiled *)
(* and run by the harness.  Families (field fam):                          *)
(*   bigarr    arrays of n elements (0, 1, 2, 100, 1000) filled through a  *)
(*             slice pointer, summed through a view and by name; array     *)
(*             literals of n elements mixing constants and run-time values *)
(*   bigstruct a structure with 12 members of every width, nested 3 deep,  *)
(*             also as an element of an array member (array of structures  *)
(*             of arrays); written and read directly, through a pointer,   *)
(*             through a view; literals in declaration / reversed order    *)
(*   arr3      a 3-dimensional array filled by loops nested 3 deep; rows   *)
(*             and planes passed as views; `|x|` of every level            *)
(*   zerolen   zero-length arrays in every position (local, member, inner, *)
(*             outer dimension, view / slice pointer / array pointer       *)
(*             argument, constant) and `|x|` of each                       *)
(*   viewview  a view parameter passed on as a view argument, 1..3 deep,   *)
(*             of arrays of length 0, 1, 3 however the caller holds them   *)
(*   iterptr   a pointer re-pointed in one loop iteration (inside a block  *)
(*             of the loop body) and used in the next                      *)
(*   looplocal variables declared inside a loop body, after a label: they  *)
(*             are initialised again in every iteration; a large local     *)
(*             array in a loop of 2 / 300 iterations                       *)
(*   wordcopy  copies of whole words of every size: variable to variable,  *)
(*             element to element, into a member, through a pointer,       *)
(*             through a function that returns its word parameter          *)
(*   deepblocks 1..64 nested blocks, a variable at every level, one goto   *)
(*             out of all of them; longexpr: one expression of 1..64       *)
(*             operands nested to the left / to the right                  *)
(***************************************************************************)
EXTENDS MachineBuild
CONSTANTS Fuel, Fams,    \* Fams: the families that are enumerated
          BigTypes,      \* element types of the arrays of 1000 elements
          Big            \* Big: the large sizes (1000 elements, 300 iterations of a 32 KiB local) are part of the run

Cat(ss) == Flatten(ss)

(**************************** bigarr ****************************************)
ElemTypes == {"i32", "u8", "i128", "i64"}
FillFn(T) == FnV("fill", <<Par("x", PtrT(ViewT(PrimT(T))))>>,
                 CountedLoop("i", LenE("x", <<>>), "end",
                             <<Asg("x", 0, <<Ix(RV("i"))>>, Bin("+", Bin("*", As(T, RV("i")), Lit(T, 3)), Lit(T, 1)))>>))
SumFn(T) == Fn("sum", <<Par("x", ViewT(PrimT(T)))>>, PrimT(T),
               <<VarI("total", PrimT(T), Lit(T, 0))>>
                 \o CountedLoop("i", LenE("x", <<>>), "end",
                                <<SetV("total", Bin("+", RV("total"), Ref("x", 0, <<Ix(RV("i"))>>)))>>),
               RV("total"))
BigArr(p) ==
    LET T == p.t
        N == p.n
        \* a literal of N elements: every seventh element is a run-time value, the others are constants
        lit == ArrE([j \in 1..N |-> IF j % 7 = 3 THEN Bin("+", RV("seed"), Lit(T, j % 100)) ELSE Lit(T, (j * 7) % 120)])
        body == IF p.how = "fill"
                THEN <<VarU("a", ArrT(N, PrimT(T))), CallI("fill", <<Ref("a", 1, <<>>)>>, "")>>
                ELSE <<VarI("seed", PrimT(T), Lit(T, 5)), VarI("a", ArrT(N, PrimT(T)), lit)>>
        byname == <<VarI("acc", PrimT(T), Lit(T, 0))>>
                    \o CountedLoop("k", LenE("a", <<>>), "done",
                                   <<SetV("acc", Bin("+", RV("acc"), Ref("a", 0, <<Ix(RV("k"))>>)))>>)
                    \o <<Pr(RV("acc"))>>
    IN Program(<<>>, <<>>,
               <<MainFn(body \o (IF N >= 1000 THEN <<VarI("r", PrimT(T), Lit(T, 0)), CallI("sum", <<RV("a")>>, "r"), Pr(RV("r"))>>
                                            ELSE <<Pr(CallE("sum", <<RV("a")>>))>>)
                             \o <<Pr(LenE("a", <<>>))>>
                          \o (IF N > 0 THEN <<Pr(Ref("a", 0, <<IxN(N - 1)>>)), Pr(Ref("a", 0, <<IxN(N \div 2)>>))>> ELSE <<>>)
                          \o byname),
                 FillFn(T), SumFn(T)>>)
BigArrParams == {[fam |-> "bigarr", n |-> n, t |-> t, how |-> h] : n \in {0, 1, 2, 100}, t \in ElemTypes, h \in {"fill", "lit"}}
                \cup {[fam |-> "bigarr", n |-> 1000, t |-> t, how |-> "fill"] : t \in BigTypes}

(**************************** bigstruct *************************************)
W16D == WD("W16", 16, <<Mem("a", PrimT("u8")), Mem("b", PrimT("u8"))>>)
A3Members == <<Mem("m1", PrimT("i8")), Mem("m2", PrimT("i64")), Mem("m3", PrimT("u16")), Mem("m4", PrimT("i128")),
               Mem("m5", PrimT("bool")), Mem("m6", ArrT(3, PrimT("u8"))), Mem("m7", NamedT("W16")), Mem("m8", PrimT("u32")),
               Mem("m9", PrimT("usize")), Mem("m10", PrimT("i16")), Mem("m11", PrimT("u64")), Mem("m12", PrimT("i32"))>>
A3D == SD("A3", A3Members)
A2D == SD("A2", <<Mem("pre", PrimT("u8")), Mem("inn", NamedT("A3")), Mem("arr", ArrT(2, NamedT("A3"))), Mem("post", PrimT("i16"))>>)
A1D == SD("A1", <<Mem("x", PrimT("i16")), Mem("mid", NamedT("A2")), Mem("tail", PrimT("i128"))>>)
\* the scalar leaves of an A3 with the value written to each: <<steps, expression>>
NegL(t, n) == LitV(t, Neg(FromNat(n, Width(t))))
A3Leaves == << <<<<Mb("m1")>>, NegL("i8", 5)>>, <<<<Mb("m2")>>, NegL("i64", 600)>>, <<<<Mb("m3")>>, Lit("u16", 65000)>>,
               <<<<Mb("m4")>>, LitV("i128", MinSigned(128))>>, <<<<Mb("m5")>>, BoolL(TRUE)>>,
               <<<<Mb("m6"), IxN(0)>>, Lit("u8", 60)>>, <<<<Mb("m6"), IxN(1)>>, Lit("u8", 61)>>, <<<<Mb("m6"), IxN(2)>>, Lit("u8", 255)>>,
               <<<<Mb("m7"), Mb("a")>>, Lit("u8", 70)>>, <<<<Mb("m7"), Mb("b")>>, Lit("u8", 71)>>,
               <<<<Mb("m8")>>, LitV("u32", Ones(32))>>, <<<<Mb("m9")>>, LitV("usize", Ones(64))>>, <<<<Mb("m10")>>, NegL("i16", 10)>>,
               <<<<Mb("m11")>>, LitV("u64", MaxSigned(64))>>, <<<<Mb("m12")>>, NegL("i32", 12)>> >>
A3Lit(rev) ==
    LET fs == <<Fld("m1", NegL("i8", 5)), Fld("m2", NegL("i64", 600)), Fld("m3", Lit("u16", 65000)), Fld("m4", LitV("i128", MinSigned(128))),
                Fld("m5", BoolL(TRUE)), Fld("m6", ArrE(<<Lit("u8", 60), RV("rt"), Lit("u8", 255)>>)),
                Fld("m7", StE("W16", <<Fld("a", Lit("u8", 70)), Fld("b", Lit("u8", 71))>>)), Fld("m8", LitV("u32", Ones(32))),
                Fld("m9", LitV("usize", Ones(64))), Fld("m10", NegL("i16", 10)), Fld("m11", LitV("u64", MaxSigned(64))),
                Fld("m12", NegL("i32", 12))>>
    IN StE("A3", IF rev THEN Reverse(fs) ELSE fs)
WriteLeaves(x, prefix) == [i \in 1..Len(A3Leaves) |-> Asg(x, 0, prefix \o A3Leaves[i][1], A3Leaves[i][2])]
ReadLeaves(x, prefix) == [i \in 1..Len(A3Leaves) |-> Pr(Ref(x, 0, prefix \o A3Leaves[i][1]))]
BigStruct(p) ==
    LET inn == <<Mb("mid"), Mb("inn")>>
        elem == <<Mb("mid"), Mb("arr"), IxN(1)>>
        lens(x) == <<Pr(LenE(x, <<Mb("mid"), Mb("arr")>>)), Pr(LenE(x, inn \o <<Mb("m6")>>)), Pr(LenE(x, elem \o <<Mb("m6")>>))>>
        wr == FnV("wr", <<Par("p", PtrT(NamedT("A1")))>>, WriteLeaves("p", IF p.path = "ptrelem" THEN elem ELSE inn))
        rd == FnV("rd", <<Par("v", NamedT("A1"))>>, ReadLeaves("v", IF p.path = "viewelem" THEN elem ELSE inn) \o lens("v"))
        rd3 == FnV("rd3", <<Par("v", NamedT("A3"))>>, ReadLeaves("v", <<>>))
        main == CASE p.path = "direct" -> <<VarU("a", NamedT("A1"))>> \o WriteLeaves("a", inn) \o ReadLeaves("a", inn) \o lens("a")
                  [] p.path = "elem" -> <<VarU("a", NamedT("A1"))>> \o WriteLeaves("a", elem) \o ReadLeaves("a", elem) \o lens("a")
                  [] p.path \in {"ptr", "ptrelem"} ->
                        <<VarU("a", NamedT("A1")), CallI("wr", <<Ref("a", 1, <<>>)>>, "")>>
                          \o ReadLeaves("a", IF p.path = "ptrelem" THEN elem ELSE inn)
                  [] p.path \in {"view", "viewelem"} ->
                        <<VarU("a", NamedT("A1"))>> \o WriteLeaves("a", IF p.path = "viewelem" THEN elem ELSE inn)
                          \o <<CallI("rd", <<RV("a")>>, "")>>
                  \* a view of a nested structure / of an element of an array member
                  [] p.path = "view3" -> <<VarU("a", NamedT("A1"))>> \o WriteLeaves("a", elem) \o <<CallI("rd3", <<Ref("a", 0, elem)>>, "")>>
                  [] p.path \in {"lit", "litrev"} ->
                        <<VarI("rt", PrimT("u8"), Lit("u8", 61)), VarI("s", NamedT("A3"), A3Lit(p.path = "litrev"))>> \o ReadLeaves("s", <<>>)
                          \o <<CallI("rd3", <<RV("s")>>, "")>>
    IN Program(<<W16D, A3D, A2D, A1D>>, <<>>, <<MainFn(main), wr, rd, rd3>>)
BigStructParams == {[fam |-> "bigstruct", path |-> q] : q \in {"direct", "elem", "ptr", "ptrelem", "view", "viewelem", "view3", "lit", "litrev"}}

(**************************** arr3 ******************************************)
Arr3(p) ==
    LET T == p.t
        A3T == ArrT(2, ArrT(3, ArrT(4, PrimT(T))))
        val == As(T, Bin("+", Bin("+", Bin("*", RV("i"), USZ(100)), Bin("*", RV("j"), USZ(10))), RV("k")))
        fill == CountedLoop("i", USZ(2), "e1",
                  CountedLoop("j", USZ(3), "e2",
                    CountedLoop("k", USZ(4), "e3", <<Asg("a", 0, <<Ix(RV("i")), Ix(RV("j")), Ix(RV("k"))>>, val)>>)))
        s2 == Fn("s2", <<Par("x", ViewT(ArrT(4, PrimT(T))))>>, PrimT(T), <<>>,
                 Bin("+", Ref("x", 0, <<IxN(2), IxN(3)>>), As(T, Bin("+", LenE("x", <<>>), LenE("x", <<IxN(0)>>)))))
        s1 == Fn("s1", <<Par("x", ViewT(PrimT(T)))>>, PrimT(T), <<>>, Bin("+", Ref("x", 0, <<IxN(3)>>), As(T, LenE("x", <<>>))))
        w1 == FnV("w1", <<Par("x", PtrT(ViewT(PrimT(T))))>>, <<Asg("x", 0, <<IxN(1)>>, Lit(T, 77))>>)
    IN Program(<<>>, <<>>,
               <<MainFn(<<VarU("a", A3T)>> \o fill
                         \o <<Pr(Ref("a", 0, <<IxN(1), IxN(2), IxN(3)>>)), Pr(Ref("a", 0, <<IxN(0), IxN(0), IxN(0)>>)),
                              Pr(Ref("a", 0, <<IxN(1), IxN(0), IxN(3)>>)), Pr(Ref("a", 0, <<IxN(0), IxN(2), IxN(1)>>)),
                              Pr(LenE("a", <<>>)), Pr(LenE("a", <<IxN(1)>>)), Pr(LenE("a", <<IxN(1), IxN(2)>>)),
                              Pr(CallE("s2", <<Ref("a", 0, <<IxN(1)>>)>>)), Pr(CallE("s1", <<Ref("a", 0, <<IxN(1), IxN(2)>>)>>)),
                              CallI("w1", <<Ref("a", 1, <<IxN(0), IxN(1)>>)>>, ""),
                              Pr(Ref("a", 0, <<IxN(0), IxN(1), IxN(1)>>)), Pr(Ref("a", 0, <<IxN(0), IxN(1), IxN(2)>>))>>),
                 s2, s1, w1>>)
Arr3Params == {[fam |-> "arr3", t |-> t] : t \in {"i32", "u8", "i128"}}

(**************************** zerolen ***************************************)
ZeroLen(p) ==
    LET T == PrimT(p.t)
        Z == ArrT(0, T)
        f == Fn("f", <<Par("x", ViewT(T))>>, USZT, <<>>, LenE("x", <<>>))
        g == Fn("g", <<Par("x", PtrT(ViewT(T)))>>, USZT, <<>>, LenE("x", <<>>))
        h == Fn("h", <<Par("x", PtrT(Z))>>, USZT, <<>>, LenE("x", <<>>))
        zs == SD("ZS", <<Mem("a", PrimT("i32")), Mem("z", Z), Mem("b", PrimT("i32"))>>)
        main == CASE p.pos = "local" -> <<VarI("z", Z, ArrE(<<>>)), Pr(LenE("z", <<>>)), Pr(SizeE(Z)), VarU("u", Z), Pr(LenE("u", <<>>))>>
                  [] p.pos = "member" -> <<VarI("s", NamedT("ZS"), StE("ZS", <<Fld("a", Lit("i32", 1)), Fld("z", ArrE(<<>>)), Fld("b", Lit("i32", 2))>>)),
                                           Pr(LenE("s", <<Mb("z")>>)), Pr(Ref("s", 0, <<Mb("a")>>)), Pr(Ref("s", 0, <<Mb("b")>>)),
                                           Pr(CallE("f", <<Ref("s", 0, <<Mb("z")>>)>>))>>
                  [] p.pos = "inner" -> <<VarI("y", ArrT(2, Z), ArrE(<<ArrE(<<>>), ArrE(<<>>)>>)), Pr(LenE("y", <<>>)), Pr(LenE("y", <<IxN(1)>>)),
                                          Pr(CallE("f", <<Ref("y", 0, <<IxN(1)>>)>>)), Pr(SizeE(ArrT(2, Z)))>>
                  [] p.pos = "outer" -> <<VarU("y", ArrT(0, ArrT(2, T))), Pr(LenE("y", <<>>)), Pr(SizeE(ArrT(0, ArrT(2, T))))>>
                  [] p.pos = "view" -> <<VarI("z", Z, ArrE(<<>>)), Pr(CallE("f", <<RV("z")>>)), Pr(CallE("f", <<Par_(RV("z"))>>))>>
                  [] p.pos = "sptr" -> <<VarI("z", Z, ArrE(<<>>)), Pr(CallE("g", <<Ref("z", 1, <<>>)>>))>>
                  [] p.pos = "aptr" -> <<VarI("z", Z, ArrE(<<>>)), Pr(CallE("h", <<Ref("z", 1, <<>>)>>)),
                                         VarI("pz", PtrT(Z), Ref("z", 1, <<>>)), Pr(LenE("pz", <<>>)), Pr(CallE("f", <<RV("pz")>>))>>
                  [] p.pos = "const" -> <<Pr(LenE("Z0", <<>>)), Pr(CallE("f", <<RV("Z0")>>))>>
    IN Program(<<zs>>, IF p.pos = "const" THEN <<[x |-> "Z0", ty |-> Z, e |-> ArrE(<<>>)]>> ELSE <<>>, <<MainFn(main), f, g, h>>)
ZeroLenParams == {[fam |-> "zerolen", pos |-> q, t |-> t] :
                     q \in {"local", "member", "inner", "outer", "view", "sptr", "aptr", "const"}, t \in {"i32", "u8", "i128"}}

(**************************** viewview **************************************)
ViewView(p) ==
    LET T == "i32"
        N == p.n
        lits == [j \in 1..N |-> Lit(T, 10 * j)]
        AT == ArrT(N, PrimT(T))
        last == IF N = 0 THEN As(T, LenE("x", <<>>)) ELSE Bin("+", Ref("x", 0, <<IxN(N - 1)>>), As(T, LenE("x", <<>>)))
        v(i) == Fn("v" \o ToString(i), <<Par("x", ViewT(PrimT(T)))>>, PrimT(T), <<>>,
                   IF i = p.d THEN last ELSE CallE("v" \o ToString(i + 1), <<IF p.paren THEN Par_(RV("x")) ELSE RV("x")>>))
        hs == SD("HS", <<Mem("k", PrimT("u8")), Mem("a", AT)>>)
        setup == CASE p.src = "local" -> <<VarI("a", AT, ArrE(lits))>>
                   [] p.src = "member" -> <<VarI("s", NamedT("HS"), StE("HS", <<Fld("k", Lit("u8", 1)), Fld("a", ArrE(lits))>>))>>
                   [] p.src = "row" -> <<VarI("m", ArrT(2, AT), ArrE(<<ArrE([j \in 1..N |-> Lit(T, j)]), ArrE(lits)>>))>>
                   [] p.src = "ptr" -> <<VarI("a", AT, ArrE(lits)), VarI("pa", PtrT(AT), Ref("a", 1, <<>>))>>
                   [] p.src \in {"const", "lit"} -> <<>>
        arg == CASE p.src = "local" -> RV("a") [] p.src = "member" -> Ref("s", 0, <<Mb("a")>>) [] p.src = "row" -> Ref("m", 0, <<IxN(1)>>)
                 [] p.src = "ptr" -> RV("pa") [] p.src = "const" -> RV("KA") [] p.src = "lit" -> ArrE(lits)
    IN Program(<<hs>>, IF p.src = "const" THEN <<[x |-> "KA", ty |-> AT, e |-> ArrE(lits)]>> ELSE <<>>,
               <<MainFn(setup \o <<Pr(CallE("v1", <<arg>>))>>)>> \o [i \in 1..p.d |-> v(i)])
ViewViewParams == {[fam |-> "viewview", d |-> d, n |-> n, src |-> s, paren |-> pa] :
                      d \in 1..3, n \in {0, 1, 3}, s \in {"local", "member", "row", "ptr", "const", "lit"}, pa \in BOOLEAN}
                  \ {q \in [fam : {"viewview"}, d : 1..3, n : {0, 1, 3}, src : {"lit"}, paren : BOOLEAN] : q.n = 0}

(**************************** iterptr ***************************************)
IterPtr(p) ==
    LET i32 == PrimT("i32")
        ps == SD("PS", <<Mem("a", i32), Mem("b", i32), Mem("c", i32)>>)
        repoint == IF p.target = "elem"
                   THEN <<Asg("q", 1, <<>>, Ref("b", 1, <<Ix(RV("i"))>>))>>
                   ELSE IF p.target = "row"
                   THEN <<Asg("q", 1, <<>>, Ref("m", 1, <<Ix(RV("i")), IxN(1)>>))>>
                   ELSE \* taken inside the blocks of an if / else-if / else chain
                        <<IO_(Cmp("==", RV("i"), USZ(0))), Asg("q", 1, <<>>, Ref("s", 1, <<Mb("a")>>)), C_,
                          EIO_(Cmp("==", RV("i"), USZ(1))), Asg("q", 1, <<>>, Ref("s", 1, <<Mb("b")>>)), C_,
                          EO_, Asg("q", 1, <<>>, Ref("s", 1, <<Mb("c")>>)), C_>>
        cells == CASE p.target = "elem" -> <<Pr(Ref("b", 0, <<IxN(0)>>)), Pr(Ref("b", 0, <<IxN(1)>>)), Pr(Ref("b", 0, <<IxN(2)>>))>>
                   [] p.target = "row" -> <<Pr(Ref("m", 0, <<IxN(0), IxN(1)>>)), Pr(Ref("m", 0, <<IxN(1), IxN(1)>>)), Pr(Ref("m", 0, <<IxN(2), IxN(1)>>)),
                                            Pr(Ref("m", 0, <<IxN(1), IxN(0)>>))>>
                   [] p.target = "member" -> <<Pr(Ref("s", 0, <<Mb("a")>>)), Pr(Ref("s", 0, <<Mb("b")>>)), Pr(Ref("s", 0, <<Mb("c")>>))>>
    IN Program(<<ps>>, <<>>,
               <<MainFn(<<VarI("b", ArrT(3, i32), ArrE(<<Lit("i32", 10), Lit("i32", 20), Lit("i32", 30)>>)),
                          VarI("m", ArrT(3, ArrT(2, i32)), ArrE(<<ArrE(<<Lit("i32", 1), Lit("i32", 2)>>), ArrE(<<Lit("i32", 3), Lit("i32", 4)>>),
                                                                  ArrE(<<Lit("i32", 5), Lit("i32", 6)>>)>>)),
                          VarI("s", NamedT("PS"), StE("PS", <<Fld("a", Lit("i32", 100)), Fld("b", Lit("i32", 200)), Fld("c", Lit("i32", 300))>>)),
                          VarI("x0", i32, Lit("i32", 5)), VarI("q", PtrT(i32), Ref("x0", 1, <<>>))>>
                         \o CountedLoop("i", USZ(3), "end",
                                        <<Pr(RV("q")), SetV("q", Bin("+", RV("q"), Lit("i32", 1)))>> \o repoint)
                         \o <<Pr(RV("q")), Pr(RV("x0"))>> \o cells)>>)
IterPtrParams == {[fam |-> "iterptr", target |-> t] : t \in {"elem", "row", "member"}}

(**************************** looplocal *************************************)
LoopLocal(p) ==
    LET T == p.t
        i32 == PrimT("i32")
        small == <<VarI("n", i32, Lit("i32", 0)), O_, IG_(Cmp(">=", RV("n"), Lit("i32", p.k)), "out"),
                   VarI("t", PrimT(T), Bin("*", As(T, RV("n")), Lit(T, 2)))>>
                   \o (IF p.label THEN <<IG_(Cmp("==", RV("n"), Lit("i32", 1)), "mid"), Pr(RV("t")), Lbl("mid")>> ELSE <<>>)
                   \o <<VarI("u", PrimT(T), Bin("+", RV("t"), Lit(T, 1))), VarU("w", ArrT(2, PrimT(T))),
                        Asg("w", 0, <<IxN(1)>>, RV("u")), Pr(RV("u")), SetV("t", Lit(T, 99)), SetV("u", Bin("+", RV("t"), Ref("w", 0, <<IxN(1)>>))), Pr(RV("u")),
                        SetV("n", Bin("+", RV("n"), Lit("i32", 1))), LP_, C_, Lbl("out"), Pr(RV("n"))>>
        \* 32 KiB of locals per iteration
        big == <<VarI("n", i32, Lit("i32", 0)), VarI("total", PrimT("i64"), Lit("i64", 0)), O_,
                 IG_(Cmp(">=", RV("n"), Lit("i32", p.k)), "out"),
                 VarU("big", ArrT(64, ArrT(64, PrimT("i64")))),
                 Asg("big", 0, <<IxN(1), IxN(1)>>, As("i64", RV("n"))),
                 SetV("total", Bin("+", RV("total"), Ref("big", 0, <<IxN(1), IxN(1)>>))),
                 SetV("n", Bin("+", RV("n"), Lit("i32", 1))), LP_, C_, Lbl("out"), Pr(RV("total")), Pr(RV("n"))>>
        \* declarations whose initial value is a compile-time constant AGGREGATE (an all-literal array, structure, word): each
        \* iteration starts from the initial value again, whatever the previous iteration stored
        pt == PrimT(T)
        agg == <<VarI("n", i32, Lit("i32", 0)), O_, IG_(Cmp(">=", RV("n"), Lit("i32", p.k)), "out"),
                 VarI("ca", ArrT(3, pt), ArrE(<<Lit(T, 1), Lit(T, 2), Lit(T, 3)>>)),
                 VarI("cs", NamedT("PS"), StE("PS", <<Fld("a", Lit("i32", 10)), Fld("b", Lit("i32", 20)), Fld("c", Lit("i32", 30))>>)),
                 VarI("cw", NamedT("W16"), StE("W16", <<Fld("a", Lit("u8", 4)), Fld("b", Lit("u8", 5))>>)),
                 VarI("cm", ArrT(2, ArrT(2, pt)), ArrE(<<ArrE(<<Lit(T, 1), Lit(T, 2)>>), ArrE(<<Lit(T, 3), Lit(T, 4)>>)>>)),
                 Pr(Ref("ca", 0, <<IxN(1)>>)), Pr(Ref("cs", 0, <<Mb("b")>>)), Pr(Ref("cw", 0, <<Mb("a")>>)), Pr(Ref("cm", 0, <<IxN(1), IxN(0)>>)),
                 Asg("ca", 0, <<IxN(1)>>, Bin("+", Ref("ca", 0, <<IxN(1)>>), Lit(T, 5))),
                 Asg("cs", 0, <<Mb("b")>>, Bin("+", Ref("cs", 0, <<Mb("b")>>), Lit("i32", 7))),
                 Asg("cw", 0, <<Mb("a")>>, Bin("+", Ref("cw", 0, <<Mb("a")>>), Lit("u8", 1))),
                 Asg("cm", 0, <<IxN(1), IxN(0)>>, Bin("+", Ref("cm", 0, <<IxN(1), IxN(0)>>), Lit(T, 9))),
                 Pr(Ref("ca", 0, <<IxN(1)>>)), Pr(Ref("cs", 0, <<Mb("b")>>)), Pr(Ref("cw", 0, <<Mb("a")>>)), Pr(Ref("cm", 0, <<IxN(1), IxN(0)>>)),
                 SetV("n", Bin("+", RV("n"), Lit("i32", 1))), LP_, C_, Lbl("out"), Pr(RV("n"))>>
        aggdecls == <<SD("PS", <<Mem("a", i32), Mem("b", i32), Mem("c", i32)>>), WD("W16", 16, <<Mem("a", PrimT("u8")), Mem("b", PrimT("u8"))>>)>>
    IN IF "agg" \in DOMAIN p /\ p.agg THEN Program(aggdecls, <<>>, <<MainFn(agg)>>)
       ELSE Program(<<>>, <<>>, <<MainFn(IF p.big THEN big ELSE small)>>)
LoopLocalParams == {[fam |-> "looplocal", t |-> t, k |-> 3, label |-> FALSE, big |-> FALSE, agg |-> TRUE] : t \in {"i32", "u8", "i64"}} \cup {[fam |-> "looplocal", t |-> t, k |-> k, label |-> l, big |-> FALSE] : t \in {"i32", "u8", "i128"}, k \in {1, 3}, l \in BOOLEAN}
                   \cup {[fam |-> "looplocal", t |-> "i64", k |-> k, label |-> FALSE, big |-> TRUE] : k \in {2} \cup (IF Big THEN {300} ELSE {})}

(**************************** wordcopy **************************************)
WordDecls == << WD("W8", 8, <<Mem("a", PrimT("u8"))>>),
               WD("W16", 16, <<Mem("a", PrimT("u8")), Mem("b", PrimT("u8"))>>),
               WD("W32", 32, <<Mem("a", PrimT("u16")), Mem("b", PrimT("u8")), Mem("c", PrimT("bool"))>>),
               WD("W64", 64, <<Mem("a", PrimT("i32")), Mem("b", NamedT("W16")), Mem("c", PrimT("i16"))>>),
               WD("W128", 128, <<Mem("a", PrimT("i64")), Mem("b", NamedT("W64"))>>) >>
W16L(x, y) == StE("W16", <<Fld("a", Lit("u8", x)), Fld("b", Lit("u8", y))>>)
W64L(x) == StE("W64", <<Fld("a", NegL("i32", x)), Fld("b", W16L(x, x + 1)), Fld("c", NegL("i16", x + 2))>>)
WordLit(bits, x) == CASE bits = 8 -> StE("W8", <<Fld("a", Lit("u8", x))>>)
                      [] bits = 16 -> W16L(x, x + 1)
                      [] bits = 32 -> StE("W32", <<Fld("a", Lit("u16", 1000 + x)), Fld("b", Lit("u8", x)), Fld("c", BoolL(x % 2 = 1))>>)
                      [] bits = 64 -> W64L(x)
                      [] bits = 128 -> StE("W128", <<Fld("a", NegL("i64", 100000 + x)), Fld("b", W64L(x))>>)
\* the first member (type, a new value for it) and the path of the last scalar of the word
FirstT(bits) == CASE bits \in {8, 16} -> "u8" [] bits = 32 -> "u16" [] bits = 64 -> "i32" [] bits = 128 -> "i64"
LastPath(bits) == CASE bits = 8 -> <<Mb("a")>> [] bits = 16 -> <<Mb("b")>> [] bits = 32 -> <<Mb("c")>> [] bits = 64 -> <<Mb("c")>>
                    [] bits = 128 -> <<Mb("b"), Mb("b"), Mb("b")>>
WordCopy(p) ==
    LET n == "W" \o ToString(p.bits)
        W == NamedT(n)
        ft == FirstT(p.bits)
        both(x, pre) == <<Pr(Ref(x, 0, pre \o <<Mb("a")>>)), Pr(Ref(x, 0, pre \o LastPath(p.bits)))>>
        hd == SD("H", <<Mem("pre", PrimT("u8")), Mem("w", W), Mem("post", PrimT("u8"))>>)
        idw == Fn("idw", <<Par("x", W), Par("pad", PrimT("u8"))>>, W, <<>>, RV("x"))
    IN Program(Cat(<<WordDecls, <<hd>>>>), <<>>,
               <<MainFn(Cat(<< <<VarI("w1", W, WordLit(p.bits, 3)), VarI("w2", W, RV("w1")),
                                 Asg("w2", 0, <<Mb("a")>>, Lit(ft, 41))>>, both("w1", <<>>), both("w2", <<>>),
                               <<VarI("ws", ArrT(2, W), ArrE(<<RV("w1"), WordLit(p.bits, 7)>>)),
                                 Asg("ws", 0, <<IxN(0)>>, Ref("ws", 0, <<IxN(1)>>)), Asg("ws", 0, <<IxN(1), Mb("a")>>, Lit(ft, 42))>>,
                               both("ws", <<IxN(0)>>), both("ws", <<IxN(1)>>),
                               <<VarI("h", NamedT("H"), StE("H", <<Fld("pre", Lit("u8", 1)), Fld("w", RV("w2")), Fld("post", Lit("u8", 2))>>)),
                                 Asg("h", 0, <<Mb("w")>>, RV("w1"))>>, both("h", <<Mb("w")>>),
                               <<Pr(Ref("h", 0, <<Mb("pre")>>)), Pr(Ref("h", 0, <<Mb("post")>>)),
                                 VarI("pw", PtrT(W), Ref("w1", 1, <<>>)), SetV("pw", RV("w2"))>>, both("w1", <<>>),
                               <<VarI("w3", W, CallE("idw", <<Ref("ws", 0, <<IxN(1)>>), Lit("u8", 9)>>))>>, both("w3", <<>>),
                               <<CallI("idw", <<WordLit(p.bits, 11), Lit("u8", 9)>>, "w3")>>, both("w3", <<>>) >>)),
                 idw>>)
WordCopyParams == {[fam |-> "wordcopy", bits |-> b] : b \in {8, 16, 32, 64, 128}}

(**************************** deepblocks, longexpr ***************************)
\* d nested blocks with a variable declared at every level; the innermost one leaves all of them at once
DeepBlocks(p) ==
    LET i32 == PrimT("i32")
        x(i) == "x" \o ToString(i)
        opens == Flatten([i \in 1..p.d |-> <<O_, VarI(x(i), i32, Bin("+", RV(IF i = 1 THEN "n" ELSE x(i - 1)), Lit("i32", i)))>>])
        closes == [i \in 1..p.d |-> C_]
    IN Program(<<>>, <<>>,
               <<MainFn(<<VarI("n", i32, Lit("i32", 1))>> \o opens
                         \o <<Pr(Bin("+", RV(x(1)), RV(x(p.d)))), IG_(Cmp("==", RV("n"), Lit("i32", IF p.jump THEN 1 ELSE 0)), "out"), Pr(RV(x(p.d)))>>
                         \o closes \o <<Pr(Lit("i32", 5)), Lbl("out"), Pr(Bin("+", RV("n"), Lit("i32", 2)))>>)>>)
DeepBlocksParams == {[fam |-> "deepblocks", d |-> d, jump |-> j] : d \in {1, 4, 16, 64}, j \in BOOLEAN}
RECURSIVE LeftSum(_, _, _), RightSum(_, _, _)
LeftSum(T, e, k) == IF k = 0 THEN e ELSE Bin("+", LeftSum(T, e, k - 1), Lit(T, k % 7))
RightSum(T, e, k) == IF k = 0 THEN e ELSE Bin("-", Lit(T, k % 7), RightSum(T, e, k - 1))
\* one expression of n operands, nested to the left or to the right
LongExpr(p) ==
    Program(<<>>, <<>>,
            <<MainFn(<<VarI("x", PrimT(p.t), Lit(p.t, 3)),
                       Pr(IF p.left THEN LeftSum(p.t, RV("x"), p.n) ELSE RightSum(p.t, RV("x"), p.n)),
                       VarI("y", PrimT(p.t), IF p.left THEN LeftSum(p.t, RV("x"), p.n) ELSE RightSum(p.t, RV("x"), p.n)), Pr(RV("y"))>>)>>)
LongExprParams == {[fam |-> "longexpr", t |-> t, n |-> n, left |-> l] : t \in {"i32", "u8", "i128"}, n \in {1, 16, 64}, l \in BOOLEAN}

(**************************** permlit ****************************************)
\* A structure / word literal names its members in ANY order (features.md: `Position { y: 3, x: 4 }`); the value of member m
\* is what was written after `m:`, whatever the order.  Members of ONE type (a permuted literal still type checks member by
\* member), every permutation, all members constant or one taken from a variable, in every place a literal can stand
\* (eighth round of seeded changes: a constant literal built in written order).
Perms3 == << <<1, 2, 3>>, <<1, 3, 2>>, <<2, 1, 3>>, <<2, 3, 1>>, <<3, 1, 2>>, <<3, 2, 1>> >>
PermLit(p) ==
    LET i32 == PrimT("i32")
        u8 == PrimT("u8")
        word == p.kind = "word"
        T == IF word THEN "u8" ELSE "i32"
        ty == IF word THEN NamedT("WQ") ELSE NamedT("PS")
        nm == IF word THEN "WQ" ELSE "PS"
        names == <<"a", "b", "c">>
        val(j) == IF p.rt /\ j = 2 THEN RV("r") ELSE Bin("+", Lit(T, 10 * j), Lit(T, j))      \* a: 11, b: 22 (or r), c: 33
        declared == [j \in 1..3 |-> Fld(names[j], val(j))]
        fs == [x \in 1..3 |-> declared[Perms3[p.perm][x]]] \o (IF word THEN <<Fld("d", Lit("u8", 44))>> ELSE <<>>)
        lit == StE(nm, fs)
        decls == <<SD("PS", <<Mem("a", i32), Mem("b", i32), Mem("c", i32)>>),
                   WD("WQ", 32, <<Mem("a", u8), Mem("b", u8), Mem("c", u8), Mem("d", u8)>>),
                   SD("Out", <<Mem("k", i32), Mem("inner", ty)>>)>>
        show(x, steps) == <<Pr(Ref(x, 0, steps \o <<Mb("a")>>)), Pr(Ref(x, 0, steps \o <<Mb("b")>>)), Pr(Ref(x, 0, steps \o <<Mb("c")>>))>>
        pre == <<VarI("r", PrimT(T), Lit(T, 77))>>
        useFn == FnV("use", <<Par("s", ty)>>, show("s", <<>>))
        body == CASE p.ctx = "var" -> <<VarI("s", ty, lit)>> \o show("s", <<>>)
                  [] p.ctx = "assign" -> <<VarI("s", ty, StE(nm, declared \o (IF word THEN <<Fld("d", Lit("u8", 1))>> ELSE <<>>))), SetV("s", lit)>> \o show("s", <<>>)
                  [] p.ctx = "elem" -> <<VarI("arr", ArrT(2, ty), ArrE(<<lit, lit>>))>> \o show("arr", <<IxN(1)>>)
                  [] p.ctx = "nested" -> <<VarI("o", NamedT("Out"), StE("Out", <<Fld("inner", lit), Fld("k", Lit("i32", 5))>>))>> \o show("o", <<Mb("inner")>>) \o <<Pr(Ref("o", 0, <<Mb("k")>>))>>
                  [] p.ctx = "const" -> show("KS", <<>>)
    IN Program(decls, IF p.ctx = "const" THEN <<[x |-> "KS", ty |-> ty, e |-> lit]>> ELSE <<>>, <<MainFn(pre \o body)>>)
PermLitParams == {[fam |-> "permlit", kind |-> k, perm |-> q, ctx |-> c, rt |-> r] :
                     k \in {"struct", "word"}, q \in 1..6, c \in {"var", "assign", "elem", "nested", "const"}, r \in BOOLEAN}
                 \ {x \in [fam : {"permlit"}, kind : {"struct", "word"}, perm : 1..6, ctx : {"const"}, rt : {TRUE}] : TRUE}

(**************************** textprint **************************************)
\* Text goes through a C format string on its way out: characters that mean something THERE (`%`, `%d`, `%s`, `%%`, `%n`, a
\* lone `%` at the end) in calls with string literals only (one, two or three of them), before and after a call that also
\* formats a value (ninth round of seeded changes: `%` doubled in text-only calls).
Texts == << <<"100%">>, <<"%d %s">>, <<"%%">>, <<"a", "%">>, <<"50", "%", " off">>, <<"%n%5c">>, <<"plain">>, <<"%", "%">> >>
TextPrint(p) ==
    Program(<<>>, <<>>,
            <<MainFn(<<VarI("v", PrimT("u8"), Lit("u8", 40))>>
                      \o (IF p.place = "after" THEN <<Pr(RV("v"))>> ELSE <<>>)
                      \o <<PrText(Texts[p.text])>>
                      \o (IF p.place = "before" THEN <<Pr(RV("v"))>> ELSE <<>>)
                      \o (IF p.twice THEN <<PrText(Texts[p.text])>> ELSE <<>>))>>)
TextPrintParams == {[fam |-> "textprint", text |-> i, place |-> q, twice |-> w] : i \in 1..Len(Texts), q \in {"only", "before", "after"}, w \in BOOLEAN}

(***************************************************************************)
Params == TextPrintParams \cup PermLitParams \cup DeepBlocksParams \cup LongExprParams \cup BigArrParams \cup BigStructParams \cup Arr3Params \cup ZeroLenParams \cup ViewViewParams \cup IterPtrParams
            \cup LoopLocalParams \cup WordCopyParams
Build(p) == CASE p.fam = "bigarr" -> BigArr(p) [] p.fam = "bigstruct" -> BigStruct(p) [] p.fam = "arr3" -> Arr3(p)
              [] p.fam = "zerolen" -> ZeroLen(p) [] p.fam = "viewview" -> ViewView(p) [] p.fam = "iterptr" -> IterPtr(p)
              [] p.fam = "looplocal" -> LoopLocal(p) [] p.fam = "wordcopy" -> WordCopy(p)
              [] p.fam = "deepblocks" -> DeepBlocks(p) [] p.fam = "longexpr" -> LongExpr(p)
              [] p.fam = "permlit" -> PermLit(p) [] p.fam = "textprint" -> TextPrint(p)

None == [fam |-> ""]
VARIABLES par, prog, res, done
vars == <<par, prog, res, done>>
Init == par = None /\ prog = <<>> /\ res = [status |-> "none"] /\ done = FALSE
Pick == /\ par = None
        /\ \E p \in {q \in Params : q.fam \in Fams} : \E pr \in {Build(p)} : par' = p /\ prog' = pr /\ res' = MInit(pr, Fuel)
        /\ UNCHANGED done
\* the machine runs in chunks (see MachineBuild.RunChunk)
Exec == /\ par # None /\ ~done
        /\ \E m2 \in {RunChunk(prog, res, ChunkSize)} : res' = m2 /\ done' = (m2.status # "run")
        /\ UNCHANGED <<par, prog>>
Next == Pick \/ Exec
Spec == Init /\ [][Next]_vars

\* every program of the family is free of undefined behaviour and terminates; the machine's monitors stay silent
Sane == done => (res.status = "done" /\ res.bad = <<>>)
EmitCase == done =>
    PrintT(<<"CASE", ToJson([par |-> par, status |-> res.status, out |-> IF res.status = "done" THEN OutOf(res) ELSE <<>>,
                             exit |-> IF res.status = "done" THEN res.exit ELSE <<>>, why |-> res.why, prog |-> prog])>>)
=============================================================================

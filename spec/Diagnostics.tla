---------------------------- MODULE Diagnostics ----------------------------
(***************************************************************************)
(* C13 -- diagnostics are well-located, documented and can be rendered.    *)
(*                                                                         *)
(* R, from the property text:                                              *)
(*   Documented     every code a diagnostic can carry has a section in the *)
(*                  published catalogue docs/errors.md;                    *)
(*   WellLocated    the location names a module of the input, its span     *)
(*                  lies inside that file (0 <= start <= end <= |file|, in *)
(*                  characters: the first generation counts characters)    *)
(*                  and starts on the reported line;                       *)
(*   Covers         where the offending text is known (an injected fault,  *)
(*                  a lexical error) a diagnostic with the fault's code    *)
(*                  has a span that intersects it;                         *)
(*   CoversAt       for a layout variant of an input with known diagnostics *)
(*                  every one of them is found at its new place;           *)
(*   Renders        Error::build_report + write succeeds in all four       *)
(*                  colour x charset configurations of stdout.rs.          *)
(* A file is [name, nchars, lines] with lines = the character offsets of   *)
(* the line starts (lines end in \n; computed by the harness, not by the   *)
(* lexer under test).                                                      *)
(* Not part of the property (only noted): `col` = offset of start in its   *)
(* line; no ESC byte without colour; only ASCII frames with charset ascii  *)
(* (C18 decides those on the real binary).                                 *)
(***************************************************************************)
EXTENDS Naturals, Sequences, FiniteSets

CONSTANTS Documented,   \* codes with a section in docs/errors.md (numbers; lints 1000+)
          Producible    \* codes Error::code can return (read off src/alpha/error.rs)

Undocumented == Producible \ Documented
CatalogueOK == Undocumented = {}

LineOf(lines, p) == CHOOSE i \in 1..Len(lines) : lines[i] <= p /\ (i = Len(lines) \/ lines[i + 1] > p)

FileOf(mods, name) == { i \in 1..Len(mods) : mods[i].name = name }

InsideFile(d, f) == d.start <= d.end /\ d.end <= f.nchars
\* a span that starts at the very end of a file that ends in a line break is on the last line
StartsOnLine(d, f) == \/ LineOf(f.lines, d.start) = d.line
                      \/ (d.start = f.nchars /\ d.start > 0 /\ LineOf(f.lines, d.start - 1) = d.line)
WellLocated(d, mods) ==
    /\ FileOf(mods, d.file) # {}
    /\ \A i \in FileOf(mods, d.file) : InsideFile(d, mods[i]) /\ StartsOnLine(d, mods[i])

ColOK(d, mods) == \A i \in FileOf(mods, d.file) :
                     d.line \in 1..Len(mods[i].lines) => d.col = d.start - mods[i].lines[d.line]

Intersects(d, lo, hi) == (d.start < hi /\ lo < d.end) \/ (d.start = d.end /\ lo <= d.start /\ d.start <= hi)
Covers(ds, fault) == \E x \in 1..Len(ds) : ds[x].code = fault.code /\ Intersects(ds[x], fault.start, fault.end)

\* An offending text that has PARTS (a binary operator whose operands mismatch, errors.md E551: "the types of the left and
\* right operand of a binary operator do not match"): the diagnostic points at the offender when its span touches the operator
\* itself, or spans a whole operand of it.  A span elsewhere inside the expression -- on another operator of a chain
\* `a | b | c`, whose own operands match -- does not cover the offending text.
Contains(d, lo, hi) == d.start <= lo /\ hi <= d.end
CoversPart(d, q) == IF q.whole THEN Contains(d, q.start, q.end) ELSE Intersects(d, q.start, q.end)
CoversParts(ds, fault) == \E x \in 1..Len(ds) : /\ ds[x].code = fault.code
                                                 /\ ("file" \in DOMAIN fault) => ds[x].file = fault.file
                                                 /\ \E p \in 1..Len(fault.parts) : CoversPart(ds[x], fault.parts[p])

\* A LAYOUT VARIANT of an input whose diagnostics are known (the same text without its final line break, behind an
\* extra line, as one line, as the second / third module of a set, twice in one file): the offending text has moved
\* with the layout, so a diagnostic with the same code is expected in the named file, on the line the text is on now
\* and -- where the transformation shifts every character alike -- at the shifted span.
At(d, f) == /\ d.code = f.code /\ d.file = f.file
            /\ ("line" \in DOMAIN f) => d.line = f.line
            /\ ("start" \in DOMAIN f) => (d.start = f.start /\ d.end = f.end)
CoversAt(ds, f) == \E x \in 1..Len(ds) : At(ds[x], f)

\* the harness logs r4 = TRUE when all four renderings succeeded, showed the code and were clean,
\* and the four detailed results otherwise
Renders(d) == /\ "render" \in DOMAIN d => \A x \in 1..Len(d.render) : d.render[x].status = "ok" /\ d.render[x].has_code
              /\ "r4" \in DOMAIN d => d.r4
RenderClean(d) == "render" \in DOMAIN d =>
                     \A x \in 1..Len(d.render) : /\ (~d.render[x].color => ~d.render[x].esc)
                                                 /\ (d.render[x].ascii => d.render[x].foreign = "")
=============================================================================

INIT Init
NEXT Next
CONSTANTS
  Thorough = FALSE
INVARIANTS Agree Emit
CHECK_DEADLOCK FALSE

SPECIFICATION Spec
CONSTANTS
  K = 3
  Core = TRUE
INVARIANTS EmitCase AlphabetOK
CHECK_DEADLOCK FALSE

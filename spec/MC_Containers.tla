--------------------------- MODULE MC_Containers ---------------------------
(* Model-checking / case-emitting wrapper of Containers (TLC only). *)
EXTENDS Containers, Json, TLCExt

PairsOf(E) == SetToSortSeq(E, LAMBDA p, q : p[1] < q[1] \/ (p[1] = q[1] /\ p[2] < q[2]))
\* One evaluation per finished (graph, kinds, permutation): the invariants Agree and Sound of
\* Containers.tla (as selected) and one CASE line with the input, the rule's verdict and the model's.
Verify(needAgree, needSound) == phase = "end" =>
    LET r == Rule(n, kind, val)
        md == ModelDepths
        order == AOrder(kind, md, perm)
        ty == ATypingWF(kind, val, ptr, order, md)
        macc == alg.errs = <<>> /\ ty.e433 = {}
        tags == (IF \E p \in ptr : IsC(kind, p[1]) THEN {"constptr"} ELSE {})
                \cup (IF \E p \in ptr : ConstPtrArray(kind, ptr, p) THEN {"constptr-array"} ELSE {})
                \cup (IF \E a \in r.ok415 \ r.ok416 : \E c \in Below(val, a) : IsC(kind, c)
                      THEN {"const-below-struct-cycle"} ELSE {})
                \cup (IF ty.e433 # {} THEN {"ptrlen-before-const"} ELSE {})
                \cup (IF APtrToUnfounded(kind, ptr, md) THEN {"ptr-to-unfounded-struct"} ELSE {})
    IN /\ needAgree => ((macc = r.acc) \/ (PrintT(<<"NOTE", "Agree fails">>) /\ FALSE))
       /\ needSound => (SoundBody(r, md, order) \/ (PrintT(<<"NOTE", "Sound fails">>) /\ FALSE))
       /\ PrintT(<<"CASE", ToJson([
            kind |-> kind, val |-> PairsOf(val), ptr |-> PairsOf(ptr), perm |-> perm,
            vfl |-> [x \in 1..Len(PairsOf(val)) |-> Flavour(kind, ptr, PairsOf(val)[x][1], PairsOf(val)[x][2])],
            pfl |-> [x \in 1..Len(PairsOf(ptr)) |-> Flavour(kind, ptr, PairsOf(ptr)[x][1], PairsOf(ptr)[x][2])],
            acc |-> r.acc,
            ok413 |-> SetToSortSeq(r.ok413, <),
            ok415 |-> SetToSortSeq(r.ok415, <),
            ok416 |-> SetToSortSeq(r.ok416, <),
            minimal |-> SetToSeq({ SetToSortSeq(c, <) : c \in r.minimal }),
            tags |-> SetToSeq(tags),
            merrs |-> [x \in 1..Len(alg.errs) |-> <<alg.errs[x].node, alg.errs[x].code>>],
            m433 |-> SetToSortSeq(ty.e433, <), mcrash |-> (ty.crash \/ APtrToUnfounded(kind, ptr, md)),
            mdepth |-> [a \in 1..n |-> IF IsContainer(kind, a) THEN md[a] ELSE -3]])>>)
TypeOK == n \in 0..MaxN
VerifyAgreeSound == Verify(TRUE, TRUE)
VerifySound == Verify(FALSE, TRUE)
EmitOnly == Verify(FALSE, FALSE)
=============================================================================

SPECIFICATION Spec
CONSTANTS
  RepAll = TRUE
  Mode = "mc"
  MaxNodes = 4
  Enabled = {"Module", "Fn", "Head", "Const", "Struct", "Opaque", "Word", "Import", "Param", "Member", "TyPrim", "Int", "Loop"}
  FlagSets <- FlagSets_all
  VarForms <- VarForms_init
  FnNames = {"f"}
  ParamNames = {"p", "q"}
  VarNames = {"x"}
  LabelNames = {"l"}
  GotoNames = {"l"}
  MemberNames = {"m", "n"}
  TypeNames = {"S"}
  ConstNames = {"N"}
  Builtins = {"print"}
  PrimTypes = {"u8"}
  WordSizes = {1, 16}
  Files <- Files_all
  IntLits <- IntLits_one
  CharLits <- CharLits_one
  StrLits <- StrLits_one
  ArrayLens <- ArrayLens_one
  AddOps = {"+"}
  MulOps = {"*"}
  BitOps = {"&"}
  ShiftOps = {"<<"}
  UnOps = {"-"}
  CmpOps = {"=="}
  MaxDecls = 2
  MaxParams = 3
  MaxMembers = 3
  MaxStmts = 2
  MaxBlock = 0
  MaxArgs = 0
  MaxElems = 0
  MaxFields = 0
  MaxSteps = 0
  Addrs = {0}
  SetAddrs = {0}
  LenAddrs = {0}
  TrailingCommas = {FALSE}
  LooseMembers = FALSE
INVARIANTS ClassesKnown EmitFaults Accepted
CHECK_DEADLOCK FALSE

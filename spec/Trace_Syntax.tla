---------------------------- MODULE Trace_Syntax ----------------------------
(***************************************************************************)
(* impl -> spec for the `syntax` work package.                             *)
(*                                                                         *)
(* The harness mutates corpus files (one token deleted, duplicated,        *)
(* replaced, inserted; two tokens exchanged), runs the REAL lexer and both *)
(* REAL parsers, and records per run                                       *)
(*    k       the kinds of the token stream the first-generation lexer     *)
(*            produced (its own names: "ParenLeft", "Identifier", ...),    *)
(*    a       first generation: acc (the parser stored no error), fail     *)
(*            (the compilation ended with >= 1 diagnostic), t = <<ti, te>> *)
(*            the tokens the first syntax diagnostic's span starts / ends  *)
(*            in (<<>>: none),                                             *)
(*    d       second generation: o = "ok" | "rej" | "panic",               *)
(*    teq     "yes" | "no" | "na": both accepted and built the same tree,  *)
(*    strict  the text has exactly one fault: a single-token mutation of a *)
(*            file that the first-generation parser accepts unmutated.     *)
(* This module runs the recogniser of SyntaxRules over the recorded stream *)
(* (TShift: Chunk tokens per step, the same Shift operator as everywhere), *)
(* prints the verdict (TVerdict) and lets the run end (TEnd) only if the   *)
(* observation conforms to the hard rules.  A run that does not conform    *)
(* stops the trace; acceptance is by POSTCONDITION on the diameter.        *)
(***************************************************************************)
EXTENDS SyntaxRules, Json, IOUtils, TLCExt

Rec == ndJsonDeserialize(IOEnv.TRACE)
Chunk == 512

ClassOfKind(x) ==
    CASE x = "ParenLeft" -> "(" [] x = "ParenRight" -> ")" [] x = "BraceLeft" -> "{" [] x = "BraceRight" -> "}"
      [] x = "BracketLeft" -> "[" [] x = "BracketRight" -> "]"
      [] x \in {"AngleLeft", "AngleRight", "Equals", "DoesNotEqual", "IsGE", "IsLE"} -> "cmp"
      [] x = "Pipe" -> "|" [] x = "Ampersand" -> "&" [] x = "Caret" -> "^" [] x = "Exclamation" -> "!"
      [] x = "Placeholder" -> "_" [] x = "Plus" -> "add" [] x = "Minus" -> "-"
      [] x \in {"Times", "Divide", "Modulo"} -> "mul"
      [] x = "Colon" -> ":" [] x = "Semicolon" -> ";" [] x = "Dot" -> "." [] x = "Comma" -> "," [] x = "Assignment" -> "="
      [] x \in {"ShiftLeft", "ShiftRight"} -> "sh"
      [] x = "Arrow" -> "->" [] x = "PipeForType" -> "|:" [] x = "Dots" -> ".."
      [] x = "Fn" -> "fn" [] x = "Var" -> "var" [] x = "Const" -> "const" [] x = "If" -> "if" [] x = "Goto" -> "goto"
      [] x = "Loop" -> "loop" [] x = "Else" -> "else" [] x = "Cast" -> "cast" [] x = "As" -> "as" [] x = "Import" -> "import"
      [] x = "Pub" -> "pub" [] x = "Extern" -> "extern" [] x = "Struct" -> "struct"
      [] x \in {"Word8", "Word16", "Word32", "Word64", "Word128"} -> "word"
      [] x = "Identifier" -> "id" [] x = "IdReturn" -> "return" [] x = "Builtin" -> "bi"
      [] x = "NakedDecimal" -> "dec" [] x \in {"BitInteger", "SuffixedInteger"} -> "int"
      [] x \in {"CharLiteral", "Bool"} -> "lit" [] x = "StringLiteral" -> "str" [] x = "StringLiteralNotUtf8" -> "strx"
      [] x = "Type" -> "ty" [] x = "TypeVoid" -> "void"
      [] OTHER -> "err"        \* a lexical error: outside the subject of this rule

VARIABLES r, p, rs, vd
tvars == <<r, p, rs, vd>>
NoVerdict == [v |-> "none"]

N(rr) == Len(Rec[rr].k)
Lexical(rr) == \E x \in 1..N(rr) : ClassOfKind(Rec[rr].k[x]) = "err"

RECURSIVE ShiftSome(_, _, _, _)
ShiftSome(s, ks, from, to) == IF from > to \/ ~s.alive THEN s ELSE ShiftSome(Shift(s, ClassOfKind(ks[from])), ks, from + 1, to)

TInit == r = 1 /\ p = 0 /\ rs = Start /\ vd = NoVerdict

TShift == /\ r <= Len(Rec) /\ vd = NoVerdict /\ p < N(r)
          /\ LET to == IF p + Chunk < N(r) THEN p + Chunk ELSE N(r) IN
             /\ rs' = (IF Lexical(r) THEN rs ELSE ShiftSome(rs, Rec[r].k, p + 1, to))
             /\ p' = to
          /\ UNCHANGED <<r, vd>>

TVerdict == /\ r <= Len(Rec) /\ vd = NoVerdict /\ p = N(r)
            /\ vd' = (IF Lexical(r) THEN [v |-> "lexical", lo |-> 0, hi |-> 0, u |-> 0, exp |-> "", soft |-> FALSE]
                      ELSE Verdict(Shift(rs, "eof")))
            /\ PrintT(<<"V", ToJson([id |-> Rec[r].id] @@ vd')>>)
            /\ UNCHANGED <<r, p, rs>>

(* the hard rules (a) and (b); everything else is compared softly outside *)
Conforms(v, o) ==
    CASE v.v = "valid" -> o.a.acc /\ o.d.o = "ok" /\ o.teq # "no"
      [] v.v = "invalid" -> /\ ~o.a.acc
                            /\ o.a.fail
                            /\ o.a.t # <<>>
                            /\ o.a.t[2] >= v.lo
                            /\ (o.a.t[1] <= v.hi \/ v.soft \/ ~o.strict)
      [] OTHER -> TRUE       \* unc, lexical

TEnd == /\ r <= Len(Rec) /\ vd # NoVerdict
        /\ Conforms(vd, Rec[r])
        /\ r' = r + 1 /\ p' = 0 /\ rs' = Start /\ vd' = NoVerdict

TNext == TShift \/ TVerdict \/ TEnd
TSpec == TInit /\ [][TNext]_tvars

RECURSIVE Steps(_)
StepsOf(rr) == (N(rr) + Chunk - 1) \div Chunk + 2
Steps(n) == IF n = 0 THEN 0 ELSE Steps(n - 1) + StepsOf(n)
Accepted == LET d == TLCGet("stats").diameter - 1
            IN PrintT(<<"TRACE", ToJson([accepted |-> (d = Steps(Len(Rec))), matched |-> d, total |-> Steps(Len(Rec))])>>)
=============================================================================

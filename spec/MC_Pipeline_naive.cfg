SPECIFICATION Spec
CONSTANTS
  MaxModules = 2
  MaxDecls = 2
  MaxTotal = 2
  MaxImports = 2
  MaxBadImports = 1
  ExportKeepsPoison = FALSE
  PoisonNeedsRoot = TRUE
INVARIANTS I3Naive
CHECK_DEADLOCK FALSE

SPECIFICATION Spec
CONSTANTS
  Tier = "thorough"
INVARIANTS Sane EmitCase
CHECK_DEADLOCK FALSE

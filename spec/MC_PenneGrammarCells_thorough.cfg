SPECIFICATION CSpec
CONSTANTS
  Families = {"wide", "deep", "bound", "pos", "type", "stmt", "name", "order", "decl", "indent", "strlen"}
  Sizes = {127, 128, 129, 130, 255, 256, 257, 270, 1023, 1024, 1025, 1100}
  Depths = {127, 128, 129, 130, 255, 256, 257, 270, 1100}
  IfDepths = {127, 128, 129, 130, 270}
  IndentDepths = {0, 1, 2, 3, 4, 5, 6, 7, 8, 9, 10, 11, 12, 13, 14, 15, 16, 17, 18, 19, 20, 21, 22, 23, 24, 25, 26, 27, 28, 29, 30, 31, 32, 33, 34, 35, 36, 37, 38, 39, 40, 63, 64, 65, 127, 128, 129, 130, 255, 256, 257}
  StrLens = {127, 128, 129, 255, 256, 257, 1023, 1024, 1025, 4095, 4096, 4097, 65535, 65536, 65537}
  NameLogs = {7, 8, 10, 12, 16}
  OrderForms = {1, 2, 3, 4, 5, 6, 7, 8, 9, 10, 11, 12, 13, 14, 15, 16, 17, 18, 19, 20, 21, 22, 23, 24, 25, 26, 27, 28}
  Mode = "mc"
  MaxNodes = 6
  Enabled = {"Module", "Fn", "Head", "Const", "Struct", "Opaque", "Word", "Import", "Param", "Member", "TyPrim", "TyNamed", "TyPtr", "TyView", "TyArray", "TyArrayC", "TySlice", "TyEndless", "TyArraylike", "Var", "Set", "Call", "BCall", "Loop", "Goto", "Label", "If", "Block", "BinAdd", "BinMul", "BinBit", "BinShift", "Advance", "As", "Cast", "Un", "Paren", "Len", "SizeOf", "Int", "Bool", "Char", "Str", "FCall", "BFCall", "Array", "Structural", "FieldFull", "FieldShort", "Deref", "Idx", "Mem"}
  FlagSets <- FlagSets_none
  VarForms <- VarForms_init
  FnNames = {"f"}
  ParamNames = {"p"}
  VarNames = {"x"}
  LabelNames = {"l"}
  GotoNames = {"l"}
  MemberNames = {"m"}
  TypeNames = {"S"}
  ConstNames = {"N"}
  Builtins = {"print"}
  PrimTypes = {"u8"}
  WordSizes = {8}
  Files <- Files_one
  IntLits <- IntLits_one
  CharLits <- CharLits_one
  StrLits <- StrLits_one
  ArrayLens <- ArrayLens_one
  AddOps = {"+"}
  MulOps = {"*"}
  BitOps = {"&"}
  ShiftOps = {"<<"}
  UnOps = {"-"}
  CmpOps = {"=="}
  MaxDecls = 1
  MaxParams = 0
  MaxMembers = 0
  MaxStmts = 0
  MaxBlock = 0
  MaxArgs = 0
  MaxElems = 0
  MaxFields = 0
  MaxSteps = 0
  Addrs = {0}
  SetAddrs = {0}
  LenAddrs = {0}
  TrailingCommas = {FALSE}
  LooseMembers = FALSE
INVARIANTS CellsOK EmitCell
CHECK_DEADLOCK FALSE

INIT Init
NEXT Next
CONSTANTS
  Thorough = TRUE
INVARIANTS Agree Emit
CHECK_DEADLOCK FALSE

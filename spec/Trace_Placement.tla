-------------------------- MODULE Trace_Placement --------------------------
(***************************************************************************)
(* Trace validation for C06 (impl -> spec).  Recorded: the tokens of the   *)
(* body the real parser built, one `visit` event per statement the syntax  *)
(* analyzer looked at (with its three flags), `lint` events, the outcome.  *)
(* Rule level: the E800/E801/E840 diagnostics and the L1800 lints are the  *)
(* ones the rule prescribes.  Strict: the visits, in order and with their  *)
(* flags, are the ones of the algorithm model.                             *)
(***************************************************************************)
EXTENDS Placement, Json, IOUtils, TLCExt

CONSTANT Strict

Rec == ndJsonDeserialize(IOEnv.TRACE)

VARIABLES l, off, vis, vk, phase, seen
tvars == <<l, off, vis, vk, phase, seen, toks, ctx, done>>

Toks(r) == [i \in 1..Len(r.t) |-> [k |-> r.t[i].k, p |-> r.t[i].p]]
KindOf(s) == CASE s = "var" -> "V" [] s = "set" -> "S" [] s = "loop" -> "LP" [] s = "goto" -> "G"
               [] s = "label" -> "L" [] s = "call" -> "M" [] s = "if" -> "I" [] s = "block" -> "O" [] OTHER -> "?"

TInit == /\ l = 1 /\ off = 0 /\ vis = <<>> /\ vk = 0 /\ phase = "idle" /\ seen = {}
         /\ toks = <<>> /\ ctx = <<"F">> /\ done = FALSE
Ev(e) == l <= Len(Rec) /\ Rec[l].ev = e

TInput == /\ Ev("input") /\ phase = "idle"
          /\ toks' = Toks(Rec[l]) /\ off' = Rec[l].off
          /\ vis' = (IF Strict THEN Alg(Toks(Rec[l])).vis ELSE <<>>) /\ vk' = 1
          /\ seen' = {} /\ phase' = "scan" /\ l' = l + 1 /\ UNCHANGED <<ctx, done>>

TVisit == /\ Ev("visit") /\ phase = "scan"
          /\ IF Strict
             THEN /\ vk <= Len(vis)
                  /\ vis[vk].p = Rec[l].line - off /\ vis[vk].k = KindOf(Rec[l].kind)
                  /\ vis[vk].nt = Rec[l].nt /\ vis[vk].ne = Rec[l].ne /\ vis[vk].ib = Rec[l].ib
                  /\ vk' = vk + 1
             ELSE UNCHANGED vk
          \* R: no statement is looked at twice
          /\ <<Rec[l].line - off, KindOf(Rec[l].kind)>> \notin seen
          /\ seen' = seen \cup {<<Rec[l].line - off, KindOf(Rec[l].kind)>>}
          /\ l' = l + 1 /\ UNCHANGED <<off, vis, phase, toks, ctx, done>>

TLint == /\ Ev("lint") /\ phase = "scan"
         /\ (RuleErrors(toks) = {}) => (Rec[l].line - off) \in RuleLints(toks)          \* R
         /\ l' = l + 1 /\ UNCHANGED <<off, vis, vk, phase, seen, toks, ctx, done>>

Family == {800, 801, 840}
Diags == { <<Rec[l].diags[x].line - off, Rec[l].diags[x].code>> : x \in 1..Len(Rec[l].diags) }
TOutcome ==
    /\ Ev("outcome") /\ phase = "scan"
    /\ Strict => vk = Len(vis) + 1
    /\ seen = RuleSeen(toks)                                                             \* R: every statement examined
    /\ { d \in Diags : d[2] \in Family } = RuleErrors(toks)                             \* R
    /\ ({ d \in Diags : d[2] \notin Family } = {}) => (Rec[l].ok = (RuleErrors(toks) = {}))
    /\ Rec[l].ok => { Rec[l].lints[x].line - off : x \in { y \in 1..Len(Rec[l].lints) : Rec[l].lints[y].code = 1800 } }
                       = RuleLints(toks)
    /\ phase' = "idle" /\ l' = l + 1 /\ UNCHANGED <<off, vis, vk, seen, toks, ctx, done>>

TNext == TInput \/ TVisit \/ TLint \/ TOutcome
TSpec == TInit /\ [][TNext]_tvars
Accepted == LET d == TLCGet("stats").diameter - 1
            IN PrintT(<<"TRACE", ToJson([accepted |-> (d = Len(Rec)), matched |-> d, total |-> Len(Rec)])>>)
=============================================================================

SPECIFICATION Spec
CONSTANTS
  RepAll = TRUE
  Mode = "mc"
  MaxNodes = 6
  Enabled = {"Module", "Fn", "Set", "Deref", "Len", "Idx", "Mem", "Int"}
  FlagSets <- FlagSets_none
  VarForms <- VarForms_init
  FnNames = {"f"}
  ParamNames = {"p"}
  VarNames = {"x"}
  LabelNames = {"l"}
  GotoNames = {"l"}
  MemberNames = {"m", "n"}
  TypeNames = {"S"}
  ConstNames = {"N"}
  Builtins = {"print"}
  PrimTypes = {"u8"}
  WordSizes = {8}
  Files <- Files_one
  IntLits <- IntLits_one
  CharLits <- CharLits_one
  StrLits <- StrLits_one
  ArrayLens <- ArrayLens_one
  AddOps = {"+"}
  MulOps = {"*"}
  BitOps = {"&"}
  ShiftOps = {"<<"}
  UnOps = {"-"}
  CmpOps = {"=="}
  MaxDecls = 1
  MaxParams = 0
  MaxMembers = 0
  MaxStmts = 1
  MaxBlock = 0
  MaxArgs = 0
  MaxElems = 0
  MaxFields = 0
  MaxSteps = 3
  Addrs = {0, 3}
  SetAddrs = {0, 1, 2}
  LenAddrs = {0}
  TrailingCommas = {FALSE}
  LooseMembers = FALSE
INVARIANTS ClassesKnown EmitFaults Accepted
CHECK_DEADLOCK FALSE

----------------------------- MODULE TypeRules -----------------------------
(***************************************************************************)
(* C07 -- No implicit conversions: ill-typed programs are rejected.        *)
(*                                                                         *)
(*   R    the typing judgement for fully annotated programs, read off the  *)
(*        property statement, docs/errors.md (E5xx sections, E333),        *)
(*        docs/features.md ("Views", "Reference pointers", "Structs and    *)
(*        words") and docs/syntax.md; never from the code;                 *)
(*   A    the decision order of src/alpha/resolver.rs                      *)
(*        (match_type_of_operands before analyze_operand_type, the         *)
(*        VALID_TYPES_FOR_x tables, is_valid_primitive_conversion,         *)
(*        is_valid_bit_cast), analyzer/function_calls.rs (use_function,    *)
(*        CannotCopyX), typer.rs (analyze_assignment, put_symbol);         *)
(*   Gen  the finite matrix of cells (MC_TypeRules.tla).                   *)
(*                                                                         *)
(* Type terms are sequences of strings (uniform, comparable, JSON-able):   *)
(*   <<"i32">>                 a primitive                                 *)
(*   <<"ptr">> \o T            &T                                          *)
(*   <<"arr", n>> \o T         [n]T   (n a decimal string)                 *)
(*   <<"slice">> \o T          []T    (array view)                         *)
(*   <<"sptr">> \o T           &[]T   (slice pointer)                      *)
(*   <<"view">> \o T           view of T (struct parameters, extern [])    *)
(*   <<"endless">> \o T        [..]T                                       *)
(*   <<"struct", name>>  <<"word", name>>  <<"void">>                      *)
(*                                                                         *)
(* A verdict is [ok, unc, codes, ty]:                                      *)
(*   ok /\ ~unc   the construct is well typed with type ty: must be        *)
(*                accepted;                                                *)
(*   ~ok          ill typed: must be rejected with a diagnostic whose code *)
(*                is in `codes` on the line of the construct (every code   *)
(*                in the set names a rule that the construct breaks);      *)
(*   unc          the documentation is silent and the code decides         *)
(*                (spec/UNCONSTRAINED-types.md): both outcomes allowed.    *)
(***************************************************************************)
EXTENDS Naturals, Sequences, FiniteSets

Signed  == {"i8", "i16", "i32", "i64", "i128"}
UFixed  == {"u8", "u16", "u32", "u64", "u128"}
Ints    == Signed \cup UFixed \cup {"usize"}
Prims   == Ints \cup {"bool", "char8"}

P(n)      == <<n>>
Ptr(t)    == <<"ptr">> \o t
Arr(n, t) == <<"arr", n>> \o t
Slice(t)  == <<"slice">> \o t
SPtr(t)   == <<"sptr">> \o t
View(t)   == <<"view">> \o t
Bool      == <<"bool">>
Char8     == <<"char8">>
U8        == <<"u8">>

IsPrim(t) == Len(t) = 1 /\ t[1] \in Prims
IsInt(t)  == Len(t) = 1 /\ t[1] \in Ints
Kind(t)   == IF t = <<>> THEN "none" ELSE IF IsPrim(t) THEN "prim" ELSE t[1]
Elem(t)   == SubSeq(t, 3, Len(t))           \* element type of an "arr" term
Rest(t)   == SubSeq(t, 2, Len(t))           \* ptr / slice / sptr / view / endless

RECURSIVE PtrDepth(_), StripPtr(_), AddrN(_, _)
PtrDepth(t) == IF t = <<>> THEN 0
               ELSE IF t[1] = "ptr" THEN 1 + PtrDepth(Rest(t))
               ELSE IF t[1] = "sptr" THEN 1 ELSE 0
StripPtr(t) == IF t # <<>> /\ t[1] = "ptr" THEN StripPtr(Rest(t)) ELSE t
AddrN(k, t) == IF k = 0 THEN t ELSE Ptr(AddrN(k - 1, t))

(***************************************************************************)
(* The type of a reference expression  &...& v  (k address markers) for a  *)
(* variable declared with type D -- docs/features.md "Reference pointers": *)
(* "reference pointers automatically dereference to their base type, which *)
(* is any type that isn't a reference pointer"; "you can get the address   *)
(* of a pointer by preceding the variable name with &"; `&&a` for a: &i32  *)
(* is a pointer to the pointer stored in a.  More markers than pointer     *)
(* depth + 1 take the address of a temporary (E538).  A slice pointer      *)
(* &[]T dereferences to the array view []T; `&sp` is the slice pointer     *)
(* itself.  A view (struct parameter) reads as its struct; its address is  *)
(* not a pointer to the struct (views only give immutable access).         *)
(***************************************************************************)
Excess(D, k) == k > PtrDepth(D) + 1
ExprType(D, k) ==
    LET core == StripPtr(D)
    IN CASE core # <<>> /\ core[1] = "sptr" -> IF k = 0 THEN Slice(Rest(core)) ELSE AddrN(k - 1, core)
         [] core # <<>> /\ core[1] = "view" -> IF k = 0 THEN Rest(core) ELSE AddrN(k, core)
         [] OTHER -> AddrN(k, core)

Ok(t)    == [ok |-> TRUE,  unc |-> FALSE, codes |-> {}, ty |-> t]
Rej(cs)  == [ok |-> FALSE, unc |-> FALSE, codes |-> cs, ty |-> <<>>]
Unc      == [ok |-> TRUE,  unc |-> TRUE,  codes |-> {}, ty |-> <<>>]

\* Using a whole array / array view / struct as a value outside a call argument is an error of its
\* own (E531 / E532 / E533, property C08); where such a value is an operand these codes are
\* accepted as "the matching E5xx code" next to the operator's own code.
AggCodes(t) == CASE Kind(t) = "arr" -> {531}
                 [] Kind(t) \in {"slice", "sptr", "endless"} -> {532}
                 [] Kind(t) = "struct" -> {533}
                 [] Kind(t) = "view" -> {532, 533}
                 [] OTHER -> {}

(***************************************************************************)
(* Operator classes (property statement): arithmetic -> integers, bitwise  *)
(* and shift -> unsigned integers, negation -> signed, ordering -> not     *)
(* pointers.  "yes" / "no" / "unc".                                        *)
(***************************************************************************)
Arith   == {"+", "-", "*", "/", "%"}
Bitwise == {"&", "|", "^", "<<", ">>"}
BinOps  == Arith \cup Bitwise \cup {"adv"}            \* adv = `p .. n`, undocumented
UnOps   == {"neg", "not"}
EqOps   == {"==", "!="}
OrdOps  == {"<", ">", "<=", ">="}
CmpOps  == EqOps \cup OrdOps

ArithClass(t) == IF IsInt(t) THEN "yes" ELSE IF t = Char8 THEN "unc" ELSE "no"
BitClass(t)   == IF IsPrim(t) /\ t[1] \in UFixed THEN "yes" ELSE IF t = P("usize") THEN "unc" ELSE "no"
NegClass(t)   == IF IsPrim(t) /\ t[1] \in Signed THEN "yes" ELSE "no"
NotClass(t)   == IF IsPrim(t) /\ t[1] \in UFixed THEN "yes"
                 ELSE IF t \in {P("usize"), Bool} THEN "unc" ELSE "no"
EqClass(t)    == IF IsPrim(t) \/ Kind(t) = "ptr" THEN "yes" ELSE "unc"
OrdClass(t)   == IF IsInt(t) THEN "yes"
                 ELSE IF Kind(t) \in {"ptr", "sptr"} THEN "no" ELSE "unc"
OpClass(op, t) == CASE op \in Arith -> ArithClass(t)
                    [] op \in Bitwise -> BitClass(t)
                    [] op = "neg" -> NegClass(t)
                    [] op = "not" -> NotClass(t)
                    [] op \in EqOps -> EqClass(t)
                    [] op \in OrdOps -> OrdClass(t)
                    [] OTHER -> "unc"

\* E551: operand types differ; E550: operator not valid for the operand type.
Operands(op, a, b, res) ==
    LET agg == AggCodes(a) \cup AggCodes(b)
        ca == OpClass(op, a)
        cb == OpClass(op, b)
    IN IF op = "adv" THEN Unc
       ELSE IF a # b THEN Rej({551} \cup (IF "no" \in {ca, cb} THEN {550} ELSE {}) \cup agg)
       ELSE IF ca = "no" THEN Rej({550} \cup agg)
       ELSE IF ca = "unc" THEN Unc
       ELSE Ok(res)
BinResult(op, a, b) == Operands(op, a, b, a)
CmpOK(op, a, b)     == Operands(op, a, b, Bool)
UnResult(op, a)     == LET c == OpClass(op, a)
                       IN IF c = "no" THEN Rej({550} \cup AggCodes(a))
                          ELSE IF c = "unc" THEN Unc ELSE Ok(a)

(***************************************************************************)
(* `as`: only between primitive types (property); errors.md E552: a bool   *)
(* cannot be obtained from another type; syntax.md casts a bool and a      *)
(* usize to u8, E551 casts usize to i32.  char8 <-> integers and bool ->   *)
(* char8 are not documented.  `x as T` for x: T (a type hint) is between   *)
(* primitive types when T is primitive; on other types it is undocumented. *)
(***************************************************************************)
CastOK(a, b) ==
    IF IsPrim(a) /\ IsPrim(b)
    THEN IF a = b THEN Ok(b)
         ELSE IF b = Bool THEN Rej({552})
         ELSE IF IsInt(b) /\ (IsInt(a) \/ a = Bool) THEN Ok(b)
         ELSE Unc
    ELSE IF a = b THEN Unc
    ELSE Rej({552} \cup AggCodes(a))

\* `cast`: errors.md E553 -- pointers may be bitcast to pointers; a value that is not a pointer
\* cannot be bitcast to a pointer (the example) nor a pointer to a non-pointer.  Everything else
\* (same-size primitives, words, identical types, slice pointers) is undocumented.
BitCastOK(a, b) ==
    IF Kind(a) = "ptr" /\ Kind(b) = "ptr" THEN Ok(b)
    ELSE IF (Kind(a) = "ptr") # (Kind(b) = "ptr") /\ "sptr" \notin {Kind(a), Kind(b)}
         THEN Rej({553} \cup AggCodes(a))
    ELSE Unc

(***************************************************************************)
(* Assignment  &^kl L = &^kr R  for variables declared DL, DR.             *)
(* E506: an address that is not part of a pointer is assigned; E507: the   *)
(* two sides have different levels of indirection ("make sure the number   *)
(* of address markers on either side is the same"); E504: different types; *)
(* E531-E533: whole aggregates cannot be copied; E538: address of a        *)
(* temporary.  Views and array views are immutable (E530).                 *)
(***************************************************************************)
AssignOK(DL, kl, DR, kr) ==
    LET tr   == ExprType(DR, kr)
        c506 == IF kl > PtrDepth(DL) THEN {506} ELSE {}
        c538 == IF Excess(DR, kr) THEN {538, 507, 504} ELSE {}
        c507 == IF kl <= PtrDepth(DL) /\ ~Excess(DR, kr) /\ PtrDepth(tr) # kl THEN {507} ELSE {}
        c504 == IF StripPtr(tr) # StripPtr(DL) THEN {504} ELSE {}
        c530 == IF Kind(StripPtr(DL)) \in {"slice", "view", "sptr"} THEN {530} ELSE {}
        all  == c506 \cup c538 \cup c507 \cup c504 \cup c530 \cup AggCodes(tr)
    IN IF all = {} THEN Ok(AddrN(kl, StripPtr(DL))) ELSE Rej(all)

\* `var v: D = &^kr R`: the initialiser has exactly the declared type (E504 otherwise).
InitOK(D, DR, kr) ==
    LET tr  == ExprType(DR, kr)
        all == (IF Excess(DR, kr) THEN {538, 504} ELSE {}) \cup (IF tr # D THEN {504} ELSE {}) \cup AggCodes(tr)
    IN IF all = {} THEN Ok(D) ELSE Rej(all)

\* `M { m: &^kr R }` for a member declared `m: B`: an initialisation like any other (identical type;
\* E504 "between two different types" / E500 "conflicting type assertions").  Whether a whole array or
\* struct may be copied into a member is not documented.
MemberOK(B, DR, kr) ==
    LET tr == ExprType(DR, kr)
    IN IF Excess(DR, kr) THEN Rej({538, 504, 500})
       ELSE IF tr # B THEN Rej({504, 500} \cup AggCodes(tr))
       ELSE IF AggCodes(tr) # {} THEN Unc ELSE Ok(B)

\* `const C: D = <literal of type T>` (errors.md E500)
ConstOK(D, T) == IF D = T THEN Ok(D) ELSE Rej({500})

\* the elements of an array literal have one type (errors.md E500, mismatched elements)
ElemOK(a, b) == IF a = b THEN Ok(Arr("2", a)) ELSE Rej({500})

(***************************************************************************)
(* Arguments.  A parameter declared with a struct type is a view of that   *)
(* struct; an argument fits if it has the identical type or by one of the  *)
(* documented coercions: array -> array view, struct -> view of struct,    *)
(* address of array -> slice pointer (features.md "Views", "Reference      *)
(* pointers").  E513: the argument has type T and the parameter &T, i.e.   *)
(* one more `&` would make it fit; E512 otherwise; E510/E511 count.        *)
(***************************************************************************)
ParamType(sh) == IF Kind(sh) = "struct" THEN View(sh) ELSE sh
Coerces(at, pt) ==
    \/ (Kind(at) = "arr" /\ pt = Slice(Elem(at)))
    \/ (Kind(at) = "struct" /\ pt = View(at))
    \/ (Kind(at) = "ptr" /\ Kind(Rest(at)) = "arr" /\ pt = SPtr(Elem(Rest(at))))
\* features.md "Interoperability with C": in the signature of an `extern` function `[]T` is a view of an
\* array without length, <<"view", "endless", T>>, and `&[]T` a pointer to one, <<"ptr", "endless", T>>.
\* What fits `[]T` / `&[]T` of an ordinary function fits these too; the mutable form still needs `&`
\* (or an existing slice pointer): a VIEW never becomes a pointer.
EndlessOf(t) == <<"endless">> \o t
ExternCoerces(at, pt) ==
    \/ (Kind(at) = "arr" /\ pt = View(EndlessOf(Elem(at))))
    \/ (Kind(at) = "slice" /\ pt = View(EndlessOf(Rest(at))))
    \/ (Kind(at) = "sptr" /\ pt = Ptr(EndlessOf(Rest(at))))
    \/ (Kind(at) = "ptr" /\ Kind(Rest(at)) = "arr" /\ pt = Ptr(EndlessOf(Elem(Rest(at)))))
ArgFits(at, pt) == at = pt \/ Coerces(at, pt) \/ ExternCoerces(at, pt)
LooksLikeMissingAddress(at, pt) ==
    \/ pt = Ptr(at)
    \/ (Kind(at) = "slice" /\ pt = SPtr(Rest(at)))
    \/ (Kind(at) = "arr" /\ pt = SPtr(Elem(at)))
    \/ (Kind(at) = "slice" /\ pt = Ptr(EndlessOf(Rest(at))))
    \/ (Kind(at) = "arr" /\ pt = Ptr(EndlessOf(Elem(at))))
ArgOK(DA, ka, sh) ==
    LET at == ExprType(DA, ka)
        pt == ParamType(sh)
        c530 == IF ka > 0 /\ Kind(StripPtr(DA)) \in {"slice", "view"} THEN {530} ELSE {}
    IN IF Excess(DA, ka) THEN Rej({538, 512})
       ELSE IF ArgFits(at, pt) THEN Ok(pt)
       ELSE IF ~Excess(DA, ka + 1) /\ ArgFits(ExprType(DA, ka + 1), pt) THEN Rej({513})
       ELSE IF LooksLikeMissingAddress(at, pt) THEN Rej({512, 513} \cup c530)
       ELSE Rej({512} \cup c530)
ArgCountOK(nargs, nparams) == IF nargs < nparams THEN Rej({510})
                              ELSE IF nargs > nparams THEN Rej({511}) ELSE Ok(<<"void">>)

\* `return: &^ka v` in a function declared `-> RT` (errors.md E333)
\* A function declared without a return type returns nothing: a return value there is E330 ("the return
\* type is missing from a function with a return value"; the two sides of the return differ: E333).
ReturnOK(RT, DA, ka) ==
    LET tr  == ExprType(DA, ka)
        all == (IF Excess(DA, ka) THEN {538, 333} ELSE {}) \cup (IF tr # RT THEN {333} ELSE {}) \cup AggCodes(tr)
                  \cup (IF RT = <<"void">> THEN {330} ELSE {})
    IN IF all = {} THEN Ok(RT) ELSE Rej(all)

(***************************************************************************)
(* One judgement for every cell [ctx, op, a, ka, b, kb]:                   *)
(*   bin/cmp  a,ka left operand variable, b,kb right operand variable      *)
(*   un       a,ka operand                                                 *)
(*   as/cast  a,ka operand, b target type                                  *)
(*   assign   b,kb assignee, a,ka assigned variable                        *)
(*   assignp  the same, where the assignee is a PLACE of declared type b   *)
(*            reached by a path; op names the shape of the path (element,  *)
(*            member, member of member, member of an element of a member   *)
(*            array, member through a pointer member, ...).  The shape is  *)
(*            ignored: only the declared type of the place matters.        *)
(*   init     b declared type, a,ka initialiser variable                   *)
(*   member   b declared type of the member, a,ka initialiser variable     *)
(*   const    b declared type, a type of the literal                       *)
(*   elem     a, b types of the two elements                               *)
(*   arg      a,ka argument variable, b declared parameter type            *)
(*   arg2     the same for the SECOND argument of a two-parameter function *)
(*   argp     the same for the argument at position i of an n-parameter    *)
(*            function (v = "n:i"; the other arguments fit), optionally    *)
(*            with the same function called a second time, correctly, in   *)
(*            the same statement (v = "n:i:tl" / "n:i:tr")                 *)
(*   argn     ka arguments for kb parameters                               *)
(*   ret      a,ka returned variable, b declared return type               *)
(***************************************************************************)
(* A cell may carry two more fields that the judgement deliberately IGNORES: x, the expression context *)
(* in which the offending expression is placed (directly, in parentheses, as element of an array        *)
(* literal argument, as member of a struct literal argument, as argument of another call, as index, as  *)
(* operand of a cast / operator, as return value, in a condition) and y, the statement context of the   *)
(* statement (top level, block, loop block, then / else / else-if arms, after a label).  The typing     *)
(* rules are context independent: Verdict(c) is the same for every x and y.                             *)
(* Likewise IGNORED (dimensions of the generator, no part of the judgement):                            *)
(*   fa, fb  the syntactic FORM of the operand a / b: a variable, the result of a call (with or without  *)
(*           arguments), of a cast, a named constant, an element of an array / of a nested array / of a *)
(*           view parameter, a member / a member of a member / a member through a pointer parameter, a   *)
(*           suffixed literal, a parenthesised variable, `|x|`, `|:T|` (both of type usize: errors.md    *)
(*           E502, E359 examples) -- only the TYPE of an operand matters;                                *)
(*   pre     a second unit next to the construct: a well-typed call statement before it, an independent  *)
(*           ill-typed statement before / after it, a function with a well-typed / ill-typed body or an  *)
(*           ill-typed return value before / after the function of the construct.  Independent           *)
(*           constructs are judged independently (DESIGN.md 3: one diagnostic per minimal offending      *)
(*           construct): the verdict of the construct does not depend on its neighbours;                 *)
(*   v       variants: which of n arguments is the one described, whether the callee is a head, has a     *)
(*           body before / after its caller, is `pub` or `extern`; whether an array length is written    *)
(*           as a number or as a named constant of that value (`[N3]i32` IS `[3]i32` when N3 = 3).      *)
\* Places reached THROUGH A POINTER STORED IN AN ELEMENT (`rows[i][j]` with rows: [2]&[2]T, `nodes[i].x` with nodes: [2]&In,
\* `o.rows[i][j]`): features.md describes the automatic dereference of pointer VARIABLES and parameters only.  Whether a
\* well-typed assignment through such a path is accepted is therefore unconstrained (the pinned code rejects it with E504);
\* an ill-typed one is rejected like any other, E504 ("conflicting types") being a matching code for every such mismatch.
StoredPointerPaths == {b \o ":" \o sh : b \in {"v", "p"}, sh \in {"pelem.elem", "pelem.mem", "mem.pelem.elem"}}
AssignPlaceOK(c) == LET v == AssignOK(c.b, c.kb, c.a, c.ka)
                    IN IF c.op \notin StoredPointerPaths THEN v
                       ELSE IF v.ok THEN Unc ELSE Rej(v.codes \cup {504})
OperandExcess(c) == Excess(c.a, c.ka) \/ (c.ctx \in {"bin", "cmp"} /\ Excess(c.b, c.kb))
Verdict(c) ==
    CASE c.ctx = "bin"    -> IF OperandExcess(c) THEN Rej({538, 550, 551})
                             ELSE BinResult(c.op, ExprType(c.a, c.ka), ExprType(c.b, c.kb))
      [] c.ctx = "cmp"    -> IF OperandExcess(c) THEN Rej({538, 550, 551})
                             ELSE CmpOK(c.op, ExprType(c.a, c.ka), ExprType(c.b, c.kb))
      [] c.ctx = "un"     -> IF OperandExcess(c) THEN Rej({538, 550}) ELSE UnResult(c.op, ExprType(c.a, c.ka))
      [] c.ctx = "as"     -> IF OperandExcess(c) THEN Rej({538, 552}) ELSE CastOK(ExprType(c.a, c.ka), c.b)
      [] c.ctx = "cast"   -> IF OperandExcess(c) THEN Rej({538, 553}) ELSE BitCastOK(ExprType(c.a, c.ka), c.b)
      [] c.ctx = "assign" -> AssignOK(c.b, c.kb, c.a, c.ka)
      [] c.ctx = "assignp" -> AssignPlaceOK(c)
      [] c.ctx = "init"   -> InitOK(c.b, c.a, c.ka)
      [] c.ctx = "member" -> MemberOK(c.b, c.a, c.ka)
      [] c.ctx = "const"  -> ConstOK(c.b, c.a)
      [] c.ctx = "elem"   -> ElemOK(c.a, c.b)
      [] c.ctx \in {"arg", "arg2", "argp"} -> ArgOK(c.a, c.ka, c.b)
      [] c.ctx = "argn"   -> ArgCountOK(c.ka, c.kb)
      [] c.ctx = "ret"    -> ReturnOK(c.b, c.a, c.ka)

(***************************************************************************)
(* A -- what the code does, in its own order.  MCodes(c) is the set of     *)
(* codes the model predicts on the line of the construct ({} = accepted).  *)
(*  * function_calls.rs poisons a Deref of array / slice / slice pointer / *)
(*    struct type outside an immediate call argument (E531/E532/E533);     *)
(*    a poisoned operand silences the operator's own check;                *)
(*  * resolver.rs: match_type_of_operands (E551) runs before               *)
(*    analyze_operand_type (E550) and the tables VALID_TYPES_FOR_x decide; *)
(*  * typer.rs autoderef: surplus address markers are dropped silently     *)
(*    when the context expects a pointer of lower depth (see notes).       *)
(***************************************************************************)
MArith   == Ints \cup {"char8"}
MBitwise == UFixed
MNeg     == Signed
MNot     == UFixed \cup {"bool"}
MValid(op, t) ==
    CASE op \in Arith -> IsPrim(t) /\ t[1] \in MArith
      [] op \in Bitwise -> IsPrim(t) /\ t[1] \in MBitwise
      [] op = "neg" -> IsPrim(t) /\ t[1] \in MNeg
      [] op = "not" -> IsPrim(t) /\ t[1] \in MNot
      [] op \in EqOps -> IsPrim(t) \/ Kind(t) = "ptr"
      [] op \in OrdOps -> IsPrim(t)
      [] op = "adv" -> Kind(t) = "ptr"
      [] OTHER -> FALSE
MAgg(t) == CASE Kind(t) = "arr" -> {531} [] Kind(t) \in {"slice", "sptr"} -> {532}
             [] Kind(t) = "struct" -> {533} [] OTHER -> {}
MOperands(op, a, b) ==
    IF MAgg(a) \cup MAgg(b) # {} THEN MAgg(a) \cup MAgg(b)
    ELSE IF op # "adv" /\ a # b THEN {551}
    ELSE IF ~MValid(op, a) THEN {550} ELSE {}
MCast(a, b) ==
    IF MAgg(a) # {} THEN MAgg(a)
    ELSE IF a = b THEN {}
    ELSE IF IsInt(a) /\ IsInt(b) THEN {}
    ELSE IF (a = U8 /\ b = Char8) \/ (a = Char8 /\ b = U8) THEN {}
    ELSE IF a = Bool /\ IsInt(b) THEN {}
    ELSE {552}
MBitCast(a, b) ==
    IF MAgg(a) # {} THEN MAgg(a)
    ELSE IF a = b \/ (Kind(a) = "ptr" /\ Kind(b) = "ptr") THEN {} ELSE {553}
MCodes(c) ==
    CASE c.ctx \in {"bin", "cmp"} -> MOperands(c.op, ExprType(c.a, c.ka), ExprType(c.b, c.kb))
      [] c.ctx = "un" -> LET t == ExprType(c.a, c.ka)
                         IN IF MAgg(t) # {} THEN MAgg(t) ELSE IF MValid(c.op, t) THEN {} ELSE {550}
      [] c.ctx = "as" -> MCast(ExprType(c.a, c.ka), c.b)
      [] c.ctx = "cast" -> MBitCast(ExprType(c.a, c.ka), c.b)
      [] c.ctx = "const" -> IF c.a = c.b THEN {} ELSE {500}
      [] c.ctx = "elem" -> IF c.a = c.b THEN {} ELSE {500}
      [] c.ctx = "argn" -> IF c.ka < c.kb THEN {510} ELSE IF c.ka > c.kb THEN {511} ELSE {}
      [] OTHER -> LET v == Verdict(c) IN IF v.ok THEN {} ELSE v.codes   \* no separate model
HasModel(c) == c.ctx \in {"bin", "cmp", "un", "as", "cast", "const", "elem", "argn"}

\* A |= R on a cell: an accepted cell is accepted by the model, a rejected one is rejected by the
\* model with codes the rule names; unconstrained cells are free.
AgreeOn(c) == LET v == Verdict(c)
                  m == MCodes(c)
              IN v.unc \/ (v.ok /\ m = {}) \/ (~v.ok /\ m # {} /\ m \subseteq v.codes)
=============================================================================

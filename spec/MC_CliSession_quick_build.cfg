SPECIFICATION Spec
CONSTANTS
  MaxSteps = 3
  Subs = {"emit", "build"}
INVARIANTS FreshEqualsReused Dependencies FedIsCurrent EmitCase
CHECK_DEADLOCK FALSE

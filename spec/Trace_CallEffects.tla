------------------------- MODULE Trace_CallEffects -------------------------
(***************************************************************************)
(* Trace validation of the non-interference clause of C08 (impl -> spec).  *)
(* Every program of the family (MC_CallEffects.tla) is compiled by the     *)
(* real compiler; the accepted ones are executed with lli and print the    *)
(* caller's cells before and after the call.  One record per program:      *)
(*   [prog, ok, codes, lines]                                              *)
(* A record satisfies the specification iff                                *)
(*   - it is accepted exactly when the rules accept it, and a rejection    *)
(*     carries a code the rules name;                                      *)
(*   - the printed states are those of the machine of CallEffects.tla;     *)
(*   - NonInterference: no cell changed without `&` on its argument        *)
(*     (checked on the OBSERVED states, independently of the machine).     *)
(* Bad lines are printed as <<"BAD", line, why>> and counted in register 1. *)
(***************************************************************************)
EXTENDS CallEffects, TLC, TLCExt, Json, IOUtils

Rec == ndJsonDeserialize(IOEnv.TRACE)

VARIABLE l

SeqSet(s) == {s[i] : i \in 1..Len(s)}

RunOK(r) ==
    /\ "panic" \notin DOMAIN r /\ "crash" \notin DOMAIN r /\ "silent" \notin DOMAIN r
    /\ r.ok = ProgAccepted(r.prog)
    /\ ~r.ok => SeqSet(r.codes) \cap Codes(r.prog) # {}
    /\ r.ok => /\ Len(r.lines) = 2
               /\ Len(r.lines[1]) = 5 /\ Len(r.lines[2]) = 5
               /\ NonInterference(r.prog, r.lines[1], r.lines[2])
               /\ r.lines[1] = AsSeq(Before)
               /\ r.lines[2] = AsSeq(After(r.prog))

LineOK(r) == CASE r.ev = "run" -> RunOK(r) [] OTHER -> FALSE

\* why a record is not a behaviour of the specification (for the report only)
Why(r) == IF r.ev # "run" THEN "unknown-record"
          ELSE IF "panic" \in DOMAIN r THEN "panic"
          ELSE IF "crash" \in DOMAIN r THEN "crash"
          ELSE IF "silent" \in DOMAIN r THEN "silent"
          ELSE IF r.ok /\ ~ProgAccepted(r.prog) THEN "accepted-illegal"
          ELSE IF ~r.ok /\ ProgAccepted(r.prog) THEN "rejected-legal"
          ELSE IF ~r.ok THEN "wrong-code"
          ELSE IF Len(r.lines) = 2 /\ Len(r.lines[1]) = 5 /\ Len(r.lines[2]) = 5
                  /\ ~NonInterference(r.prog, r.lines[1], r.lines[2]) THEN "caller-state-changed-without-address"
          ELSE "wrong-output"

TInit == l = 1 /\ TLCSet(1, 0)
TNext == /\ l <= Len(Rec)
         /\ IF LineOK(Rec[l]) THEN TRUE ELSE (PrintT(<<"BAD", l, Why(Rec[l])>>) /\ TLCSet(1, TLCGet(1) + 1))
         /\ l' = l + 1
TSpec == TInit /\ [][TNext]_l

Accepted == LET d == TLCGet("stats").diameter - 1
            IN PrintT(<<"TRACE", ToJson([accepted |-> (d = Len(Rec) /\ TLCGet(1) = 0), matched |-> d,
                                         total |-> Len(Rec), bad |-> TLCGet(1)])>>)
=============================================================================

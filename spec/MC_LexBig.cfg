SPECIFICATION Spec
INVARIANT BigOK
CHECK_DEADLOCK FALSE

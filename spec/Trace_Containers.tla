-------------------------- MODULE Trace_Containers --------------------------
(***************************************************************************)
(* Trace validation for C11 (impl -> spec).                                *)
(*                                                                         *)
(* (a) Containment graphs.  For random larger modules (<= 8 declarations)  *)
(* the harness records what the real parser saw ("input": kinds, by-value  *)
(* and pointer references, file order), every `contain` and `depth` hook   *)
(* event of the real scoper and the outcome of the front end.  Checked     *)
(* against                                                                 *)
(*   R (always): only by-value references are ever registered as           *)
(*      containment; every container gets one depth, which is the longest  *)
(*      containment path, or -1 iff it is on or above a cycle; the verdict *)
(*      is "accepted iff acyclic"; every E413/E415/E416 is a truthful      *)
(*      description of the declaration it is located on;                   *)
(*   A (Strict = TRUE only): the calls come in the order of Sched, with    *)
(*      the results of AStep, and the reported cycles are those of the     *)
(*      model.                                                             *)
(* A wrong verdict / code does not stop the validation: it is printed as a *)
(* BAD line (with the shape tags of the input) and the run is skipped.     *)
(*                                                                         *)
(* (b) Permutations ("perms" records, C11c): a generated valid program was *)
(* compiled and executed in several orders of its top-level declarations.  *)
(* R: the module is a SET of declarations -- every order is accepted (the  *)
(* projected graph is acyclic) and all orders behave identically.          *)
(*                                                                         *)
(* Acceptance is by POSTCONDITION: all lines consumed.                     *)
(***************************************************************************)
EXTENDS Containers, Json, IOUtils, TLCExt

CONSTANT Strict

Rec == ndJsonDeserialize(IOEnv.TRACE)

VARIABLES l,        \* next line of the recording
          tphase,   \* "idle" | "scan"
          rule,     \* Rule(n, kind, val) of the current run
          seen,     \* containers whose depth event has been consumed
          run       \* number of the current run
tvars == <<l, tphase, rule, seen, run, n, kind, val, ptr, pairs, cur, perm, phase, sched, k, alg>>

PairSet(s) == { <<s[x][1], s[x][2]>> : x \in 1..Len(s) }
NoRule == [acc |-> TRUE]

TInit == /\ l = 1 /\ tphase = "idle" /\ rule = NoRule /\ seen = {} /\ run = 0
         /\ n = 0 /\ kind = <<>> /\ val = {} /\ ptr = {} /\ pairs = <<>> /\ cur = 0 /\ perm = <<>>
         /\ phase = "trace" /\ sched = <<>> /\ k = 0 /\ alg = AInit(0)

Ev(e) == l <= Len(Rec) /\ Rec[l].ev = e
Frozen == UNCHANGED <<pairs, cur, phase>>

TInput == /\ Ev("input") /\ tphase = "idle"
          /\ LET r == Rec[l]
                 v == PairSet(r.val)
                 p == PairSet(r.ptr)
             IN /\ n' = r.n /\ kind' = r.kind /\ val' = v /\ ptr' = p /\ perm' = r.perm
                /\ sched' = Sched(r.kind, v, p, r.perm)
                /\ rule' = Rule(r.n, r.kind, v)
                /\ alg' = AInit(r.n)
          /\ k' = 1 /\ seen' = {} /\ run' = run + 1
          /\ tphase' = "scan" /\ l' = l + 1 /\ Frozen

TContain == /\ Ev("contain") /\ tphase = "scan"
            /\ <<Rec[l].a, Rec[l].b>> \in val                                          \* R
            /\ IF Strict THEN /\ k <= Len(sched) /\ sched[k] = <<Rec[l].a, Rec[l].b>>
                              /\ alg' = AStep(kind, alg, sched[k]) /\ k' = k + 1
                              /\ Rec[l].res = alg'.res
                         ELSE UNCHANGED <<alg, k>>
            /\ l' = l + 1
            /\ UNCHANGED <<tphase, rule, seen, run, n, kind, val, ptr, perm, sched>> /\ Frozen

TDepth == /\ Ev("depth") /\ tphase = "scan"
          /\ LET a == Rec[l].a IN
             /\ a \in 1..n /\ IsContainer(kind, a) /\ a \notin seen
             /\ Rec[l].s = IsS(kind, a)
             /\ Rec[l].d = rule.depth[a]                                                  \* R
             /\ Strict => (k > Len(sched) /\ Rec[l].d = ADepths(n, kind, alg.ids)[a])
             /\ seen' = seen \cup {a}
          /\ l' = l + 1
          /\ UNCHANGED <<tphase, rule, run, n, kind, val, ptr, perm, sched, k, alg>> /\ Frozen

Family == {413, 415, 416}
FamDiags == LET d == Rec[l].diags IN { x \in 1..Len(d) : d[x].code \in Family }
Problems ==
    LET d == Rec[l].diags
    IN (IF Rec[l].ok # rule.acc THEN {IF rule.acc THEN "rejected-acyclic" ELSE "accepted-cyclic"} ELSE {})
       \cup (IF rule.acc /\ ~Rec[l].ok /\ FamDiags # {} THEN {"cycle-code-on-acyclic"} ELSE {})
       \cup (IF ~rule.acc /\ ~Rec[l].ok /\ FamDiags = {} THEN {"no-cycle-code"} ELSE {})
       \cup { "wrong-code-" \o ToString(d[x].code) : x \in { y \in FamDiags : d[y].node \notin OkSet(rule, d[y].code) } }
ModelTy == ATypingWF(kind, val, ptr, AOrder(kind, rule.depth, perm), rule.depth)
Model433 == ModelTy.e433
ShapeTags == (IF \E a \in rule.ok415 \ rule.ok416 : \E c \in Below(val, a) : IsC(kind, c)
              THEN {"const-below-struct-cycle"} ELSE {})
             \cup (IF Model433 # {} THEN {"ptrlen-before-const"} ELSE {})
             \cup (IF \E p \in ptr : ConstPtrArray(kind, ptr, p) THEN {"constptr-array"} ELSE {})
             \cup (IF APtrToUnfounded(kind, ptr, rule.depth) THEN {"ptr-to-unfounded-struct"} ELSE {})

PairsOf(E) == SetToSortSeq(E, LAMBDA p, q : p[1] < q[1] \/ (p[1] = q[1] /\ p[2] < q[2]))
ModelErrs == { <<alg.errs[x].node, alg.errs[x].code>> : x \in 1..Len(alg.errs) }
TOutcome == /\ Ev("outcome") /\ tphase = "scan"
            /\ seen = { a \in 1..n : IsContainer(kind, a) }
            /\ Strict => /\ k > Len(sched)
                         /\ { <<Rec[l].diags[x].node, Rec[l].diags[x].code>> : x \in FamDiags } = ModelErrs
                         /\ rule.acc => Model433 \subseteq { Rec[l].diags[x].node : x \in 1..Len(Rec[l].diags) }
                         /\ (rule.acc /\ Model433 = {}) => Rec[l].ok
            /\ Problems # {} =>
                 PrintT(<<"BAD", ToJson([run |-> run, problems |-> SetToSeq(Problems), tags |-> SetToSeq(ShapeTags),
                                         kind |-> kind, val |-> PairsOf(val), ptr |-> PairsOf(ptr), perm |-> perm,
                                         acc |-> rule.acc, m433 |-> SetToSortSeq(Model433, <), mcrash |-> (ModelTy.crash \/ APtrToUnfounded(kind, ptr, rule.depth)),
                                         ok415 |-> SetToSortSeq(rule.ok415, <), ok416 |-> SetToSortSeq(rule.ok416, <),
                                         diags |-> Rec[l].diags, ok |-> Rec[l].ok])>>)
            /\ tphase' = "idle" /\ l' = l + 1
            /\ UNCHANGED <<rule, seen, run, n, kind, val, ptr, perm, sched, k, alg>> /\ Frozen

\* the compiler panicked: never allowed; reported with the shape of the input, then skipped
TCrash == /\ Ev("crash") /\ tphase = "scan"
          /\ PrintT(<<"BAD", ToJson([run |-> run, problems |-> <<"crash">>, tags |-> SetToSeq(ShapeTags),
                                     kind |-> kind, val |-> PairsOf(val), ptr |-> PairsOf(ptr), perm |-> perm,
                                     acc |-> rule.acc, m433 |-> SetToSortSeq(Model433, <), mcrash |-> (ModelTy.crash \/ APtrToUnfounded(kind, ptr, rule.depth)),
                                     ok415 |-> SetToSortSeq(rule.ok415, <), ok416 |-> SetToSortSeq(rule.ok416, <),
                                     diags |-> <<>>, ok |-> FALSE, msg |-> Rec[l].msg])>>)
          /\ tphase' = "idle" /\ l' = l + 1
          /\ UNCHANGED <<rule, seen, run, n, kind, val, ptr, perm, sched, k, alg>> /\ Frozen

(***************************************************************************)
(* (b) permutations of generated programs                                  *)
(***************************************************************************)
SameAll(s) == \A x \in 1..Len(s) : s[x] = s[1]
TPerms == /\ Ev("perms") /\ tphase = "idle"
          /\ LET r == Rec[l]
                 g == Rule(r.n, r.kind, PairSet(r.val))
             IN /\ g.acc                                         \* generated programs are acyclic
                /\ Len(r.runs) >= 1
                /\ \A x \in 1..Len(r.runs) :
                      /\ r.runs[x].ok = g.acc                    \* accepted in every order
                      /\ IsPerm(r.runs[x].order, r.n)
                /\ SameAll([x \in 1..Len(r.runs) |-> [ok |-> r.runs[x].ok, out |-> r.runs[x].out, exit |-> r.runs[x].exit]])
          /\ run' = run + 1 /\ l' = l + 1
          /\ UNCHANGED <<tphase, rule, seen, n, kind, val, ptr, perm, sched, k, alg>> /\ Frozen

TNext == TInput \/ TContain \/ TDepth \/ TOutcome \/ TCrash \/ TPerms
TSpec == TInit /\ [][TNext]_tvars

Accepted == LET d == TLCGet("stats").diameter - 1
            IN PrintT(<<"TRACE", ToJson([accepted |-> (d = Len(Rec)), matched |-> d, total |-> Len(Rec)])>>)
=============================================================================

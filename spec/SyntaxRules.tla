---------------------------- MODULE SyntaxRules ----------------------------
(***************************************************************************)
(* R for the `syntax` work package: the documented grammar of Penne as a   *)
(* deterministic pushdown RECOGNISER over token classes.                   *)
(*                                                                         *)
(* PenneGrammar.tla generates valid modules; this module decides, for an   *)
(* ARBITRARY sequence of token classes, one of three verdicts:             *)
(*    valid          the sequence is a module of the documented language   *)
(*    unc            the sequence is a module only if one of the listed    *)
(*                   extensions is used, about which the documents are     *)
(*                   silent (the parsers may accept or reject it)          *)
(*    invalid(lo,hi) no module, not even with the extensions: token hi is  *)
(*                   the first token that cannot extend a viable prefix    *)
(*                   (n+1 = end of file); lo..hi is the window in which a  *)
(*                   diagnostic is well located: it starts at the last     *)
(*                   token of the viable prefix ("missing ; after X") or,  *)
(*                   when an extension was used on the way, at the token   *)
(*                   before the first use of an extension.                 *)
(*                                                                         *)
(* The grammar is written from README.md, docs/syntax.md, docs/features.md *)
(* and the examples of docs/errors.md (E300-E302 E335 E343 E344 E346 are   *)
(* DOCUMENTED rejections: `stop;`, `return: 10;`, `return: }`, `const X =`,*)
(* `fn foo(x)`, `struct Foo { x, }`), in LL(1) form: Rule(nt, mode, k) is  *)
(* the right-hand side that replaces nonterminal nt when the next token    *)
(* has class k.  A state is the stack of grammar positions still to be     *)
(* matched; one Shift per token.  Rules marked U are the extensions.       *)
(* MC_SyntaxGrammar.tla checks with TLC that every token list that         *)
(* PenneGrammar.tla derives is `valid` here (so the strict part is not     *)
(* narrower than the generator that C16 has validated against both         *)
(* parsers and the corpus).                                                *)
(*                                                                         *)
(* Extensions (U, docs silent), also listed in docs/notes-syntax.md:       *)
(*   `return` used as an ordinary name (alpha: identifier, delta: keyword);*)
(*   `extern pub`; flags on `import`; a trailing comma in a parameter      *)
(*   list; type nestings outside PenneGrammar's contexts (view / slice     *)
(*   below & or as element, []T / [..]T as element: E350 is a property of  *)
(*   the complete type), `void`, a bit or suffixed integer as array        *)
(*   length; an empty statement `;`; a naked if,                           *)
(*   a declaration or a label as branch of an if (C06's domain); mixing    *)
(*   binary operators outside the precedence levels of PenneGrammar        *)
(*   (`a + b & c`, `a & b as T`, `a << b << c`); unary operators applied   *)
(*   to non-primary operands (`--x`, `-|x|`, `!cast x`); `&x .. e` other   *)
(*   than as a whole expression; `|&x|`; a structure literal inside        *)
(*   brackets inside a condition.                                          *)
(***************************************************************************)
EXTENDS Naturals, Sequences, FiniteSets, TLC

Punct == {"(", ")", "{", "}", "[", "]", "|", "&", "^", "!", "-", ":", ";", ".", ",", "=", "->", "|:", "..", "_"}
OpClasses == {"cmp", "add", "mul", "sh"}       \* == != < > <= >=   +   * / %   << >>
Keywords == {"fn", "var", "const", "if", "goto", "loop", "else", "cast", "as", "import", "pub", "extern", "struct",
             "word", "return"}
\* id, builtin!, type keyword, void, naked decimal, bit/suffixed integer, char/bool literal, string, string whose bytes
\* are not UTF-8 (written with \x escapes: a value, but not the path of an import -- tests/samples/invalid/invalid_unicode_in_import.pn)
Others == {"id", "bi", "ty", "void", "dec", "int", "lit", "str", "strx"}
Classes == Punct \cup OpClasses \cup Keywords \cup Others \cup {"eof"}

BinOps == {"add", "-", "mul", "&", "|", "^", "sh"}
ExprStart == {"cast", "-", "!", "|", "|:", "dec", "int", "lit", "str", "strx", "id", "return", "bi", "&", "[", "("}
StmtStart == {"{", "if", "loop", "goto", "var", "id", "return", "bi", "&", ";"}
DeclStart == {"pub", "extern", "import", "const", "fn", "struct", "word"}
NameStart == {"id", "return"}

\* pseudo symbols on the stack: they change the expression mode and consume nothing
\*   n  ordinary;  c  directly inside the condition of an if (a brace opens the branch);  p  inside brackets inside c
Pseudo == {"@n", "@c", "@sub", "@pop"}
Modes == {"n", "c", "p"}

NTs == {"Module", "Decl", "DeclP", "DeclX", "Core0", "CoreF", "Name", "GotoT", "TypeAnn", "RetVal",
        "Params", "ParamsT", "ParamsC", "RetOpt", "FnRest", "Body", "BodyRet", "StructRest", "Members", "MembersT",
        "TyT", "TyI", "TyE", "ArrT", "ArrI", "ArrE",
        "StS", "StT", "StE", "Block", "IdRS", "IdRT", "IdRE", "ElseOpt", "VarTy", "VarInit",
        "E", "Sing1", "Sing", "AsCh", "Un", "PrimU", "Prim", "PrimRest", "StrMore", "AmpsRef", "Amps", "Adv0", "AdvU",
        "LenRef", "Steps", "Args", "ArgsT", "Elems", "ElemsT", "Fields", "FieldV", "FieldsT",
        "T0", "MulCh", "TMA", "TA", "TM", "UnB", "TB&", "TB|", "TB^", "TEnd", "TL"}

R(seq) == [r |-> seq, u |-> FALSE, e |-> FALSE]      \* documented
U(seq) == [r |-> seq, u |-> TRUE, e |-> FALSE]       \* extension: docs silent
X == [r |-> <<>>, u |-> FALSE, e |-> TRUE]           \* no rule: k cannot follow

ImportT == <<"import", "str", ";">>
ConstT == <<"const", "Name", "TypeAnn", "=", "E", ";">>
FnT == <<"fn", "Name", "(", "Params", ")", "RetOpt", "FnRest">>
TypedT(tail) == <<"Name", "TypeAnn", tail>>
IfT == <<"if", "@c", "E", "cmp", "E", "@pop", "StT", "ElseOpt">>
VarT == <<"var", "Name", "VarTy", "VarInit", ";">>
CallT == <<"(", "@sub", "Args", "@pop", ")">>
StructT == <<"{", "@n", "Fields", "@pop", "}">>
SingT == <<"Un", "AsCh">>

TyRule(ctx, k) ==
    LET arr == IF ctx = "T" THEN "ArrT" ELSE IF ctx = "I" THEN "ArrI" ELSE "ArrE" IN
    CASE k = "ty" -> R(<<"ty">>)
      [] k = "id" -> R(<<"id">>)
      [] k = "return" -> U(<<"return">>)
      [] k = "void" -> U(<<"void">>)
      [] k = "&" -> R(<<"&", "TyI">>)
      [] k = "(" -> IF ctx = "T" THEN R(<<"(", "TyI", ")">>) ELSE U(<<"(", "TyI", ")">>)
      [] k = "[" -> R(<<"[", arr>>)
      [] OTHER -> X
ArrRule(ctx, k) ==
    CASE k \in {"dec", "id"} -> R(<<k, "]", "TyE">>)
      [] k \in {"int", "return"} -> U(<<k, "]", "TyE">>)
      [] k = ":" -> IF ctx = "T" THEN R(<<":", "]", "TyE">>) ELSE U(<<":", "]", "TyE">>)
      [] k = ".." -> IF ctx \in {"T", "I"} THEN R(<<"..", "]", "TyE">>) ELSE U(<<"..", "]", "TyE">>)
      \* (docs/errors.md E350 calls [10][]u8 and [][]i32 invalid, but as a property of the COMPLETE compound type: the first
      \* generation reads `[` `]` as the start of an array view and reports E350 for the whole type afterwards, so the
      \* closing bracket is not the first token that cannot extend a viable prefix -> extension, not an offending token)
      [] k = "]" -> IF ctx \in {"T", "I"} THEN R(<<"]", "TyE">>) ELSE U(<<"]", "TyE">>)
      [] OTHER -> X

\* ctx: S in a sequence of statements, T then-branch, E else-branch
StRule(ctx, k) ==
    LET idr == IF ctx = "S" THEN "IdRS" ELSE IF ctx = "T" THEN "IdRT" ELSE "IdRE" IN
    CASE k = "{" -> R(<<"{", "Block", "}">>)
      [] k = "if" -> IF ctx = "T" THEN U(IfT) ELSE R(IfT)
      [] k = "loop" -> R(<<"loop", ";">>)
      [] k = "goto" -> R(<<"goto", "GotoT", ";">>)
      [] k = "var" -> IF ctx = "S" THEN R(VarT) ELSE U(VarT)
      [] k = "id" -> R(<<"id", idr>>)
      [] k = "return" -> U(<<"return", idr>>)
      [] k = "bi" -> R(<<"bi">> \o CallT \o <<";">>)
      [] k = "&" -> R(<<"AmpsRef", "=", "E", ";">>)
      [] k = ";" -> U(<<";">>)
      [] OTHER -> X
IdRRule(ctx, k) ==
    CASE k = ":" -> IF ctx = "S" THEN R(<<":">>) ELSE U(<<":">>)
      [] k = "(" -> R(CallT \o <<";">>)
      [] k = ";" -> X                                     \* docs/errors.md E301
      [] OTHER -> R(<<"Steps", "=", "E", ";">>)

TBRule(b, k) ==
    CASE k = b -> R(<<b, "UnB", "TB" \o b>>)
      [] k = "as" -> U(<<"as", "TyT", "TL">>)
      [] k \in BinOps -> U(<<"TL">>)
      [] OTHER -> R(<<>>)

Rule(nt, m, k) ==
    CASE nt = "Module" -> IF k = "eof" THEN R(<<"eof">>) ELSE IF k \in DeclStart THEN R(<<"Decl", "Module">>) ELSE X
      [] nt = "Decl" -> IF k = "pub" THEN R(<<"pub", "DeclP">>) ELSE IF k = "extern" THEN R(<<"extern", "DeclX">>)
                        ELSE R(<<"Core0">>)
      [] nt = "DeclP" -> IF k = "extern" THEN R(<<"extern", "CoreF">>) ELSE R(<<"CoreF">>)
      [] nt = "DeclX" -> IF k = "pub" THEN U(<<"pub", "CoreF">>) ELSE R(<<"CoreF">>)
      [] nt \in {"Core0", "CoreF"} ->
           CASE k = "import" -> (IF nt = "Core0" THEN R(ImportT) ELSE U(ImportT))
             [] k = "const" -> R(ConstT)
             [] k = "fn" -> R(FnT)
             [] k = "struct" -> R(<<"struct", "Name", "StructRest">>)
             [] k = "word" -> R(<<"word", "Name", "{", "Members", "}">>)
             [] OTHER -> X
      [] nt = "Name" -> IF k = "id" THEN R(<<"id">>) ELSE IF k = "return" THEN U(<<"return">>) ELSE X
      [] nt = "GotoT" -> IF k \in NameStart THEN R(<<k>>) ELSE X
      [] nt = "Params" -> IF k = ")" THEN R(<<>>) ELSE IF k \in NameStart THEN R(TypedT("ParamsT")) ELSE X
      [] nt = "ParamsT" -> IF k = "," THEN R(<<",", "ParamsC">>) ELSE R(<<>>)
      [] nt = "ParamsC" -> IF k = ")" THEN U(<<>>) ELSE IF k \in NameStart THEN R(TypedT("ParamsT")) ELSE X
      [] nt = "RetOpt" -> IF k = "->" THEN R(<<"->", "TyT">>) ELSE R(<<>>)
      [] nt = "FnRest" -> IF k = ";" THEN R(<<";">>) ELSE IF k = "{" THEN R(<<"{", "Body", "}">>) ELSE X
      [] nt = "Body" -> IF k = "}" THEN R(<<>>)
                        ELSE IF k = "return" THEN R(<<"return", "BodyRet">>)
                        ELSE IF k \in StmtStart THEN R(<<"StS", "Body">>) ELSE X
      \* `return: e` closes the body (E302 E335: nothing but an expression and the brace can follow);
      \* `return` otherwise used like a name is an extension
      [] nt = "BodyRet" -> IF k = ":" THEN R(<<":", "RetVal">>)
                           ELSE IF k = "(" THEN U(CallT \o <<";", "Body">>)
                           ELSE IF k \in {"[", ".", "="} THEN U(<<"Steps", "=", "E", ";", "Body">>) ELSE X
      \* docs/errors.md E335 (return value missing), E343 E344 E346 (type missing): the parsers record these and go on
      \* as if the missing part were there, so what they finally report may be a later fault (SoftSites)
      [] nt = "RetVal" -> IF k \in ExprStart THEN R(<<"E">>) ELSE X
      [] nt = "TypeAnn" -> IF k = ":" THEN R(<<":", "TyT">>) ELSE X
      [] nt = "StructRest" -> IF k = ";" THEN R(<<";">>) ELSE IF k = "{" THEN R(<<"{", "Members", "}">>) ELSE X
      [] nt = "Members" -> IF k = "}" THEN R(<<>>) ELSE IF k \in NameStart THEN R(TypedT("MembersT")) ELSE X
      [] nt = "MembersT" -> IF k = "," THEN R(<<",", "Members">>) ELSE R(<<>>)
      [] nt = "TyT" -> TyRule("T", k)
      [] nt = "TyI" -> TyRule("I", k)
      [] nt = "TyE" -> TyRule("E", k)
      [] nt = "ArrT" -> ArrRule("T", k)
      [] nt = "ArrI" -> ArrRule("I", k)
      [] nt = "ArrE" -> ArrRule("E", k)
      [] nt = "StS" -> StRule("S", k)
      [] nt = "StT" -> StRule("T", k)
      [] nt = "StE" -> StRule("E", k)
      [] nt = "Block" -> IF k = "}" THEN R(<<>>) ELSE IF k \in StmtStart THEN R(<<"StS", "Block">>) ELSE X
      [] nt = "IdRS" -> IdRRule("S", k)
      [] nt = "IdRT" -> IdRRule("T", k)
      [] nt = "IdRE" -> IdRRule("E", k)
      [] nt = "ElseOpt" -> IF k = "else" THEN R(<<"else", "StE">>) ELSE R(<<>>)
      [] nt = "VarTy" -> IF k = ":" THEN R(<<":", "TyT">>) ELSE R(<<>>)
      [] nt = "VarInit" -> IF k = "=" THEN R(<<"=", "E">>) ELSE R(<<>>)
      (* ---- expressions ---- *)
      [] nt = "E" -> IF k \in ExprStart THEN R(<<"Sing1", "T0">>) ELSE X
      [] nt = "Sing1" -> IF k = "cast" THEN R(<<"cast">> \o SingT)
                         ELSE IF k = "&" THEN R(<<"AmpsRef", "Adv0", "AsCh">>) ELSE R(SingT)
      [] nt = "Sing" -> IF k = "cast" THEN R(<<"cast">> \o SingT) ELSE IF k \in ExprStart THEN R(SingT) ELSE X
      [] nt = "AsCh" -> IF k = "as" THEN R(<<"as", "TyT", "AsCh">>) ELSE R(<<>>)
      [] nt = "Un" -> CASE k \in {"-", "!"} -> R(<<k, "PrimU">>)
                        [] k = "|" -> R(<<"|", "LenRef", "|">>)
                        [] k = "|:" -> R(<<"|:", "TyT", "|">>)
                        [] OTHER -> R(<<"Prim">>)
      [] nt = "PrimU" -> IF k \in {"-", "!", "|", "|:"} THEN U(<<"Un">>)
                         ELSE IF k = "cast" THEN U(<<"cast", "Un">>) ELSE R(<<"Prim">>)
      [] nt = "Prim" -> CASE k \in {"dec", "int", "lit"} -> R(<<k>>)
                          [] k \in {"str", "strx"} -> R(<<k, "StrMore">>)
                          [] k = "id" -> R(<<"id", "PrimRest">>)
                          [] k = "return" -> U(<<"return", "PrimRest">>)
                          [] k = "bi" -> R(<<"bi">> \o CallT)
                          [] k = "&" -> R(<<"AmpsRef", "AdvU">>)
                          [] k = "[" -> R(<<"[", "@sub", "Elems", "@pop", "]">>)
                          [] k = "(" -> R(<<"(", "@sub", "E", "@pop", ")">>)
                          [] OTHER -> X
      [] nt = "PrimRest" -> CASE k = "(" -> R(CallT)
                              [] k = "{" -> (IF m = "n" THEN R(StructT) ELSE IF m = "p" THEN U(StructT) ELSE R(<<>>))
                              [] OTHER -> R(<<"Steps">>)
      [] nt = "StrMore" -> IF k \in {"str", "strx"} THEN R(<<k, "StrMore">>) ELSE R(<<>>)
      [] nt = "AmpsRef" -> IF k = "&" THEN R(<<"&", "Amps", "Name", "Steps">>) ELSE X
      [] nt = "Amps" -> IF k = "&" THEN R(<<"&", "Amps">>) ELSE R(<<>>)
      [] nt = "Adv0" -> IF k = ".." THEN R(<<"..", "E">>) ELSE R(<<>>)
      [] nt = "AdvU" -> IF k = ".." THEN U(<<"..", "E">>) ELSE R(<<>>)
      [] nt = "LenRef" -> IF k \in NameStart THEN R(<<"Name", "Steps">>) ELSE IF k = "&" THEN U(<<"AmpsRef">>) ELSE X
      [] nt = "Steps" -> IF k = "[" THEN R(<<"[", "@sub", "E", "@pop", "]", "Steps">>)
                         ELSE IF k = "." THEN R(<<".", "Name", "Steps">>) ELSE R(<<>>)
      [] nt = "Args" -> IF k = ")" THEN R(<<>>) ELSE IF k \in ExprStart THEN R(<<"E", "ArgsT">>) ELSE X
      [] nt = "ArgsT" -> IF k = "," THEN R(<<",", "Args">>) ELSE R(<<>>)
      [] nt = "Elems" -> IF k = "]" THEN R(<<>>) ELSE IF k \in ExprStart THEN R(<<"E", "ElemsT">>) ELSE X
      [] nt = "ElemsT" -> IF k = "," THEN R(<<",", "Elems">>) ELSE R(<<>>)
      [] nt = "Fields" -> IF k = "}" THEN R(<<>>) ELSE IF k \in NameStart THEN R(<<"Name", "FieldV", "FieldsT">>) ELSE X
      [] nt = "FieldV" -> IF k = ":" THEN R(<<":", "E">>) ELSE R(<<>>)
      [] nt = "FieldsT" -> IF k = "," THEN R(<<",", "Fields">>) ELSE R(<<>>)
      (* ---- binary operators: the levels of PenneGrammar, everything else is an extension ---- *)
      [] nt = "T0" -> CASE k \in {"add", "-"} -> R(<<k, "MulCh", "TA">>)
                        [] k = "mul" -> R(<<"mul", "Sing", "TM">>)
                        [] k \in {"&", "|", "^"} -> R(<<k, "UnB", "TB" \o k>>)
                        [] k = "sh" -> R(<<"sh", "UnB", "TEnd">>)
                        [] OTHER -> R(<<>>)
      [] nt = "MulCh" -> IF k \in ExprStart THEN R(<<"Sing", "TMA">>) ELSE X
      [] nt = "TMA" -> IF k = "mul" THEN R(<<"mul", "Sing", "TMA">>) ELSE R(<<>>)
      [] nt = "TA" -> CASE k \in {"add", "-"} -> R(<<k, "MulCh", "TA">>)
                        [] k \in {"&", "|", "^", "sh"} -> U(<<"TL">>)
                        [] OTHER -> R(<<>>)
      [] nt = "TM" -> CASE k = "mul" -> R(<<"mul", "Sing", "TM">>)
                        [] k \in {"add", "-"} -> R(<<k, "MulCh", "TA">>)
                        [] k \in {"&", "|", "^", "sh"} -> U(<<"TL">>)
                        [] OTHER -> R(<<>>)
      [] nt = "UnB" -> IF k = "cast" THEN U(<<"Sing">>) ELSE IF k \in ExprStart THEN R(<<"Un">>) ELSE X
      [] nt = "TB&" -> TBRule("&", k)
      [] nt = "TB|" -> TBRule("|", k)
      [] nt = "TB^" -> TBRule("^", k)
      [] nt = "TEnd" -> IF k = "as" THEN U(<<"as", "TyT", "TL">>) ELSE IF k \in BinOps THEN U(<<"TL">>) ELSE R(<<>>)
      [] nt = "TL" -> IF k \in BinOps THEN R(<<k, "Sing", "TL">>)
                      ELSE IF k = "as" THEN R(<<"as", "TyT", "TL">>) ELSE R(<<>>)

\* the table is a constant: TLC evaluates it once
Table == [nt \in NTs |-> [m \in Modes |-> [k \in Classes |-> Rule(nt, m, k)]]]

(***************************************************************************)
(* The pushdown automaton.  st: grammar positions still to be matched,     *)
(* md: stack of expression modes (Head = current).                         *)
(***************************************************************************)
Fail(exp, u) == [ok |-> FALSE, st |-> <<>>, md |-> <<>>, u |-> u, exp |-> exp]
RECURSIVE Drive(_, _, _, _)
Drive(st, md, k, u) ==
    IF st = <<>> THEN Fail("nothing", u)
    ELSE LET top == Head(st) IN
         IF top = "@pop" THEN Drive(Tail(st), Tail(md), k, u)
         ELSE IF top = "@n" THEN Drive(Tail(st), <<"n">> \o md, k, u)
         ELSE IF top = "@c" THEN Drive(Tail(st), <<"c">> \o md, k, u)
         ELSE IF top = "@sub" THEN Drive(Tail(st), <<(IF Head(md) = "n" THEN "n" ELSE "p")>> \o md, k, u)
         ELSE IF top \in Classes
              THEN (IF top = k THEN [ok |-> TRUE, st |-> Tail(st), md |-> md, u |-> u, exp |-> ""] ELSE Fail(top, u))
         ELSE LET e == Table[top][Head(md)][k] IN
              IF e.e THEN Fail(top, u) ELSE Drive(e.r \o Tail(st), md, k, u \/ e.u)

\* n tokens read; u: index of the first token read with an extension (0: none); at: index of the offending token
Start == [st |-> <<"Module">>, md |-> <<"n">>, alive |-> TRUE, n |-> 0, u |-> 0, at |-> 0, exp |-> ""]

Shift(s, k) ==
    IF ~s.alive THEN s
    ELSE LET d == Drive(s.st, s.md, k, FALSE)
             u2 == IF s.u = 0 /\ d.u THEN s.n + 1 ELSE s.u
         IN IF d.ok THEN [st |-> d.st, md |-> d.md, alive |-> TRUE, n |-> s.n + 1, u |-> u2, at |-> 0, exp |-> ""]
            ELSE [st |-> <<>>, md |-> <<>>, alive |-> FALSE, n |-> s.n, u |-> u2, at |-> s.n + 1, exp |-> d.exp]

RECURSIVE RunFrom(_, _, _)
RunFrom(s, ks, i) == IF i > Len(ks) \/ ~s.alive THEN s ELSE RunFrom(Shift(s, ks[i]), ks, i + 1)
Run(s, ks) == RunFrom(s, ks, 1)

\* the verdict after the end of the file has been shifted
SoftSites == {"TypeAnn", "RetVal"}
\* soft: the offending token stands where a recorded-and-resumed fault is reported (a later diagnostic is legitimate)
Verdict(s) ==
    IF s.alive THEN [v |-> (IF s.u = 0 THEN "valid" ELSE "unc"), lo |-> 0, hi |-> 0, u |-> s.u, exp |-> "", soft |-> FALSE]
    ELSE [v |-> "invalid", lo |-> (IF s.u > 0 THEN s.u ELSE s.at) - 1, hi |-> s.at, u |-> s.u, exp |-> s.exp,
          soft |-> s.exp \in SoftSites]
\* ks: the token classes of a whole file (without eof)
Judge(ks) == Verdict(Shift(Run(Start, ks), "eof"))

(***************************************************************************)
(* Sanity of the table (checked by TLC as ASSUME in MC_SyntaxSeq).         *)
(***************************************************************************)
Symbols == Classes \cup NTs \cup Pseudo
TableOK == \A nt \in NTs, m \in Modes, k \in Classes :
              LET e == Table[nt][m][k] IN \A i \in 1..Len(e.r) : e.r[i] \in Symbols
\* a rule that consumes nothing never leads with a terminal other than the lookahead (LL(1) discipline)
LeadsOK == \A nt \in NTs, m \in Modes, k \in Classes :
              LET e == Table[nt][m][k] IN
              (~e.e /\ e.r # <<>> /\ e.r[1] \in Classes) => e.r[1] = k
=============================================================================

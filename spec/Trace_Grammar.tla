--------------------------- MODULE Trace_Grammar ---------------------------
(***************************************************************************)
(* Trace validation for C16 (impl -> spec).                                *)
(*                                                                         *)
(* The harness renders modules (random larger ones from TLC's simulation   *)
(* mode, and the corpus files) in a random layout, runs the REAL second-   *)
(* generation lexer and parser, and records per run                        *)
(*     toks  the token stream the real lexer produced (kinds, spellings,   *)
(*           literal values),                                              *)
(*     pre   the tree the real parser reported (XML dump), as a preorder   *)
(*           node sequence with arities.                                   *)
(* This module re-parses: it walks `pre` node by node through the grammar  *)
(* of PenneGrammar.tla (Mode = "trace": every production must be the one   *)
(* that creates the recorded node in the slot that is open at that point,  *)
(* so operand nesting must respect the precedence levels) and requires the *)
(* terminals that the derivation writes to be exactly the recorded token   *)
(* stream.  A recording is accepted iff the derivation completes with all  *)
(* nodes and all tokens consumed:  the reported tree is a parse of the     *)
(* text according to the specification's grammar.  Where the grammar       *)
(* offers a choice that is invisible in the tree (optional trailing comma, *)
(* `x` for `x: x`) TLC explores both; the wrong one dies on the next token.*)
(* Acceptance is by POSTCONDITION: every run takes Len(pre) + 1 steps.     *)
(***************************************************************************)
EXTENDS PenneGrammar, Json, IOUtils, TLCExt

Rec == ndJsonDeserialize(IOEnv.TRACE)

VARIABLES r,    \* current run
          i,    \* next node of Rec[r].pre
          j     \* tokens of Rec[r].toks consumed
tvars == <<r, i, j, toks, stack, pre, cur>>

RECURSIVE StrRun(_, _)
\* the pieces of a string literal starting at token p
StrRun(ts, p) == IF p <= Len(ts) /\ ts[p].k = "str" /\ "bytes" \in DOMAIN ts[p]
                 THEN <<[bytes |-> ts[p].bytes]>> \o StrRun(ts, p + 1) ELSE <<>>
CurAt(rr, ii, jj) == IF rr <= Len(Rec) /\ ii <= Len(Rec[rr].pre)
                     THEN [node |-> Rec[rr].pre[ii], strs |-> StrRun(Rec[rr].toks, jj + 1)]
                     ELSE NoCur

TInit == /\ r = 1 /\ i = 1 /\ j = 0
         /\ toks = <<>> /\ pre = <<>> /\ stack = <<S("Module")>>
         /\ cur = CurAt(1, 1, 0)

\* one production = one recorded node; what it writes must be what the lexer saw next
TStep == /\ r <= Len(Rec) /\ i <= Len(Rec[r].pre)
         /\ Produce
         /\ pre' = <<Rec[r].pre[i]>>
         /\ j + Len(toks') <= Len(Rec[r].toks)
         /\ \A x \in 1..Len(toks') : TokAbs(toks'[x]) = Rec[r].toks[j + x]
         /\ i' = i + 1 /\ j' = j + Len(toks') /\ r' = r
         /\ cur' = CurAt(r, i + 1, j')

\* the run is complete: nothing open, nothing left over
TEndRun == /\ r <= Len(Rec) /\ i = Len(Rec[r].pre) + 1 /\ stack = <<>> /\ j = Len(Rec[r].toks)
           /\ r' = r + 1 /\ i' = 1 /\ j' = 0
           /\ toks' = <<>> /\ pre' = <<>> /\ stack' = <<S("Module")>>
           /\ cur' = CurAt(r + 1, 1, 0)

TNext == TStep \/ TEndRun
TSpec == TInit /\ [][TNext]_tvars

RECURSIVE Steps(_)
Steps(n) == IF n = 0 THEN 0 ELSE Steps(n - 1) + Len(Rec[n].pre) + 1
Accepted == LET d == TLCGet("stats").diameter - 1
            IN PrintT(<<"TRACE", ToJson([accepted |-> (d = Steps(Len(Rec))), matched |-> d, total |-> Steps(Len(Rec))])>>)
=============================================================================

------------------------------ MODULE Machine ------------------------------
(***************************************************************************)
(* Small-step operational semantics of the executed subset of Penne        *)
(* (C01, C10; also C08's non-interference).  Written from the documented   *)
(* semantics named in property C01 and docs/features.md: fixed-width       *)
(* wrapping integer arithmetic and comparisons whose signedness follows    *)
(* the operand type, primitive casts, forward gotos and block loops,       *)
(* auto-dereferencing pointers with explicit address assignment, arrays    *)
(* and views with their lengths, structs and words, calls and constants.   *)
(*                                                                         *)
(* Values   [t, v]: scalars t \in IntTypes \cup {"bool"} with v = limbs     *)
(*          (Wide.tla); arrays [t |-> "array", v |-> elements]; structures *)
(*          and words [t |-> "struct", n |-> name, v |-> members in        *)
(*          declaration order]; pointers [t |-> "ptr", fr, x, u, p, ro] =  *)
(*          the place "variable x (declaration serial u) of the frame with *)
(*          identity fr, then the path p of element / member positions";   *)
(*          ro marks a view (read-only reference); Uninit; UB.             *)
(* Types    [k |-> "prim", t] | [k |-> "ptr", e] | [k |-> "array", n, e]   *)
(*          | [k |-> "view", e] (the parameter type []T) | [k |-> "named", *)
(*          n] | [k |-> "void"]                                            *)
(* Expressions [k |-> "lit", t, v] | "var" x | "bin" op l r | "un" op e |  *)
(*          "as" t e | "paren" e | "idx" x i | "len" x or r | "arr" es |   *)
(*          "ref" x addr steps (addr = number of address markers, steps =  *)
(*          [k |-> "i", e] element / [k |-> "m", m] member) | "st" n fs    *)
(*          (structure literal, fs = [m, e]) | "call" f args | "sizeof" ty *)
(* Bodies   flat item sequences in the FlatBody vocabulary, one source     *)
(*          line each:  O C IO(c) EO EIO(c) IG(c,n) EG(n) EIG(c,n) G(n)    *)
(*          L(n) LP  and  V(x,ty,e?)  S(x,e)  SI(x,i,e)  A(r,e)  P(e)      *)
(*          CALL(f,args,d)                                                 *)
(*                                                                         *)
(* Memory.  A frame owns its variables; a pointer is a path to a place.    *)
(* Reading through a pointer whose frame has returned, or whose variable   *)
(* has gone out of scope (block left, loop iteration over), is undefined   *)
(* behaviour, as are division by zero, MIN / -1, oversized shifts,         *)
(* out-of-bounds indices and reads of uninitialised cells.  Undefined      *)
(* behaviour stops the machine with status "ub", after which nothing is    *)
(* required of the program.  Arguments for array-view and struct           *)
(* parameters are read-only references to the caller's storage; words and  *)
(* primitives are copied; pointer parameters receive the address the       *)
(* caller wrote.  A write through a read-only reference, to a parameter or *)
(* to a constant is not Penne (C08 rejects it): status "illegal".          *)
(*                                                                         *)
(* Autoderef.  For a place holding a value of type &^k T the expression    *)
(* with d address markers denotes: d = k + 1 the address of the place      *)
(* itself, d <= k the value after k - d dereferences (d = 0: the base      *)
(* value).  On the left of `=` the target is the place after k - d         *)
(* dereferences.  Steps [i] and .m apply after full dereference.           *)
(*                                                                         *)
(* Monitors (the machine invariants of DESIGN C01/C08, field `bad`):       *)
(* every stored value fits the declared type of its cell; a goto only      *)
(* increases the position and only leaves blocks; a call changes a         *)
(* variable of a suspended frame only if some argument of that call is an  *)
(* address (`&...`) from which the variable is reachable.                  *)
(***************************************************************************)
EXTENDS FlatBody, Wide
Lay == INSTANCE Layout      \* named instance: Layout's Min/Max would clash with FiniteSetsExt in the MC modules

IntTypes == {"i8", "i16", "i32", "i64", "i128", "u8", "u16", "u32", "u64", "u128", "usize"}
SignedTypes == {"i8", "i16", "i32", "i64", "i128"}
Width(t) == CASE t \in {"i8", "u8", "char8", "bool"} -> 8
              [] t \in {"i16", "u16"} -> 16
              [] t \in {"i32", "u32"} -> 32
              [] t \in {"i64", "u64", "usize"} -> 64
              [] t \in {"i128", "u128"} -> 128
Signed(t) == t \in SignedTypes
\* undefined behaviour, with the reason (w) it arose
UBw(w) == [t |-> "ub", v |-> <<>>, w |-> w]
UB == UBw("ub")
Uninit == [t |-> "uninit", v |-> <<>>]
IsUB(x) == x.t = "ub"
Val(t, v) == [t |-> t, v |-> v]
BoolVal(b) == [t |-> "bool", v |-> <<IF b THEN 1 ELSE 0>>]
Truth(x) == x.v[1] = 1
IsScalar(x) == x.t \in IntTypes \cup {"bool", "char8"}

(***************************************************************************)
(* Pure operators on scalar values.                                        *)
(***************************************************************************)
BinOp(op, a, b) ==
    IF IsUB(a) THEN a ELSE IF IsUB(b) THEN b
    ELSE LET t == a.t
             w == Width(t)
             x == a.v
             y == b.v
         IN CASE op = "+" -> Val(t, Add(x, y))
              [] op = "-" -> Val(t, Sub(x, y))
              [] op = "*" -> Val(t, Mul(x, y))
              [] op = "/" -> IF IsZero(y) THEN UBw("division by zero")
                             ELSE IF Signed(t) THEN (IF x = MinSigned(w) /\ y = Ones(w) THEN UBw("MIN / -1") ELSE Val(t, SDiv(x, y)))
                             ELSE Val(t, UDiv(x, y))
              [] op = "%" -> IF IsZero(y) THEN UBw("division by zero")
                             ELSE IF Signed(t) THEN (IF x = MinSigned(w) /\ y = Ones(w) THEN UBw("MIN / -1") ELSE Val(t, SRem(x, y)))
                             ELSE Val(t, URem(x, y))
              [] op = "&" -> Val(t, WAnd(x, y))
              [] op = "|" -> Val(t, WOr(x, y))
              [] op = "^" -> Val(t, WXor(x, y))
              [] op = "<<" -> IF ~FitsNat(y) \/ ToNat(y) >= w THEN UBw("oversized shift") ELSE Val(t, Shl(x, ToNat(y)))
              [] op = ">>" -> IF ~FitsNat(y) \/ ToNat(y) >= w THEN UBw("oversized shift") ELSE Val(t, LShr(x, ToNat(y)))
UnOp(op, a) ==
    IF IsUB(a) THEN a
    ELSE CASE op = "-" -> Val(a.t, Neg(a.v))
           [] op = "!" -> Val(a.t, WNot(a.v))
Compare(op, a, b) ==
    IF IsUB(a) THEN a ELSE IF IsUB(b) THEN b
    ELSE LET s == Signed(a.t)
             x == a.v
             y == b.v
         IN BoolVal(CASE op = "==" -> x = y
                      [] op = "!=" -> x # y
                      [] op = "<" -> IF s THEN SLt(x, y) ELSE ULt(x, y)
                      [] op = ">" -> IF s THEN SLt(y, x) ELSE ULt(y, x)
                      [] op = "<=" -> IF s THEN SLe(x, y) ELSE ULe(x, y)
                      [] op = ">=" -> IF s THEN SLe(y, x) ELSE ULe(y, x))
\* `e as T`: truncate, or extend by the signedness of the source type; bool extends with zeros
CastTo(t, a) == IF IsUB(a) THEN a ELSE Val(t, Resize(a.v, Width(t), Signed(a.t)))

(***************************************************************************)
(* Control flow on flat bodies: the declarative definitions (FlatBody's    *)
(* label rule), and linear scans that the machine uses instead.            *)
(* MC_MachineCF checks that they agree on every body up to the bound.      *)
(***************************************************************************)
\* end of the if/else chain that the part starting at p belongs to (last item of the chain)
PartEnd(b, p) == IF b[p].k \in Openers THEN CloseOf(b, p) ELSE p
HasElsePart(b, p) == LET e == PartEnd(b, p)
                     IN b[p].k \in IfKinds /\ e + 1 <= Len(b) /\ b[e + 1].k \in ElseKinds
RECURSIVE ChainEnd(_, _)
ChainEnd(b, p) == IF HasElsePart(b, p) THEN ChainEnd(b, PartEnd(b, p) + 1) ELSE PartEnd(b, p)
GotoTarget(b, p) == CHOOSE j \in LegalTargets(b, p) : TRUE
\* the opener of the block that the closing brace at p closes
OpenerOf(b, p) == CHOOSE o \in 1..p : b[o].k \in Openers /\ CloseOf(b, o) = p
\* the false path of an if-part starting at p: into its else-part, or past it
FalsePath(b, p) == PartEnd(b, p) + 1

RECURSIVE BlkScan(_, _, _), TgtScan(_, _, _, _, _)
\* innermost opener around position j + 1, scanning backwards (d = closers still to be matched)
BlkScan(b, j, d) == IF j = 0 THEN 0
                    ELSE IF b[j].k = "C" THEN BlkScan(b, j - 1, d + 1)
                    ELSE IF b[j].k \in Openers THEN (IF d = 0 THEN j ELSE BlkScan(b, j - 1, d - 1))
                    ELSE BlkScan(b, j - 1, d)
BlkFast(b, i) == BlkScan(b, i - 1, IF b[i].k = "C" THEN 1 ELSE 0)
OpenFast(b, p) == BlkScan(b, p - 1, 0)
\* the first label named n after position j - 1 that lies in a block enclosing the start
\* (lvl = nesting relative to the start, mn = its minimum so far); 0 if there is none
TgtScan(b, n, j, lvl, mn) ==
    IF j > Len(b) THEN 0
    ELSE IF b[j].k = "C" THEN TgtScan(b, n, j + 1, lvl - 1, IF lvl - 1 < mn THEN lvl - 1 ELSE mn)
    ELSE IF b[j].k \in Openers THEN TgtScan(b, n, j + 1, lvl + 1, mn)
    ELSE IF b[j].k = "L" /\ b[j].n = n /\ lvl = mn THEN j
    ELSE TgtScan(b, n, j + 1, lvl, mn)
TargetFast(b, i) == TgtScan(b, b[i].n, i + 1, 0, 0)
\* position of the closing brace of the block opened at o; the function body (o = 0) ends after its last item
EndOf(b, o) == IF o = 0 THEN Len(b) + 2 ELSE CloseFrom(b, o + 1, 0)

(***************************************************************************)
(* Declarations of structures and words; storage layout (Layout.tla).      *)
(***************************************************************************)
Structs(prog) == IF "structs" \in DOMAIN prog THEN prog.structs ELSE <<>>
StructDecl(prog, n) == LET ss == Structs(prog) IN ss[CHOOSE i \in 1..Len(ss) : ss[i].name = n]
MemberIndex(prog, n, mname) == LET d == StructDecl(prog, n)
                               IN IF \E i \in 1..Len(d.ms) : d.ms[i].x = mname
                                  THEN CHOOSE i \in 1..Len(d.ms) : d.ms[i].x = mname ELSE 0
\* parameters of these types receive a read-only reference (a view)
IsViewParam(prog, ty) == ty.k = "view" \/ (ty.k = "named" /\ StructDecl(prog, ty.n).kind = "struct")
RECURSIVE LayoutOf(_, _), LayoutMembers(_, _, _)
LayoutOf(prog, ty) ==
    CASE ty.k = "prim" -> [k |-> "prim", t |-> ty.t]
      [] ty.k = "ptr" -> [k |-> "ptr"]
      [] ty.k = "array" -> [k |-> "array", n |-> ty.n, e |-> LayoutOf(prog, ty.e)]
      [] ty.k = "named" -> LET d == StructDecl(prog, ty.n)
                               ms == LayoutMembers(prog, d.ms, 1)
                           IN IF d.kind = "word"
                              THEN [k |-> "word", bytes |-> d.bits \div 8, malign |-> Lay!StructAlign(ms, 1, 1, "members")]
                              ELSE [k |-> "struct", ms |-> ms]
LayoutMembers(prog, ms, i) == IF i > Len(ms) THEN <<>> ELSE <<LayoutOf(prog, ms[i].ty)>> \o LayoutMembers(prog, ms, i + 1)
\* `|:T|`; where the two admissible alignments of word members disagree the docs do not fix the value (unconstrained)
SizeOfValue(prog, ty) == LET l == LayoutOf(prog, ty)
                         IN IF Lay!SizeOfM(l, "declared") = Lay!SizeOfM(l, "members")
                            THEN Val("usize", FromNat(Lay!SizeOfM(l, "declared"), 64)) ELSE UBw("size not fixed by the documentation")
RECURSIVE UninitOf(_, _), UninitMembers(_, _, _), TypeAt(_, _, _), Conforms(_, _, _), Rep(_, _)
Rep(x, n) == IF n = 0 THEN <<>> ELSE <<x>> \o Rep(x, n - 1)
UninitOf(prog, ty) ==
    CASE ty.k = "array" -> [t |-> "array", v |-> Rep(UninitOf(prog, ty.e), ty.n)]
      [] ty.k = "named" -> [t |-> "struct", n |-> ty.n, v |-> UninitMembers(prog, StructDecl(prog, ty.n).ms, 1)]
      [] OTHER -> Uninit
UninitMembers(prog, ms, i) == IF i > Len(ms) THEN <<>> ELSE <<UninitOf(prog, ms[i].ty)>> \o UninitMembers(prog, ms, i + 1)
\* the declared type of the cell at path p inside a variable of type ty
TypeAt(prog, ty, p) ==
    IF p = <<>> THEN ty
    ELSE IF ty.k = "array" THEN TypeAt(prog, ty.e, Tail(p))
    ELSE IF ty.k = "named" THEN TypeAt(prog, StructDecl(prog, ty.n).ms[p[1]].ty, Tail(p))
    ELSE [k |-> "none"]
\* the value fits the declared type: scalars have exactly the limbs of their width
Conforms(prog, x, ty) ==
    IF x.t = "uninit" THEN TRUE
    ELSE CASE ty.k = "prim" -> /\ x.t = ty.t /\ Len(x.v) = Limbs(Width(ty.t))
                               /\ \A i \in 1..Len(x.v) : x.v[i] \in 0..255
                               /\ (ty.t = "bool" => x.v[1] \in {0, 1})
           [] ty.k = "ptr" -> x.t = "ptr"
           [] ty.k = "view" -> x.t = "ptr" /\ x.ro
           [] ty.k = "array" -> x.t = "array" /\ Len(x.v) = ty.n /\ \A i \in 1..Len(x.v) : Conforms(prog, x.v[i], ty.e)
           [] ty.k = "named" -> LET d == StructDecl(prog, ty.n)
                                IN /\ x.t = "struct" /\ x.n = ty.n /\ Len(x.v) = Len(d.ms)
                                   /\ \A i \in 1..Len(x.v) : Conforms(prog, x.v[i], d.ms[i].ty)
           [] OTHER -> FALSE

(***************************************************************************)
(* The machine.  prog = [structs, consts, fns]; fns[i] = [name, params,    *)
(* ret, body, res (expression, present iff ret is not void)].              *)
(* m = [status, frames, glob, out, fuel, exit, next, rv, bad]              *)
(* a frame = [id, f, pc, env, d, nested, snap, reach]; an environment is a *)
(* sequence of entries [x, v, ty, mut, u, blk, end].                       *)
(***************************************************************************)
MaxFrames == 12
FnIndex(prog, name) == CHOOSE i \in 1..Len(prog.fns) : prog.fns[i].name = name
Entry(x, v, ty, mut, u, blk, end) == [x |-> x, v |-> v, ty |-> ty, mut |-> mut, u |-> u, blk |-> blk, end |-> end]
\* index of the (latest) entry for x, 0 if there is none
Lookup(env, x) == LET S == {i \in 1..Len(env) : env[i].x = x}
                  IN IF S = {} THEN 0 ELSE CHOOSE i \in S : \A j \in S : j <= i
Top(m) == m.frames[Len(m.frames)]
SetTop(m, fr) == [m EXCEPT !.frames[Len(m.frames)] = fr]
Stop(m, s) == [m EXCEPT !.status = s]
\* stop on undefined behaviour, remembering the reason carried by the value
StopUB(m, x) == [m EXCEPT !.status = "ub", !.why = IF "w" \in DOMAIN x THEN x.w ELSE "ub"]
Flag(m, what) == [m EXCEPT !.bad = Append(@, what)]
FrameIdx(m, fid) == LET S == {i \in 1..Len(m.frames) : m.frames[i].id = fid} IN IF S = {} THEN 0 ELSE CHOOSE i \in S : TRUE
EnvOf(m, fid) == IF fid = 0 THEN m.glob ELSE LET i == FrameIdx(m, fid) IN IF i = 0 THEN <<>> ELSE m.frames[i].env

Place(fr, x, u, p, ro) == [t |-> "ptr", v |-> <<>>, fr |-> fr, x |-> x, u |-> u, p |-> p, ro |-> ro]
\* the place a name denotes: a variable of the running function, or a constant
VarPlace(m, x) ==
    LET env == IF Len(m.frames) = 0 THEN <<>> ELSE Top(m).env
        i == Lookup(env, x)
        g == Lookup(m.glob, x)
    IN IF i # 0 THEN Place(Top(m).id, x, env[i].u, <<>>, ~env[i].mut)
       ELSE IF g # 0 THEN Place(0, x, 0, <<>>, TRUE)
       ELSE UB
RECURSIVE ReadAt(_, _), UpdateAt(_, _, _)
ReadAt(x, p) == IF p = <<>> THEN x
                ELSE IF x.t \in {"array", "struct"} /\ p[1] \in 1..Len(x.v) THEN ReadAt(x.v[p[1]], Tail(p))
                ELSE UB
UpdateAt(x, p, new) == IF p = <<>> THEN new ELSE [x EXCEPT !.v[p[1]] = UpdateAt(@, Tail(p), new)]
\* the value stored at a place; UB if the place no longer exists (dangling pointer)
ReadPlace(m, pl) ==
    IF pl.t # "ptr" THEN UB
    ELSE LET env == EnvOf(m, pl.fr)
             i == Lookup(env, pl.x)
         IN IF i = 0 THEN UBw("dangling pointer") ELSE IF env[i].u # pl.u THEN UBw("dangling pointer") ELSE ReadAt(env[i].v, pl.p)
WritePlace(m, pl, new) ==
    LET f == FrameIdx(m, pl.fr)
        i == Lookup(m.frames[f].env, pl.x)
    IN [m EXCEPT !.frames[f].env[i].v = UpdateAt(@, pl.p, new)]
DeclaredTypeAt(prog, m, pl) == LET env == EnvOf(m, pl.fr) IN TypeAt(prog, env[Lookup(env, pl.x)].ty, pl.p)
RECURSIVE PtrDepth(_, _), Follow(_, _, _), FullDeref(_, _)
\* k for a place holding a value of type &^k T
PtrDepth(m, pl) == LET x == ReadPlace(m, pl) IN IF x.t = "ptr" THEN 1 + PtrDepth(m, x) ELSE 0
Follow(m, pl, n) == IF n = 0 THEN pl ELSE LET x == ReadPlace(m, pl) IN IF x.t # "ptr" THEN UB ELSE Follow(m, x, n - 1)
FullDeref(m, pl) == LET x == ReadPlace(m, pl) IN IF x.t = "ptr" THEN FullDeref(m, x) ELSE pl

\* every reference form as [x, addr, steps]
AsRef(e) == CASE e.k = "var" -> [x |-> e.x, addr |-> 0, steps |-> <<>>]
              [] e.k = "idx" -> [x |-> e.x, addr |-> 0, steps |-> <<[k |-> "i", e |-> e.i]>>]
              [] e.k = "S" -> [x |-> e.x, addr |-> 0, steps |-> <<>>]
              [] e.k = "SI" -> [x |-> e.x, addr |-> 0, steps |-> <<[k |-> "i", e |-> e.i]>>]
              [] e.k = "len" -> IF "r" \in DOMAIN e THEN e.r ELSE [x |-> e.x, addr |-> 0, steps |-> <<>>]
              [] OTHER -> [x |-> e.x, addr |-> e.addr, steps |-> e.steps]
IsRefExpr(e) == e.k \in {"var", "idx", "ref"}
\* parentheses never change what an expression denotes: `f((x))` passes the same view as `f(x)`
RECURSIVE Strip(_)
Strip(e) == IF e.k = "paren" THEN Strip(e.e) ELSE e

R(m, x) == [m |-> m, v |-> x]
Alive(r) == r.m.status = "run" /\ ~IsUB(r.v)
\* hand a failure on (keeping its reason)
Dead(r) == [m |-> r.m, v |-> IF IsUB(r.v) THEN r.v ELSE UB]
RECURSIVE PtrsIn(_), Closure(_, _, _), EnvsOf(_, _)
PtrsIn(x) == IF x.t = "ptr" THEN {x}
             ELSE IF x.t \in {"array", "struct"} THEN UNION {PtrsIn(x.v[i]) : i \in 1..Len(x.v)} ELSE {}
\* the variables <<frame, name>> reachable from a set of pointers
Closure(m, todo, seen) ==
    IF todo = {} THEN seen
    ELSE LET p == CHOOSE p \in todo : TRUE
             key == <<p.fr, p.x>>
         IN IF key \in seen THEN Closure(m, todo \ {p}, seen)
            ELSE LET env == EnvOf(m, p.fr)
                     i == Lookup(env, p.x)
                 IN Closure(m, (todo \ {p}) \cup (IF i = 0 THEN {} ELSE PtrsIn(env[i].v)), seen \cup {key})
EnvsOf(frames, i) == IF i > Len(frames) THEN <<>> ELSE <<[id |-> frames[i].id, env |-> frames[i].env]>> \o EnvsOf(frames, i + 1)
\* variables of suspended frames that differ from the snapshot taken when the call was entered
Changed(snap, frames) ==
    UNION { { <<snap[j].id, snap[j].env[i].x>> : i \in {i \in 1..Len(snap[j].env) : snap[j].env[i].v # frames[j].env[i].v} } : j \in 1..Len(snap) }

RECURSIVE Eval(_, _, _), EvalAll(_, _, _, _), Steps(_, _, _, _, _), Fields(_, _, _, _, _, _),
          BindArgs(_, _, _, _, _, _, _, _), MStep(_, _), RunNested(_, _, _), PrintAll(_, _, _, _)

\* apply element / member steps to a place, each after full dereference; -> [m, v |-> place or UB]
Steps(prog, m, pl, steps, i) ==
    IF pl.t # "ptr" THEN R(m, UB)
    ELSE IF i > Len(steps) THEN R(m, pl)
    ELSE LET base == FullDeref(m, pl)
             bv == ReadPlace(m, base)
             s == steps[i]
         IN IF s.k = "m"
            THEN LET j == IF bv.t = "struct" THEN MemberIndex(prog, bv.n, s.m) ELSE 0
                 IN IF j = 0 THEN R(m, UB) ELSE Steps(prog, m, [base EXCEPT !.p = Append(@, j)], steps, i + 1)
            ELSE LET ix == Eval(prog, m, s.e)
                 IN IF ~Alive(ix) THEN Dead(ix)
                    ELSE IF bv.t # "array" \/ ~IsScalar(ix.v) THEN R(ix.m, UB)
                    ELSE IF ~FitsNat(ix.v.v) THEN R(ix.m, UBw("index out of bounds"))
                    ELSE IF ToNat(ix.v.v) >= Len(bv.v) THEN R(ix.m, UBw("index out of bounds"))
                    ELSE Steps(prog, ix.m, [base EXCEPT !.p = Append(@, ToNat(ix.v.v) + 1)], steps, i + 1)
\* the place a reference expression denotes after its steps (before the final dereferences)
RefPlace(prog, m, r) == Steps(prog, m, VarPlace(m, r.x), r.steps, 1)
\* the value of a reference expression with r.addr address markers
RefValue(prog, m, r) ==
    LET a == RefPlace(prog, m, r)
    IN IF ~Alive(a) THEN Dead(a)
       ELSE LET k == PtrDepth(a.m, a.v)
            IN IF r.addr > k + 1 THEN R(a.m, UB)
               ELSE IF r.addr = k + 1 THEN R(a.m, a.v)
               ELSE LET x == ReadPlace(a.m, Follow(a.m, a.v, k - r.addr))
                    IN IF x.t = "uninit" THEN R(a.m, UBw("uninitialised read")) ELSE R(a.m, x)

Eval(prog, m, e) ==
    CASE e.k = "lit" -> R(m, Val(e.t, e.v))
      [] e.k \in {"var", "idx", "ref"} -> RefValue(prog, m, AsRef(e))
      [] e.k = "paren" -> Eval(prog, m, e.e)
      [] e.k = "bin" -> LET a == Eval(prog, m, e.l)
                        IN IF ~Alive(a) THEN Dead(a)
                           ELSE LET b == Eval(prog, a.m, e.r)
                                IN IF ~Alive(b) THEN Dead(b) ELSE R(b.m, BinOp(e.op, a.v, b.v))
      [] e.k = "un" -> LET a == Eval(prog, m, e.e) IN IF ~Alive(a) THEN Dead(a) ELSE R(a.m, UnOp(e.op, a.v))
      [] e.k = "as" -> LET a == Eval(prog, m, e.e) IN IF ~Alive(a) THEN Dead(a) ELSE R(a.m, CastTo(e.t, a.v))
      [] e.k = "arr" -> LET a == EvalAll(prog, m, e.es, 1)
                        IN IF ~a.ok THEN R(a.m, a.ub) ELSE R(a.m, [t |-> "array", v |-> a.vs])
      [] e.k = "st" -> LET a == Fields(prog, m, e.n, e.fs, 1, UninitMembers(prog, StructDecl(prog, e.n).ms, 1))
                       IN IF ~a.ok THEN R(a.m, a.ub) ELSE R(a.m, [t |-> "struct", n |-> e.n, v |-> a.vs])
      [] e.k = "len" -> LET a == RefPlace(prog, m, AsRef(e))
                        IN IF ~Alive(a) THEN Dead(a)
                           ELSE LET bv == ReadPlace(a.m, FullDeref(a.m, a.v))
                                IN IF bv.t = "array" THEN R(a.m, Val("usize", FromNat(Len(bv.v), 64))) ELSE R(a.m, UB)
      [] e.k = "sizeof" -> R(m, SizeOfValue(prog, e.ty))
      [] e.k = "call" ->
           LET depth == Len(m.frames)
               en == BindArgs(prog, [m EXCEPT !.next = @ + 1], prog.fns[FnIndex(prog, e.f)].params, e.args, 1, <<>>, m.next, {})
           IN IF en.m.status # "run" THEN R(en.m, UB)
              ELSE IF ~en.ok THEN R(StopUB(en.m, en.ub), UB)
              ELSE IF depth >= MaxFrames THEN R(Stop(en.m, "fuel"), UB)
              ELSE LET fin == RunNested(prog, [en.m EXCEPT !.frames = Append(@,
                                   [id |-> m.next, f |-> FnIndex(prog, e.f), pc |-> 1, env |-> en.env, d |-> "", nested |-> TRUE,
                                    snap |-> EnvsOf(en.m.frames, 1), reach |-> Closure(en.m, en.seeds, {})])], depth)
                   IN IF fin.status # "run" THEN R(fin, UB) ELSE R(fin, fin.rv)
EvalAll(prog, m, es, i) ==
    IF i > Len(es) THEN [m |-> m, ok |-> TRUE, vs |-> <<>>, ub |-> UB]
    ELSE LET a == Eval(prog, m, es[i])
         IN IF ~Alive(a) THEN [m |-> a.m, ok |-> FALSE, vs |-> <<>>, ub |-> Dead(a).v]
            ELSE LET rest == EvalAll(prog, a.m, es, i + 1)
                 IN [m |-> rest.m, ok |-> rest.ok, vs |-> <<a.v>> \o rest.vs, ub |-> rest.ub]
\* members of a structure literal in written order, stored at their declared position
Fields(prog, m, n, fs, i, acc) ==
    IF i > Len(fs) THEN [m |-> m, ok |-> TRUE, vs |-> acc, ub |-> UB]
    ELSE LET a == Eval(prog, m, fs[i].e)
             j == MemberIndex(prog, n, fs[i].m)
         IN IF ~Alive(a) \/ j = 0 THEN [m |-> a.m, ok |-> FALSE, vs |-> acc, ub |-> Dead(a).v]
            ELSE Fields(prog, a.m, n, fs, i + 1, [acc EXCEPT ![j] = a.v])
EvalCond(prog, m, c) ==
    LET a == Eval(prog, m, c.l)
    IN IF ~Alive(a) THEN Dead(a)
       ELSE LET b == Eval(prog, a.m, c.r) IN IF ~Alive(b) THEN Dead(b) ELSE R(b.m, Compare(c.op, a.v, b.v))

\* bind arguments to parameters, left to right; -> [m, ok, env, seeds (the addresses the caller wrote)]
BindArgs(prog, m, ps, args, i, env, fid, seeds) ==
    IF i > Len(ps) THEN [m |-> m, ok |-> TRUE, env |-> env, seeds |-> seeds]
    ELSE LET p == ps[i]
             a == IF IsViewParam(prog, ps[i].ty) THEN Strip(args[i]) ELSE args[i]
             fail(mm, x) == [m |-> mm, ok |-> FALSE, env |-> env, seeds |-> seeds, ub |-> IF IsUB(x) THEN x ELSE UB]
         IN IF IsViewParam(prog, p.ty)
            THEN IF IsRefExpr(a) /\ AsRef(a).addr = 0
                 THEN \* a view of the caller's storage
                      LET s == RefPlace(prog, m, AsRef(a))
                          base == IF Alive(s) THEN FullDeref(s.m, s.v) ELSE UB
                      IN IF ~Alive(s) THEN fail(s.m, s.v)
                         ELSE IF ReadPlace(s.m, base).t \notin {"array", "struct"} THEN fail(s.m, ReadPlace(s.m, base))
                         ELSE BindArgs(prog, s.m, ps, args, i + 1,
                                       Append(env, Entry(p.x, [base EXCEPT !.ro = TRUE], [k |-> "view", e |-> p.ty], FALSE, fid, 0, 0)), fid, seeds)
                 ELSE \* a view of a temporary that lives as long as the call
                      LET r == Eval(prog, m, a)
                          tmp == "$" \o p.x
                      IN IF ~Alive(r) THEN fail(r.m, r.v)
                         ELSE BindArgs(prog, r.m, ps, args, i + 1,
                                       env \o <<Entry(tmp, r.v, [k |-> "temp"], FALSE, fid, 0, 0),
                                                Entry(p.x, Place(fid, tmp, fid, <<>>, TRUE), [k |-> "view", e |-> p.ty], FALSE, fid, 0, 0)>>,
                                       fid, seeds)
            ELSE LET r == Eval(prog, m, a)
                 IN IF ~Alive(r) THEN fail(r.m, r.v)
                    ELSE BindArgs(prog, r.m, ps, args, i + 1, Append(env, Entry(p.x, r.v, p.ty, FALSE, fid, 0, 0)), fid,
                                  IF r.v.t = "ptr" /\ a.k = "ref" THEN seeds \cup {r.v} ELSE seeds)

\* leave scopes: only variables whose block still encloses position q survive
Prune(env, q) == SelectSeq(env, LAMBDA en : en.end = 0 \/ (en.blk < q /\ q < en.end))
Jump(m, q) == SetTop(m, [Top(m) EXCEPT !.pc = q, !.env = Prune(@, q)])
Next1(m) == SetTop(m, [Top(m) EXCEPT !.pc = @ + 1])

\* `&^d x steps = value`
Assign(prog, m, r, val) ==
    LET a == RefPlace(prog, m, r)
    IN IF a.m.status # "run" THEN a.m
       ELSE IF IsUB(a.v) THEN StopUB(a.m, a.v)
       ELSE LET k == PtrDepth(a.m, a.v)
                target == IF r.addr > k THEN UB ELSE Follow(a.m, a.v, k - r.addr)
            IN IF r.addr > k THEN Stop(a.m, "stuck")
               ELSE IF target.t # "ptr" THEN StopUB(a.m, target)
               ELSE IF IsUB(ReadPlace(a.m, target)) THEN StopUB(a.m, ReadPlace(a.m, target))
               ELSE IF target.ro THEN Stop(a.m, "illegal")
               ELSE LET m2 == WritePlace(a.m, target, val)
                    IN IF Conforms(prog, val, DeclaredTypeAt(prog, a.m, target)) THEN m2 ELSE Flag(m2, "width")

MStep(prog, m) ==
    LET fr == Top(m)
        fn == prog.fns[fr.f]
        b == fn.body
        pc == fr.pc
    IN IF m.fuel = 0 THEN Stop(m, "fuel")
       ELSE LET m1 == [m EXCEPT !.fuel = @ - 1] IN
       IF pc > Len(b)
       THEN \* return
            LET r == IF fn.ret.k = "void" THEN R(m1, Uninit) ELSE Eval(prog, m1, fn.res)
            IN IF r.m.status # "run" THEN r.m
               ELSE IF IsUB(r.v) THEN StopUB(r.m, r.v)
               ELSE LET mm == r.m
                        n == Len(mm.frames)
                        me == Top(mm)
                    IN IF n = 1
                       THEN [mm EXCEPT !.status = "done", !.exit = IF fn.ret.k = "void" THEN <<0>> ELSE r.v.v]
                       ELSE LET lower == SubSeq(mm.frames, 1, n - 1)
                                ch == Changed(me.snap, lower) \ me.reach
                                mon == IF ch = {} THEN mm ELSE Flag(mm, "nonint")
                            IN IF me.nested THEN [mon EXCEPT !.frames = lower, !.rv = r.v]
                               ELSE LET back == [mon EXCEPT !.frames = [lower EXCEPT ![n - 1].pc = @ + 1]]
                                    IN IF me.d = "" THEN back
                                       ELSE Assign(prog, back, [x |-> me.d, addr |-> 0, steps |-> <<>>], r.v)
       ELSE LET it == b[pc] IN
            CASE it.k \in {"O", "EO", "L"} -> Next1(m1)
              [] it.k = "C" -> LET o == OpenFast(b, pc)
                               IN IF b[o].k \in IfKinds /\ HasElsePart(b, o)
                                  THEN Jump(m1, ChainEnd(b, o) + 1)      \* skip the else-parts
                                  ELSE Jump(m1, pc + 1)
              [] it.k \in {"IO", "EIO"} ->
                   LET c == EvalCond(prog, m1, it.c)
                   IN IF c.m.status # "run" THEN c.m
                      ELSE IF IsUB(c.v) THEN StopUB(c.m, c.v)
                      ELSE IF Truth(c.v) THEN Next1(c.m) ELSE Jump(c.m, FalsePath(b, pc))
              [] it.k \in {"IG", "EIG", "G", "EG"} ->
                   LET c == IF it.k \in {"G", "EG"} THEN R(m1, BoolVal(TRUE)) ELSE EvalCond(prog, m1, it.c)
                       q == TargetFast(b, pc)
                   IN IF c.m.status # "run" THEN c.m
                      ELSE IF IsUB(c.v) THEN StopUB(c.m, c.v)
                      ELSE IF ~Truth(c.v) THEN Next1(c.m)
                      ELSE IF q = 0 THEN Stop(c.m, "stuck")
                      ELSE LET j == Jump(c.m, q)
                           IN IF q > pc /\ Encloses(b, BlkFast(b, q), pc) THEN j ELSE Flag(j, "goto")
              [] it.k = "LP" -> LET o == BlkFast(b, pc)
                                IN SetTop(m1, [fr EXCEPT !.pc = o + 1, !.env = SelectSeq(@, LAMBDA en : en.blk # o \/ en.end = 0)])
              [] it.k = "V" ->
                   LET r == IF "e" \in DOMAIN it THEN Eval(prog, m1, it.e) ELSE R(m1, UninitOf(prog, it.ty))
                       o == BlkFast(b, pc)
                   IN IF r.m.status # "run" THEN r.m
                      ELSE IF IsUB(r.v) THEN StopUB(r.m, r.v)
                      ELSE LET mm == r.m
                               m2 == Next1([mm EXCEPT !.next = @ + 1,
                                                      !.frames[Len(mm.frames)].env = Append(@, Entry(it.x, r.v, it.ty, TRUE, mm.next, o, EndOf(b, o)))])
                           IN IF Conforms(prog, r.v, it.ty) THEN m2 ELSE Flag(m2, "width")
              [] it.k \in {"S", "SI", "A"} ->
                   LET r == Eval(prog, m1, it.e)
                   IN IF r.m.status # "run" THEN r.m
                      ELSE IF IsUB(r.v) THEN StopUB(r.m, r.v)
                      ELSE LET m2 == Assign(prog, r.m, IF it.k = "A" THEN it.r ELSE AsRef(it), r.v)
                           IN IF m2.status # "run" THEN m2 ELSE Next1(m2)
              [] it.k = "P" -> LET r == Eval(prog, m1, it.e)
                               IN IF r.m.status # "run" THEN r.m
                                  ELSE IF IsUB(r.v) THEN StopUB(r.m, r.v)
                                  ELSE IF ~IsScalar(r.v) THEN Stop(r.m, "stuck")
                                  ELSE [Next1(r.m) EXCEPT !.out = Append(@, r.v)]
              \* one print! call with several arguments (rendered print!(e1, "\n", e2, "\n", ...)): the values appear in
              \* argument order, exactly as if each had been printed by its own call
              [] it.k = "PP" -> PrintAll(prog, m1, it.es, 1)
              \* print!("part1", "part2", ..., "\n"): a call whose arguments are all string literals shows their text, whatever
              \* characters it holds (a `%` is a `%`); one line of output
              [] it.k = "T" -> [Next1(m1) EXCEPT !.out = Append(@, [t |-> "text", v |-> it.parts])]
              [] it.k = "CALL" ->
                   LET g == FnIndex(prog, it.f)
                       en == BindArgs(prog, [m1 EXCEPT !.next = @ + 1], prog.fns[g].params, it.args, 1, <<>>, m1.next, {})
                   IN IF en.m.status # "run" THEN en.m
                      ELSE IF ~en.ok THEN StopUB(en.m, en.ub)
                      ELSE IF Len(m.frames) >= MaxFrames THEN Stop(en.m, "fuel")
                      ELSE [en.m EXCEPT !.frames = Append(@, [id |-> m1.next, f |-> g, pc |-> 1, env |-> en.env, d |-> it.d, nested |-> FALSE,
                                                            snap |-> EnvsOf(en.m.frames, 1), reach |-> Closure(en.m, en.seeds, {})])]
              [] OTHER -> Stop(m1, "stuck")
PrintAll(prog, m, es, i) ==
    IF i > Len(es) THEN Next1(m)
    ELSE LET r == Eval(prog, m, es[i])
         IN IF r.m.status # "run" THEN r.m
            ELSE IF IsUB(r.v) THEN StopUB(r.m, r.v)
            ELSE IF ~IsScalar(r.v) THEN Stop(r.m, "stuck")
            ELSE PrintAll(prog, [r.m EXCEPT !.out = Append(@, r.v)], es, i + 1)
\* run until the frame pushed on top of `depth` frames has returned
RunNested(prog, m, depth) == IF m.status # "run" \/ Len(m.frames) <= depth THEN m ELSE RunNested(prog, MStep(prog, m), depth)

\* constants: evaluated in the order given, each seeing the earlier ones
RECURSIVE ConstEnv(_, _, _, _)
ConstEnv(prog, cs, i, m) ==
    IF i > Len(cs) \/ m.status # "run" THEN m
    ELSE LET r == Eval(prog, m, cs[i].e)
             ty == IF "ty" \in DOMAIN cs[i] THEN cs[i].ty ELSE [k |-> "prim", t |-> cs[i].t]
         IN IF r.m.status # "run" THEN r.m ELSE IF IsUB(r.v) THEN StopUB(r.m, r.v)
            ELSE ConstEnv(prog, cs, i + 1, [r.m EXCEPT !.glob = Append(@, Entry(cs[i].x, r.v, ty, FALSE, 0, 0, 0))])
MInit(prog, fuel) ==
    LET m0 == [status |-> "run", frames |-> <<>>, glob |-> <<>>, out |-> <<>>, fuel |-> fuel, exit |-> <<>>,
               next |-> 2, rv |-> Uninit, bad |-> <<>>, why |-> ""]
        g == ConstEnv(prog, prog.consts, 1, m0)
    IN [g EXCEPT !.frames = <<[id |-> 1, f |-> FnIndex(prog, "main"), pc |-> 1, env |-> <<>>, d |-> "", nested |-> FALSE,
                              snap |-> <<>>, reach |-> {}]>>]
\* the value a print statement shows: the 128-bit pattern of the value extended by its own signedness
Shown(x) == IF x.t = "bool" THEN x.v ELSE Resize(x.v, 128, Signed(x.t))

(***************************************************************************)
(* Named lengths (C10: "a named constant used as an array length gives     *)
(* arrays of exactly that many elements").  A type `[NAME]T` travels as    *)
(* [k |-> "array", n, e, nc |-> NAME]; the machine lays the array out with *)
(* n elements, so a program is only meaningful if n IS the value the       *)
(* machine computes for the constant NAME.  (Dimension audit: the random   *)
(* generator writes named lengths; Trace_Machine demands this of every     *)
(* logged program.)                                                        *)
(***************************************************************************)
RECURSIVE NamedLengthOK(_, _)
NamedLengthOK(glob, ty) ==
    CASE ty.k = "array" -> /\ ("nc" \in DOMAIN ty =>
                                 LET i == Lookup(glob, ty.nc)
                                 IN i # 0 /\ glob[i].v.t = "usize" /\ glob[i].v.v = FromNat(ty.n, 64))
                           /\ NamedLengthOK(glob, ty.e)
      [] ty.k \in {"ptr", "view"} -> NamedLengthOK(glob, ty.e)
      [] OTHER -> TRUE
\* every type written in a declaration of the program: members, constants, parameters, results, variables
NamedLengthsOK(prog, glob) ==
    /\ \A i \in 1..Len(Structs(prog)) : \A j \in 1..Len(Structs(prog)[i].ms) : NamedLengthOK(glob, Structs(prog)[i].ms[j].ty)
    /\ \A i \in 1..Len(prog.consts) : ("ty" \in DOMAIN prog.consts[i] => NamedLengthOK(glob, prog.consts[i].ty))
    /\ \A i \in 1..Len(prog.fns) :
          /\ \A j \in 1..Len(prog.fns[i].params) : NamedLengthOK(glob, prog.fns[i].params[j].ty)
          /\ \A j \in 1..Len(prog.fns[i].body) :
                (prog.fns[i].body[j].k = "V" /\ "ty" \in DOMAIN prog.fns[i].body[j]) => NamedLengthOK(glob, prog.fns[i].body[j].ty)

RECURSIVE RunFrom(_, _)
\* run to completion (used by the case-emitting configurations; bounded by fuel)
RunFrom(prog, m) == IF m.status # "run" THEN m ELSE RunFrom(prog, MStep(prog, m))
Run(prog, fuel) == RunFrom(prog, MInit(prog, fuel))
=============================================================================

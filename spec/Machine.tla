------------------------------ MODULE Machine ------------------------------
(***************************************************************************)
(* Small-step operational semantics of the executed subset of Penne        *)
(* (C01, C10; also used by C08/C09/C05).  Written from the documented      *)
(* semantics named in property C01: fixed-width wrapping integer           *)
(* arithmetic and comparisons whose signedness follows the operand type,   *)
(* primitive casts, forward gotos and block loops, calls and constants.    *)
(*                                                                         *)
(* Values      [t |-> type, v |-> limbs]  (Wide.tla; bool and char8 are    *)
(*             one limb), or UB.                                           *)
(* Expressions [k |-> "lit", t, v] | [k |-> "var", x] | [k |-> "bin", op,  *)
(*             l, r] | [k |-> "un", op, e] | [k |-> "as", t, e]            *)
(*             | [k |-> "paren", e] | [k |-> "idx", x, i] | [k |-> "len",  *)
(*             x] | [k |-> "arr", es]                                      *)
(* Bodies      flat item sequences in the FlatBody vocabulary, each item   *)
(*             one source line:  O C IO(c) EO EIO(c) IG(c,n) EG(n)         *)
(*             EIG(c,n) G(n) L(n) LP  and  V(x,t,e)  S(x,e)  SI(x,i,e)     *)
(*             P(e)  CALL(f,args,d)                                        *)
(* Undefined behaviour (division by zero, MIN / -1, oversized shifts,      *)
(* out-of-bounds indices, reads of undeclared variables) stops the machine *)
(* with status "ub", after which nothing is required of the program.       *)
(***************************************************************************)
EXTENDS FlatBody, Wide

IntTypes == {"i8", "i16", "i32", "i64", "i128", "u8", "u16", "u32", "u64", "u128", "usize"}
SignedTypes == {"i8", "i16", "i32", "i64", "i128"}
Width(t) == CASE t \in {"i8", "u8", "char8", "bool"} -> 8
              [] t \in {"i16", "u16"} -> 16
              [] t \in {"i32", "u32"} -> 32
              [] t \in {"i64", "u64", "usize"} -> 64
              [] t \in {"i128", "u128"} -> 128
Signed(t) == t \in SignedTypes
UB == [t |-> "ub", v |-> <<>>]
IsUB(x) == x.t = "ub"
Val(t, v) == [t |-> t, v |-> v]
BoolVal(b) == [t |-> "bool", v |-> <<IF b THEN 1 ELSE 0>>]
Truth(x) == x.v[1] = 1

(***************************************************************************)
(* Pure operators on values.                                               *)
(***************************************************************************)
BinOp(op, a, b) ==
    IF IsUB(a) \/ IsUB(b) THEN UB
    ELSE LET t == a.t
             w == Width(t)
             x == a.v
             y == b.v
         IN CASE op = "+" -> Val(t, Add(x, y))
              [] op = "-" -> Val(t, Sub(x, y))
              [] op = "*" -> Val(t, Mul(x, y))
              [] op = "/" -> IF IsZero(y) THEN UB
                             ELSE IF Signed(t) THEN (IF x = MinSigned(w) /\ y = Ones(w) THEN UB ELSE Val(t, SDiv(x, y)))
                             ELSE Val(t, UDiv(x, y))
              [] op = "%" -> IF IsZero(y) THEN UB
                             ELSE IF Signed(t) THEN (IF x = MinSigned(w) /\ y = Ones(w) THEN UB ELSE Val(t, SRem(x, y)))
                             ELSE Val(t, URem(x, y))
              [] op = "&" -> Val(t, WAnd(x, y))
              [] op = "|" -> Val(t, WOr(x, y))
              [] op = "^" -> Val(t, WXor(x, y))
              [] op = "<<" -> IF ~FitsNat(y) \/ ToNat(y) >= w THEN UB ELSE Val(t, Shl(x, ToNat(y)))
              [] op = ">>" -> IF ~FitsNat(y) \/ ToNat(y) >= w THEN UB ELSE Val(t, LShr(x, ToNat(y)))
UnOp(op, a) ==
    IF IsUB(a) THEN UB
    ELSE CASE op = "-" -> Val(a.t, Neg(a.v))
           [] op = "!" -> Val(a.t, WNot(a.v))
Compare(op, a, b) ==
    IF IsUB(a) \/ IsUB(b) THEN UB
    ELSE LET s == Signed(a.t)
             x == a.v
             y == b.v
         IN BoolVal(CASE op = "==" -> x = y
                      [] op = "!=" -> x # y
                      [] op = "<" -> IF s THEN SLt(x, y) ELSE ULt(x, y)
                      [] op = ">" -> IF s THEN SLt(y, x) ELSE ULt(y, x)
                      [] op = "<=" -> IF s THEN SLe(x, y) ELSE ULe(x, y)
                      [] op = ">=" -> IF s THEN SLe(y, x) ELSE ULe(y, x))
\* `e as T`: truncate, or extend by the signedness of the source type; bool extends with zeros
CastTo(t, a) == IF IsUB(a) THEN UB ELSE Val(t, Resize(a.v, Width(t), Signed(a.t)))

(***************************************************************************)
(* Expression evaluation in an environment (a function from names to       *)
(* values; arrays are values [t |-> "array", et, v |-> sequence of values]).*)
(***************************************************************************)
RECURSIVE Eval(_, _), EvalAll(_, _, _)
Eval(e, env) ==
    CASE e.k = "lit" -> Val(e.t, e.v)
      [] e.k = "var" -> IF e.x \in DOMAIN env THEN env[e.x] ELSE UB
      [] e.k = "paren" -> Eval(e.e, env)
      [] e.k = "bin" -> BinOp(e.op, Eval(e.l, env), Eval(e.r, env))
      [] e.k = "un" -> UnOp(e.op, Eval(e.e, env))
      [] e.k = "as" -> CastTo(e.t, Eval(e.e, env))
      [] e.k = "arr" -> LET vs == EvalAll(e.es, env, 1)
                        IN IF \E i \in 1..Len(vs) : IsUB(vs[i]) THEN UB ELSE [t |-> "array", v |-> vs]
      [] e.k = "idx" -> IF e.x \notin DOMAIN env THEN UB
                        ELSE LET a == env[e.x]
                                 i == Eval(e.i, env)
                             IN IF IsUB(i) \/ a.t # "array" \/ ~FitsNat(i.v) THEN UB
                                ELSE IF ToNat(i.v) >= Len(a.v) THEN UB ELSE a.v[ToNat(i.v) + 1]
      [] e.k = "len" -> IF e.x \notin DOMAIN env \/ env[e.x].t # "array" THEN UB
                        ELSE Val("usize", FromNat(Len(env[e.x].v), 64))
EvalAll(es, env, i) == IF i > Len(es) THEN <<>> ELSE <<Eval(es[i], env)>> \o EvalAll(es, env, i + 1)
EvalCond(c, env) == Compare(c.op, Eval(c.l, env), Eval(c.r, env))

(***************************************************************************)
(* Control flow on flat bodies.                                            *)
(***************************************************************************)
\* end of the if/else chain that the part starting at p belongs to (last item of the chain)
PartEnd(b, p) == IF b[p].k \in Openers THEN CloseOf(b, p) ELSE p
HasElsePart(b, p) == LET e == PartEnd(b, p)
                     IN b[p].k \in IfKinds /\ e + 1 <= Len(b) /\ b[e + 1].k \in ElseKinds
RECURSIVE ChainEnd(_, _)
ChainEnd(b, p) == IF HasElsePart(b, p) THEN ChainEnd(b, PartEnd(b, p) + 1) ELSE PartEnd(b, p)
GotoTarget(b, p) == CHOOSE j \in LegalTargets(b, p) : TRUE
\* the opener of the block that the closing brace at p closes
OpenerOf(b, p) == CHOOSE o \in 1..p : b[o].k \in Openers /\ CloseOf(b, o) = p

(***************************************************************************)
(* The machine.  prog = [consts, fns]; fns[i] = [name, params, ret, body,  *)
(* res (expression, present iff ret # "void")].                            *)
(* m = [status, frames, out, fuel]; a frame = [f, pc, env, d].             *)
(***************************************************************************)
FnIndex(prog, name) == CHOOSE i \in 1..Len(prog.fns) : prog.fns[i].name = name
RECURSIVE ConstEnv(_, _, _)
ConstEnv(cs, i, env) == IF i > Len(cs) THEN env
                        ELSE ConstEnv(cs, i + 1, (cs[i].x :> Eval(cs[i].e, env)) @@ env)
EmptyEnv == [x \in {} |-> UB]
Globals(prog) == ConstEnv(prog.consts, 1, EmptyEnv)
MInit(prog, fuel) ==
    LET g == Globals(prog)
    IN [status |-> IF \E x \in DOMAIN g : IsUB(g[x]) THEN "ub" ELSE "run",
        frames |-> <<[f |-> FnIndex(prog, "main"), pc |-> 1, env |-> g, d |-> ""]>>,
        out |-> <<>>, fuel |-> fuel, exit |-> <<>>]

Top(m) == m.frames[Len(m.frames)]
SetTop(m, fr) == [m EXCEPT !.frames[Len(m.frames)] = fr]
Bind(env, x, v) == (x :> v) @@ env
RECURSIVE BindParams(_, _, _, _)
BindParams(ps, vs, i, env) == IF i > Len(ps) THEN env ELSE BindParams(ps, vs, i + 1, Bind(env, ps[i].x, vs[i]))

\* continue at position q of the current body
Jump(m, q) == SetTop(m, [Top(m) EXCEPT !.pc = q])
Stop(m, s) == [m EXCEPT !.status = s]
\* the false path of an if-part starting at p: into its else-part, or past it
FalsePath(b, p) == PartEnd(b, p) + 1

MStep(prog, m) ==
    LET fr == Top(m)
        fn == prog.fns[fr.f]
        b == fn.body
        pc == fr.pc
        env == fr.env
    IN IF m.fuel = 0 THEN Stop(m, "fuel")
       ELSE LET m1 == [m EXCEPT !.fuel = @ - 1] IN
       IF pc > Len(b)
       THEN \* return
            LET rv == IF fn.ret = "void" THEN UB ELSE Eval(fn.res, env)
            IN IF fn.ret # "void" /\ IsUB(rv) THEN Stop(m1, "ub")
               ELSE IF Len(m.frames) = 1
                    THEN [m1 EXCEPT !.status = "done", !.exit = IF fn.ret = "void" THEN <<0>> ELSE rv.v]
                    ELSE LET caller == m.frames[Len(m.frames) - 1]
                             env2 == IF fr.d = "" THEN caller.env ELSE Bind(caller.env, fr.d, rv)
                         IN [m1 EXCEPT !.frames = SubSeq(m.frames, 1, Len(m.frames) - 2)
                                                    \o <<[caller EXCEPT !.env = env2, !.pc = @ + 1]>>]
       ELSE LET it == b[pc] IN
            CASE it.k \in {"O", "EO", "L"} -> Jump(m1, pc + 1)
              [] it.k = "C" -> IF b[OpenerOf(b, pc)].k \in IfKinds /\ HasElsePart(b, OpenerOf(b, pc))
                               THEN Jump(m1, ChainEnd(b, OpenerOf(b, pc)) + 1)      \* skip the else-parts
                               ELSE Jump(m1, pc + 1)
              [] it.k \in {"IO", "EIO"} ->
                   LET c == EvalCond(it.c, env)
                   IN IF IsUB(c) THEN Stop(m1, "ub")
                      ELSE IF Truth(c) THEN Jump(m1, pc + 1) ELSE Jump(m1, FalsePath(b, pc))
              [] it.k \in {"IG", "EIG"} ->
                   LET c == EvalCond(it.c, env)
                   IN IF IsUB(c) THEN Stop(m1, "ub")
                      ELSE IF Truth(c) THEN Jump(m1, GotoTarget(b, pc)) ELSE Jump(m1, pc + 1)
              [] it.k \in {"G", "EG"} -> Jump(m1, GotoTarget(b, pc))
              [] it.k = "LP" -> Jump(m1, BlockOf(b, pc) + 1)
              [] it.k = "V" -> LET v == Eval(it.e, env)
                               IN IF IsUB(v) THEN Stop(m1, "ub")
                                  ELSE SetTop(m1, [fr EXCEPT !.env = Bind(env, it.x, v), !.pc = pc + 1])
              [] it.k = "S" -> LET v == Eval(it.e, env)
                               IN IF IsUB(v) \/ it.x \notin DOMAIN env THEN Stop(m1, "ub")
                                  ELSE SetTop(m1, [fr EXCEPT !.env = Bind(env, it.x, v), !.pc = pc + 1])
              [] it.k = "SI" -> LET v == Eval(it.e, env)
                                    i == Eval(it.i, env)
                                IN IF IsUB(v) \/ IsUB(i) \/ it.x \notin DOMAIN env THEN Stop(m1, "ub")
                                   ELSE IF ~FitsNat(i.v) \/ ToNat(i.v) >= Len(env[it.x].v) THEN Stop(m1, "ub")
                                   ELSE SetTop(m1, [fr EXCEPT !.env = Bind(env, it.x, [env[it.x] EXCEPT !.v[ToNat(i.v) + 1] = v]),
                                                              !.pc = pc + 1])
              [] it.k = "P" -> LET v == Eval(it.e, env)
                               IN IF IsUB(v) THEN Stop(m1, "ub")
                                  ELSE [Jump(m1, pc + 1) EXCEPT !.out = Append(@, v)]
              [] it.k = "CALL" ->
                   LET vs == EvalAll(it.args, env, 1)
                       g == FnIndex(prog, it.f)
                   IN IF \E i \in 1..Len(vs) : IsUB(vs[i]) THEN Stop(m1, "ub")
                      ELSE IF Len(m.frames) >= 12 THEN Stop(m1, "fuel")
                      ELSE [m1 EXCEPT !.frames = Append(@, [f |-> g, pc |-> 1, d |-> it.d,
                                                            env |-> BindParams(prog.fns[g].params, vs, 1, Globals(prog))])]
\* the value a print statement shows: the 128-bit pattern of the value extended by its own signedness
Shown(v) == IF v.t = "bool" THEN v.v ELSE Resize(v.v, 128, Signed(v.t))

RECURSIVE RunFrom(_, _)
\* run to completion (used by the case-emitting configurations; bounded by fuel)
RunFrom(prog, m) == IF m.status # "run" THEN m ELSE RunFrom(prog, MStep(prog, m))
Run(prog, fuel) == RunFrom(prog, MInit(prog, fuel))
=============================================================================

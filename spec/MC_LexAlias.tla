------------------------------ MODULE MC_LexAlias ------------------------------
(***************************************************************************)
(* C14, spec -> impl, family "class-aliasing characters".                  *)
(* A character outside ASCII belongs to no lexical class of the grammar,   *)
(* whatever its code point looks like after a truncation.  For every       *)
(* lexically significant ASCII byte b (letters, digits, `_`, blanks,       *)
(* quotes, `/`, `\`, the radix and suffix letters) the scalar values       *)
(* b + 2^8, b + 2^10, b + 2^13 and b + 2^16 (encodings of 2, 2, 3 and 4    *)
(* bytes whose low byte / low seven bits ARE b) are placed in every        *)
(* position where the class of b matters: after an identifier, a keyword,  *)
(* an integer, a suffix, a radix prefix, inside literals and comments, at  *)
(* the start and at the end of the text.  TLC lexes each text with the     *)
(* reference automaton for both generations (same CASE format as MC_Lex).  *)
(* Seeded change C14j (identifier continuation decided on `char as u8`)    *)
(* showed that U+00E9 and U+20AC, the only characters outside ASCII of the *)
(* other families, alias no class at all.                                  *)
(***************************************************************************)
EXTENDS PenneLex, Json

CONSTANT Planes            \* how many of the four offsets are used
VARIABLE p

Bytes == << 97, 65, 122, 90, 102, 70, 48, 49, 57, 95, 32, 9, 10, 13, 34, 39, 47, 92, 120, 98, 117, 105, 56, 43, 59, 123 >>
Offs  == << 256, 1024, 8192, 65536 >>
Pre   == << <<>>, <<97>>, <<105, 102>>, <<49>>, <<49, 117>>, <<49, 117, 56>>, <<48, 120>>, <<48, 120, 49>>, <<48, 98, 49>>,
            <<95>>, <<34>>, <<39>>, <<47, 47>>, <<34, 92>>, <<97, 32>>, <<45>> >>
Suf   == << <<>>, <<97>>, <<49>>, <<32>>, <<34>>, <<39>>, <<10>>, <<95>> >>

Init == p = [lvl |-> 0]
Next == \/ p.lvl = 0 /\ \E i \in 1..Len(Bytes), o \in 1..Planes : p' = [lvl |-> 1, c |-> Bytes[i] + Offs[o]]
        \/ p.lvl = 1 /\ \E j \in 1..Len(Pre), k \in 1..Len(Suf) : p' = [lvl |-> 2, c |-> p.c, j |-> j, k |-> k]
Spec == Init /\ [][Next]_p

AliasText == Pre[p.j] \o Utf8(p.c) \o Suf[p.k]
AliasOK == p.lvl = 2 =>
    LET s == AliasText
        d == LexAll("delta", s)
        a == LexAll("alpha", s)
    IN /\ IsScalar(p.c) /\ Utf8Valid(s)
       /\ Tiles("delta", s, d) /\ Tiles("alpha", s, a)
       /\ PrintT(<<"CASE", ToJson([s |-> s, n |-> Len(s), u |-> TRUE, d |-> Items(SelectSeq(d, NotComment)),
                                   a |-> Items(SelectSeq(a, NotComment))])>>)
=============================================================================

SPECIFICATION Spec
CONSTANTS
  MaxLen = 7
  MinFns = 1
  MaxFns = 1
  Phased = FALSE
  NeedResult = FALSE
  MaxDepth = 3
  VNames = {"a", "b"}
  LNames = {"y"}
  BodyKinds = {"O", "C", "V", "U", "L", "G", "IG", "LP"}
  Configs <- NoConfig
INVARIANTS AgreeScoper Sound EmitCase
CHECK_DEADLOCK FALSE

SPECIFICATION Spec
CONSTANTS
  MaxLen = 6
  MaxDepth = 4
  TokenKinds = {"S", "G", "LP", "L", "O", "C", "I", "E"}
  ElseFlagCleared = TRUE
INVARIANTS Agree AgreeLints EmitCase
CHECK_DEADLOCK FALSE

------------------------------ MODULE FlatBody ------------------------------
(***************************************************************************)
(* Function bodies as flat sequences of items, one source line each        *)
(* (DESIGN.md section 4).  An item is a record [k |-> kind, n |-> name].   *)
(*   O    {              IO   if c {      EO   else {     EIO else if c {  *)
(*   C    }              G n  goto n;     IG n if c goto n;                *)
(*   EG n else goto n;   EIG n else if c goto n;          L n  n:          *)
(*   V n  var n: i32 = 0;   U n  x = n;   S  x = x + 1;   LP  loop;        *)
(*   I    if c   (a naked then-branch follows)   E  else  (naked branch)   *)
(* All operators take the body explicitly so that trace specifications     *)
(* can apply them to logged inputs.                                        *)
(***************************************************************************)
EXTENDS Naturals, Integers, Sequences, FiniteSets, TLC

Openers == {"O", "IO", "EO", "EIO"}
GotoKinds == {"G", "IG", "EG", "EIG"}
ElseKinds == {"EO", "EIO", "EG", "EIG"}
IfKinds == {"IO", "EIO", "IG", "EIG"}          \* parts after which an else may follow

RECURSIVE CloseFrom(_, _, _)
CloseFrom(b, i, d) ==
    IF b[i].k = "C" THEN (IF d = 0 THEN i ELSE CloseFrom(b, i + 1, d - 1))
    ELSE IF b[i].k \in Openers THEN CloseFrom(b, i + 1, d + 1)
    ELSE CloseFrom(b, i + 1, d)
\* index of the "}" matching the opener at o; the function body (o = 0) closes after the end
CloseOf(b, o) == IF o = 0 THEN Len(b) + 1 ELSE CloseFrom(b, o + 1, 0)
OpensAround(b, i) == { o \in 1..Len(b) : b[o].k \in Openers /\ o < i /\ CloseOf(b, o) > i }
\* the innermost block containing item i (0 = the function body); an opener/closer belongs to its parent
BlockOf(b, i) == LET os == OpensAround(b, i)
                 IN IF os = {} THEN 0 ELSE CHOOSE o \in os : \A p \in os : p <= o
Encloses(b, o, i) == o = 0 \/ (o < i /\ i < CloseOf(b, o))
IsL(b, i) == b[i].k = "L"
IsG(b, i) == b[i].k \in GotoKinds

(***************************************************************************)
(* The label rule of C04 (docs/features.md "Scoped goto statements").      *)
(***************************************************************************)
\* label j is a legal target for a goto at i: later, in the same or an enclosing block
Visible(b, j, i) == j > i /\ Encloses(b, BlockOf(b, j), i)
LegalTargets(b, i) == { j \in 1..Len(b) : IsL(b, j) /\ b[j].n = b[i].n /\ Visible(b, j, i) }
BadGoto(b, i) == IsG(b, i) /\ LegalTargets(b, i) = {}
\* j < k clash: same name, and k is in the same block as j or later in an enclosing block of j
ClashPair(b, j, k) == /\ IsL(b, j) /\ IsL(b, k) /\ j < k /\ b[j].n = b[k].n
                      /\ Encloses(b, BlockOf(b, k), j)
RuleE400(b) == { i \in 1..Len(b) : BadGoto(b, i) }
RuleClashEarlier(b) == { j \in 1..Len(b) : \E k \in 1..Len(b) : ClashPair(b, j, k) }
RuleClashMembers(b) == { i \in 1..Len(b) : \E j, k \in 1..Len(b) : ClashPair(b, j, k) /\ i \in {j, k} }
RuleAccepts(b) == RuleE400(b) = {} /\ RuleClashMembers(b) = {}

(***************************************************************************)
(* Modules with several functions (dimension audit).  An item of kind "F"  *)
(* (one source line: `} fn g<k>() { var x: i32 = 0;`) at nesting depth 0   *)
(* ends one function body and opens the next.  The rules above speak about *)
(* ONE function body: for a module they are applied to every segment       *)
(* Seg(b, f) on its own and their verdicts are lifted back to positions of *)
(* the whole item sequence (local position q of the segment that starts    *)
(* after position f is position f + q; f = 0 for the first function).      *)
(* Without "F" items FStarts(b) = {0} and Seg(b, 0) = b: nothing changes.  *)
(***************************************************************************)
IsF(b, i) == b[i].k = "F"
FStarts(b) == {0} \cup { f \in 1..Len(b) : IsF(b, f) }
FEnd(b, f) == LET later == { g \in FStarts(b) : g > f }
              IN IF later = {} THEN Len(b) + 1 ELSE CHOOSE g \in later : \A h \in later : g <= h
Seg(b, f) == SubSeq(b, f + 1, FEnd(b, f) - 1)
\* the start of the function that position p (not itself an "F" item, or the F item that opens it) lies in
FOf(b, p) == LET fs == { f \in FStarts(b) : f <= p } IN CHOOSE f \in fs : \A g \in fs : g <= f
Lift(f, S) == { f + q : q \in S }
MRuleE400(b) == UNION { Lift(f, RuleE400(Seg(b, f))) : f \in FStarts(b) }
MRuleClashEarlier(b) == UNION { Lift(f, RuleClashEarlier(Seg(b, f))) : f \in FStarts(b) }
MRuleClashMembers(b) == UNION { Lift(f, RuleClashMembers(Seg(b, f))) : f \in FStarts(b) }
MRuleAccepts(b) == \A f \in FStarts(b) : RuleAccepts(Seg(b, f))
MLegalTargets(b, i) == LET f == FOf(b, i) IN Lift(f, LegalTargets(Seg(b, f), i - f))
MBadGoto(b, i) == IsG(b, i) /\ MLegalTargets(b, i) = {}
MClashPair(b, j, k) == LET f == FOf(b, j) IN FOf(b, k) = f /\ j > f /\ k > f /\ ClashPair(Seg(b, f), j - f, k - f)


=============================================================================

SPECIFICATION Spec
CONSTANTS
  MaxDepth = 3
  ExtraDepth = 1
INVARIANTS ModelObeysRuleElsewhere EmitCase
CHECK_DEADLOCK FALSE

SPECIFICATION ESpec
CONSTANTS
  Lens = {100000, 131071, 131072, 131073, 131074, 131075, 131076, 200001, 262144}
  Heavy = FALSE
  CapFactor = 4
  TokMin = 65536
  TokMax = 16777216
  ErrCap = 100
  MaxToks = 0
  MaxAborts = 0
  MaxBad = 0
  Densities = {1}
  DeclAlts = {}
  StmtAlts = {}
  PrimAlts = {}
  UnaryAlts = {}
  TypeAlts = {}
  ExprAlts = {}
  ExpectationTextComplete = TRUE
INVARIANTS EmitCell CellsSane
CHECK_DEADLOCK FALSE

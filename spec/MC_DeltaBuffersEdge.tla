------------------------ MODULE MC_DeltaBuffersEdge ------------------------
(***************************************************************************)
(* C15, dimension audit: Gen + R for the BOUNDARY dimensions of the input  *)
(* space that neither the derivations (<= 12 tokens) nor the seeded random *)
(* families aim at.  A cell names one input by its parameters (numbers and *)
(* small enumerations, never text); the harness renders it                 *)
(* (harness/src/delta/edge.rs), TLC states what R demands of it:           *)
(*                                                                         *)
(*   expect = "accepted"          a well-formed module of the documented   *)
(*                                language that cannot exhaust a limit      *)
(*            "accepted-or-E103"  well-formed, more than TokMin tokens:     *)
(*                                docs/errors.md E103 gives no number      *)
(*            "rejected"          contains an invalid lexeme               *)
(*            "E102"              longer than 2^31 bytes                   *)
(*            "any"               R is silent (no invalid lexeme, not      *)
(*                                well-formed, or the docs do not decide); *)
(*                                totality and the buffer protocol only    *)
(*                                                                         *)
(* `afull` is what the algorithm model A (DeltaBuffers.tla: PushToken,     *)
(* ErrorCap, TokCap) predicts for the token buffer; a disagreement is a    *)
(* MODEL-DRIFT note.  Every run is also recorded and validated by          *)
(* Trace_DeltaBuffers (E103 <=> a push was refused, protocol).             *)
(*                                                                         *)
(* Families (fam):                                                         *)
(*  tok    token count around the capacity (cap - 3 .. cap + 2, i.e. the   *)
(*         last real token / the first / the second EndOfSource is the one *)
(*         refused) x source lengths on both sides of len / 2 = TokMin     *)
(*         x unit (declarations, `;`, literals) x invalid lexemes (none,   *)
(*         first, last, more than the error cap) x raw bytes in a comment  *)
(*  pay    number of integer payloads around 2^8 and 2^16                  *)
(*  errs   number of lexical / parse errors around the caps (100), stray   *)
(*         modifiers, error cap = source length below 100 bytes            *)
(*  eof    every lexeme-in-progress cut by the end of the input            *)
(*  raw    NUL, control, invalid / valid multi-byte bytes in a comment, in *)
(*         a string, between tokens; first / middle / last byte of input   *)
(*  depth  address depth and access steps around 127 / 128 / 255 / 256     *)
(*  count  0 / 1 / 2 / 2^8 +- 1 / 1000 / 5000 declarations                 *)
(*  name   identifier / string / comment lengths around 2^8 and 2^16       *)
(*  huge   source length 2^31 + 1 (+ invalid UTF-8): E102, in KiB units    *)
(*         because TLC integers are 32-bit; (Heavy) a well-formed module   *)
(*         of n small functions whose parse tree needs more than 2^24      *)
(*         nodes; (Heavy) token counts around TokMax = 2^24 at the source  *)
(*         lengths where len / 2 = TokMax                                  *)
(***************************************************************************)
EXTENDS DeltaBuffers, Json, TLCExt

CONSTANTS Lens,      \* source lengths of the tok family
          Heavy      \* thorough tier: inputs of tens of megabytes as well

C0 == [fam |-> "", len |-> 0, n |-> 0, unit |-> "", bad |-> 0, badat |-> "", raw |-> "", site |-> "", pos |-> "",
       what |-> "", lenk |-> 0, lenr |-> 0]

(***************************************************************************)
(* Gen.                                                                    *)
(***************************************************************************)
\* unit x invalid lexemes x raw comment
TokVariants == { <<"head", 0, "", "">>, <<"head", 0, "", "utf8">>, <<"head", 0, "", "nul">>,
                 <<"head", 1, "first", "">>, <<"head", 1, "last", "">>, <<"head", 101, "spread", "">>,
                 <<"head", 1, "first", "utf8">>,
                 <<"semi", 0, "", "">>, <<"semi", 1, "first", "">>, <<"lit", 0, "", "">>, <<"lit", 1, "last", "">> }
MinBytes(unit, n) == CASE unit = "semi" -> n [] unit = "lit" -> 2 * n [] OTHER -> (n * 7) \div 5 + 16
TokCells == { [C0 EXCEPT !.fam = "tok", !.len = len, !.n = TokCap(len) - 5 + d, !.unit = v[1], !.bad = v[2],
                         !.badat = v[3], !.raw = v[4]] :
              len \in Lens, d \in 0..5, v \in TokVariants }
TokFeasible(c) == MinBytes(c.unit, c.n) + (IF c.raw = "" THEN 0 ELSE 24) <= c.len
\* around TokMax: exactly full / the second / the first EndOfSource refused, where len / 2 = TokMax and just above
HeavyTokCells == { [C0 EXCEPT !.fam = "tok", !.len = len, !.n = TokCap(len) - 5 + d, !.unit = "semi"] :
                   len \in {2 * TokMax, 2 * TokMax + 2}, d \in {3, 4, 5} }

PayCells == { [C0 EXCEPT !.fam = "pay", !.n = n, !.unit = u] :
              n \in {254, 255, 256, 257, 65534, 65535, 65536, 65537}, u \in {"soup", "mixed", "arrays"} }

ErrCells == { [C0 EXCEPT !.fam = "errs", !.what = "lex", !.n = k, !.unit = t] : k \in {1, 2, 99, 100, 101, 250}, t \in {"none", "heads"} }
            \cup { [C0 EXCEPT !.fam = "errs", !.what = "lexshort", !.n = k] : k \in {1, 2, 50, 99, 100, 101} }
            \cup { [C0 EXCEPT !.fam = "errs", !.what = w, !.n = k, !.unit = t] :
                   w \in {"parse", "alt"}, k \in {1, 2, 99, 100, 101, 150}, t \in {"none", "heads"} }
            \cup { [C0 EXCEPT !.fam = "errs", !.what = w, !.n = k, !.unit = t] :
                   w \in {"pub", "extern", "pubextern"}, k \in {1, 2, 3, 4, 200}, t \in {"none", "heads", "after"} }

Cuts == {"str", "strbs", "strx", "strx1", "stru", "strub", "strub1", "chr", "chr0", "chrbs", "strcr", "cr", "comment",
         "comment0", "commentcr", "slash", "hex0", "bin0", "sep", "bang", "minus", "pipe", "dot"}
EofCells == { [C0 EXCEPT !.fam = "eof", !.site = p, !.what = c] : p \in {"none", "head", "body"}, c \in Cuts }

RawBytes == {"nul", "soh", "del", "cr", "x80", "xff", "c328", "e282", "euro", "emoji", "bom", "nbsp"}
RawCells == { [C0 EXCEPT !.fam = "raw", !.site = s, !.pos = p, !.what = b] :
              s \in {"comment", "string", "between"}, p \in {"start", "mid", "end"}, b \in RawBytes }

DepthCells == { [C0 EXCEPT !.fam = "depth", !.site = s, !.n = k] :
                s \in {"expraddr", "stmtaddr", "lenaddr", "exprmember", "exprindex", "stmtmember", "lenmember", "typeaddr", "paren"},
                k \in {1, 2, 126, 127, 128, 129, 255, 256} }

CountCells == { [C0 EXCEPT !.fam = "count", !.n = n, !.site = v, !.unit = u] :
                n \in {0, 1, 2, 255, 256, 257, 1000, 5000}, v \in {"priv", "pub", "alt"}, u \in {"head", "const", "fn"} }
              \cup { [C0 EXCEPT !.fam = "count", !.n = n, !.site = "priv", !.unit = "import"] : n \in {1, 2, 256, 1000} }

NameCells == { [C0 EXCEPT !.fam = "name", !.n = n, !.site = s] :
               n \in {1, 255, 256, 257, 65535, 65536, 65537, 200000}, s \in {"fn", "string", "comment", "label", "member"} }

\* 2^31 = 2097152 KiB
HugeCells == { [C0 EXCEPT !.fam = "huge", !.lenk = 2097152, !.lenr = 1, !.what = "zeros"],
               [C0 EXCEPT !.fam = "huge", !.lenk = 2097156, !.lenr = 7, !.what = "utf8"] }
             \* n functions `fn f() { x = x + x + x + x; }` of 16 tokens, 40 bytes and 44 nodes each
             \cup (IF Heavy THEN { [C0 EXCEPT !.fam = "huge", !.what = "nodes24", !.n = 460000] } ELSE {})

Cells == { c \in TokCells : TokFeasible(c) } \cup (IF Heavy THEN HeavyTokCells ELSE {}) \cup PayCells \cup ErrCells \cup EofCells \cup RawCells \cup DepthCells
         \cup CountCells \cup NameCells \cup HugeCells

(***************************************************************************)
(* R on a cell.                                                            *)
(***************************************************************************)
\* does the cell contain an invalid lexeme?  (docs/errors.md E110, E14x, E16x: characters outside the alphabet,
\* control characters U+0000..U+001F, U+007F in literals, unterminated literals, malformed escapes)
\* (a lone carriage return inside a comment -- "commentcr" -- is not decided by the documentation)
BadCuts == {"str", "strbs", "strx", "strx1", "stru", "strub", "strub1", "chr", "chr0", "chrbs", "strcr", "cr"}
Controls == {"nul", "soh", "del", "cr"}
InvalidUtf8 == {"x80", "xff", "c328", "e282"}
HasBad(c) ==
    CASE c.fam = "tok" -> c.bad > 0
      [] c.fam = "errs" -> c.what \in {"lex", "lexshort"}
      [] c.fam = "eof" -> c.what \in BadCuts
      [] c.fam = "raw" -> (c.site = "between") \/ (c.site = "string" /\ c.what \in Controls)
      [] OTHER -> FALSE
\* is the cell a well-formed module of the documented language?
IsWf(c) ==
    CASE c.fam = "tok" -> c.unit = "head" /\ c.bad = 0 /\ c.raw = ""
      [] c.fam = "pay" -> c.unit = "arrays"
      [] c.fam = "eof" -> c.what \in {"comment", "comment0"} /\ c.site \in {"none", "head"}
      \* comments and string literals may hold any UTF-8 text except (strings) ASCII control characters; what a
      \* control character or a byte sequence that is not UTF-8 means inside a comment is not documented
      [] c.fam = "raw" -> c.site \in {"comment", "string"} /\ c.what \in {"euro", "emoji", "bom", "nbsp"}
      [] c.fam = "count" -> TRUE
      [] c.fam = "name" -> TRUE
      [] c.fam = "huge" -> c.what = "nodes24"
      \* the documentation gives no maximum for `&` / access chains; small ones are plainly well-formed
      [] c.fam = "depth" -> c.n <= 2 /\ c.site \in {"expraddr", "exprmember", "exprindex", "lenmember", "typeaddr", "paren"}
      [] OTHER -> FALSE
\* tokens the lexer produces for a well-formed cell (upper bound, for "can it exhaust the token limit")
Tokens(c) ==
    CASE c.fam = "tok" -> c.n
      [] c.fam = "pay" -> 3 * c.n
      [] c.fam = "count" -> 12 * c.n
      [] c.fam = "huge" -> 16 * c.n
      [] OTHER -> 0
TooLong(c) == c.lenk > 2097152 \/ (c.lenk = 2097152 /\ c.lenr > 0)
Expect(c) ==
    IF TooLong(c) THEN "E102"
    ELSE IF HasBad(c) THEN "rejected"
    ELSE IF IsWf(c) THEN (IF Tokens(c) + 2 <= TokMin THEN "accepted" ELSE "accepted-or-E103")
    ELSE "any"

(***************************************************************************)
(* A on a tok cell: which push is refused.                                 *)
(***************************************************************************)
Attempts(c) == (c.n - c.bad) + MinOf(c.bad, ErrorCap(c.len)) + 2
AFull(c) == c.fam = "tok" /\ Attempts(c) > TokCap(c.len)

(***************************************************************************)
(* The state machine: pick a cell.                                         *)
(***************************************************************************)
VARIABLES cell
EInit == cell = C0 /\ g = G0 /\ phase = "cells" /\ res = NoRes
EPick == cell = C0 /\ (\E c \in Cells : cell' = c) /\ UNCHANGED <<g, phase, res>>
ESpec == EInit /\ [][EPick]_<<cell, g, phase, res>>

EmitCell == cell # C0 =>
    PrintT(<<"CASE", ToJson([cell |-> cell, wf |-> IsWf(cell), bad |-> HasBad(cell), expect |-> Expect(cell),
                             afull |-> AFull(cell)])>>)
\* sanity of Gen + R: a cell is never both, and the verdicts partition
CellsSane == cell # C0 => /\ ~(IsWf(cell) /\ HasBad(cell))
                          /\ Expect(cell) \in {"accepted", "accepted-or-E103", "rejected", "E102", "any"}
                          /\ (cell.fam = "tok" => cell.n >= 8)
=============================================================================

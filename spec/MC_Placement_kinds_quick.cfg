SPECIFICATION Spec
CONSTANTS
  MaxLen = 5
  MinFns = 1
  MaxFns = 1
  MaxDepth = 4
  TokenKinds = {"S", "G", "LP", "L", "V", "M", "O", "C", "I", "E"}
  ElseFlagCleared = TRUE
INVARIANTS Agree AgreeLints EmitCase
CHECK_DEADLOCK FALSE

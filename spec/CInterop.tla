------------------------------ MODULE CInterop ------------------------------
(***************************************************************************)
(* "Interoperability with C" (docs/features.md) as an executed family of   *)
(* C01.  The documentation says:                                           *)
(*   * functions marked `extern` use the C ABI and can be called from C;   *)
(*   * `extern fn foo(buffer: []u8, length: usize);` declares a C function *)
(*     that can be called from Penne;                                      *)
(*   * only array views, pointers and i8..i64, u8..u64, usize are allowed  *)
(*     in the signature of an `extern` function;                           *)
(*   * array views in `extern` functions are (const) pointers in C, have   *)
(*     no length (`|x|`) and must not be null.                             *)
(*                                                                         *)
(* The rule R this module states: A CALL THAT CROSSES THE LANGUAGE         *)
(* BOUNDARY IS AN ORDINARY CALL.  Every argument arrives with the value    *)
(* the caller computed for it, AT ITS DECLARED TYPE (an i8 is the same     *)
(* 8-bit two's complement number on both sides, whatever the upper bits of *)
(* the register that carried it), in its declared position; a view or a    *)
(* pointer denotes the caller's storage (so a write through `T*` is seen   *)
(* by the caller, a write through `T**` re-points the caller's pointer);   *)
(* the result comes back with the value the callee returned, at the        *)
(* declared type.  So a program that mixes Penne and C is a program of     *)
(* the Machine (spec/Machine.tla) in which every function has a body: the  *)
(* body of a FOREIGN function is its meaning, given here.                  *)
(*                                                                         *)
(* The foreign library is small and fixed.  A library function is a        *)
(* Machine function Lib(kind, t, ...) (below); the SAME definition is used *)
(*   (a) as the meaning of the C function generated from the fixed C       *)
(*       template of that kind (harness/src/cinterop/clib.rs), and         *)
(*   (b) rendered as a Penne `extern fn` with a body, to be called from C  *)
(*       (through the trampolines `tramp` / `trampw` / `foreach`) and from *)
(*       Penne.                                                            *)
(* A program in the exchange format carries `foreign`: the instances of    *)
(* library functions that exist on the C side, [name, lib, t, ...] (plus   *)
(* the signature, for the renderer).  MProg adds their meanings to the     *)
(* functions of the program; Machine.tla runs the result.                  *)
(*                                                                         *)
(* Kinds   id: T to T.  widen: T to W(T).  narrow: u64 to T.  sum, max,    *)
(*         at: (view of T, usize) to T.  fill: (buffer of T, usize, T).    *)
(*         incr: (pointer to T).  addto: (pointer to T, T).  setpp:        *)
(*         (pointer to pointer to T, T).  repoint: (pointer to pointer to  *)
(*         T, pointer to T).  copy: (buffer of T, view of T, usize).  mix: *)
(*         (p1 .. pk) to u64.  tramp: same signature as the Penne function *)
(*         it forwards to.  trampw: all scalars wide, narrowed in C.       *)
(*         foreach: (view of T, usize), calls a Penne function for each    *)
(*         element.  In C a view is a const pointer, a buffer / pointer a  *)
(*         plain pointer, a pointer to pointer a pointer to pointer.       *)
(* W(T) =  i64 for signed T, u64 for unsigned T.                           *)
(*                                                                         *)
(* Static rule cells (decided without running): `|x|` of a view parameter  *)
(* of an `extern` function is rejected; a type outside the list above in   *)
(* an `extern` signature is rejected with E358 (cross-check of C11).       *)
(***************************************************************************)
EXTENDS Machine

AbiInts == <<"i8", "i16", "i32", "i64", "u8", "u16", "u32", "u64", "usize">>
AbiIntSet == {AbiInts[i] : i \in 1..Len(AbiInts)}
WideOf(t) == IF Signed(t) THEN "i64" ELSE "u64"

\* ---- builders of the exchange format -------------------------------------
PrimT(t) == [k |-> "prim", t |-> t]
PtrT(ty) == [k |-> "ptr", e |-> ty]
ViewT(ty) == [k |-> "view", e |-> ty]
ArrT(n, ty) == [k |-> "array", n |-> n, e |-> ty]
NamedT(n) == [k |-> "named", n |-> n]
VoidT == [k |-> "void"]
Lit(t, v) == [k |-> "lit", t |-> t, v |-> v]
LitN(t, n) == Lit(t, FromNat(n, Width(t)))
Ix(e) == [k |-> "i", e |-> e]
Mb(m) == [k |-> "m", m |-> m]
Ref(x, addr, steps) == [k |-> "ref", x |-> x, addr |-> addr, steps |-> steps]
V0(x) == Ref(x, 0, <<>>)
At(x, e) == Ref(x, 0, <<Ix(e)>>)
Plain(x, addr, steps) == [x |-> x, addr |-> addr, steps |-> steps]
Bin(op, l, r) == [k |-> "bin", op |-> op, l |-> l, r |-> r]
\* a cast is only written where the type changes (`x as u64` of a u64 is not generated)
As(t, from, e) == IF t = from THEN e ELSE [k |-> "as", t |-> t, e |-> e]
CallE(f, args) == [k |-> "call", f |-> f, args |-> args]
Cmp(op, l, r) == [op |-> op, l |-> l, r |-> r]
Decl(x, ty, e) == [k |-> "V", x |-> x, ty |-> ty, e |-> e]
Asg(x, addr, steps, e) == [k |-> "A", r |-> Plain(x, addr, steps), e |-> e]
Set(x, e) == Asg(x, 0, <<>>, e)
Pr(e) == [k |-> "P", e |-> e]
CallS(f, args) == [k |-> "CALL", f |-> f, args |-> args, d |-> ""]
Par(x, ty) == [x |-> x, ty |-> ty]
Fn(name, params, ret, body) == [name |-> name, params |-> params, ret |-> ret, body |-> body]
FnR(name, params, ret, body, res) == [name |-> name, params |-> params, ret |-> ret, body |-> body, res |-> res]

\* for i in 0 .. n-1 { inner }   (n: usize parameter `n`; counter `i`)
Loop(inner) == <<Decl("i", PrimT("usize"), LitN("usize", 0)), [k |-> "O"],
                 [k |-> "IG", c |-> Cmp(">=", V0("i"), V0("n")), n |-> "done"]>>
               \o inner
               \o <<Set("i", Bin("+", V0("i"), LitN("usize", 1))), [k |-> "LP"], [k |-> "C"], [k |-> "L", n |-> "done"]>>
MinLit(t) == Lit(t, IF Signed(t) THEN MinSigned(Width(t)) ELSE Zero(Width(t)))

\* how a parameter is handed on to another function (trampolines): scalars and views by name,
\* pointers with as many address markers as the type has pointer levels
RECURSIVE PtrLevels(_)
PtrLevels(ty) == IF ty.k = "ptr" THEN 1 + PtrLevels(ty.e) ELSE 0
Forward(p) == Ref(p.x, PtrLevels(p.ty), <<>>)
RECURSIVE ForwardAll(_, _)
ForwardAll(ps, i) == IF i > Len(ps) THEN <<>> ELSE <<Forward(ps[i])>> \o ForwardAll(ps, i + 1)

\* ---- mixed parameter lists: an entry is [k |-> "s" | "v" | "p", t] ----------
MixParamType(en) == CASE en.k = "s" -> PrimT(en.t) [] en.k = "v" -> ViewT(PrimT(en.t)) [] en.k = "p" -> PtrT(PrimT(en.t))
MixName(i) == "a" \o ToString(i)
\* what the parameter contributes: its value, the second element of the view, the value it points to -- as u64
\* (a signed value is sign extended: `x as u64` in Penne, `(uint64_t)x` in C)
MixTerm(en, i) == As("u64", en.t, IF en.k = "v" THEN At(MixName(i), LitN("usize", 1)) ELSE V0(MixName(i)))
RECURSIVE MixParams(_, _), MixBody(_, _)
MixParams(ts, i) == IF i > Len(ts) THEN <<>> ELSE <<Par(MixName(i), MixParamType(ts[i]))>> \o MixParams(ts, i + 1)
MixBody(ts, i) == IF i > Len(ts) THEN <<>>
                  ELSE <<Set("acc", Bin("+", Bin("*", V0("acc"), LitN("u64", 31)), MixTerm(ts[i], i)))>> \o MixBody(ts, i + 1)

\* ---- wide trampoline: every scalar parameter of the callee travels as u64 and is narrowed by the trampoline
RECURSIVE WideParams(_, _), NarrowArgs(_, _)
WideParams(ps, i) == IF i > Len(ps) THEN <<>> ELSE <<Par(ps[i].x, PrimT("u64"))>> \o WideParams(ps, i + 1)
NarrowArgs(ps, i) == IF i > Len(ps) THEN <<>> ELSE <<As(ps[i].ty.t, "u64", V0(ps[i].x))>> \o NarrowArgs(ps, i + 1)

(***************************************************************************)
(* The library.  d = [lib, t] plus, for mix: ts; for tramp / trampw /      *)
(* foreach: cb (name of the function called) and sig = [params, ret] (its  *)
(* signature).                                                             *)
(***************************************************************************)
Lib(name, d) ==
    LET t == d.t
        T == PrimT(t)
        U == PrimT("usize")
    IN CASE d.lib = "id" -> FnR(name, <<Par("x", T)>>, T, <<>>, V0("x"))
         [] d.lib = "widen" -> FnR(name, <<Par("x", T)>>, PrimT(WideOf(t)), <<>>, As(WideOf(t), t, V0("x")))
         [] d.lib = "narrow" -> FnR(name, <<Par("w", PrimT("u64"))>>, T, <<>>, As(t, "u64", V0("w")))
         [] d.lib = "sum" -> FnR(name, <<Par("x", ViewT(T)), Par("n", U)>>, T,
                                 <<Decl("s", T, LitN(t, 0))>> \o Loop(<<Set("s", Bin("+", V0("s"), At("x", V0("i"))))>>), V0("s"))
         [] d.lib = "max" -> FnR(name, <<Par("x", ViewT(T)), Par("n", U)>>, T,
                                 <<Decl("m", T, MinLit(t))>>
                                 \o Loop(<<[k |-> "IO", c |-> Cmp(">", At("x", V0("i")), V0("m"))], Set("m", At("x", V0("i"))), [k |-> "C"]>>),
                                 V0("m"))
         [] d.lib = "at" -> FnR(name, <<Par("x", ViewT(T)), Par("j", U)>>, T, <<>>, At("x", V0("j")))
         [] d.lib = "fill" -> Fn(name, <<Par("x", PtrT(ViewT(T))), Par("n", U), Par("v", T)>>, VoidT,
                                 Loop(<<Asg("x", 0, <<Ix(V0("i"))>>, V0("v"))>>))
         [] d.lib = "incr" -> Fn(name, <<Par("p", PtrT(T))>>, VoidT, <<Set("p", Bin("+", V0("p"), LitN(t, 1)))>>)
         [] d.lib = "addto" -> Fn(name, <<Par("p", PtrT(T)), Par("v", T)>>, VoidT, <<Set("p", Bin("+", V0("p"), V0("v")))>>)
         [] d.lib = "setpp" -> Fn(name, <<Par("pp", PtrT(PtrT(T))), Par("v", T)>>, VoidT, <<Set("pp", V0("v"))>>)
         [] d.lib = "repoint" -> Fn(name, <<Par("pp", PtrT(PtrT(T))), Par("q", PtrT(T))>>, VoidT, <<Asg("pp", 1, <<>>, Ref("q", 1, <<>>))>>)
         [] d.lib = "copy" -> Fn(name, <<Par("dst", PtrT(ViewT(T))), Par("src", ViewT(T)), Par("n", U)>>, VoidT,
                                 Loop(<<Asg("dst", 0, <<Ix(V0("i"))>>, At("src", V0("i")))>>))
         [] d.lib = "mix" -> FnR(name, MixParams(d.ts, 1), PrimT("u64"),
                                 <<Decl("acc", PrimT("u64"), LitN("u64", 0))>> \o MixBody(d.ts, 1), V0("acc"))
         [] d.lib = "tramp" -> IF d.sig.ret.k = "void"
                               THEN Fn(name, d.sig.params, VoidT, <<CallS(d.cb, ForwardAll(d.sig.params, 1))>>)
                               ELSE FnR(name, d.sig.params, d.sig.ret, <<>>, CallE(d.cb, ForwardAll(d.sig.params, 1)))
         [] d.lib = "trampw" -> FnR(name, WideParams(d.sig.params, 1), PrimT(WideOf(d.sig.ret.t)), <<>>,
                                    As(WideOf(d.sig.ret.t), d.sig.ret.t, CallE(d.cb, NarrowArgs(d.sig.params, 1))))
         [] d.lib = "foreach" -> Fn(name, <<Par("x", ViewT(T)), Par("n", U)>>, VoidT, Loop(<<CallS(d.cb, <<At("x", V0("i"))>>)>>))

\* the signature of a library function (what the Penne declaration `extern fn name(...) -> ...;` says)
SigOf(f) == [params |-> f.params, ret |-> f.ret]
\* a foreign instance as it travels in the exchange format: the descriptor, its name and its signature
Foreign(name, d) == LET f == Lib(name, d) IN d @@ [name |-> name, params |-> f.params, ret |-> f.ret]
\* a Penne `extern fn` with the body of a library function
PenneExt(name, d, pub) == Lib(name, d) @@ [ext |-> TRUE, pub |-> pub]

\* the Machine program: the functions of the program plus the meanings of the foreign instances
RECURSIVE Meanings(_, _)
Meanings(fs, i) == IF i > Len(fs) THEN <<>> ELSE <<Lib(fs[i].name, fs[i])>> \o Meanings(fs, i + 1)
MProg(p) == [structs |-> IF "structs" \in DOMAIN p THEN p.structs ELSE <<>>,
             consts |-> IF "consts" \in DOMAIN p THEN p.consts ELSE <<>>,
             fns |-> p.fns \o (IF "foreign" \in DOMAIN p THEN Meanings(p.foreign, 1) ELSE <<>>)]

(***************************************************************************)
(* The rule, declaratively (what each library function returns / leaves    *)
(* behind), on values of Wide.tla -- independent of the machine that runs  *)
(* the bodies above.  MC_CInterop checks that the machine agrees.          *)
(***************************************************************************)
RId(t, v) == Val(t, v)
RWiden(t, v) == Val(WideOf(t), Resize(v, 64, Signed(t)))
RNarrow(t, w) == Val(t, Resize(w, Width(t), FALSE))
RECURSIVE RSumFrom(_, _, _, _), RMaxFrom(_, _, _, _)
RSumFrom(t, xs, n, i) == IF i > n THEN Zero(Width(t)) ELSE Add(xs[i], RSumFrom(t, xs, n, i + 1))
RSum(t, xs, n) == Val(t, RSumFrom(t, xs, n, 1))
Greater(t, a, b) == IF Signed(t) THEN SLt(b, a) ELSE ULt(b, a)
RMaxFrom(t, xs, n, i) == IF i > n THEN (IF Signed(t) THEN MinSigned(Width(t)) ELSE Zero(Width(t)))
                         ELSE LET rest == RMaxFrom(t, xs, n, i + 1) IN IF Greater(t, rest, xs[i]) THEN rest ELSE xs[i]
RMax(t, xs, n) == Val(t, RMaxFrom(t, xs, n, 1))
RAt(t, xs, j) == Val(t, xs[j + 1])
RFill(xs, n, v) == [i \in 1..Len(xs) |-> IF i <= n THEN v ELSE xs[i]]
RCopy(dst, src, n) == [i \in 1..Len(dst) |-> IF i <= n THEN src[i] ELSE dst[i]]
RIncr(t, v) == Val(t, Add(v, FromNat(1, Width(t))))
RAddTo(t, v, d) == Val(t, Add(v, d))
\* acc = acc * 31 + (term as u64), terms as [t, v]
RECURSIVE RMixFrom(_, _, _)
RMixFrom(terms, i, acc) == IF i > Len(terms) THEN acc
                           ELSE RMixFrom(terms, i + 1, Add(Mul(acc, FromNat(31, 64)), Resize(terms[i].v, 64, Signed(terms[i].t))))
RMix(terms) == Val("u64", RMixFrom(terms, 1, Zero(64)))

(***************************************************************************)
(* "Functions marked `extern` use the C ABI ... possible to call them from *)
(* C", on the generated IR: every foreign instance and every `extern fn`   *)
(* is declared / defined with the C calling convention, every call         *)
(* instruction that names it uses the C calling convention, and what C     *)
(* defines (foreign) or must be able to call (`pub extern`) is externally  *)
(* visible.  (external = FALSE: visibility is not this rule's business.)   *)
(***************************************************************************)
RECURSIVE AbiOfFns(_, _), AbiOfForeign(_, _)
AbiOfFns(fs, i) == IF i > Len(fs) THEN <<>>
                   ELSE (IF "ext" \in DOMAIN fs[i] /\ fs[i].ext THEN <<[name |-> fs[i].name, cc |-> "ccc", external |-> fs[i].pub]>> ELSE <<>>)
                        \o AbiOfFns(fs, i + 1)
AbiOfForeign(fs, i) == IF i > Len(fs) THEN <<>> ELSE <<[name |-> fs[i].name, cc |-> "ccc", external |-> TRUE]>> \o AbiOfForeign(fs, i + 1)
AbiRule(p) == AbiOfFns(p.fns, 1) \o AbiOfForeign(p.foreign, 1)

(***************************************************************************)
(* Static rule cells.                                                      *)
(***************************************************************************)
\* types that the documentation lists for `extern` signatures (element / pointee types of views and pointers likewise)
RECURSIVE AbiType(_)
AbiType(ty) == CASE ty.k = "prim" -> ty.t \in AbiIntSet
                 [] ty.k = "view" -> AbiType(ty.e)
                 [] ty.k = "ptr" -> AbiType(ty.e)
                 [] OTHER -> FALSE
\* the verdict for `extern fn f(x: ty);` and `extern fn f() -> ty;`: accepted, or rejected with E358.
\* Unconstrained (the documentation does not decide; both outcomes are accepted): char8 (not in the list, but a
\* one-byte integer in C as well; the compiler accepts it); views of / pointers to something that is not itself
\* in the list ("pointers" are allowed, the text does not say to what; the compiler rejects `&S`, `&i128`).
SigVerdict(ty) == IF ty.k = "prim" THEN (IF ty.t = "char8" THEN "unconstrained" ELSE IF ty.t \in AbiIntSet THEN "accept" ELSE "E358")
                  ELSE IF ty.k \in {"view", "ptr"} THEN (IF AbiType(ty) THEN "accept" ELSE "unconstrained")
                  ELSE "E358"
\* `|x|` where x is a view parameter ([]T or &[]T) of an `extern` function: rejected (which code is not documented)
LenVerdict(isExtern) == IF isExtern THEN "reject" ELSE "accept"
=============================================================================

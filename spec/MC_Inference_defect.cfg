SPECIFICATION Spec
CONSTANTS
  TypeSeq <- TS2
  MaxVars = 2
  MaxStmts = 2
  Forms = {"sfx", "tv", "bin", "as", "call", "idx", "cmp", "declt", "asgu", "asgt", "chain"}
  Rets = {"void", "i32"}
INVARIANTS AComplete
CHECK_DEADLOCK FALSE

------------------------------ MODULE CliArgs ------------------------------
(***************************************************************************)
(* C18, third part -- how the command line, the configuration file and the *)
(* environment arrive at the compiler and at the backend.                  *)
(*                                                                         *)
(* Cli.tla crosses the OPTIONS that select a backend and a rendering with  *)
(* two faults; it always names one or two existing files, never gives      *)
(* `-o`, `--backend-args`, `--link-args`, never lets the environment fail. *)
(* Here a configuration is a BASE invocation (subcommand x valid / invalid *)
(* program) with at most MaxDev deviations, every deviation being one      *)
(* value of one of the dimensions below (so all pairs / triples of         *)
(* deviations are enumerated, grown by Next actions):                      *)
(*                                                                         *)
(*   files   which files are named, in which order:  m (main) | m a |      *)
(*           m a z | a m | a z m (main last: the FIRST file names the      *)
(*           output) | m m (the same module twice) | m C (a file of the    *)
(*           embedded core library, `core:text/char.pn`) | V m (a          *)
(*           directory of the embedded vendor library, `vendor:libc`)      *)
(*   bad     one more file is named last: missing | dir | nonutf8          *)
(*   ofile   -o FILE (build):  plain `prog.bin` | nested `bin/prog`        *)
(*   outdir  --out-dir D:  existing | missing (to be created) | deep       *)
(*           (two levels missing) | file (D is a regular file)             *)
(*   wasm    --wasm (build, emit)                                          *)
(*   bargs   --backend-args:  f1 f2 (flag, one / two arguments) | c1 c2    *)
(*           (config file) | both (flag wins)        (run: flag only)      *)
(*   largs   --link-args, likewise (build)                                 *)
(*   cfgwasm `wasm = true` in the config file (build)                      *)
(*   cfgbad  the config file is missing | has an unknown key | is not TOML *)
(*           | gives `wasm` a string                                       *)
(*   color   --color never                                                 *)
(*   envc    NO_COLOR=1 | TERM=dumb in the environment                     *)
(*                                                                         *)
(* R (property text + `penne help`):                                       *)
(*   - "exits with status 0 exactly when compilation (and the backend it   *)
(*     invoked) succeeded": a file or configuration that cannot be read,   *)
(*     an out dir that cannot be written and an invalid program give a     *)
(*     non-zero status, a message, no backend -- and never a panic;        *)
(*   - --backend-args / --link-args: "Pass one or more arguments,          *)
(*     separated by spaces, to the backend / linker": the backend receives *)
(*     them one by one, in order, before the input; link arguments as      *)
(*     `-Wl,ARG`; the flag wins over the config file ("additional build    *)
(*     options");                                                          *)
(*   - -o FILE: "Write binary output to this file"; else the output is     *)
(*     named after the FIRST file, in the out dir, `.wasm` for the wasm    *)
(*     target (flag or config);                                            *)
(*   - --out-dir: "Write binary output and generated IR to this directory" *)
(*     -- one .pn.ll per module (also per module of an embedded library),  *)
(*     directories are created;                                            *)
(*   - --color=never: no ESC byte, whatever the environment says.          *)
(* The same module named twice: the documentation is silent (a set of      *)
(* modules has no duplicates) -- class `free`: only "no crash" and the     *)
(* consistency of status and backend are demanded.                         *)
(***************************************************************************)
EXTENDS Naturals, Sequences, FiniteSets, TLC, Json

CONSTANT MaxDev

Subs == {"build", "run", "emit"}
Inputs == {"valid", "sem"}

Default == [files |-> "m", bad |-> "none", ofile |-> "none", outdir |-> "none", wasm |-> "no", bargs |-> "none",
            largs |-> "none", cfgwasm |-> "no", cfgbad |-> "none", color |-> "default", envc |-> "none"]
Dims == DOMAIN Default
Others == [files |-> {"m a", "m a z", "a m", "a z m", "m m", "m C", "V m"},
           bad |-> {"missing", "dir", "nonutf8"},
           ofile |-> {"plain", "nested"},
           outdir |-> {"existing", "missing", "deep", "file"},
           wasm |-> {"yes"},
           bargs |-> {"f1", "f2", "c1", "c2", "both"},
           largs |-> {"f1", "f2", "c1", "c2", "both"},
           cfgwasm |-> {"yes"},
           cfgbad |-> {"missing", "unknown-key", "malformed", "wrong-type"},
           color |-> {"never"},
           envc |-> {"NO_COLOR", "TERM=dumb"}]

BuildOnly == {"ofile", "largs", "cfgwasm", "cfgbad"}
Applicable(sub, f, v) ==
    /\ f \in BuildOnly => sub = "build"
    /\ f = "wasm" => sub \in {"build", "emit"}
    /\ f = "bargs" => (sub = "build" \/ (sub = "run" /\ v \in {"f1", "f2"}))

VARIABLE c
Base(sub, input) == [f \in Dims \cup {"sub", "input"} |->
                        IF f = "sub" THEN sub ELSE IF f = "input" THEN input ELSE Default[f]]
Deviations(x) == { f \in Dims : x[f] # Default[f] }
Init == \E sub \in Subs, input \in Inputs : c = Base(sub, input)
Next == /\ Cardinality(Deviations(c)) < MaxDev
        /\ \E f \in Dims : /\ c[f] = Default[f]
                           /\ \E v \in Others[f] : Applicable(c.sub, f, v) /\ c' = [c EXCEPT ![f] = v]
Spec == Init /\ [][Next]_c

(***************************************************************************)
(* R                                                                       *)
(***************************************************************************)
UsesConfig(x) == x.bargs \in {"c1", "c2", "both"} \/ x.largs \in {"c1", "c2", "both"} \/ x.cfgwasm = "yes" \/ x.cfgbad # "none"
Usage(x) == x.cfgbad # "none" \/ x.bad # "none"
Free(x) == x.files = "m m"
Class(x) == IF Usage(x) THEN "usage"
            ELSE IF Free(x) THEN "free"
            ELSE IF x.input = "sem" /\ x.outdir = "file" THEN "fail-any"
            ELSE IF x.input = "sem" THEN "compile-fail"
            ELSE IF x.outdir = "file" THEN "env-fail"
            ELSE "ok"
Ok(x) == Class(x) = "ok"
ExitZero(x) == Ok(x)
Invoked(x) == Ok(x) /\ x.sub # "emit"
\* the flag wins over the config file; arguments arrive one by one
Tok1 == <<"-O2">>
Tok2 == <<"-O1", "-g">>
TokC1 == <<"-Os">>
TokC2 == <<"-O3", "-v">>
BArgs(x) == CASE x.bargs \in {"f1", "both"} -> Tok1 [] x.bargs = "f2" -> Tok2 [] x.bargs = "c1" -> TokC1
              [] x.bargs = "c2" -> TokC2 [] OTHER -> <<>>
LTok1 == <<"-Wl,-s">>
LTok2 == <<"-Wl,-L.", "-Wl,-lm">>
LTokC1 == <<"-Wl,-lc">>
LTokC2 == <<"-Wl,-L/x", "-Wl,-lz">>
LArgs(x) == CASE x.largs \in {"f1", "both"} -> LTok1 [] x.largs = "f2" -> LTok2 [] x.largs = "c1" -> LTokC1
              [] x.largs = "c2" -> LTokC2 [] OTHER -> <<>>
\* what the user writes (the check renders `--backend-args=<joined by one space>` and the TOML strings from these)
FlagB(x) == CASE x.bargs \in {"f1", "both"} -> <<"-O2">> [] x.bargs = "f2" -> <<"-O1", "-g">> [] OTHER -> <<>>
CfgB(x) == CASE x.bargs = "c1" -> <<"-Os">> [] x.bargs \in {"c2", "both"} -> <<"-O3", "-v">> [] OTHER -> <<>>
FlagL(x) == CASE x.largs \in {"f1", "both"} -> <<"-s">> [] x.largs = "f2" -> <<"-L.", "-lm">> [] OTHER -> <<>>
CfgL(x) == CASE x.largs = "c1" -> <<"-lc">> [] x.largs \in {"c2", "both"} -> <<"-L/x", "-lz">> [] OTHER -> <<>>
\* build: ARGS... -Wl,LINK... -x ir - -o OUT ; run: ARGS... -      (OUT is appended by the check from `out`)
Argv(x) == IF x.sub = "build" THEN BArgs(x) \o LArgs(x) \o <<"-x", "ir", "-", "-o">> ELSE BArgs(x) \o <<"-">>
Wasm(x) == x.wasm = "yes" \/ x.cfgwasm = "yes"
FirstStem(x) == CASE x.files \in {"a m", "a z m"} -> "a" [] x.files = "V m" -> "vendor:libc" [] OTHER -> "m"
OutDirName(x) == CASE x.outdir = "none" -> "" [] x.outdir = "deep" -> "new1/new2" [] x.outdir = "missing" -> "newd" [] OTHER -> "outd"
Out(x) == IF x.sub # "build" \/ ~Ok(x) THEN [kind |-> "none"]
          ELSE IF x.ofile = "plain" THEN [kind |-> "ofile", path |-> "prog.bin"]
          ELSE IF x.ofile = "nested" THEN [kind |-> "ofile", path |-> "bin/prog"]
          ELSE [kind |-> "derived", dir |-> OutDirName(x), stem |-> FirstStem(x), ext |-> IF Wasm(x) THEN "wasm" ELSE "native"]
LlPerModule(x) == Ok(x) /\ x.outdir # "none"
WasmTriple(x) == Wasm(x) /\ LlPerModule(x)
Diag(x) == IF Class(x) = "compile-fail" THEN 402 ELSE 0
NoAnsi(x) == x.color = "never"

Expect(x) == [class |-> Class(x), exit_zero |-> ExitZero(x), invoked |-> Invoked(x), argv |-> IF Invoked(x) THEN Argv(x) ELSE <<>>,
              out |-> Out(x), ll |-> LlPerModule(x), ll_dir |-> OutDirName(x), wasm_triple |-> WasmTriple(x), diag |-> Diag(x),
              no_ansi |-> NoAnsi(x), message |-> Class(x) \in {"usage", "env-fail", "fail-any", "compile-fail"},
              uses_config |-> UsesConfig(x), flag_b |-> FlagB(x), cfg_b |-> CfgB(x), flag_l |-> FlagL(x), cfg_l |-> CfgL(x)]

\* sanity of R itself
Sane == /\ ExitZero(c) => (c.input = "valid" /\ ~Usage(c))
        /\ Invoked(c) => ExitZero(c)
        /\ (c.bargs = "both") => (BArgs(c) = Tok1 /\ CfgB(c) # <<>> /\ FlagB(c) # <<>>)
        /\ (c.largs = "both") => (LArgs(c) = LTok1 /\ CfgL(c) # <<>>)
        /\ \A f \in Deviations(c) : Applicable(c.sub, f, c[f])
        /\ Cardinality(Deviations(c)) <= MaxDev
        /\ (Out(c).kind = "derived" /\ Wasm(c)) => Out(c).ext = "wasm"
EmitCase == PrintT(<<"CASE", ToJson([cfg |-> c, expect |-> Expect(c)])>>)

(***************************************************************************)
(* `penne fuzz tokens --kb N [--mistakes K] [--out-dir D] [--silent |      *)
(* --verbose]`: "Generate random source files ... Write generated source   *)
(* files to this directory".  Status 0 exactly when the file was written   *)
(* (no out dir: nothing is promised but the status); a written file is     *)
(* D/fuzzed_tokens.pn (what the tool itself announces) and is not shorter  *)
(* than N KB (the size clause itself belongs to C19; here it is the        *)
(* faithfulness of the report).  The full product is enumerated.           *)
(***************************************************************************)
\* (mistakes in a text of 0 KB: there is nothing to put them in; the cell is left out -- the check probes it and notes a panic)
FuzzConfigs == { z \in [kb : {0, 1, 4, 64}, outdir : {"none", "existing", "missing", "file"}, verb : {"default", "silent", "verbose"},
                        mistakes : {0, 3}] : z.kb = 0 => z.mistakes = 0 }
FuzzExpect(z) == [exit_zero |-> z.outdir \in {"none", "existing"}, written |-> z.outdir = "existing",
                  free |-> z.outdir = "missing",     \* the help text does not say whether the directory is created
                  min_bytes |-> z.kb * 1024, silent |-> z.verb = "silent"]
EmitFuzz == (c = Base("build", "valid")) => \A z \in FuzzConfigs : PrintT(<<"CASE", ToJson([fuzz |-> z, expect |-> FuzzExpect(z)])>>)
=============================================================================

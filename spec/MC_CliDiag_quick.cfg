SPECIFICATION Spec
CONSTANTS
    NSamples <- EnvSamples
    NInvalid <- EnvInvalid
    Verbs <- VerbsQuick
INVARIANTS Sane EmitCase
CHECK_DEADLOCK FALSE

---------------------------- MODULE MC_VarScope ----------------------------
(* Model-checking / case-emitting wrapper of VarScope (TLC only). *)
EXTENDS VarScope, Json, TLCExt, SequencesExt

Str(b) == [i \in 1..Len(b) |-> b[i].k \o b[i].n]

NoConfig == {[consts |-> <<>>, params |-> <<>>]}
SomeConfigs == {[consts |-> cs, params |-> ps] :
                  cs \in {<<>>, <<"a">>, <<"a", "a">>},
                  ps \in {<<>>, <<"a">>, <<"b">>, <<"b", "b">>}}

EmitCase == phase = "end" =>
    PrintT(<<"CASE", ToJson([b |-> Str(body), consts |-> cfg.consts, params |-> cfg.params,
                             labelok |-> LabelOK(body), nodup |-> NoDup(body, cfg),
                             e402 |-> SetToSeq(R402(body, cfg)),
                             e422 |-> SetToSeq(R422(body, cfg)),
                             e424 |-> SetToSeq(R424(cfg)),
                             e423 |-> SetToSeq(R423(cfg)),
                             e482first |-> SetToSeq(R482first(body, cfg)),
                             baduses |-> SetToSeq(BadUses(body, cfg)),
                             ok |-> RuleAcceptsVars(body, cfg),
                             m482 |-> SetToSeq(alg.e482)])>>)
============================================================================

---------------------------- MODULE MC_VarScope ----------------------------
(* Model-checking / case-emitting wrapper of VarScope (TLC only). *)
EXTENDS VarScope, Json, TLCExt, SequencesExt

Str(b) == [i \in 1..Len(b) |-> b[i].k \o b[i].n]

NoConfig == {[consts |-> <<>>, params |-> <<>>]}
SomeConfigs == {[consts |-> cs, params |-> ps] :
                  cs \in {<<>>, <<"a">>, <<"a", "a">>},
                  ps \in {<<>>, <<"a">>, <<"b">>, <<"b", "b">>}}

\* Dead code (seventh round of seeded changes, C02g): bodies that open with a block -- `{ goto y; var a; z: x = a; y: }` has
\* 7 items and two label names: statements after an unconditional goto, declarations among them, used after a later label
DeadShape == Len(body) = 0 \/ (body[1].k = "O" /\ (Len(body) >= 2 => body[2].k = "G"))      \* `{ goto ...`: dead from the start

EmitCase == phase = "end" =>
    PrintT(<<"CASE", ToJson([b |-> Str(body), consts |-> cfg.consts, params |-> cfg.params,
                             labelok |-> MLabelOK(body), nodup |-> MNoDup(body, cfg),
                             e402 |-> SetToSeq(MR402(body, cfg)),
                             e422 |-> SetToSeq(MR422(body, cfg)),
                             e424 |-> SetToSeq(R424(cfg)),
                             e423 |-> SetToSeq(R423(cfg)),
                             e482first |-> SetToSeq(MR482first(body, cfg)),
                             baduses |-> SetToSeq(MBadUses(body, cfg)),
                             ok |-> MRuleAcceptsVars(body, cfg),
                             m482 |-> SetToSeq(alg.e482)])>>)
============================================================================

SPECIFICATION Spec
CONSTANTS
  K = 2
  Core = FALSE
INVARIANTS EmitCase AlphabetOK
CHECK_DEADLOCK FALSE

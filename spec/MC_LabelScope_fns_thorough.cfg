SPECIFICATION Spec
CONSTANTS
  MaxLen = 6
  NeedResult = FALSE
  MinFns = 2
  MaxFns = 3
  MaxDepth = 2
  Names = {"a", "b"}
INVARIANTS StackOK Agree ForwardOutward EmitCase
CHECK_DEADLOCK FALSE

---------------------------- MODULE PenneGrammar ----------------------------
(***************************************************************************)
(* The grammar of Penne as a generator (C16, C20; reused by C15, C17).     *)
(*                                                                         *)
(* A state is a leftmost sentential form: `toks` are the terminals written *)
(* so far, `stack` is the rest of the form (terminals [t |-> token] and    *)
(* open slots [s |-> nonterminal, ...]; stack[1] is always a slot), `pre`  *)
(* is the preorder of the syntax tree chosen so far.  Every action P_x is  *)
(* one production: it fills the leftmost slot with one node and replaces   *)
(* the slot by the production's right-hand side.  When the stack is empty, *)
(* <<toks, Tree(pre)>> is a module together with its own syntax tree:      *)
(*         R:   Parse(toks) = Tree(pre)    by construction.                *)
(* `-coverage 1` reports how often each production was applied.            *)
(*                                                                         *)
(* Sources: docs/syntax.md, docs/features.md, README.md and the sample     *)
(* programs.  Where they are silent src/alpha/parser.rs was consulted for  *)
(* what is accepted (not for how):                                         *)
(*   precedence levels of an expression slot (field lv)                    *)
(*     0 any expression; a bitwise chain `a & b & c` (one operator only),  *)
(*       a shift `a << b` and `&x .. e` are only possible here, i.e. they  *)
(*       cannot be operands of another binary operator without parentheses *)
(*     1 left operand of + -        (another + - chain, or level 2)        *)
(*     2 right operand of + -, left operand of * / %                       *)
(*     3 right operand of * / %, left operand of a bitwise/shift operator, *)
(*       operand of `as`:  [cast] unary (as T)*                            *)
(*     5 operand of cast, right operand of bitwise/shift: unary expression *)
(*     6 operand of - and !: primary expression                            *)
(*   a slot with c = TRUE lies inside the condition of an `if`, where a    *)
(*   structure literal cannot be written (its brace would open the branch) *)
(*   type contexts: "top"; "inner" (target of & and of a view: no slice,   *)
(*   no view); "elem" (array element: no slice, view, endless array or     *)
(*   array view []T -- docs/errors.md E350)                                *)
(*   statement contexts: "seq"; "then" (no if: an else would bind to it,   *)
(*   no label, no declaration, no `&x = ..`: the & would continue the      *)
(*   condition); "else" (may be an if: else-if chain)                      *)
(*                                                                         *)
(* Mode = "mc": alphabets and bounds come from the CONSTANTS.              *)
(* Mode = "trace": the node to be produced next is dictated by `cur`       *)
(* (Trace_Grammar.tla); names, literals and list lengths are then taken    *)
(* from it, only the closed alphabets (operators, keywords) still apply.   *)
(***************************************************************************)
EXTENDS PenneAst

CONSTANTS Mode, MaxNodes, Enabled,
          FlagSets,          \* which [pub, extern] combinations to derive
          VarForms,          \* which [hasty, hase] forms of `var` to derive
          FnNames, ParamNames, VarNames, LabelNames, GotoNames, MemberNames, TypeNames, ConstNames,
          Builtins, PrimTypes, WordSizes,
          Files, IntLits, CharLits, StrLits, ArrayLens,
          AddOps, MulOps, BitOps, ShiftOps, UnOps, CmpOps,
          MaxDecls, MaxParams, MaxMembers, MaxStmts, MaxBlock, MaxArgs, MaxElems, MaxFields, MaxSteps,
          Addrs,             \* address depths of references in expressions:  &&x
          SetAddrs,          \* address depths on the left of an assignment:  &x = ...
          LenAddrs,          \* address depths inside |x|
          TrailingCommas,    \* subset of BOOLEAN
          LooseMembers       \* TRUE: also derive a last struct member without its comma (tests/samples/valid/view_aliasing.pn)

VARIABLES toks, stack, pre, cur
gvars == <<toks, stack, pre, cur>>

NoCur == [node |-> [k |-> "none"], strs |-> <<>>]

\* symbols of the sentential form
T(tok) == [t |-> tok]
TK(s) == T(Kw(s))
TP(s) == T(P(s))
TI(s) == T(Id(s))
S(name) == [s |-> name]
E(lv, c) == [s |-> "E", lv |-> lv, c |-> c, bit |-> ""]
EB(op, c) == [s |-> "E", lv |-> 3, c |-> c, bit |-> op]
TY(ctx) == [s |-> "Type", ctx |-> ctx]
ST(ctx) == [s |-> "Stmt", ctx |-> ctx]
StepS(c) == [s |-> "Step", c |-> c]
IsT(x) == "t" \in DOMAIN x

RECURSIVE CountT(_, _)
CountT(q, i) == IF i <= Len(q) /\ IsT(q[i]) THEN 1 + CountT(q, i + 1) ELSE 0
\* the least number of nodes still needed to close a form
Cost1(x) == IF IsT(x) THEN 0 ELSE IF x.s \in {"Param", "Member", "Field"} THEN 2 ELSE 1
RECURSIVE CostFrom(_, _)
CostFrom(q, i) == IF i > Len(q) THEN 0 ELSE Cost1(q[i]) + CostFrom(q, i + 1)

Top == stack[1]
At(name) == stack # <<>> /\ Top.s = name
On(p) == p \in Enabled
MC == Mode = "mc"
Open(x, set) == ~MC \/ x \in set

\* fill the leftmost slot with `node`, replace it by `body`, write the terminals that become leftmost
Step(node, body) ==
    LET new == body \o Tail(stack)
        nt == CountT(new, 1)
    IN /\ MC => Len(pre) + 1 + CostFrom(new, 1) <= MaxNodes
       /\ pre' = (IF MC THEN pre ELSE <<>>) \o <<node>>
       /\ toks' = (IF MC THEN toks ELSE <<>>) \o [i \in 1..nt |-> new[i].t]
       /\ stack' = SubSeq(new, nt + 1, Len(new))
       /\ IF MC THEN cur' = cur ELSE TRUE     \* in trace mode Trace_Grammar moves `cur`

\* the nodes a production may create
Cand(kind, mcset) == IF MC THEN mcset ELSE IF cur.node.k = kind THEN {cur.node} ELSE {}
WithHint(tok, lit) == IF "h" \in DOMAIN lit THEN tok @@ [h |-> lit.h] ELSE tok

SepList(n, sym, sep) == [i \in 1..(IF n = 0 THEN 0 ELSE 2 * n - 1) |-> IF i % 2 = 1 THEN sym ELSE sep]
TC(tc) == IF tc THEN <<TP(",")>> ELSE <<>>
TCs(n) == IF n = 0 THEN {FALSE} ELSE IF MC THEN TrailingCommas ELSE BOOLEAN
Amps(n) == Rep(n, TP("&"))

Init == toks = <<>> /\ pre = <<>> /\ stack = <<S("Module")>> /\ cur = NoCur

(***************************************************************************)
(* Declarations.                                                           *)
(***************************************************************************)
FlagT(a) == (IF a.pub THEN <<TK("pub")>> ELSE <<>>) \o (IF a.extern THEN <<TK("extern")>> ELSE <<>>)
FlagOK(a) == ~MC \/ [pub |-> a.pub, extern |-> a.extern] \in FlagSets
Sig(a) == <<TK("fn"), TI(a.name), TP("(")>> \o SepList(a.np, S("Param"), TP(",")) \o <<TP(")")>>
            \o (IF a.hasret THEN <<TP("->"), TY("top")>> ELSE <<>>)

P_Module == /\ On("Module") /\ At("Module")
            /\ \E a \in Cand("module", [k : {"module"}, nd : 1..MaxDecls]) :
                 Step(a, Rep(a.nd, S("Decl")))

P_Fn == /\ On("Fn") /\ At("Decl")
        /\ \E a \in Cand("fn", [k : {"fn"}, name : FnNames, pub : BOOLEAN, extern : BOOLEAN, np : 0..MaxParams,
                                hasret : BOOLEAN, ns : 0..MaxStmts, hasres : BOOLEAN]) :
             /\ FlagOK(a)
             /\ Step(a, FlagT(a) \o Sig(a) \o <<TP("{")>> \o Rep(a.ns, ST("seq"))
                         \o (IF a.hasres THEN <<TK("return"), TP(":"), E(0, FALSE)>> ELSE <<>>) \o <<TP("}")>>)

P_Head == /\ On("Head") /\ At("Decl")
          /\ \E a \in Cand("head", [k : {"head"}, name : FnNames, pub : BOOLEAN, extern : BOOLEAN, np : 0..MaxParams,
                                    hasret : BOOLEAN]) :
               /\ FlagOK(a)
               /\ Step(a, FlagT(a) \o Sig(a) \o <<TP(";")>>)

P_Const == /\ On("Const") /\ At("Decl")
           /\ \E a \in Cand("const", [k : {"const"}, name : ConstNames, pub : BOOLEAN, extern : BOOLEAN]) :
                /\ FlagOK(a)
                /\ Step(a, FlagT(a) \o <<TK("const"), TI(a.name), TP(":"), TY("top"), TP("="), E(0, FALSE), TP(";")>>)

\* every member is followed by a comma; the last comma is what LooseMembers leaves out
MemberList(nm, tc) == [i \in 1..(2 * nm - B2N(nm > 0 /\ ~tc)) |-> IF i % 2 = 1 THEN S("Member") ELSE TP(",")]
MemberTCs(nm) == IF nm = 0 THEN {TRUE} ELSE IF MC /\ ~LooseMembers THEN {TRUE} ELSE BOOLEAN

P_Struct == /\ On("Struct") /\ At("Decl")
            /\ \E a \in Cand("struct", [k : {"struct"}, name : TypeNames, pub : BOOLEAN, extern : BOOLEAN,
                                        nm : 0..MaxMembers, opaque : {FALSE}]) :
               \E tc \in MemberTCs(a.nm) :
                 /\ FlagOK(a) /\ ~a.opaque
                 /\ Step(a, FlagT(a) \o <<TK("struct"), TI(a.name), TP("{")>> \o MemberList(a.nm, tc) \o <<TP("}")>>)

P_Opaque == /\ On("Opaque") /\ At("Decl")
            /\ \E a \in Cand("struct", [k : {"struct"}, name : TypeNames, pub : BOOLEAN, extern : BOOLEAN,
                                        nm : {0}, opaque : {TRUE}]) :
                 /\ FlagOK(a) /\ a.opaque /\ a.nm = 0
                 /\ Step(a, FlagT(a) \o <<TK("struct"), TI(a.name), TP(";")>>)

P_Word == /\ On("Word") /\ At("Decl")
          /\ \E a \in Cand("word", [k : {"word"}, name : TypeNames, pub : BOOLEAN, extern : BOOLEAN,
                                    nm : 0..MaxMembers, size : WordSizes]) :
             \E tc \in MemberTCs(a.nm) :
               /\ FlagOK(a) /\ a.size \in {1, 2, 4, 8, 16}
               /\ Step(a, FlagT(a) \o <<TK(WordKw(a.size)), TI(a.name), TP("{")>> \o MemberList(a.nm, tc) \o <<TP("}")>>)

FileCand == IF MC THEN Files ELSE IF cur.node.k = "import" THEN {[bytes |-> cur.node.file]} ELSE {}
P_Import == /\ On("Import") /\ At("Decl")
            /\ \E f \in FileCand :
                 Step([k |-> "import", file |-> f.bytes], <<TK("import"), T(WithHint(StrTok(f.bytes), f)), TP(";")>>)

P_Param == /\ On("Param") /\ At("Param")
           /\ \E a \in Cand("param", [k : {"param"}, name : ParamNames]) :
                Step(a, <<TI(a.name), TP(":"), TY("top")>>)

P_Member == /\ On("Member") /\ At("Member")
            /\ \E a \in Cand("member", [k : {"member"}, name : MemberNames]) :
                 Step(a, <<TI(a.name), TP(":"), TY("top")>>)

(***************************************************************************)
(* Types.                                                                  *)
(***************************************************************************)
AllPrim == {"i8", "i16", "i32", "i64", "i128", "u8", "u16", "u32", "u64", "u128", "usize", "bool", "char8"}
TyAt(ctxs) == At("Type") /\ Top.ctx \in ctxs
AnyCtx == {"top", "inner", "elem"}

P_TyPrim == /\ On("TyPrim") /\ TyAt(AnyCtx)
            /\ \E a \in Cand("prim", [k : {"prim"}, t : PrimTypes]) :
                 /\ a.t \in AllPrim
                 /\ Step(a, <<T(TyKw(a.t))>>)
P_TyNamed == /\ On("TyNamed") /\ TyAt(AnyCtx)
             /\ \E a \in Cand("named", [k : {"named"}, n : TypeNames]) :
                  Step(a, <<TI(a.n)>>)
P_TyPtr == /\ On("TyPtr") /\ TyAt(AnyCtx)
           /\ \E a \in Cand("ptr", {[k |-> "ptr"]}) : Step(a, <<TP("&"), TY("inner")>>)
P_TyView == /\ On("TyView") /\ TyAt({"top"})
            /\ \E a \in Cand("view", {[k |-> "view"]}) : Step(a, <<TP("("), TY("inner"), TP(")")>>)
LenCand == IF MC THEN ArrayLens ELSE IF cur.node.k = "tarray" THEN {[v |-> cur.node.n]} ELSE {}
P_TyArray == /\ On("TyArray") /\ TyAt(AnyCtx)
             /\ \E l \in LenCand :
                  Step([k |-> "tarray", n |-> l.v], <<TP("["), T(WithHint(IntTok(l.v, ""), l)), TP("]"), TY("elem")>>)
P_TyArrayC == /\ On("TyArrayC") /\ TyAt(AnyCtx)
              /\ \E a \in Cand("tarrayc", [k : {"tarrayc"}, c : ConstNames]) :
                   Step(a, <<TP("["), TI(a.c), TP("]"), TY("elem")>>)
P_TySlice == /\ On("TySlice") /\ TyAt({"top"})
             /\ \E a \in Cand("slice", {[k |-> "slice"]}) : Step(a, <<TP("["), TP(":"), TP("]"), TY("elem")>>)
P_TyEndless == /\ On("TyEndless") /\ TyAt({"top", "inner"})
               /\ \E a \in Cand("endless", {[k |-> "endless"]}) : Step(a, <<TP("["), TP(".."), TP("]"), TY("elem")>>)
\* docs/errors.md E350: []T has no size known at compile time, so it cannot be an array element ([10][]u8, [][]i32)
P_TyArraylike == /\ On("TyArraylike") /\ TyAt({"top", "inner"})
                 /\ \E a \in Cand("arraylike", {[k |-> "arraylike"]}) : Step(a, <<TP("["), TP("]"), TY("elem")>>)

(***************************************************************************)
(* Statements.                                                             *)
(***************************************************************************)
StAt(ctxs) == At("Stmt") /\ Top.ctx \in ctxs
AnySt == {"seq", "then", "else"}
RefT(a, c) == Amps(a.addr) \o <<TI(a.base)>> \o Rep(a.nsteps, StepS(c))
\* (a trailing comma after the last argument: examples/wasm4/write_with_custom_font.pn)
ArgsT(na, c, tc) == <<TP("(")>> \o SepList(na, E(0, c), TP(",")) \o TC(tc) \o <<TP(")")>>

P_Var == /\ On("Var") /\ StAt({"seq"})
         /\ \E a \in Cand("var", [k : {"var"}, x : VarNames, hasty : BOOLEAN, hase : BOOLEAN]) :
              /\ ~MC \/ [hasty |-> a.hasty, hase |-> a.hase] \in VarForms
              /\ Step(a, <<TK("var"), TI(a.x)>> \o (IF a.hasty THEN <<TP(":"), TY("top")>> ELSE <<>>)
                          \o (IF a.hase THEN <<TP("="), E(0, FALSE)>> ELSE <<>>) \o <<TP(";")>>)
P_Set == /\ On("Set") /\ StAt(AnySt)
         /\ \E a \in Cand("set", [k : {"set"}, addr : SetAddrs, base : VarNames, nsteps : 0..MaxSteps]) :
              \* directly after a condition `&x = ..` would read as the bitwise operator:  if a == b &x = 1;
              /\ Top.ctx = "then" => a.addr = 0
              /\ Step(a, RefT(a, FALSE) \o <<TP("="), E(0, FALSE), TP(";")>>)
P_Call == /\ On("Call") /\ StAt(AnySt)
          /\ \E a \in Cand("call", [k : {"call"}, f : FnNames, na : 0..MaxArgs, builtin : {FALSE}]) :
             \E tc \in TCs(a.na) :
               /\ ~a.builtin
               /\ Step(a, <<TI(a.f)>> \o ArgsT(a.na, FALSE, tc) \o <<TP(";")>>)
P_BCall == /\ On("BCall") /\ StAt(AnySt)
           /\ \E a \in Cand("call", [k : {"call"}, f : Builtins, na : 0..MaxArgs, builtin : {TRUE}]) :
              \E tc \in TCs(a.na) :
                /\ a.builtin
                /\ Step(a, <<T(Bi(a.f))>> \o ArgsT(a.na, FALSE, tc) \o <<TP(";")>>)
P_Loop == /\ On("Loop") /\ StAt(AnySt)
          /\ \E a \in Cand("loop", {[k |-> "loop"]}) : Step(a, <<TK("loop"), TP(";")>>)
P_Goto == /\ On("Goto") /\ StAt(AnySt)
          /\ \E a \in Cand("goto", [k : {"goto"}, l : GotoNames]) :
               Step(a, <<TK("goto"), (IF a.l = "return" THEN TK("return") ELSE TI(a.l)), TP(";")>>)
P_Label == /\ On("Label") /\ StAt({"seq"})
           /\ \E a \in Cand("label", [k : {"label"}, l : LabelNames]) :
                /\ a.l # "return"
                /\ Step(a, <<TI(a.l), TP(":")>>)
P_If == /\ On("If") /\ StAt({"seq", "else"})
        /\ \E a \in Cand("if", [k : {"if"}, op : CmpOps, haselse : BOOLEAN]) :
             /\ a.op \in {"==", "!=", "<", ">", "<=", ">="}
             /\ Step(a, <<TK("if"), E(0, TRUE), TP(a.op), E(0, TRUE), ST("then")>>
                         \o (IF a.haselse THEN <<TK("else"), ST("else")>> ELSE <<>>))
P_Block == /\ On("Block") /\ StAt(AnySt)
           /\ \E a \in Cand("block", [k : {"block"}, ns : 0..MaxBlock]) :
                Step(a, <<TP("{")>> \o Rep(a.ns, ST("seq")) \o <<TP("}")>>)

(***************************************************************************)
(* Expressions.                                                            *)
(***************************************************************************)
Lv(l) == At("E") /\ Top.lv <= l
C == Top.c

P_BinAdd == /\ On("BinAdd") /\ Lv(1)
            /\ \E a \in Cand("bin", [k : {"bin"}, op : AddOps]) :
                 /\ a.op \in {"+", "-"}
                 /\ Step(a, <<E(1, C), TP(a.op), E(2, C)>>)
P_BinMul == /\ On("BinMul") /\ Lv(2)
            /\ \E a \in Cand("bin", [k : {"bin"}, op : MulOps]) :
                 /\ a.op \in {"*", "/", "%"}
                 /\ Step(a, <<E(2, C), TP(a.op), E(3, C)>>)
P_BinBit == /\ On("BinBit") /\ At("E")
            /\ \E a \in Cand("bin", [k : {"bin"}, op : BitOps]) :
                 /\ a.op \in {"&", "|", "^"}
                 /\ Top.lv = 0 \/ (Top.lv = 3 /\ Top.bit = a.op)
                 /\ Step(a, <<EB(a.op, C), TP(a.op), E(5, C)>>)
P_BinShift == /\ On("BinShift") /\ Lv(0)
              /\ \E a \in Cand("bin", [k : {"bin"}, op : ShiftOps]) :
                   /\ a.op \in {"<<", ">>"}
                   /\ Step(a, <<E(3, C), TP(a.op), E(5, C)>>)
\* `&x .. e` : e extends as far as possible, so the form can only stand where nothing can follow it
P_Advance == /\ On("Advance") /\ Lv(0)
             /\ \E a \in Cand("bin", {[k |-> "bin", op |-> ".."]}) :
                  /\ a.op = ".."
                  /\ Step(a, <<[s |-> "AdvRef", c |-> C], TP(".."), E(0, C)>>)
P_AdvRef == /\ On("Advance") /\ At("AdvRef")
            /\ \E a \in Cand("deref", [k : {"deref"}, addr : Addrs \ {0}, base : VarNames, nsteps : 0..MaxSteps]) :
                 /\ a.addr >= 1
                 /\ Step(a, RefT(a, C))
P_As == /\ On("As") /\ Lv(3)
        /\ \E a \in Cand("as", {[k |-> "as"]}) : Step(a, <<E(3, C), TK("as"), TY("top")>>)
P_Cast == /\ On("Cast") /\ Lv(3)
          /\ \E a \in Cand("cast", {[k |-> "cast"]}) : Step(a, <<TK("cast"), E(5, C)>>)
P_Un == /\ On("Un") /\ Lv(5)
        /\ \E a \in Cand("un", [k : {"un"}, op : UnOps]) :
             /\ a.op \in {"-", "!"}
             /\ Step(a, <<TP(a.op), E(6, C)>>)
P_Len == /\ On("Len") /\ Lv(5)
         /\ \E a \in Cand("len", [k : {"len"}, addr : LenAddrs, base : VarNames, nsteps : 0..MaxSteps]) :
              Step(a, <<TP("|")>> \o RefT(a, C) \o <<TP("|")>>)
P_SizeOf == /\ On("SizeOf") /\ Lv(5)
            /\ \E a \in Cand("sizeof", {[k |-> "sizeof"]}) : Step(a, <<TP("|:"), TY("top"), TP("|")>>)

IntCand == IF MC THEN IntLits ELSE IF cur.node.k = "int" THEN {[v |-> cur.node.v, suffix |-> cur.node.suffix]} ELSE {}
P_Int == /\ On("Int") /\ Lv(6)
         /\ \E l \in IntCand :
              Step([k |-> "int", v |-> l.v, suffix |-> l.suffix], <<T(WithHint(IntTok(l.v, l.suffix), l))>>)
P_Bool == /\ On("Bool") /\ Lv(6)
          /\ \E a \in Cand("bool", [k : {"bool"}, v : BOOLEAN]) : Step(a, <<T(BoolTok(a.v))>>)
CharCand == IF MC THEN CharLits ELSE IF cur.node.k = "char" THEN {[v |-> cur.node.v]} ELSE {}
P_Char == /\ On("Char") /\ Lv(6)
          /\ \E l \in CharCand : Step([k |-> "char", v |-> l.v], <<T(WithHint(CharTok(l.v), l))>>)
\* a string literal may be written in several adjacent pieces
Bytes(pieces) == Concat([i \in 1..Len(pieces) |-> pieces[i].bytes])
StrCand == IF MC THEN StrLits
           ELSE IF cur.node.k = "str" /\ cur.strs # <<>> /\ Bytes(cur.strs) = cur.node.bytes THEN {[pieces |-> cur.strs]}
           ELSE {}
P_Str == /\ On("Str") /\ Lv(6)
         /\ \E l \in StrCand :
              Step([k |-> "str", bytes |-> Bytes(l.pieces)],
                   [i \in 1..Len(l.pieces) |-> T(WithHint(StrTok(l.pieces[i].bytes), l.pieces[i]))])
P_FCall == /\ On("FCall") /\ Lv(6)
           /\ \E a \in Cand("fcall", [k : {"fcall"}, f : FnNames, na : 0..MaxArgs, builtin : {FALSE}]) :
              \E tc \in TCs(a.na) :
                /\ ~a.builtin
                /\ Step(a, <<TI(a.f)>> \o ArgsT(a.na, C, tc))
P_BFCall == /\ On("BFCall") /\ Lv(6)
            /\ \E a \in Cand("fcall", [k : {"fcall"}, f : Builtins, na : 0..MaxArgs, builtin : {TRUE}]) :
               \E tc \in TCs(a.na) :
                 /\ a.builtin
                 /\ Step(a, <<T(Bi(a.f))>> \o ArgsT(a.na, C, tc))
P_Array == /\ On("Array") /\ Lv(6)
           /\ \E a \in Cand("array", [k : {"array"}, n : 0..MaxElems]) :
              \E tc \in TCs(a.n) :
                Step(a, <<TP("[")>> \o SepList(a.n, E(0, C), TP(",")) \o TC(tc) \o <<TP("]")>>)
P_Structural == /\ On("Structural") /\ Lv(6) /\ ~C
                /\ \E a \in Cand("structural", [k : {"structural"}, name : TypeNames, nf : 0..MaxFields]) :
                   \E tc \in TCs(a.nf) :
                     Step(a, <<TI(a.name), TP("{")>> \o SepList(a.nf, S("Field"), TP(",")) \o TC(tc) \o <<TP("}")>>)
P_FieldFull == /\ On("FieldFull") /\ At("Field")
               /\ \E a \in Cand("field", [k : {"field"}, name : MemberNames]) :
                    Step(a, <<TI(a.name), TP(":"), E(0, FALSE)>>)
\* `name` alone stands for `name: name`
P_FieldShort == /\ On("FieldShort") /\ At("Field")
                /\ \E a \in Cand("field", [k : {"field"}, name : MemberNames]) :
                     Step(a, <<TI(a.name), [s |-> "ShortDeref", name |-> a.name]>>)
P_ShortDeref == /\ On("FieldShort") /\ At("ShortDeref")
                /\ \E a \in Cand("deref", {[k |-> "deref", addr |-> 0, base |-> Top.name, nsteps |-> 0]}) :
                     /\ a.addr = 0 /\ a.base = Top.name /\ a.nsteps = 0
                     /\ Step(a, <<>>)
P_Paren == /\ On("Paren") /\ Lv(6)
           /\ \E a \in Cand("paren", {[k |-> "paren"]}) : Step(a, <<TP("("), E(0, C), TP(")")>>)
P_Deref == /\ On("Deref") /\ Lv(6)
           /\ \E a \in Cand("deref", [k : {"deref"}, addr : Addrs, base : VarNames, nsteps : 0..MaxSteps]) :
                Step(a, RefT(a, C))
P_Idx == /\ On("Idx") /\ At("Step")
         /\ \E a \in Cand("idx", {[k |-> "idx"]}) : Step(a, <<TP("["), E(0, C), TP("]")>>)
P_Mem == /\ On("Mem") /\ At("Step")
         /\ \E a \in Cand("mem", [k : {"mem"}, m : MemberNames]) : Step(a, <<TP("."), TI(a.m)>>)

Productions == {"Module", "Fn", "Head", "Const", "Struct", "Opaque", "Word", "Import", "Param", "Member",
                "TyPrim", "TyNamed", "TyPtr", "TyView", "TyArray", "TyArrayC", "TySlice", "TyEndless", "TyArraylike",
                "Var", "Set", "Call", "BCall", "Loop", "Goto", "Label", "If", "Block",
                "BinAdd", "BinMul", "BinBit", "BinShift", "Advance", "As", "Cast", "Un", "Len", "SizeOf",
                "Int", "Bool", "Char", "Str", "FCall", "BFCall", "Array", "Structural", "FieldFull", "FieldShort",
                "Paren", "Deref", "Idx", "Mem"}

Produce == \/ P_Module \/ P_Fn \/ P_Head \/ P_Const \/ P_Struct \/ P_Opaque \/ P_Word \/ P_Import \/ P_Param \/ P_Member
           \/ P_TyPrim \/ P_TyNamed \/ P_TyPtr \/ P_TyView \/ P_TyArray \/ P_TyArrayC \/ P_TySlice \/ P_TyEndless
           \/ P_TyArraylike
           \/ P_Var \/ P_Set \/ P_Call \/ P_BCall \/ P_Loop \/ P_Goto \/ P_Label \/ P_If \/ P_Block
           \/ P_BinAdd \/ P_BinMul \/ P_BinBit \/ P_BinShift \/ P_Advance \/ P_AdvRef \/ P_As \/ P_Cast \/ P_Un \/ P_Len
           \/ P_SizeOf \/ P_Int \/ P_Bool \/ P_Char \/ P_Str \/ P_FCall \/ P_BFCall \/ P_Array \/ P_Structural
           \/ P_FieldFull \/ P_FieldShort \/ P_ShortDeref \/ P_Paren \/ P_Deref \/ P_Idx \/ P_Mem

Next == Produce
Spec == Init /\ [][Next]_gvars

Complete == stack = <<>>
\* the canonical unparse of the tree is the text that was written (modulo optional commas / string pieces)
ToksAgree == Complete => Canon(toks) = Toks(Tree(pre))
TreeOK == Complete => WellFormed(pre)
=============================================================================

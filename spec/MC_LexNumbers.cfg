SPECIFICATION Spec
INVARIANT NumberOK
CHECK_DEADLOCK FALSE

SPECIFICATION Spec
CONSTANTS
  MaxModules = 3
  MaxDecls = 2
  MaxTotal = 2
  MaxImports = 3
  MaxBadImports = 1
  ExportKeepsPoison = FALSE
  PoisonNeedsRoot = TRUE
INVARIANTS I1 I2 I3 I4 I5 EmitCase
CHECK_DEADLOCK FALSE

SPECIFICATION TSpec
CONSTANTS
  MaxSteps = 0
  Subs = {"emit", "build"}
POSTCONDITION Accepted
CHECK_DEADLOCK FALSE

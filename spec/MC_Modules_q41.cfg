SPECIFICATION Spec
CONSTANTS
  MaxMods = 4
  MaxDecls = 1
  ImportPositions = FALSE
  ImportTwice = FALSE
  Restricted = TRUE
  Dirs <- FlatDirs
INVARIANTS VisibleOK NoLeak EmitCase
CHECK_DEADLOCK FALSE

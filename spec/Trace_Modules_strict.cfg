SPECIFICATION TSpec
CONSTANTS
  MaxMods = 5
  MaxDecls = 3
  Dirs <- TraceDirs
  Strict = TRUE
POSTCONDITION Accepted
CHECK_DEADLOCK FALSE

SPECIFICATION Spec
CONSTANTS
  MaxDecls = 7
  Names <- MCNames
  Shapes <- NarrowShapes
  SkipOffByOne = FALSE
  KeepListFirst = FALSE
  KeepPublicFlag = FALSE
  NoBodyZone = FALSE
INVARIANTS Incremental ParseFaithful ZonesOK ZoneCoverage HeaderIsRule RefsIntact NothingPrivate Conservation EmitCase
CHECK_DEADLOCK FALSE

------------------------------ MODULE PenneAst ------------------------------
(***************************************************************************)
(* Abstract syntax of Penne modules (DESIGN.md 4.1) and its canonical      *)
(* concrete syntax.                                                        *)
(*                                                                         *)
(* A module is handled in two equivalent shapes:                           *)
(*   pre    the preorder sequence of its nodes; every node carries what    *)
(*          determines the number of its children (Arity), so a sequence   *)
(*          is a tree iff it is a well-formed Polish prefix;               *)
(*   tree   the nested records of the exchange format (Tree(pre)), with    *)
(*          optional fields omitted.                                       *)
(* Toks(tree) is the canonical token list of a tree: what one has to write *)
(* to denote it (optional trailing commas left out, adjacent string        *)
(* pieces written as one literal).  The syntax is the documented one       *)
(* (docs/syntax.md, docs/features.md, README.md, the sample programs);     *)
(* operator precedence is taken from src/alpha/parser.rs where the         *)
(* documents are silent (see PenneGrammar.tla).                            *)
(*                                                                         *)
(* Tokens are records [k, ...]: kw / p(unctuation) / id / ty(pe keyword) / *)
(* bi (builtin, spelled s!) with spelling s; int [v, suffix]; char [v];    *)
(* bool [v]; str [bytes].  A field h, where present, is a spelling hint    *)
(* for the renderer (base, digits, separators, escapes) and not part of    *)
(* the token.                                                              *)
(***************************************************************************)
EXTENDS Naturals, Integers, Sequences, FiniteSets, TLC

Kw(s) == [k |-> "kw", s |-> s]
P(s) == [k |-> "p", s |-> s]
Id(s) == [k |-> "id", s |-> s]
TyKw(s) == [k |-> "ty", s |-> s]
Bi(s) == [k |-> "bi", s |-> s]
BoolTok(v) == [k |-> "bool", v |-> v]
IntTok(v, suffix) == [k |-> "int", v |-> v, suffix |-> suffix]
CharTok(v) == [k |-> "char", v |-> v]
StrTok(bytes) == [k |-> "str", bytes |-> bytes]
\* a token without its spelling hint
TokAbs(t) == IF "h" \in DOMAIN t THEN [x \in DOMAIN t \ {"h"} |-> t[x]] ELSE t

B2N(b) == IF b THEN 1 ELSE 0

(***************************************************************************)
(* Number of children of a node, in the order in which they follow it.     *)
(*   module nd: declarations                                               *)
(*   fn: np param, [ret type], ns statements, [result expression]          *)
(*   head: np param, [ret type]      const: type, value                    *)
(*   struct/word: nm member          param/member: type                    *)
(*   var: [type], [value]            set/deref/len: nsteps steps (+ value) *)
(*   call/fcall: na arguments        if: left, right, then, [else]         *)
(*   block: ns statements            idx: index expression                 *)
(*   bin: left, right                un/paren/cast: operand                *)
(*   as: operand, type               sizeof: type                          *)
(*   array: n elements               structural: nf field; field: value    *)
(***************************************************************************)
Arity(n) ==
    CASE n.k = "module" -> n.nd
      [] n.k = "fn" -> n.np + B2N(n.hasret) + n.ns + B2N(n.hasres)
      [] n.k = "head" -> n.np + B2N(n.hasret)
      [] n.k = "const" -> 2
      [] n.k \in {"struct", "word"} -> n.nm
      [] n.k \in {"param", "member"} -> 1
      [] n.k \in {"ptr", "view", "tarray", "tarrayc", "slice", "endless", "arraylike"} -> 1
      [] n.k = "var" -> B2N(n.hasty) + B2N(n.hase)
      [] n.k = "set" -> n.nsteps + 1
      [] n.k \in {"deref", "len"} -> n.nsteps
      [] n.k \in {"call", "fcall"} -> n.na
      [] n.k = "if" -> 3 + B2N(n.haselse)
      [] n.k = "block" -> n.ns
      [] n.k \in {"idx", "un", "paren", "cast", "sizeof", "field"} -> 1
      [] n.k \in {"bin", "as"} -> 2
      [] n.k = "array" -> n.n
      [] n.k = "structural" -> n.nf
      [] OTHER -> 0     \* import prim named loop goto label mem bool int char str

(***************************************************************************)
(* pre -> nested tree.                                                     *)
(***************************************************************************)
With(c, r, e) == IF c THEN r @@ e ELSE r
Flags(n) == [pub |-> n.pub, extern |-> n.extern]
RefOf(n, ts) == [addr |-> n.addr, base |-> n.base, steps |-> SubSeq(ts, 1, n.nsteps)]
CallOf(kind, n, ts) == With(n.builtin, [k |-> kind, f |-> n.f, args |-> ts], [builtin |-> TRUE])

\* the nested record of node n whose children's records are ts
Assemble(n, ts) ==
    CASE n.k = "module" -> [decls |-> ts]
      [] n.k = "fn" ->
           LET o == n.np + B2N(n.hasret)
               base == [k |-> "fn", name |-> n.name, params |-> SubSeq(ts, 1, n.np),
                        body |-> SubSeq(ts, o + 1, o + n.ns)] @@ Flags(n)
           IN With(n.hasres, With(n.hasret, base, [ret |-> ts[n.np + 1]]), [result |-> ts[Len(ts)]])
      [] n.k = "head" ->
           With(n.hasret, [k |-> "head", name |-> n.name, params |-> SubSeq(ts, 1, n.np)] @@ Flags(n),
                [ret |-> ts[Len(ts)]])
      [] n.k = "const" -> [k |-> "const", name |-> n.name, ty |-> ts[1], value |-> ts[2]] @@ Flags(n)
      [] n.k = "struct" -> With(n.opaque, [k |-> "struct", name |-> n.name, members |-> ts] @@ Flags(n),
                                [opaque |-> TRUE])
      [] n.k = "word" -> [k |-> "word", name |-> n.name, size |-> n.size, members |-> ts] @@ Flags(n)
      [] n.k = "import" -> [k |-> "import", file |-> n.file]
      [] n.k \in {"param", "member"} -> [name |-> n.name, ty |-> ts[1]]
      [] n.k = "prim" -> [k |-> "prim", t |-> n.t]
      [] n.k = "named" -> [k |-> "named", n |-> n.n]
      [] n.k = "tarray" -> [k |-> "array", n |-> n.n, t |-> ts[1]]
      [] n.k = "tarrayc" -> [k |-> "arrayc", c |-> n.c, t |-> ts[1]]
      [] n.k \in {"ptr", "view", "slice", "endless", "arraylike"} -> [k |-> n.k, t |-> ts[1]]
      [] n.k = "var" ->
           With(n.hase, With(n.hasty, [k |-> "var", x |-> n.x], [ty |-> ts[1]]), [e |-> ts[Len(ts)]])
      [] n.k = "set" -> [k |-> "set", ref |-> RefOf(n, ts), e |-> ts[Len(ts)]]
      [] n.k = "call" -> CallOf("call", n, ts)
      [] n.k = "loop" -> [k |-> "loop"]
      [] n.k = "goto" -> [k |-> "goto", l |-> n.l]
      [] n.k = "label" -> [k |-> "label", l |-> n.l]
      [] n.k = "if" ->
           With(n.haselse, [k |-> "if", c |-> [op |-> n.op, l |-> ts[1], r |-> ts[2]], t |-> ts[3]], [e |-> ts[Len(ts)]])
      [] n.k = "block" -> [k |-> "block", b |-> ts]
      [] n.k = "idx" -> [k |-> "idx", e |-> ts[1]]
      [] n.k = "mem" -> [k |-> "mem", m |-> n.m]
      [] n.k = "bin" -> [k |-> "bin", op |-> n.op, l |-> ts[1], r |-> ts[2]]
      [] n.k = "un" -> [k |-> "un", op |-> n.op, e |-> ts[1]]
      [] n.k = "bool" -> [k |-> "bool", v |-> n.v]
      [] n.k = "int" -> With(n.suffix # "", [k |-> "int", v |-> n.v], [suffix |-> n.suffix])
      [] n.k = "char" -> [k |-> "char", v |-> n.v]
      [] n.k = "str" -> [k |-> "str", bytes |-> n.bytes]
      [] n.k = "array" -> [k |-> "array", es |-> ts]
      [] n.k = "structural" -> [k |-> "structural", name |-> n.name, fields |-> ts]
      [] n.k = "field" -> [name |-> n.name, e |-> ts[1]]
      [] n.k = "paren" -> [k |-> "paren", e |-> ts[1]]
      [] n.k = "deref" -> [k |-> "deref", ref |-> RefOf(n, ts)]
      [] n.k = "len" -> [k |-> "len", ref |-> RefOf(n, ts)]
      [] n.k = "cast" -> [k |-> "cast", e |-> ts[1]]
      [] n.k = "as" -> [k |-> "as", e |-> ts[1], ty |-> ts[2]]
      [] n.k = "sizeof" -> [k |-> "sizeof", ty |-> ts[1]]
      [] n.k = "fcall" -> CallOf("fcall", n, ts)

RECURSIVE Sub(_, _), SubN(_, _, _)
\* [t |-> record of the subtree rooted at pre[i], n |-> index after that subtree]
Sub(pre, i) == LET kids == SubN(pre, i + 1, Arity(pre[i]))
               IN [t |-> Assemble(pre[i], kids.ts), n |-> kids.n]
SubN(pre, i, c) == IF c = 0 THEN [ts |-> <<>>, n |-> i]
                   ELSE LET a == Sub(pre, i)
                            b == SubN(pre, a.n, c - 1)
                        IN [ts |-> <<a.t>> \o b.ts, n |-> b.n]

\* a sequence of nodes is one complete tree
RECURSIVE PrefixEnd(_, _, _)
\* index after `c` complete subtrees starting at i, or 0 if the sequence ends early
PrefixEnd(pre, i, c) == IF c = 0 THEN i
                        ELSE IF i > Len(pre) THEN 0
                        ELSE PrefixEnd(pre, i + 1, c - 1 + Arity(pre[i]))
WellFormed(pre) == Len(pre) > 0 /\ pre[1].k = "module" /\ PrefixEnd(pre, 1, 1) = Len(pre) + 1
Tree(pre) == Sub(pre, 1).t

(***************************************************************************)
(* tree -> canonical tokens.                                               *)
(***************************************************************************)
\* ss[1] \o ss[2] \o ... \o ss[n], by halves (a list of 1100 statements costs n log n, not n^2, copies in TLC)
RECURSIVE ConcatRange(_, _, _)
ConcatRange(ss, lo, hi) == IF lo > hi THEN <<>>
                           ELSE IF lo = hi THEN ss[lo]
                           ELSE LET mid == (lo + hi) \div 2
                                IN ConcatRange(ss, lo, mid) \o ConcatRange(ss, mid + 1, hi)
Concat(ss) == ConcatRange(ss, 1, Len(ss))
\* ss[1] sep ss[2] sep ... ss[n]
Join(ss, sep) == IF Len(ss) = 0 THEN <<>>
                 ELSE Concat([i \in 1..(2 * Len(ss) - 1) |-> IF i % 2 = 1 THEN ss[(i + 1) \div 2] ELSE sep])
Rep(n, x) == [i \in 1..n |-> x]
Has(r, f) == f \in DOMAIN r

FlagToks(d) == (IF d.pub THEN <<Kw("pub")>> ELSE <<>>) \o (IF d.extern THEN <<Kw("extern")>> ELSE <<>>)
WordKw(size) == CASE size = 1 -> "word8" [] size = 2 -> "word16" [] size = 4 -> "word32"
                  [] size = 8 -> "word64" [] size = 16 -> "word128"

RECURSIVE TyToks(_), ExprToks(_), StmtToks(_), RefToks(_), StepToks(_)
TyToks(t) ==
    CASE t.k = "prim" -> <<TyKw(t.t)>>
      [] t.k = "named" -> <<Id(t.n)>>
      [] t.k = "ptr" -> <<P("&")>> \o TyToks(t.t)
      [] t.k = "view" -> <<P("(")>> \o TyToks(t.t) \o <<P(")")>>
      [] t.k = "array" -> <<P("["), IntTok(t.n, ""), P("]")>> \o TyToks(t.t)
      [] t.k = "arrayc" -> <<P("["), Id(t.c), P("]")>> \o TyToks(t.t)
      [] t.k = "slice" -> <<P("["), P(":"), P("]")>> \o TyToks(t.t)
      [] t.k = "endless" -> <<P("["), P(".."), P("]")>> \o TyToks(t.t)
      [] t.k = "arraylike" -> <<P("["), P("]")>> \o TyToks(t.t)
StepToks(s) == IF s.k = "idx" THEN <<P("[")>> \o ExprToks(s.e) \o <<P("]")>> ELSE <<P("."), Id(s.m)>>
RefToks(r) == Rep(r.addr, P("&")) \o <<Id(r.base)>> \o Concat([i \in 1..Len(r.steps) |-> StepToks(r.steps[i])])
ArgToks(as) == <<P("(")>> \o Join([i \in 1..Len(as) |-> ExprToks(as[i])], <<P(",")>>) \o <<P(")")>>
CalleeToks(c) == IF Has(c, "builtin") THEN <<Bi(c.f)>> ELSE <<Id(c.f)>>
\* a field written `name` alone denotes `name: name`
FieldToks(f) == IF f.e = [k |-> "deref", ref |-> [addr |-> 0, base |-> f.name, steps |-> <<>>]]
                THEN <<Id(f.name)>> ELSE <<Id(f.name), P(":")>> \o ExprToks(f.e)
ExprToks(e) ==
    CASE e.k = "bin" -> ExprToks(e.l) \o <<P(e.op)>> \o ExprToks(e.r)
      [] e.k = "un" -> <<P(e.op)>> \o ExprToks(e.e)
      [] e.k = "bool" -> <<BoolTok(e.v)>>
      [] e.k = "int" -> <<IntTok(e.v, IF Has(e, "suffix") THEN e.suffix ELSE "")>>
      [] e.k = "char" -> <<CharTok(e.v)>>
      [] e.k = "str" -> <<StrTok(e.bytes)>>
      [] e.k = "array" -> <<P("[")>> \o Join([i \in 1..Len(e.es) |-> ExprToks(e.es[i])], <<P(",")>>) \o <<P("]")>>
      [] e.k = "structural" -> <<Id(e.name), P("{")>>
                                 \o Join([i \in 1..Len(e.fields) |-> FieldToks(e.fields[i])], <<P(",")>>) \o <<P("}")>>
      [] e.k = "paren" -> <<P("(")>> \o ExprToks(e.e) \o <<P(")")>>
      [] e.k = "deref" -> RefToks(e.ref)
      [] e.k = "len" -> <<P("|")>> \o RefToks(e.ref) \o <<P("|")>>
      [] e.k = "cast" -> <<Kw("cast")>> \o ExprToks(e.e)
      [] e.k = "as" -> ExprToks(e.e) \o <<Kw("as")>> \o TyToks(e.ty)
      [] e.k = "sizeof" -> <<P("|:")>> \o TyToks(e.ty) \o <<P("|")>>
      [] e.k = "fcall" -> CalleeToks(e) \o ArgToks(e.args)
StmtToks(s) ==
    CASE s.k = "var" -> <<Kw("var"), Id(s.x)>>
                          \o (IF Has(s, "ty") THEN <<P(":")>> \o TyToks(s.ty) ELSE <<>>)
                          \o (IF Has(s, "e") THEN <<P("=")>> \o ExprToks(s.e) ELSE <<>>) \o <<P(";")>>
      [] s.k = "set" -> RefToks(s.ref) \o <<P("=")>> \o ExprToks(s.e) \o <<P(";")>>
      [] s.k = "call" -> CalleeToks(s) \o ArgToks(s.args) \o <<P(";")>>
      [] s.k = "loop" -> <<Kw("loop"), P(";")>>
      [] s.k = "goto" -> <<Kw("goto"), (IF s.l = "return" THEN Kw("return") ELSE Id(s.l)), P(";")>>
      [] s.k = "label" -> <<Id(s.l), P(":")>>
      [] s.k = "if" -> <<Kw("if")>> \o ExprToks(s.c.l) \o <<P(s.c.op)>> \o ExprToks(s.c.r) \o StmtToks(s.t)
                         \o (IF Has(s, "e") THEN <<Kw("else")>> \o StmtToks(s.e) ELSE <<>>)
      [] s.k = "block" -> <<P("{")>> \o Concat([i \in 1..Len(s.b) |-> StmtToks(s.b[i])]) \o <<P("}")>>

TypedNameToks(p) == <<Id(p.name), P(":")>> \o TyToks(p.ty)
SigToks(d) == <<Kw("fn"), Id(d.name), P("(")>>
                \o Join([i \in 1..Len(d.params) |-> TypedNameToks(d.params[i])], <<P(",")>>) \o <<P(")")>>
                \o (IF Has(d, "ret") THEN <<P("->")>> \o TyToks(d.ret) ELSE <<>>)
MembersToks(ms) == <<P("{")>> \o Join([i \in 1..Len(ms) |-> TypedNameToks(ms[i])], <<P(",")>>) \o <<P("}")>>
DeclToks(d) ==
    CASE d.k = "fn" -> FlagToks(d) \o SigToks(d) \o <<P("{")>>
                         \o Concat([i \in 1..Len(d.body) |-> StmtToks(d.body[i])])
                         \o (IF Has(d, "result") THEN <<Kw("return"), P(":")>> \o ExprToks(d.result) ELSE <<>>)
                         \o <<P("}")>>
      [] d.k = "head" -> FlagToks(d) \o SigToks(d) \o <<P(";")>>
      [] d.k = "const" -> FlagToks(d) \o <<Kw("const"), Id(d.name), P(":")>> \o TyToks(d.ty)
                            \o <<P("=")>> \o ExprToks(d.value) \o <<P(";")>>
      [] d.k = "struct" -> FlagToks(d) \o <<Kw("struct"), Id(d.name)>>
                             \o (IF Has(d, "opaque") THEN <<P(";")>> ELSE MembersToks(d.members))
      [] d.k = "word" -> FlagToks(d) \o <<Kw(WordKw(d.size)), Id(d.name)>> \o MembersToks(d.members)
      [] d.k = "import" -> <<Kw("import"), StrTok(d.file), P(";")>>
Toks(m) == Concat([i \in 1..Len(m.decls) |-> DeclToks(m.decls[i])])

(***************************************************************************)
(* Canonical form of a written token list: hints dropped, a comma directly *)
(* before a closing bracket, brace or parenthesis dropped, adjacent string *)
(* pieces merged.                                                          *)
(***************************************************************************)
IsStr(ts, i) == i >= 1 /\ i <= Len(ts) /\ ts[i].k = "str"
RECURSIVE RunEnd(_, _)
\* the last piece of the run of string pieces that contains piece i
RunEnd(ts, i) == IF IsStr(ts, i + 1) THEN RunEnd(ts, i + 1) ELSE i
\* what token i contributes: nothing if it is an optional comma or a later piece of a string, the whole string if it is
\* the first piece, itself without its hint otherwise
CanonAt(ts, i) ==
    LET t == TokAbs(ts[i]) IN
    IF t = P(",") /\ i < Len(ts) /\ TokAbs(ts[i + 1]) \in {P("]"), P("}"), P(")")} THEN <<>>
    ELSE IF t.k = "str"
         THEN IF IsStr(ts, i - 1) THEN <<>>
              ELSE <<StrTok(Concat([j \in 1..(RunEnd(ts, i) - i + 1) |-> ts[i + j - 1].bytes]))>>
    ELSE <<t>>
Canon(ts) == Concat([i \in 1..Len(ts) |-> CanonAt(ts, i)])
=============================================================================

-------------------------- MODULE MC_LabelScope --------------------------
(* Model-checking / case-emitting wrapper of LabelScope (TLC only). *)
EXTENDS LabelScope, Json, TLCExt, SequencesExt

Str(b) == [i \in 1..Len(b) |-> b[i].k \o b[i].n]

\* one line per finished body: the input and the rule's verdict (and the model's)
EmitCase == phase = "end" =>
    PrintT(<<"CASE", ToJson([b |-> Str(body),
                             e400 |-> SetToSeq(MRuleE400(body)),
                             clash |-> SetToSeq(MRuleClashMembers(body)),
                             nclash |-> Cardinality(MRuleClashEarlier(body)),
                             ok |-> MRuleAccepts(body),
                             m400 |-> SetToSeq(alg.e400),
                             m420 |-> SetToSeq(alg.e420)])>>)
==========================================================================

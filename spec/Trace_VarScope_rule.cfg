SPECIFICATION TSpec
CONSTANTS
  MaxLen = 0
  MinFns = 1
  MaxFns = 1
  Phased = FALSE
  NeedResult = FALSE
  MaxDepth = 0
  VNames = {"a"}
  LNames = {"a"}
  BodyKinds = {"O"}
  Configs = {}
  Strict = FALSE
POSTCONDITION Accepted
CHECK_DEADLOCK FALSE

SPECIFICATION Spec
CONSTANTS
  MaxModules = 2
  MaxDecls = 2
  MaxTotal = 2
  MaxImports = 2
  MaxBadImports = 1
  ExportKeepsPoison = TRUE
  PoisonNeedsRoot = TRUE
INVARIANTS I2
CHECK_DEADLOCK FALSE

SPECIFICATION Spec
CONSTANTS
  MaxLen = 8
  MaxDepth = 3
  Fuel = 100
  Alphabet = {"O", "IO", "C", "IG", "L", "LP", "P", "INC"}
  Names = {"y"}
INVARIANTS MachineSane NoUB Monitors Scans EmitCase
CHECK_DEADLOCK FALSE

SPECIFICATION Spec
CONSTANTS
  MaxMembers = 4
  MaxLen = 8
INVARIANTS RuleSane HugeSane EmitCase
CHECK_DEADLOCK FALSE

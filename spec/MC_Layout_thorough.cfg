SPECIFICATION Spec
CONSTANTS
  MaxMembers = 4
  MaxLen = 8
  MaxExtra = 3
  Deep = 5
INVARIANTS RuleSane HugeSane EmitCase
CHECK_DEADLOCK FALSE

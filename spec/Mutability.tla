----------------------------- MODULE Mutability -----------------------------
(***************************************************************************)
(* C08 -- Only vars and explicitly passed pointers can be mutated.         *)
(*                                                                         *)
(* A reference cell is                                                     *)
(*   [kind  var | param | const,                                           *)
(*    d     declared type of the base,                                     *)
(*    path  steps: "i" (index) or a member name, at most three,            *)
(*    k     address markers written in front of the reference,             *)
(*    ctx   assign   &^k ref = value;                                      *)
(*          read     var r: T = &^k ref;      (T the type of the expression)*)
(*          arg      callee(&^k ref);         (parameter of a fitting type)*)
(*          argmiss  callee(&^k ref);         (parameter is a pointer to the*)
(*                                             type of the expression)]    *)
(*                                                                         *)
(* A cell may carry two more fields that R deliberately IGNORES: y, the     *)
(* statement context of the statement (top level, block, loop block, then  *)
(* / else / else-if arms, after a label) and x, the expression context of  *)
(* an address-of argument (direct, in parentheses, element of an array     *)
(* literal argument, member of a struct literal argument, argument of a    *)
(* nested call, return value, condition; for whole-aggregate copies: what   *)
(* is evaluated earlier in the same statement).  The rule is context       *)
(* independent.  Likewise ignored: pre, a second unit next to the          *)
(* construct (an illegal statement before / after it, a function with an   *)
(* illegal statement before / after its function, a function that legally  *)
(* mutates a `var` of the same name) -- every construct is judged on its   *)
(* own -- and v, the flags `pub` / `extern` of the enclosing function      *)
(* (parameters are immutable whatever the flags).                          *)
(*                                                                         *)
(* R (declarative; errors.md E530-E533, E513, features.md "Views",         *)
(* "Reference pointers", "Structs and words", property C08):               *)
(*  - a place can be mutated iff its base is a `var` (not of view type) or *)
(*    the path to it crosses a pointer dereference;                        *)
(*  - `ref = v` mutates the place behind all pointers of the final type,   *)
(*    `&ref = &v` re-seats the outermost pointer ... each address marker   *)
(*    keeps one pointer level (features.md);                               *)
(*  - taking the address of a place (`&ref` with one marker more than the  *)
(*    pointer depth of the place) creates the ability to mutate it and is  *)
(*    legal only if the place can be mutated (otherwise the non-           *)
(*    interference clause of the property would be void);                  *)
(*  - a whole array / array view / struct as a value outside a call        *)
(*    argument is E531 / E532 / E533;                                      *)
(*  - an argument of type T for a parameter of type &T is E513.            *)
(* A: Autoderef.tla (steps inserted by the typer) + NeedsOuter + the       *)
(* mutability bit, and the CannotCopy test of analyzer/function_calls.rs.  *)
(***************************************************************************)
EXTENDS Autoderef

(***************************************************************************)
(* R                                                                       *)
(***************************************************************************)
\* Walk the written path over the declared type; `crossed` becomes TRUE when a pointer (or a slice
\* pointer) has to be dereferenced to take a step.  Views are looked through without crossing.
RECURSIVE RWalk(_, _, _)
RWalk(t, path, crossed) ==
    IF Kind(t) = "ptr" /\ path # <<>> THEN RWalk(Rest(t), path, TRUE)
    ELSE IF Kind(t) = "view" /\ path # <<>> THEN RWalk(Rest(t), path, crossed)
    ELSE IF path = <<>> THEN [ok |-> TRUE, t |-> t, crossed |-> crossed]
    ELSE IF Head(path) = "i"
         THEN IF Kind(t) \in {"arr", "slice", "endless"} THEN RWalk(ElemOf(t), Tail(path), crossed)
              ELSE IF Kind(t) = "sptr" THEN RWalk(ElemOf(t), Tail(path), TRUE)
              ELSE [ok |-> FALSE, t |-> t, crossed |-> crossed]
    ELSE IF Head(path) \in MemberNames(t) THEN RWalk(Members(t[2])[Head(path)], Tail(path), crossed)
    ELSE [ok |-> FALSE, t |-> t, crossed |-> crossed]

WellTypedPath(D, path) == RWalk(D, path, FALSE).ok

BaseMutable(kind, D) == kind = "var" /\ Kind(D) \notin {"slice", "sptr", "view"}

LastOf(s) == s[Len(s)]

RECURSIVE Declarable(_)
Declarable(t) == CASE IsPrim(t) -> TRUE
                   [] Kind(t) = "ptr" -> Kind(Rest(t)) \notin {"slice", "sptr", "view"} /\ Declarable(Rest(t))
                   [] Kind(t) = "arr" -> Declarable(Elem(t))
                   [] Kind(t) \in {"struct", "word"} -> TRUE
                   [] OTHER -> FALSE

\* The type the context of the cell expects from the expression &^k ref: the type of the expression;
\* where the reference is the address of a view (which has no type of its own in the language) the
\* pointer type a programmer would be after: &S for a view of S, &[]T for an array view.
ExpectType(F, k) ==
    LET core == StripPtr(F)
    IN IF Kind(core) = "view" /\ k >= 1 THEN AddrN(k, Rest(core))
       ELSE IF Kind(core) = "slice" /\ k = 1 THEN SPtr(Rest(core))
       ELSE ExprType(F, k)

\* the parameter type the renderer gives the callee for an argument of type et
FittingParam(et) == IF Kind(et) = "arr" THEN Slice(Elem(et))
                    ELSE IF Kind(et) = "struct" THEN View(et) ELSE et

\* what the construct is rendered with: annotation of `var r`, parameter type of the callee
Target(c) ==
    LET F  == RWalk(c.d, c.path, FALSE).t
        et == ExpectType(F, c.k)
    IN CASE c.ctx = "read" -> IF Declarable(et) THEN et ELSE <<>>          \* <<>>: no annotation
         [] c.ctx = "arg" -> FittingParam(et)
         [] c.ctx = "argmiss" -> Ptr(et)
         [] c.ctx = "argxp" -> Ptr(EndlessOf(ElemOf(StripPtr(F))))
         [] c.ctx = "argcast" -> SPtr(ElemOf(StripPtr(F)))
         [] OTHER -> <<>>

RVerdict(c) ==
    LET w    == RWalk(c.d, c.path, FALSE)
        F    == w.t                                   \* declared type of the place
        n    == PtrDepth(F)
        mut  == BaseMutable(c.kind, c.d) \/ w.crossed
        et   == ExprType(F, c.k)
        core == StripPtr(F)
        \* a new address of the place itself (a slice pointer with one marker is the pointer itself)
        takes(k) == k = n + 1 /\ Kind(core) # "sptr"
        ofview(k) == k >= 1 /\ Kind(core) \in {"view", "slice"}
    IN CASE c.ctx = "assign" ->
              \* k <= n (Gen); the write goes through n - k pointers of the final type
              IF mut \/ n - c.k >= 1
              THEN IF n - c.k >= 1 /\ c.path # <<>> /\ LastOf(c.path) # "i"
                   THEN Unc     \* dereferencing assignment through a pointer MEMBER (the docs speak of pointer variables)
                   ELSE Ok(et)
              ELSE Rej({530})
         [] c.ctx \in {"read", "arg"} ->
              LET c530 == IF takes(c.k) /\ ~mut THEN {530} ELSE {}
                  view == IF ofview(c.k) THEN {530, 504, 512} ELSE {}
                  agg  == IF c.ctx = "read" THEN AggCodes(et) ELSE {}
                  all  == c530 \cup view \cup agg
              IN IF all = {} THEN Ok(et) ELSE Rej(all)
         [] c.ctx = "argxp" ->
              \* `callee(&^k ref)` for `extern fn callee(q: &[]T)`, T the element type of the array / view /
              \* slice pointer ref: the argument must fit by the rules of TypeRules (a view never becomes a
              \* pointer) and a new address may only be taken of a mutable place
              LET a    == ArgOK(F, c.k, Ptr(EndlessOf(ElemOf(core))))
                  c530 == IF takes(c.k) /\ ~mut THEN {530} ELSE {}
                  all  == (IF a.ok THEN {} ELSE a.codes) \cup c530
              IN IF all = {} THEN Ok(et) ELSE Rej(all)
         [] c.ctx = "argcast" ->
              \* `callee(cast ref)` for `fn callee(q: &[]T)`, ref an array or an array view of T: a bit cast without `as` takes its
              \* type from the parameter.  Nobody wrote `&`, so the callee must not get a pointer to the caller's elements
              \* (eighth round of seeded changes); an array or a view is not a value a bit cast is defined for (E553)
              Rej({553, 513, 512, 530, 531, 532})
         [] c.ctx = "argmiss" ->
              Rej({513} \cup (IF (takes(c.k + 1) /\ ~mut) \/ ofview(c.k + 1) \/ Kind(et) \in {"slice", "view"} THEN {512, 530} ELSE {}))

(***************************************************************************)
(* A                                                                       *)
(***************************************************************************)
CopyCode(t) == CASE Kind(t) \in {"arr", "endless"} -> {531}
                 [] Kind(t) \in {"slice", "sptr"} -> {532}
                 [] Kind(t) = "struct" -> {533}
                 [] OTHER -> {}

(***************************************************************************)
(* Three quirks of the typer's unification (docs/notes-types.md F5-F7),    *)
(* modelled only when `faithful`: they make the faithful model violate R   *)
(* (MC_Mutability_defect.cfg) and explain what the pinned code reports.    *)
(*  - analyze_assignment puts the type of the assigned VALUE on the last   *)
(*    member of the path, ignoring the steps after it (E504);              *)
(*  - a path that starts with an index and later names a member infers     *)
(*    Arraylike(Unresolved) for the base, which is_like refuses to unify   *)
(*    with an array / array view of structs (E500, E504 in assignments);   *)
(*  - `&base[i]..[j]` infers Arraylike(pointer) for the base (E500).       *)
(***************************************************************************)
HasMember(path) == \E i \in 1..Len(path) : path[i] # "i"
IndexThenMember(path) == path # <<>> /\ path[1] = "i" /\ HasMember(path)
StepsAfterLastMember(taken) ==
    LET ms == {i \in 1..Len(taken) : taken[i] = "mem"}
    IN IF ms = {} THEN {}
       ELSE LET m == CHOOSE i \in ms : \A j \in ms : j <= i
            IN {taken[j] : j \in (m + 1)..Len(taken)}

AVerdict(c, faithful) ==
    CASE c.ctx \in {"argxp", "argcast"} ->       \* no separate model of the extern coercions / of bit casts: the model is the rule
           LET v == RVerdict(c)
           IN [out |-> (IF v.ok THEN "accept" ELSE "reject"), codes |-> v.codes, taken |-> <<>>]
      [] c.ctx = "assign" ->
           LET r == AssignRun(c.d, c.path, c.k)
               quirk == faithful /\ (StepsAfterLastMember(r.taken) \cap {"elem", "deref"} # {} \/ IndexThenMember(c.path))
           IN IF r.out # "ok" THEN [out |-> r.out, codes |-> {506}, taken |-> r.taken]
              ELSE IF quirk THEN [out |-> "reject", codes |-> {504}, taken |-> r.taken]
              ELSE IF NeedsOuter(r.taken) /\ ~MutableBit(c.kind, c.d)
                   THEN [out |-> "reject", codes |-> {530}, taken |-> r.taken]
                   ELSE [out |-> "accept", codes |-> {}, taken |-> r.taken]
      [] c.ctx \in {"read", "arg", "argmiss"} ->
           LET known  == KnownType(c.d, c.path, c.k)
               tt     == Target(c)
               \* analyze_deref_expression aims for the contextual type when there is one
               aim    == Aim(known, tt)
               r      == DerefRun(c.d, c.path, c.k, aim)
           IN IF r.out # "ok" THEN [out |-> r.out, codes |-> (IF r.out = "E538" THEN {538} ELSE {}), taken |-> r.taken]
              ELSE IF faithful /\ (IndexThenMember(c.path) \/ (r.address /\ c.path # <<>> /\ ~HasMember(c.path)))
                   THEN [out |-> "reject", codes |-> {500}, taken |-> r.taken]
              ELSE LET copy == IF c.ctx = "read" THEN CopyCode(r.ty) ELSE {}
                       c530 == IF r.address /\ NeedsOuter(r.taken) /\ ~MutableBit(c.kind, c.d) THEN {530} ELSE {}
                       \* analyze_hinted_arguments wraps an argument that can coerce into the parameter type
                       miss == IF tt # <<>> /\ r.ty # tt /\ ~(c.ctx = "arg" /\ CoerceInto(r.ty, tt))
                               THEN (IF c.ctx = "argmiss" THEN {513} ELSE IF c.ctx = "arg" THEN {512} ELSE {504}) ELSE {}
                   IN IF copy \cup c530 \cup miss = {} THEN [out |-> "accept", codes |-> {}, taken |-> r.taken]
                      \* function_calls.rs runs before mutability.rs and poisons the whole call
                      ELSE IF c.ctx # "read" /\ miss # {} THEN [out |-> "reject", codes |-> miss, taken |-> r.taken]
                      ELSE [out |-> "reject", codes |-> copy \cup c530 \cup miss, taken |-> r.taken]

\* A = R on a cell (panics of the model are reported separately: they are C02 matters)
MutAgreeOn(c, faithful) ==
              LET v == RVerdict(c)
                  a == AVerdict(c, faithful)
              IN \/ v.unc
                 \/ a.out \in {"panic-slicepointer", "panic-noautoderef"}
                 \/ (v.ok /\ a.out = "accept")
                 \/ (~v.ok /\ a.out # "accept" /\ a.codes \cap v.codes # {})
=============================================================================

SPECIFICATION Spec
CONSTANTS
    MaxDev = 3
INVARIANTS Sane EmitCase EmitFuzz
CHECK_DEADLOCK FALSE

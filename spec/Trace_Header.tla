---------------------------- MODULE Trace_Header ----------------------------
(***************************************************************************)
(* Trace validation for C17 (impl -> spec).  For random modules larger     *)
(* than the model-checked bound the harness records                        *)
(*   input    the module as the real parser saw it (projection of as_xml), *)
(*   H5 hook events of parse_tree.rs: zstart / zone (private-zone          *)
(*            protocol), decl (finish_declaration), nodelen, hskip / hstep *)
(*            / hlen (build_header_nodes),                                 *)
(*   outcome  the projection of build_header().as_xml().                   *)
(* Rule level (always): the recorded header is RHeader(input); a           *)
(* declaration is finished inside a private zone exactly if it is private; *)
(* the header pass conserves nodes.                                        *)
(* Strict = TRUE: every event is the one the algorithm model A produces    *)
(* for this input (zone boundaries, declaration nodes, skipped counts).    *)
(* Acceptance is by POSTCONDITION: all lines consumed.                     *)
(***************************************************************************)
EXTENDS Header, Json, IOUtils, TLCExt

CONSTANT Strict

TShapes(name) == {}
TNames == <<>>

Rec == ndJsonDeserialize(IOEnv.TRACE)

VARIABLES l,       \* next line of the recording
          zi, di, hi,   \* zones / declarations / header steps consumed so far
          seen     \* facts collected for the outcome: [hlen |-> BOOLEAN, nodelen |-> BOOLEAN]
tvars == <<l, zi, di, hi, seen, mod, st, phase, hdr>>

Ev(e) == l <= Len(Rec) /\ Rec[l].ev = e

TInit == /\ l = 1 /\ zi = 0 /\ di = 0 /\ hi = 0 /\ seen = [hlen |-> FALSE, nodelen |-> FALSE]
         /\ mod = <<>> /\ st = S0 /\ phase = "idle" /\ hdr = NoHdr

TInput == /\ Ev("input") /\ phase = "idle"
          /\ mod' = Rec[l].m
          \* the algorithm model is only run where it is compared (modules of a thousand declarations or bodies of
          \* thousands of statements are validated at rule level only)
          /\ st' = (IF Strict THEN ParseModule(Rec[l].m) ELSE S0)
          /\ hdr' = (IF Strict THEN BuildHeader(ParseModule(Rec[l].m).n) ELSE NoHdr)
          /\ zi' = 0 /\ di' = 0 /\ hi' = 0 /\ seen' = [hlen |-> FALSE, nodelen |-> FALSE]
          /\ phase' = "run" /\ l' = l + 1

Keep == UNCHANGED <<mod, st, phase, hdr>>

\* set_private pushed an EndlessPrivateZone marker
TZStart == /\ Ev("zstart") /\ phase = "run"
           /\ Strict => \/ (zi < Len(st.zones) /\ st.zones[zi + 1][1] = Rec[l].start + 1)
                        \/ (zi = Len(st.zones) /\ st.z = Rec[l].start + 1)
           /\ l' = l + 1 /\ UNCHANGED <<zi, di, hi, seen>> /\ Keep

\* set_public closed it
TZone == /\ Ev("zone") /\ phase = "run"
         /\ Rec[l].start < Rec[l].end                                          \* R
         /\ Strict => zi < Len(st.zones) /\ st.zones[zi + 1] = <<Rec[l].start + 1, Rec[l].end + 1>>
         /\ zi' = zi + 1
         /\ l' = l + 1 /\ UNCHANGED <<di, hi, seen>> /\ Keep

\* finish_declaration
TDecl == /\ Ev("decl") /\ phase = "run"
         /\ Rec[l].k = di + 1 /\ di < Len(mod)
         /\ Rec[l].private = ~mod[di + 1].pub                                  \* R
         /\ Strict => st.decls[di + 1] = Rec[l].node + 1
         /\ di' = di + 1
         /\ l' = l + 1 /\ UNCHANGED <<zi, hi, seen>> /\ Keep

TNodeLen == /\ Ev("nodelen") /\ phase = "run" /\ ~seen.nodelen
            /\ Rec[l].n = Rec[l].pushes /\ Rec[l].n <= Rec[l].cap              \* R (buffer protocol)
            /\ Rec[l].decls = Len(mod) /\ Rec[l].errs = 0
            /\ Strict => Rec[l].n = Len(st.n)
            /\ seen' = [seen EXCEPT !.nodelen = TRUE]
            /\ l' = l + 1 /\ UNCHANGED <<zi, di, hi>> /\ Keep

THSkip == /\ Ev("hskip") /\ phase = "run" /\ seen.nodelen
          /\ Strict => hi < Len(hdr.steps)
                       /\ hdr.steps[hi + 1] = <<"skip", Rec[l].end + 1, Rec[l].skipped, Rec[l].public>>
          /\ hi' = hi + 1
          /\ l' = l + 1 /\ UNCHANGED <<zi, di, seen>> /\ Keep

THStep == /\ Ev("hstep") /\ phase = "run" /\ seen.nodelen
          /\ Strict => hi < Len(hdr.steps)
                       /\ hdr.steps[hi + 1] = <<"decl", Rec[l].i + 1, Rec[l].skipped, Rec[l].public>>
          /\ hi' = hi + 1
          /\ l' = l + 1 /\ UNCHANGED <<zi, di, seen>> /\ Keep

THLen == /\ Ev("hlen") /\ phase = "run" /\ seen.nodelen /\ ~seen.hlen
         /\ Rec[l].n = Rec[l].pushes /\ Rec[l].n <= Rec[l].cap                  \* R (buffer protocol)
         /\ Rec[l].n + Rec[l].skipped = Rec[l].stop /\ Rec[l].stop <= Rec[l].total   \* R (conservation)
         /\ Strict => /\ Rec[l].n = Len(hdr.out) /\ Rec[l].skipped = hdr.skipped
                      /\ Rec[l].stop + 1 = hdr.stop /\ Rec[l].total = Len(st.n)
         /\ seen' = [seen EXCEPT !.hlen = TRUE]
         /\ l' = l + 1 /\ UNCHANGED <<zi, di, hi>> /\ Keep

\* events of the same hooks that belong to other properties (token buffers, cursor) are skipped
Other == {"tokcap", "toklen", "nodecap", "tfrom", "tfind", "resv", "resvdrop"}
TOther == /\ l <= Len(Rec) /\ Rec[l].ev \in Other /\ phase = "run"
          /\ l' = l + 1 /\ UNCHANGED <<zi, di, hi, seen>> /\ Keep

TOutcome == /\ Ev("outcome") /\ phase = "run"
            /\ Rec[l].ok
            /\ Rec[l].hdr = RHeader(mod)                                        \* R: the property
            /\ di = Len(mod) /\ seen.nodelen /\ seen.hlen
            /\ Strict => zi = Len(st.zones) /\ hi = Len(hdr.steps) /\ Decode(hdr.out) = Rec[l].hdr
            /\ phase' = "idle" /\ l' = l + 1
            /\ UNCHANGED <<zi, di, hi, seen, mod, st, hdr>>

\* the sentinel the harness writes after the last run: only a complete run may precede it
TEnd == /\ Ev("end") /\ phase = "idle" /\ phase' = "ended" /\ l' = l + 1
        /\ UNCHANGED <<zi, di, hi, seen, mod, st, hdr>>

TNext == TEnd \/ TInput \/ TZStart \/ TZone \/ TDecl \/ TNodeLen \/ THSkip \/ THStep \/ THLen \/ TOther \/ TOutcome
TSpec == TInit /\ [][TNext]_tvars

\* The recording is a single behaviour (the disjuncts of TNext exclude each other), so the position in it identifies
\* the state: TLC need not fingerprint a module of a thousand declarations at every step.
TView == <<l, phase, zi, di, hi, seen>>

Accepted == LET d == TLCGet("stats").diameter - 1
            IN PrintT(<<"TRACE", ToJson([accepted |-> (d = Len(Rec)), matched |-> d, total |-> Len(Rec)])>>)
=============================================================================

--------------------------- MODULE Trace_Literals ---------------------------
(***************************************************************************)
(* C09, impl -> spec: random integer literals ("values in between") were   *)
(* compiled and executed by the real compiler; per literal the harness     *)
(* logged                                                                  *)
(*   {"lit": [bytes], "t": type, "sfx": bool, "neg": bool, "accepted":     *)
(*    bool, "lint": L1142 on its line, "code": first error code on its     *)
(*    line, "bits": printed value as two's complement limbs, "fits": bool} *)
(* TLC evaluates the rule of Literals.tla on the logged spelling and       *)
(* accepts or rejects every recording (one step each).                     *)
(***************************************************************************)
EXTENDS Literals, IOUtils, TLCExt

Rec == ndJsonDeserialize(IOEnv.TRACE)
VARIABLE l
TInit == l = 1 /\ c = [fam |-> "root"] /\ TLCSet(7, 0)

Holds(r) ==
    LET v == IntVerdict(r.lit, r.t, r.neg, 10)
        w == Width(r.t)
        mag == Lex("alpha", r.lit)[1].v
        base == IF Len(r.lit) >= 2 /\ r.lit[1] = 48 /\ r.lit[2] \in {120, 98} THEN 16 ELSE 10
        \* unconstrained: lint of a negated hex / binary literal with magnitude exactly 2^(w-1)
        uncl == r.neg /\ base # 10 /\ IsSignedTy(r.t) /\ v.rej = 0 /\ mag = W!ZExt(W!MinSigned(w), 128)
    IN /\ Len(Lex("alpha", r.lit)) = 1
       /\ (r.sfx => v.kind = "SuffixedInteger" /\ v.ty = TyName[r.t])
       /\ IF v.rej # 0 THEN ~r.accepted /\ (r.code = v.rej \/ InSeq(r.code, v.alt))
          ELSE /\ r.accepted
               /\ (uncl \/ (r.lint = ~v.inrange))
               /\ (v.inrange => r.fits /\ r.bits = v.bits)

TStep == /\ l <= Len(Rec)
         /\ IF Holds(Rec[l]) THEN TRUE
            ELSE PrintT(<<"REJECT", ToJson([l |-> l, j |-> 0])>>) /\ TLCSet(7, TLCGet(7) + 1)
         /\ l' = l + 1 /\ UNCHANGED c
TSpec == TInit /\ [][TStep]_<<l, c>>

Accepted == LET d == TLCGet("stats").diameter - 1
                rejected == TLCGet(7)
            IN PrintT(<<"TRACE", ToJson([accepted |-> (d = Len(Rec) /\ rejected = 0), matched |-> Len(Rec) - rejected,
                                         total |-> Len(Rec), steps |-> d])>>)
=============================================================================

SPECIFICATION Spec
CONSTANTS
  MaxLen = 6
  MaxDepth = 2
  VNames = {"a"}
  LNames = {"y", "z"}
  BodyKinds = {"O", "IO", "C", "V", "U", "L", "IG"}
  Configs <- NoConfig
INVARIANTS AgreeScoper Sound EmitCase
CHECK_DEADLOCK FALSE

SPECIFICATION Spec
CONSTANTS
  MaxLen = 6
  MinFns = 1
  MaxFns = 1
  Phased = FALSE
  NeedResult = FALSE
  MaxDepth = 2
  VNames = {"a"}
  LNames = {"y", "z"}
  BodyKinds = {"O", "IO", "C", "V", "U", "L", "IG"}
  Configs <- NoConfig
INVARIANTS AgreeScoper Sound EmitCase
CHECK_DEADLOCK FALSE

INIT Init
NEXT Next
INVARIANTS Safe Emit
CHECK_DEADLOCK FALSE

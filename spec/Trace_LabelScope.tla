------------------------- MODULE Trace_LabelScope -------------------------
(***************************************************************************)
(* Trace validation for C04 (impl -> spec).  The harness records, for many *)
(* random bodies, what the real parser saw ("input"), every hook event of  *)
(* the label scoper (lpush / lpop / ldecl / luse) and the outcome of the   *)
(* whole front end.  This module replays each recording against            *)
(*   R  (always): found = a legal target exists, clash = a later clashing  *)
(*      label exists, every goto and label is visited exactly once, the    *)
(*      diagnostics are the ones the rule prescribes;                      *)
(*   A  (Strict = TRUE only): the events come in the order of Sched and    *)
(*      with the stack depths of the model.                                *)
(* Acceptance is by POSTCONDITION: all lines consumed.                     *)
(***************************************************************************)
EXTENDS LabelScope, Json, IOUtils, TLCExt

CONSTANT Strict

Rec == ndJsonDeserialize(IOEnv.TRACE)

VARIABLES l,        \* next line of the recording
          cur,      \* the current case: [b, off]
          seen      \* positions whose event has been consumed
tvars == <<l, cur, seen, body, opens, last, phase, sched, k, alg>>

Body(r) == [i \in 1..Len(r.b) |-> [k |-> r.b[i].k, n |-> r.b[i].n]]

TInit == /\ l = 1 /\ cur = [off |-> 0, decoy |-> 0] /\ seen = {}
         /\ body = <<>> /\ opens = <<>> /\ last = "none" /\ phase = "idle"
         /\ sched = <<>> /\ k = 0 /\ alg = AInit

Ev(e) == l <= Len(Rec) /\ Rec[l].ev = e
Frozen == UNCHANGED <<opens, last>>

TInput == /\ Ev("input") /\ phase \in {"idle"}
          /\ body' = Body(Rec[l]) /\ cur' = [off |-> Rec[l].off, decoy |-> Rec[l].decoy]
          /\ sched' = MSched(Body(Rec[l])) /\ k' = 1 /\ alg' = AInit /\ seen' = {}
          \* a preceding function `decoy` declares labels of the same names: its events come first
          /\ phase' = (IF Rec[l].decoy > 0 THEN "pre" ELSE "scan") /\ l' = l + 1 /\ Frozen

\* events of the other function: its labels are in no way related to this body
TPre == /\ phase = "pre" /\ l <= Len(Rec) /\ Rec[l].ev \in {"lpush", "ldecl", "lpop"}
        /\ Rec[l].ev = "ldecl" => (Rec[l].line <= cur.off /\ ~Rec[l].clash /\ (0 - Rec[l].line) \notin seen)
        \* every label of the other function is declared exactly once before its scope is popped
        /\ Rec[l].ev = "lpop" => Cardinality(seen) = cur.decoy
        /\ phase' = (IF Rec[l].ev = "lpop" THEN "scan" ELSE "pre")
        /\ seen' = (IF Rec[l].ev = "ldecl" THEN seen \cup {0 - Rec[l].line} ELSE IF Rec[l].ev = "lpop" THEN {} ELSE seen)
        /\ l' = l + 1 /\ UNCHANGED <<cur, body, sched, k, alg>> /\ Frozen

Pos == Rec[l].line - cur.off
\* the next step of the model (Strict) -- or any step with this op and position (rule level)
StepOK(op, p) == IF Strict THEN k <= Len(sched) /\ sched[k] = <<op, p>> ELSE TRUE

TPush == /\ Ev("lpush") /\ phase = "scan"
         /\ IF Strict THEN /\ k <= Len(sched) /\ sched[k][1] = "push"
                           /\ alg' = AStep(body, alg, sched[k]) /\ k' = k + 1
                           /\ Rec[l].depth = Len(alg'.st)
                      ELSE UNCHANGED <<alg, k>>
         /\ l' = l + 1 /\ UNCHANGED <<cur, seen, body, phase, sched>> /\ Frozen
TPop == /\ Ev("lpop") /\ phase = "scan"
        /\ IF Strict THEN /\ k <= Len(sched) /\ sched[k][1] = "pop"
                          /\ alg' = AStep(body, alg, sched[k]) /\ k' = k + 1
                          /\ Rec[l].depth = Len(alg'.st)
                     ELSE UNCHANGED <<alg, k>>
        /\ l' = l + 1 /\ UNCHANGED <<cur, seen, body, phase, sched>> /\ Frozen

TUse == /\ Ev("luse") /\ phase = "scan"
        /\ LET p == Pos IN
           /\ p \in 1..Len(body) /\ IsG(body, p) /\ p \notin seen
           /\ body[p].n = Rec[l].name
           /\ Rec[l].found = (MLegalTargets(body, p) # {})                  \* R (per function body)
           /\ Rec[l].found => (Rec[l].target - cur.off) \in MLegalTargets(body, p)
           /\ StepOK("use", p)
           /\ seen' = seen \cup {p}
           /\ IF Strict THEN alg' = AStep(body, alg, sched[k]) /\ k' = k + 1
                        ELSE UNCHANGED <<alg, k>>
        /\ l' = l + 1 /\ UNCHANGED <<cur, body, phase, sched>> /\ Frozen

TDecl == /\ Ev("ldecl") /\ phase = "scan"
         /\ LET p == Pos IN
            /\ p \in 1..Len(body) /\ IsL(body, p) /\ p \notin seen
            /\ body[p].n = Rec[l].name
            /\ Rec[l].clash = (\E q \in 1..Len(body) : MClashPair(body, p, q)) \* R
            /\ StepOK("decl", p)
            /\ seen' = seen \cup {p}
            /\ IF Strict THEN alg' = AStep(body, alg, sched[k]) /\ k' = k + 1
                         ELSE UNCHANGED <<alg, k>>
         /\ l' = l + 1 /\ UNCHANGED <<cur, body, phase, sched>> /\ Frozen

\* the diagnostics of the family, as sets of positions
Diag(code) == { Rec[l].diags[x].line - cur.off : x \in { y \in 1..Len(Rec[l].diags) : Rec[l].diags[y].code = code } }
TOutcome == /\ Ev("outcome") /\ phase = "scan"
            /\ Strict => k > Len(sched)
            \* every goto and every label was visited exactly once
            /\ seen = { p \in 1..Len(body) : IsG(body, p) \/ IsL(body, p) }
            /\ Diag(400) = MRuleE400(body)
            /\ Diag(420) \subseteq MRuleClashMembers(body)
            /\ (Diag(420) = {}) = (MRuleClashMembers(body) = {})
            /\ Rec[l].ok = MRuleAccepts(body)
            /\ phase' = "idle" /\ l' = l + 1
            /\ UNCHANGED <<cur, seen, body, sched, k, alg>> /\ Frozen

TNext == TInput \/ TPre \/ TPush \/ TPop \/ TUse \/ TDecl \/ TOutcome
TSpec == TInit /\ [][TNext]_tvars

\* position reached = diameter - 1 lines consumed
Accepted == LET d == TLCGet("stats").diameter - 1
            IN PrintT(<<"TRACE", ToJson([accepted |-> (d = Len(Rec)), matched |-> d, total |-> Len(Rec)])>>)
==========================================================================

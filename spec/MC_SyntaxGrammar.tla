-------------------------- MODULE MC_SyntaxGrammar --------------------------
(***************************************************************************)
(* Gen (2) of the `syntax` work package and the design-level result that   *)
(* ties the recogniser to the generator:                                   *)
(*                                                                         *)
(*   Accepted   every token list that PenneGrammar derives is judged       *)
(*              `valid` by SyntaxRules (the strict part of the recogniser  *)
(*              is not narrower than the grammar C16 validates);           *)
(*   EmitCase   for every derived module, every position i and every       *)
(*              single-token fault -- token i deleted, duplicated, or      *)
(*              replaced by a token of another class -- the verdict of R   *)
(*              for the faulted module.  The prefix of the module is       *)
(*              shifted once; a fault continues from the state before      *)
(*              token i and stops at the first offending token.            *)
(*                                                                         *)
(* The .cfg files MC_SyntaxGrammar_<focus>_<tier>.cfg are written by       *)
(* checks/syntax_cfgs.py from the foci of checks/grammar_cfgs.py.          *)
(***************************************************************************)
EXTENDS MC_PenneGrammar

CONSTANTS RepAll       \* TRUE: every class of RepSeq replaces every token; FALSE: two per position, rotating

SR == INSTANCE SyntaxRules

CmpS == {"==", "!=", "<", ">", "<=", ">="}
ClassOf(t) ==
    CASE t.k = "kw" -> (IF t.s \in {"word8", "word16", "word32", "word64", "word128"} THEN "word" ELSE t.s)
      [] t.k = "p" -> (CASE t.s \in CmpS -> "cmp"
                         [] t.s = "+" -> "add"
                         [] t.s \in {"*", "/", "%"} -> "mul"
                         [] t.s \in {"<<", ">>"} -> "sh"
                         [] OTHER -> t.s)
      [] t.k = "id" -> "id"
      [] t.k = "ty" -> "ty"
      [] t.k = "bi" -> "bi"
      [] t.k \in {"bool", "char"} -> "lit"
      [] t.k = "int" -> (IF t.suffix # "" THEN "int"
                         ELSE IF "h" \in DOMAIN t /\ t.h.base # 10 THEN "int" ELSE "dec")
      [] t.k = "str" -> "str"

Ks == [i \in 1..Len(toks) |-> ClassOf(toks[i])]

Accepted == Complete => SR!Judge(Ks).v = "valid"
ClassesKnown == \A i \in 1..Len(toks) : ClassOf(toks[i]) \in SR!Classes

(* ---- single-token faults ---- *)
RepSeq == <<";", "}", "id", "(", "=", "else", ",", ":", ")", "{", "dec", "&", "return", "]", "add", "if", "str", "ty", "fn", "[">>
RepAt(i, n) == IF RepAll THEN {RepSeq[j] : j \in 1..Len(RepSeq)}
               ELSE {RepSeq[((i + n) % Len(RepSeq)) + 1], RepSeq[((3 * i + n + 7) % Len(RepSeq)) + 1]}

RECURSIVE Pref(_, _, _)
\* <<state after 0 tokens, after 1 token, ...>>
Pref(s, ks, i) == IF i > Len(ks) THEN <<s>> ELSE <<s>> \o Pref(SR!Shift(s, ks[i]), ks, i + 1)

Finish(s, ks, from) == SR!Verdict(SR!Shift(SR!RunFrom(s, ks, from), "eof"))

FaultsOf(ks) ==
    LET n == Len(ks)
        pf == Pref(SR!Start, ks, 1)         \* pf[i] = state after i - 1 tokens
        one(i, f, k, v) == [i |-> i, f |-> f, k |-> k, v |-> v.v, lo |-> v.lo, hi |-> v.hi, u |-> v.u, exp |-> v.exp,
                            soft |-> v.soft]
        del(i) == one(i, "del", "", Finish(pf[i], ks, i + 1))
        dup(i) == one(i, "dup", ks[i], Finish(SR!Shift(pf[i + 1], ks[i]), ks, i + 1))
        rep(i, k) == one(i, "rep", k, Finish(SR!Shift(pf[i], k), ks, i + 1))
    IN UNION {{del(i), dup(i)} \cup {rep(i, k) : k \in RepAt(i, n) \ {ks[i]}} : i \in 1..n}

\* vacuity: which kinds of syntax nodes the module has (checks/syntax_part.py requires every kind to occur)
NodeTag(n) == IF n.k = "bin" THEN "bin" \o n.op
              ELSE IF n.k \in {"call", "fcall"} /\ n.builtin THEN "builtin " \o n.k
              ELSE IF n.k = "struct" /\ n.opaque THEN "opaque struct" ELSE n.k
EmitFaults == Complete =>
    PrintT(<<"CASE", ToJson([toks |-> toks, ks |-> Ks, n |-> Len(pre), tags |-> {NodeTag(pre[i]) : i \in 1..Len(pre)},
                             faults |-> FaultsOf(Ks)])>>)
=============================================================================

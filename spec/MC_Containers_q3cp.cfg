SPECIFICATION Spec
CONSTANTS
  MinN = 2
  MaxN = 3
  Kinds = {"c", "s"}
  AllowSelf = FALSE
  AllowPtr = FALSE
  AllowConstPtr = TRUE
  AllPerms = FALSE
  ChainMode = FALSE
  Stepwise = FALSE
INVARIANTS EmitOnly
CHECK_DEADLOCK FALSE

SPECIFICATION TSpec
CONSTANTS
  MaxLen = 0
  MinFns = 1
  MaxFns = 1
  MaxDepth = 0
  TokenKinds = {}
  ElseFlagCleared = TRUE
  Strict = TRUE
POSTCONDITION Accepted
CHECK_DEADLOCK FALSE

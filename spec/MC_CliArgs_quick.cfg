SPECIFICATION Spec
CONSTANTS
    MaxDev = 2
INVARIANTS Sane EmitCase EmitFuzz
CHECK_DEADLOCK FALSE

SPECIFICATION Spec
CONSTANTS
  MaxDecls = 3
  Names <- MCNames
  Shapes <- MidShapes
  SkipOffByOne = FALSE
  KeepListFirst = FALSE
  KeepPublicFlag = FALSE
  NoBodyZone = FALSE
INVARIANTS Incremental ParseFaithful ZonesOK ZoneCoverage HeaderIsRule RefsIntact NothingPrivate Conservation EmitCase
CHECK_DEADLOCK FALSE

----------------------------- MODULE ImportPaths -----------------------------
(***************************************************************************)
(* C12 -- which file an import names (docs/errors.md E470; Modules.tla     *)
(* Resolve): the import string is first taken as the path of a file as it  *)
(* was given on the command line; only if there is no such file is it      *)
(* taken relative to the directory of the importing file.  The rule does   *)
(* not mention the ORDER of the files (tenth round of seeded changes:      *)
(* whichever candidate was listed first won).                              *)
(*                                                                         *)
(* A cell: the importing file lives at the top or in `lib/`; it imports    *)
(* "util.pn"; the files `util.pn` (value 10) and `lib/util.pn` (value 3)   *)
(* are present or not; every order of the files on the command line.       *)
(* TLC says which file the import binds to, hence what the program returns *)
(* (7 * the value), or that the import is unresolved (E470).               *)
(***************************************************************************)
EXTENDS Naturals, Sequences, FiniteSets, TLC, Json

Files == {"main", "a", "top", "sub"}          \* main.pn, the importer a, util.pn, lib/util.pn
Present == { s \in SUBSET {"top", "sub"} : TRUE }
Perms(S) == { p \in [1..Cardinality(S) -> S] : \A i, j \in 1..Cardinality(S) : i # j => p[i] # p[j] }

\* the importer is lib/a.pn ("sub") or a.pn ("top"); it imports "util.pn"
Bound(dir, present) ==
    IF "top" \in present THEN "top"                                  \* the exact path wins
    ELSE IF dir = "sub" /\ "sub" \in present THEN "sub"              \* else relative to the importing file
    ELSE "none"
Value(f) == IF f = "top" THEN 10 ELSE 3

Cells == { [dir |-> d, present |-> pr, order |-> o] : d \in {"top", "sub"}, pr \in Present, o \in UNION { Perms({"main", "a"} \cup q) : q \in Present } }
VARIABLE x
Init == x \in { c \in Cells : { c.order[i] : i \in 1..Len(c.order) } = {"main", "a"} \cup c.present }
Next == UNCHANGED x
Spec == Init /\ [][Next]_x
Sane == Bound(x.dir, x.present) \in {"top", "sub", "none"} /\ (x.present = {"top", "sub"} => Bound(x.dir, x.present) = "top")
EmitCase == LET b == Bound(x.dir, x.present) IN
    PrintT(<<"CASE", ToJson([dir |-> x.dir, top |-> "top" \in x.present, sub |-> "sub" \in x.present,
                             order |-> x.order, bound |-> b, exit |-> IF b = "none" THEN 0 ELSE 7 * Value(b)])>>)
=============================================================================

SPECIFICATION Spec
CONSTANTS
  TypeSeq <- TS2
  MaxVars = 1
  MaxStmts = 3
  Forms = {"tv", "bin", "cmp", "asgu", "asgt"}
  Rets = {"void", "u8"}
INVARIANTS ASound AUndet ASolution EmitCase
CHECK_DEADLOCK FALSE

SPECIFICATION Spec
CONSTANTS
  MaxLen = 7
  MinFns = 2
  MaxFns = 3
  Phased = FALSE
  NeedResult = FALSE
  MaxDepth = 2
  VNames = {"a"}
  LNames = {"y"}
  BodyKinds = {"O", "C", "V", "U", "L", "IG"}
  Configs <- NoConfig
INVARIANTS AgreeScoper Sound EmitCase
CHECK_DEADLOCK FALSE

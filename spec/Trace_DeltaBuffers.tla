------------------------- MODULE Trace_DeltaBuffers -------------------------
(***************************************************************************)
(* Trace validation for C15 (impl -> spec).  Every run of the real front   *)
(* end in an isolated worker is recorded as                                *)
(*   input    {len, wf, badlex}  what the generator knows about the input  *)
(*   H5 hook events            the buffer protocol as it happened          *)
(*   outcome  {ok, codes}      absent if the process panicked or died      *)
(* and validated against the buffer protocol and the verdict rule of       *)
(* DeltaBuffers.tla.                                                       *)
(* Rule level (always): SetLen argument = number of initialised slots <=   *)
(* capacity, the three token arrays have one capacity, a push is refused   *)
(* only when the buffer is full, every slice / search starts inside the    *)
(* token array, the header pass conserves nodes, the outcome is accepted-  *)
(* without-diagnostics or rejected-with-codes, well-formed => accepted     *)
(* (or E103 beyond TokMin tokens), invalid lexeme => rejected, E103 <=>    *)
(* the token buffer was exhausted.  A crash leaves no outcome: rejected.   *)
(* Strict = TRUE adds the capacity formulas of the pinned tree (A).        *)
(***************************************************************************)
EXTENDS DeltaBuffers, Json, IOUtils, TLCExt

CONSTANT Strict

Rec == ndJsonDeserialize(IOEnv.TRACE)

VARIABLES l, ph, f
tvars == <<l, ph, f, g, phase, res>>
Model == UNCHANGED <<g, phase, res>>

\* long: the source is longer than 2^31 bytes.  TLC integers are 32-bit: the harness records len clipped to 2^31 - 1
\* together with lenk = len \div 1024 and lenr = len % 1024.
F0 == [len |-> 0, long |-> FALSE, lenk |-> 0, wf |-> FALSE, badlex |-> FALSE, light |-> FALSE, tcap |-> 0, full |-> FALSE, tn |-> 0, lexerrs |-> 0,
       ncap |-> 0, declcap |-> 0, nerrcap |-> 0, decls |-> 0, nn |-> 0, nerrs |-> 0, hdr |-> FALSE, oneerr |-> FALSE]

TInit == l = 1 /\ ph = "idle" /\ f = F0 /\ g = G0 /\ phase = "trace" /\ res = NoRes

Ev(e) == l <= Len(Rec) /\ Rec[l].ev = e
Step == l' = l + 1 /\ Model

TInput == /\ Ev("input") /\ ph = "idle"
          /\ f' = [F0 EXCEPT !.len = Rec[l].len, !.wf = Rec[l].wf, !.badlex = Rec[l].badlex,
                              !.lenk = Rec[l].lenk,
                              !.long = (Rec[l].lenk > 2097152 \/ (Rec[l].lenk = 2097152 /\ Rec[l].lenr > 0)),
                              \* light: a long run recorded with the buffer events only (no decl / cursor / zone events)
                              !.light = Rec[l].light]
          /\ ph' = "start" /\ Step

\* Tokens::empty -- also called (with source_len 0) by empty_with_one_error
TTokCap == /\ Ev("tokcap") /\ ph \in {"start", "lexed"}
           /\ Rec[l].cap = Rec[l].vapcap /\ Rec[l].cap = Rec[l].loccap                     \* R
           /\ IF ph = "start" /\ Rec[l].len = f.len /\ f.len > 0
              THEN /\ Strict => Rec[l].cap = TokCap(f.len) /\ Rec[l].errcap = ErrorCap(f.len)
                   /\ f' = [f EXCEPT !.tcap = Rec[l].cap] /\ ph' = "lexing"
              ELSE \* the one-error token list: empty source, oversized source, or exhausted buffer
                   /\ Rec[l].len = 0
                   /\ (ph = "start" => f.len = 0 \/ f.long) /\ (ph = "lexed" => f.full)
                   /\ f' = [f EXCEPT !.oneerr = TRUE, !.tn = 1] /\ ph' = "lexed"
           /\ Step

\* push_token refused a token: only when the buffer is full (R), E103 follows
TTokFull == /\ Ev("tokfull") /\ ph = "lexing" /\ ~f.full
            /\ Rec[l].cap = f.tcap /\ Rec[l].i >= Rec[l].cap
            /\ Rec[l].i + 1 > TokMin                                  \* a limit on tokens, not hit below TokMin
            /\ f' = [f EXCEPT !.full = TRUE] /\ UNCHANGED ph /\ Step

\* set_tokens_len
TTokLen == /\ Ev("toklen") /\ ph = "lexing"
           /\ Rec[l].cap = f.tcap
           /\ Rec[l].n = Rec[l].pushes /\ Rec[l].n <= Rec[l].cap                            \* R: SetLenOK
           /\ f.full => Rec[l].n = Rec[l].cap
           /\ Rec[l].errs <= ErrCap
           /\ f' = [f EXCEPT !.tn = Rec[l].n, !.lexerrs = Rec[l].errs] /\ ph' = "lexed" /\ Step

\* ParseTree::empty
TNodeCap == /\ Ev("nodecap") /\ ph = "lexed" /\ ~f.full /\ ~f.oneerr /\ f.lexerrs = 0
            /\ Rec[l].toks = f.tn
            /\ Strict => Rec[l].cap = NodeCap(f.tn) /\ Rec[l].errcap = NodeErrCap(f.tn)
            /\ f' = [f EXCEPT !.ncap = Rec[l].cap, !.declcap = Rec[l].declcap, !.nerrcap = Rec[l].errcap]
            /\ ph' = "parsing" /\ Step

\* the token cursor: every slice starts inside the token array (<= len), every search strictly inside (< len)
TFrom == /\ Ev("tfrom") /\ ph = "parsing" /\ Rec[l].len = f.tn /\ Rec[l].from <= Rec[l].len
         /\ UNCHANGED <<f, ph>> /\ Step
TFind == /\ Ev("tfind") /\ ph = "parsing" /\ Rec[l].len = f.tn /\ Rec[l].from < Rec[l].len
         /\ UNCHANGED <<f, ph>> /\ Step
TResv == /\ Ev("resv") /\ ph = "parsing" /\ Rec[l].len = f.tn
         /\ Rec[l].cursor <= Rec[l].end /\ Rec[l].end < Rec[l].len
         /\ UNCHANGED <<f, ph>> /\ Step
TResvDrop == /\ Ev("resvdrop") /\ ph = "parsing" /\ Rec[l].len = f.tn /\ Rec[l].cursor <= Rec[l].len
             /\ UNCHANGED <<f, ph>> /\ Step

\* private zones and declarations
TZStart == /\ Ev("zstart") /\ ph = "parsing" /\ Rec[l].start < f.ncap
           /\ UNCHANGED <<f, ph>> /\ Step
TZone == /\ Ev("zone") /\ ph = "parsing" /\ Rec[l].start < Rec[l].end /\ Rec[l].end < f.ncap
         /\ UNCHANGED <<f, ph>> /\ Step
TDecl == /\ Ev("decl") /\ ph = "parsing"
         /\ Rec[l].k = f.decls + 1 /\ Rec[l].k <= f.declcap /\ Rec[l].node < f.ncap
         /\ f' = [f EXCEPT !.decls = @ + 1] /\ UNCHANGED ph /\ Step

\* set_nodes_len
TNodeLen == /\ Ev("nodelen") /\ ph = "parsing"
            /\ Rec[l].cap = f.ncap
            /\ Rec[l].n = Rec[l].pushes /\ Rec[l].n <= Rec[l].cap                           \* R: SetLenOK
            /\ Rec[l].n >= Pad
            /\ (~f.light => Rec[l].decls = f.decls) /\ Rec[l].decls <= f.declcap /\ Rec[l].errs <= f.nerrcap
            /\ f' = [f EXCEPT !.nn = Rec[l].n, !.nerrs = Rec[l].errs] /\ ph' = "parsed" /\ Step

\* build_header_nodes
THSkip == /\ Ev("hskip") /\ ph = "parsed" /\ f.nerrs = 0
          /\ Rec[l].end < f.nn /\ Rec[l].public + Rec[l].skipped = Rec[l].end + 1
          /\ UNCHANGED <<f, ph>> /\ Step
THStep == /\ Ev("hstep") /\ ph = "parsed" /\ f.nerrs = 0
          /\ Rec[l].i < f.nn /\ Rec[l].public + Rec[l].skipped = Rec[l].i + 1
          /\ UNCHANGED <<f, ph>> /\ Step
THLen == /\ Ev("hlen") /\ ph = "parsed" /\ f.nerrs = 0 /\ ~f.hdr
         /\ Rec[l].total = f.nn /\ Rec[l].cap = f.nn
         /\ Rec[l].n = Rec[l].pushes /\ Rec[l].n <= Rec[l].cap                              \* R: SetLenOK
         /\ Rec[l].n + Rec[l].skipped = Rec[l].stop /\ Rec[l].stop <= Rec[l].total
         /\ f' = [f EXCEPT !.hdr = TRUE] /\ UNCHANGED ph /\ Step

Has(codes, c) == \E x \in 1..Len(codes) : codes[x] = c
TOutcome ==
    /\ Ev("outcome") /\ ph \in {"lexed", "parsed"}
    /\ LET ok == Rec[l].ok
           codes == Rec[l].codes
       IN /\ ok = (codes = <<>>)                                                           \* R: OutcomeOK
          \* where the run may end
          /\ (ph = "lexed" => ~ok)
          /\ (ph = "parsed" /\ f.nerrs > 0 => ~ok /\ Len(codes) = f.nerrs)
          /\ (ph = "parsed" /\ f.nerrs = 0 => ok /\ f.hdr)
          /\ (ph = "lexed" /\ ~f.oneerr => f.lexerrs > 0 /\ Len(codes) = f.lexerrs)
          \* R: Verdict
          /\ (f.wf /\ ~f.full => ok)
          /\ (f.badlex => ~ok)
          /\ (f.full = Has(codes, 103))
          /\ (f.full => codes = <<103>>)
          /\ (f.len = 0 => codes = <<101>>)
          /\ (Has(codes, 101) => f.len = 0)
          \* E102: "the compiler assumes source files are less than 2GB in size" -- demanded above 2^31 bytes,
          \* never raised below 2 * 10^9 bytes (= 1953125 KiB), undecided in between
          /\ (f.long => codes = <<102>>)
          /\ (Has(codes, 102) => f.lenk >= 1953125)
    /\ ph' = "idle" /\ UNCHANGED f /\ Step

\* the sentinel the harness writes after the last run: only a complete run may precede it
TEnd == /\ Ev("end") /\ ph = "idle" /\ ph' = "ended" /\ UNCHANGED f /\ Step

TNext == TEnd \/ TInput \/ TTokCap \/ TTokFull \/ TTokLen \/ TNodeCap \/ TFrom \/ TFind \/ TResv \/ TResvDrop
         \/ TZStart \/ TZone \/ TDecl \/ TNodeLen \/ THSkip \/ THStep \/ THLen \/ TOutcome
TSpec == TInit /\ [][TNext]_tvars

Accepted == LET d == TLCGet("stats").diameter - 1
            IN PrintT(<<"TRACE", ToJson([accepted |-> (d = Len(Rec)), matched |-> d, total |-> Len(Rec)])>>)
=============================================================================

SPECIFICATION Spec
CONSTANTS
  Fuel = 2000
  Depths = {0, 1, 2, 3}
  Counts = {1, 7, 12}
INVARIANTS Sane EmitCase
CHECK_DEADLOCK FALSE

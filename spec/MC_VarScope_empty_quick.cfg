SPECIFICATION Spec
CONSTANTS
  MaxLen = 6
  MinFns = 1
  MaxFns = 1
  Phased = FALSE
  NeedResult = FALSE
  MaxDepth = 1
  VNames = {"a"}
  LNames = {"y"}
  BodyKinds = {"O", "C", "V", "U", "Z", "L", "IG"}
  Configs <- NoConfig
INVARIANTS AgreeScoper Sound EmitCase
CHECK_DEADLOCK FALSE

---------------------------- MODULE MC_MachinePtr ----------------------------
(***************************************************************************)
(* C01 stage 2/3 + C08's consequence, exhaustively on a small family:      *)
(* every caller/callee program in which `main` owns the cells              *)
(*     x = 1  y = 5  arr = [2, 3]  s = S {m: 4, a: [6, 7]}                 *)
(*     w = W {m: 8, n: 9}  p: &i32 = &x  py: &i32 = &y                     *)
(*     (and pa: &[2]i32 = &arr, ps: &S = &s to pass arrays and structures  *)
(*     through a local pointer)                                            *)
(* prints them, calls f with one argument per parameter, and prints them   *)
(* again; every parameter of f has a kind                                  *)
(*     value i32 | word W | aview []i32 | sview S | sptr &[]i32 |          *)
(*     aptr &[2]i32 | ptr &i32 | pptr &&i32 | sp &S | wp &W | tp &T |      *)
(*     asp &[2]S   (t: T = T {u: S, k: i32}, ss: [2]S)                     *)
(* the caller writes one of the argument forms of that kind (`x`, `&x`,    *)
(* `&p`, `&arr[1]`, `&s.m`, `&&p`, ...), and f treats the parameter in one *)
(* of the ways  none | read | len | write | copy | forward (hands its      *)
(* address on to g, which writes) | repoint (`&q = &other`).               *)
(* Machine.tla runs each program.  Invariants, on every behaviour:         *)
(*   Monitors        the machine's monitors stay silent (stored values fit *)
(*                   their declared types; a call changes a variable of a  *)
(*                   suspended frame only if it is reachable from an       *)
(*                   argument written with `&`; gotos forward and outward) *)
(*   NonInterference the same, stated on the observable output: a cell     *)
(*                   printed differently after the call is reachable from  *)
(*                   an argument written with `&`                          *)
(*   Legality        the machine refuses (status "illegal") exactly the    *)
(*                   programs that write through a value, word or view     *)
(*                   parameter                                             *)
(* One CASE per program: the program itself (exchange format), the         *)
(* machine's status and output.  Python replays every accepted program on  *)
(* the compiler and compares stdout; refused programs must be rejected.    *)
(***************************************************************************)
EXTENDS Machine, Json, TLCExt, SequencesExt
CONSTANTS Kinds,        \* parameter kinds enumerated for the first parameter
          Kinds2,       \* ... and for the second parameter ({} = one-parameter programs only)
          MaxForm2,     \* the second parameter uses the first MaxForm2 argument forms of its kind only (alias pairs: all forms)
          Fuel

I32T == [k |-> "prim", t |-> "i32"]
PtrT(t) == [k |-> "ptr", e |-> t]
ArrT(n, t) == [k |-> "array", n |-> n, e |-> t]
ViewT(t) == [k |-> "view", e |-> t]
Named(n) == [k |-> "named", n |-> n]
VoidT == [k |-> "void"]
I32(n) == [k |-> "lit", t |-> "i32", v |-> FromNat(n, 32)]
USZ(n) == [k |-> "lit", t |-> "usize", v |-> FromNat(n, 64)]
Ix(n) == [k |-> "i", e |-> USZ(n)]
Mb(m) == [k |-> "m", m |-> m]
Ref(x, addr, steps) == [k |-> "ref", x |-> x, addr |-> addr, steps |-> steps]
Plain(x, addr, steps) == [x |-> x, addr |-> addr, steps |-> steps]
Var(x, ty, e) == [k |-> "V", x |-> x, ty |-> ty, e |-> e]
Asg(x, addr, steps, e) == [k |-> "A", r |-> Plain(x, addr, steps), e |-> e]
Pr(e) == [k |-> "P", e |-> e]
Call(f, args) == [k |-> "CALL", f |-> f, args |-> args, d |-> ""]
Arr2(a, b) == [k |-> "arr", es |-> <<a, b>>]

StructDecls == << [name |-> "S", kind |-> "struct", ms |-> <<[x |-> "m", ty |-> I32T], [x |-> "a", ty |-> ArrT(2, I32T)]>>],
              [name |-> "W", kind |-> "word", bits |-> 64, ms |-> <<[x |-> "m", ty |-> I32T], [x |-> "n", ty |-> I32T]>>],
              [name |-> "T", kind |-> "struct", ms |-> <<[x |-> "u", ty |-> Named("S")], [x |-> "k", ty |-> I32T]>>] >>

AllKinds == {"value", "word", "aview", "sview", "sptr", "aptr", "ptr", "pptr", "sp", "wp", "tp", "asp"}
PtrKinds == {"sptr", "aptr", "ptr", "pptr", "sp", "wp", "tp", "asp"}
ParamType(kd) == CASE kd = "value" -> I32T [] kd = "word" -> Named("W") [] kd = "aview" -> ViewT(I32T)
                   [] kd = "sview" -> Named("S") [] kd = "sptr" -> PtrT(ViewT(I32T)) [] kd = "aptr" -> PtrT(ArrT(2, I32T))
                   [] kd = "ptr" -> PtrT(I32T) [] kd = "pptr" -> PtrT(PtrT(I32T)) [] kd = "sp" -> PtrT(Named("S"))
                   [] kd = "wp" -> PtrT(Named("W")) [] kd = "tp" -> PtrT(Named("T")) [] kd = "asp" -> PtrT(ArrT(2, Named("S")))
\* the argument forms the caller may write for a parameter of each kind
Paren(e) == [k |-> "paren", e |-> e]
ArgForms(kd) == CASE kd = "value" -> <<Ref("x", 0, <<>>), Ref("arr", 0, <<Ix(1)>>), Ref("p", 0, <<>>), Paren(Ref("p", 0, <<>>))>>
                  [] kd = "word" -> <<Ref("w", 0, <<>>), Paren(Ref("w", 0, <<>>))>>
                  \* an array by name, as a member, through a local pointer `pa: &[2]i32 = &arr`; each also parenthesised
                  \* ... and projected places: an array member of a structure that is itself a member / an element
                  [] kd = "aview" -> <<Ref("arr", 0, <<>>), Ref("s", 0, <<Mb("a")>>), Ref("t", 0, <<Mb("u"), Mb("a")>>), Ref("ss", 0, <<Ix(1), Mb("a")>>),
                                       Ref("pa", 0, <<>>), Paren(Ref("arr", 0, <<>>)), Paren(Ref("pa", 0, <<>>)), Paren(Ref("s", 0, <<Mb("a")>>))>>
                  \* a structure by name; projected places: a member that is a structure, an element of an array of structures,
                  \* a member through a local pointer `pt: &T = &t`; through `ps: &S = &s`; parenthesised
                  [] kd = "sview" -> <<Ref("s", 0, <<>>), Ref("t", 0, <<Mb("u")>>), Ref("ss", 0, <<Ix(1)>>), Ref("pt", 0, <<Mb("u")>>),
                                       Paren(Ref("s", 0, <<>>)), Ref("ps", 0, <<>>), Paren(Ref("ps", 0, <<>>)), Paren(Ref("t", 0, <<Mb("u")>>))>>
                  [] kd = "sptr" -> <<Ref("arr", 1, <<>>), Ref("s", 1, <<Mb("a")>>)>>
                  [] kd = "aptr" -> <<Ref("arr", 1, <<>>)>>
                  [] kd = "ptr" -> <<Ref("x", 1, <<>>), Ref("p", 1, <<>>), Ref("arr", 1, <<Ix(1)>>), Ref("s", 1, <<Mb("m")>>),
                                     Ref("w", 1, <<Mb("m")>>), Ref("py", 1, <<>>), Ref("t", 1, <<Mb("u"), Mb("m")>>),
                                     Ref("ss", 1, <<Ix(1), Mb("m")>>), Ref("t", 1, <<Mb("u"), Mb("a"), Ix(1)>>)>>
                  [] kd = "pptr" -> <<Ref("p", 2, <<>>)>>
                  [] kd = "sp" -> <<Ref("s", 1, <<>>), Ref("t", 1, <<Mb("u")>>), Ref("ss", 1, <<Ix(1)>>), Ref("ps", 1, <<>>)>>
                  [] kd = "wp" -> <<Ref("w", 1, <<>>)>>
                  [] kd = "tp" -> <<Ref("t", 1, <<>>), Ref("pt", 1, <<>>)>>
                  [] kd = "asp" -> <<Ref("ss", 1, <<>>)>>
\* the cells (positions in the printed list) that an argument form makes reachable
\*   1 x  2 y  3 arr[0]  4 arr[1]  5 s.m  6 s.a[0]  7 s.a[1]  8 w.m  9 w.n  10 p (the value it points to)  11 py
\*   12 t.u.m  13 t.u.a[1]  14 t.k  15 ss[0].m  16 ss[1].m  17 ss[1].a[1]
Reach(kd, a) == CASE kd \in {"value", "word", "aview", "sview"} -> {}
                  [] kd \in {"sptr", "aptr"} -> IF a = 1 THEN {3, 4} ELSE {6, 7}
                  [] kd = "ptr" -> (CASE a \in {1, 2} -> {1, 10} [] a = 3 -> {4} [] a = 4 -> {5} [] a = 5 -> {8} [] a = 6 -> {2, 11}
                                      [] a = 7 -> {12} [] a = 8 -> {16} [] a = 9 -> {13})
                  [] kd = "pptr" -> {1, 10}         \* p itself and what it points to (p may be re-pointed: cell 10)
                  [] kd = "sp" -> (CASE a \in {1, 4} -> {5, 6, 7} [] a = 2 -> {12, 13} [] a = 3 -> {16, 17})
                  [] kd = "wp" -> {8, 9}
                  [] kd = "tp" -> {12, 13, 14}
                  [] kd = "asp" -> {15, 16, 17}
\* how f reaches the i32 behind parameter q
Path(kd) == CASE kd \in {"value", "ptr", "pptr"} -> <<>>
              [] kd \in {"sview", "sp"} -> <<Mb("m")>>
              [] kd \in {"word", "wp"} -> <<Mb("n")>>         \* the second member
              [] kd \in {"aview", "sptr", "aptr"} -> <<Ix(1)>>
              [] kd = "tp" -> <<Mb("u"), Mb("m")>>
              [] kd = "asp" -> <<Ix(1), Mb("m")>>
\* ... and the second element of the array member of the structure behind it (what an array view of that member reads)
PathA(kd) == CASE kd = "sp" -> <<Mb("a"), Ix(1)>> [] kd = "tp" -> <<Mb("u"), Mb("a"), Ix(1)>> [] kd = "asp" -> <<Ix(1), Mb("a"), Ix(1)>>
Ways(kd) == {"none", "read", "write", "copy", "forward"}
              \cup (IF kd \in {"aview", "sptr", "aptr"} THEN {"len"} ELSE {})
              \cup (IF kd \in {"sp", "tp", "asp"} THEN {"writea"} ELSE {})
              \cup (IF kd = "pptr" THEN {"repoint"} ELSE {})
\* the statements of f for parameter q treated in way `way`; i = 1, 2 distinguishes the written values; other = name of a `ptr` parameter or ""
Body(q, kd, way, i, other) ==
    CASE way = "none" -> <<>>
      [] way = "read" -> <<Pr(Ref(q, 0, Path(kd)))>>
      [] way = "len" -> <<Pr([k |-> "len", r |-> Plain(q, 0, <<>>)])>>
      [] way = "write" -> <<Asg(q, 0, Path(kd), I32(10 + i))>>
      [] way = "writea" -> <<Asg(q, 0, PathA(kd), I32(40 + i))>>
      [] way = "copy" -> <<Var("c" \o q, I32T, Ref(q, 0, Path(kd))), Asg("c" \o q, 0, <<>>, I32(20 + i)), Pr(Ref("c" \o q, 0, <<>>))>>
      [] way = "forward" -> <<Call("g", <<Ref(q, 1, Path(kd))>>)>>
      [] way = "repoint" -> <<Asg(q, 1, <<>>, Ref(other, 1, <<>>))>>
Cells == <<Ref("x", 0, <<>>), Ref("y", 0, <<>>), Ref("arr", 0, <<Ix(0)>>), Ref("arr", 0, <<Ix(1)>>), Ref("s", 0, <<Mb("m")>>),
           Ref("s", 0, <<Mb("a"), Ix(0)>>), Ref("s", 0, <<Mb("a"), Ix(1)>>), Ref("w", 0, <<Mb("m")>>), Ref("w", 0, <<Mb("n")>>),
           Ref("p", 0, <<>>), Ref("py", 0, <<>>),
           Ref("t", 0, <<Mb("u"), Mb("m")>>), Ref("t", 0, <<Mb("u"), Mb("a"), Ix(1)>>), Ref("t", 0, <<Mb("k")>>),
           Ref("ss", 0, <<Ix(0), Mb("m")>>), Ref("ss", 0, <<Ix(1), Mb("m")>>), Ref("ss", 0, <<Ix(1), Mb("a"), Ix(1)>>)>>
RECURSIVE PrintFrom(_)
PrintFrom(i) == IF i > Len(Cells) THEN <<>> ELSE <<Pr(Cells[i])>> \o PrintFrom(i + 1)
PrintCells == PrintFrom(1)
SLit(a, b, c) == [k |-> "st", n |-> "S", fs |-> <<[m |-> "m", e |-> I32(a)], [m |-> "a", e |-> Arr2(I32(b), I32(c))]>>]
Prelude == << Var("x", I32T, I32(1)), Var("y", I32T, I32(5)), Var("arr", ArrT(2, I32T), Arr2(I32(2), I32(3))),
              Var("s", Named("S"), [k |-> "st", n |-> "S", fs |-> <<[m |-> "m", e |-> I32(4)], [m |-> "a", e |-> Arr2(I32(6), I32(7))]>>]),
              Var("w", Named("W"), [k |-> "st", n |-> "W", fs |-> <<[m |-> "m", e |-> I32(8)], [m |-> "n", e |-> I32(9)]>>]),
              Var("p", PtrT(I32T), Ref("x", 1, <<>>)), Var("py", PtrT(I32T), Ref("y", 1, <<>>)),
              Var("pa", PtrT(ArrT(2, I32T)), Ref("arr", 1, <<>>)), Var("ps", PtrT(Named("S")), Ref("s", 1, <<>>)),
              Var("t", Named("T"), [k |-> "st", n |-> "T", fs |-> <<[m |-> "u", e |-> SLit(12, 13, 14)], [m |-> "k", e |-> I32(15)]>>]),
              Var("ss", ArrT(2, Named("S")), Arr2(SLit(16, 17, 18), SLit(19, 20, 21))),
              Var("pt", PtrT(Named("T")), Ref("t", 1, <<>>)) >>

\* a parameter choice: [kd, way, a]
Params(c1, c2) == IF c2.kd = "" THEN <<c1>> ELSE <<c1, c2>>
Prog(c1, c2) ==
    LET cs == Params(c1, c2)
        name(i) == IF i = 1 THEN "q" ELSE "r"
        arg(i) == ArgForms(cs[i].kd)[cs[i].a]
        par(i) == [x |-> name(i), ty |-> ParamType(cs[i].kd)]
        otherptr(i) == IF Len(cs) = 2 /\ cs[3 - i].kd = "ptr" THEN name(3 - i) ELSE ""
        fbody == IF Len(cs) = 1 THEN Body("q", c1.kd, c1.way, 1, "")
                 ELSE Body("q", c1.kd, c1.way, 1, otherptr(1)) \o Body("r", c2.kd, c2.way, 2, otherptr(2))
    IN [structs |-> StructDecls, consts |-> <<>>,
        fns |-> << [name |-> "main", params |-> <<>>, ret |-> [k |-> "prim", t |-> "u8"],
                    body |-> Prelude \o PrintCells
                             \o <<Call("f", IF Len(cs) = 1 THEN <<arg(1)>> ELSE <<arg(1), arg(2)>>)>> \o PrintCells,
                    res |-> [k |-> "lit", t |-> "u8", v |-> <<0>>]],
                   [name |-> "f", params |-> IF Len(cs) = 1 THEN <<par(1)>> ELSE <<par(1), par(2)>>, ret |-> VoidT, body |-> fbody],
                   [name |-> "g", params |-> <<[x |-> "t", ty |-> PtrT(I32T)]>>, ret |-> VoidT,
                    body |-> <<Asg("t", 0, <<>>, I32(30))>>] >>]
\* the callee writes through a pointer and then reads through a view: with a view argument that is (part of) what the
\* pointer reaches, the view must show the write (features.md "Views"; tests/samples/valid/view_aliasing.pn)
AliasPair(a, b) == /\ a.kd \in PtrKinds /\ a.way \in {"write", "writea", "forward"}
                   /\ b.kd \in {"aview", "sview"} /\ b.way = "read"
\* a repoint needs a `ptr` parameter to copy the address from; the pairs are the alias pairs (all argument forms) and
\* every first parameter with the first MaxForm2 forms of the kinds in Kinds2
Sensible(c1, c2) == /\ (c1.way = "repoint" => c2.kd = "ptr")
                    /\ (c2.way = "repoint" => c1.kd = "ptr")
                    /\ (c2.kd = "" \/ AliasPair(c1, c2) \/ (c2.kd \in Kinds2 /\ c2.a <= MaxForm2))
Choice(kds) == {[kd |-> kd, way |-> way, a |-> a] : kd \in kds,
                way \in {"none", "read", "len", "write", "writea", "copy", "forward", "repoint"}, a \in 1..9}
Valid(c) == c.way \in Ways(c.kd) /\ c.a <= Len(ArgForms(c.kd))
None == [kd |-> "", way |-> "", a |-> 0]

\* the program is built once and kept in a variable: an operator argument would be re-evaluated at every reference
VARIABLES c1, c2, prog, res, done
vars == <<c1, c2, prog, res, done>>
Init == c1 = None /\ c2 = None /\ prog = <<>> /\ res = [status |-> "none"] /\ done = FALSE
Pick == /\ c1 = None
        /\ \E a \in {c \in Choice(Kinds) : Valid(c)}, b \in {c \in Choice(Kinds2 \cup {"aview", "sview"}) : Valid(c)} \cup {None} :
              /\ Sensible(a, b)
              /\ c1' = a /\ c2' = b
              /\ prog' = Prog(a, b)
        /\ UNCHANGED <<res, done>>
Exec == /\ c1 # None /\ ~done
        /\ res' = Run(prog, Fuel)
        /\ done' = TRUE
        /\ UNCHANGED <<c1, c2, prog>>
Next == Pick \/ Exec
Spec == Init /\ [][Next]_vars

\* the rule of C08 on this family: writing through a value, word or view parameter (also by handing its address on) is not Penne
WritesThroughImmutable(c) == c.kd \in {"value", "word", "aview", "sview"} /\ c.way \in {"write", "forward"}
IllegalByRule == WritesThroughImmutable(c1) \/ (c2.kd # "" /\ WritesThroughImmutable(c2))
Legality == done => ((res.status = "illegal") <=> IllegalByRule) /\ res.status \in {"done", "illegal"}
Monitors == (done /\ res.status \in {"done", "illegal"}) => res.bad = <<>>
N == Len(Cells)
\* cells that the arguments written with `&` make reachable
Allowed == Reach(c1.kd, c1.a) \cup (IF c2.kd = "" THEN {} ELSE Reach(c2.kd, c2.a))
\* f's own prints sit between the two listings: the listings are the first and the last N values
NonInterference ==
    (done /\ res.status = "done") =>
        LET out == res.out
        IN \A i \in 1..N : out[i] # out[Len(out) - N + i] => i \in Allowed
\* the family is not vacuous: with `&` the reachable cells do change
EmitCase == done =>
    PrintT(<<"CASE", ToJson([c1 |-> c1, c2 |-> c2, status |-> res.status, n |-> N,
                             out |-> IF res.status = "done" THEN [i \in 1..Len(res.out) |-> res.out[i].v] ELSE <<>>,
                             prog |-> prog])>>)
=============================================================================

SPECIFICATION Spec
CONSTANTS
  MaxLen = 6
  MinFns = 2
  MaxFns = 2
  Phased = FALSE
  NeedResult = FALSE
  MaxDepth = 1
  VNames = {"a"}
  LNames = {"y"}
  BodyKinds = {"O", "C", "V", "U", "L", "IG"}
  Configs <- NoConfig
INVARIANTS AgreeScoper Sound EmitCase
CHECK_DEADLOCK FALSE

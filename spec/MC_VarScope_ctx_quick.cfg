SPECIFICATION Spec
CONSTANTS
  MaxLen = 5
  MinFns = 1
  MaxFns = 1
  Phased = FALSE
  NeedResult = FALSE
  MaxDepth = 1
  VNames = {"a"}
  LNames = {"a"}
  BodyKinds = {"IO", "EO", "EG", "C", "V", "U", "W", "VR", "L", "IG"}
  Configs <- NoConfig
INVARIANTS AgreeScoper Sound EmitCase
CHECK_DEADLOCK FALSE

SPECIFICATION Spec
CONSTANTS
  MaxDepth = 2
  ExtraDepth = 0
INVARIANTS ModelObeysRule
CHECK_DEADLOCK FALSE

SPECIFICATION TSpec
CONSTANTS
  Fuel = 4000
POSTCONDITION Accepted
CHECK_DEADLOCK FALSE

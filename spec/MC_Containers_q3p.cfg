SPECIFICATION Spec
CONSTANTS
  MinN = 3
  MaxN = 3
  Kinds = {"c", "s", "f"}
  AllowSelf = FALSE
  AllowPtr = TRUE
  AllowConstPtr = FALSE
  AllPerms = TRUE
  ChainMode = FALSE
  Stepwise = FALSE
INVARIANTS VerifySound
CHECK_DEADLOCK FALSE

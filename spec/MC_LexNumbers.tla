----------------------------- MODULE MC_LexNumbers -----------------------------
(***************************************************************************)
(* C14 / C15, spec -> impl, family "integer literals at the 128-bit        *)
(* boundary in every spelling".  A literal is valid when its VALUE fits    *)
(* 128 bits, however it is written: leading zeros and digit separators add *)
(* characters, not value.  TLC builds                                      *)
(*   hexadecimal  0x  zeros^z  first rest^(n-1)   n in 31..33 digits,      *)
(*                first in {1, 8, F}, rest in {0, F}, z in 0..2            *)
(*   binary       0b  zeros^z  1 rest^(n-1)       n in 127..129            *)
(*   decimal      2^127, 2^128 - 1, 2^128, 10^38, 10^39 - 1, 10^39         *)
(* with the digit separator `_` nowhere / after every 4th (8th, 3rd) digit *)
(* / after every digit / once at the end, with and without a type suffix,  *)
(* lexes each with the reference automaton for both generations and prints *)
(* one CASE per text (format of MC_Lex).  C14 compares both lexers with    *)
(* the rule; C15 wraps each literal into `const X: u128 = <literal>;`: a   *)
(* single valid lexeme => well-formed module, an Error item => invalid     *)
(* lexeme.  Seeded change C15j (overflow decided by counting characters of *)
(* the digit run) showed that every boundary literal of the other families *)
(* was written without separators and without leading zeros.               *)
(***************************************************************************)
EXTENDS PenneLex, Json

VARIABLE p

Rep(b, n) == [i \in 1..n |-> b]
RECURSIVE Ins(_, _, _)
Ins(ds, k, i) == IF i > Len(ds) THEN <<>>
                 ELSE <<ds[i]>> \o (IF i % k = 0 /\ i < Len(ds) THEN <<95>> ELSE <<>>) \o Ins(ds, k, i + 1)
WithSep(ds, style, k) == CASE style = "none" -> ds
                           [] style = "group" -> Ins(ds, k, 1)
                           [] style = "each" -> Ins(ds, 1, 1)
                           [] style = "trail" -> ds \o <<95>>
Styles == {"none", "group", "each", "trail"}
U128 == <<117, 49, 50, 56>>
Suffixes == { <<>>, U128 }

HexParams == [radix : {"hex"}, n : 31..33, first : {49, 56, 70}, rest : {48, 70}, z : 0..2, style : Styles, suf : Suffixes]
BinParams == [radix : {"bin"}, n : 127..129, first : {49}, rest : {48, 49}, z : {0, 2}, style : {"none", "group", "each"}, suf : {<<>>}]
Dec == << <<49,55,48,49,52,49,49,56,51,52,54,48,52,54,57,50,51,49,55,51,49,54,56,55,51,48,51,55,49,53,56,56,52,49,48,53,55,50,56>>,   \* 2^127
          <<51,52,48,50,56,50,51,54,54,57,50,48,57,51,56,52,54,51,52,54,51,51,55,52,54,48,55,52,51,49,55,54,56,50,49,49,52,53,53>>,   \* 2^128 - 1
          <<51,52,48,50,56,50,51,54,54,57,50,48,57,51,56,52,54,51,52,54,51,51,55,52,54,48,55,52,51,49,55,54,56,50,49,49,52,53,54>>,   \* 2^128
          <<49>> \o Rep(48, 38),                                                                                                       \* 10^38
          Rep(57, 39),                                                                                                                 \* 10^39 - 1
          <<49>> \o Rep(48, 39) >>                                                                                                     \* 10^39
DecParams == [radix : {"dec"}, v : 1..Len(Dec), style : Styles, suf : Suffixes]

Literal(q) ==
    IF q.radix = "dec" THEN WithSep(Dec[q.v], q.style, 3) \o q.suf
    ELSE LET ds == Rep(48, q.z) \o <<q.first>> \o Rep(q.rest, q.n - 1)
         IN (IF q.radix = "hex" THEN <<48, 120>> ELSE <<48, 98>>)
            \o WithSep(ds, q.style, IF q.radix = "hex" THEN 4 ELSE 8) \o q.suf

Init == p = [radix |-> "none"]
Next == /\ p.radix = "none"
        /\ \/ \E q \in HexParams : p' = q
           \/ \E q \in BinParams : p' = q
           \/ \E q \in DecParams : p' = q
Spec == Init /\ [][Next]_p

NumberOK == p.radix # "none" =>
    LET s == Literal(p)
        d == LexAll("delta", s)
        a == LexAll("alpha", s)
    IN /\ Tiles("delta", s, d) /\ Tiles("alpha", s, a)
       /\ PrintT(<<"CASE", ToJson([s |-> s, n |-> Len(s), u |-> TRUE, d |-> Items(SelectSeq(d, NotComment)),
                                   a |-> Items(SelectSeq(a, NotComment))])>>)
=============================================================================

INIT Init
NEXT Next
CONSTANTS
  MaxSteps = 3
  Thorough = FALSE
INVARIANTS Agree Emit
CHECK_DEADLOCK FALSE

SPECIFICATION Spec
CONSTANTS
  MaxLen = 4
  MinFns = 2
  MaxFns = 2
  Phased = FALSE
  NeedResult = FALSE
  MaxDepth = 1
  VNames = {"a", "b"}
  LNames = {"y"}
  BodyKinds = {"O", "C", "V", "U"}
  Configs <- SomeConfigs
INVARIANTS AgreeScoper Sound EmitCase
CHECK_DEADLOCK FALSE

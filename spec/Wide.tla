-------------------------------- MODULE Wide --------------------------------
(***************************************************************************)
(* Fixed-width two's-complement integers for widths 8..128 (TLC's own      *)
(* integers are 32-bit).  A value is a little-endian sequence of w/8 limbs *)
(* in 0..255: the bit pattern.  Signedness belongs to the operation, as in *)
(* LLVM IR.  MC_Wide.cfg checks every operation against native arithmetic  *)
(* exhaustively for w = 8 and on a grid for w = 16; the operators are      *)
(* generic in the number of limbs.                                         *)
(***************************************************************************)
EXTENDS Naturals, Integers, Sequences, Bitwise

Limbs(w) == w \div 8
Zero(w) == [i \in 1..Limbs(w) |-> 0]
IsWide(a, w) == Len(a) = Limbs(w) /\ \A i \in 1..Len(a) : a[i] \in 0..255

\* from a small natural number (n < 2^31), truncated to w bits
RECURSIVE NatLimbs(_, _)
NatLimbs(n, k) == IF k = 0 THEN <<>> ELSE <<n % 256>> \o NatLimbs(n \div 256, k - 1)
FromNat(n, w) == NatLimbs(n, Limbs(w))
\* to a natural number; only meaningful below 2^31
RECURSIVE ToNatFrom(_, _)
ToNatFrom(a, i) == IF i > Len(a) THEN 0 ELSE a[i] + 256 * ToNatFrom(a, i + 1)
ToNat(a) == ToNatFrom(a, 1)
\* does the value fit in 31 bits (so that ToNat is exact)?
FitsNat(a) == \A i \in 1..Len(a) : i <= 3 \/ a[i] = 0 \/ (i = 4 /\ a[i] < 128)

IsZero(a) == \A i \in 1..Len(a) : a[i] = 0
SignBit(a) == a[Len(a)] >= 128
Ones(w) == [i \in 1..Limbs(w) |-> 255]
MinSigned(w) == [i \in 1..Limbs(w) |-> IF i = Limbs(w) THEN 128 ELSE 0]
MaxSigned(w) == [i \in 1..Limbs(w) |-> IF i = Limbs(w) THEN 127 ELSE 255]

(* ---- addition / subtraction ---- *)
RECURSIVE AddC(_, _, _, _)
AddC(a, b, i, c) == IF i > Len(a) THEN <<>>
                    ELSE LET s == a[i] + b[i] + c IN <<s % 256>> \o AddC(a, b, i + 1, s \div 256)
Add(a, b) == AddC(a, b, 1, 0)
RECURSIVE CarryOut(_, _, _, _)
CarryOut(a, b, i, c) == IF i > Len(a) THEN c ELSE CarryOut(a, b, i + 1, (a[i] + b[i] + c) \div 256)
WNot(a) == [i \in 1..Len(a) |-> 255 - a[i]]
One(w) == FromNat(1, w)
Neg(a) == Add(WNot(a), FromNat(1, 8 * Len(a)))
Sub(a, b) == Add(a, Neg(b))

(* ---- comparison ---- *)
RECURSIVE ULtFrom(_, _, _)
ULtFrom(a, b, i) == IF i = 0 THEN FALSE
                    ELSE IF a[i] # b[i] THEN a[i] < b[i] ELSE ULtFrom(a, b, i - 1)
ULt(a, b) == ULtFrom(a, b, Len(a))
ULe(a, b) == ~ULt(b, a)
SLt(a, b) == IF SignBit(a) # SignBit(b) THEN SignBit(a) ELSE ULt(a, b)
SLe(a, b) == ~SLt(b, a)

(* ---- multiplication (truncating) ---- *)
\* a * small (0..255) + carry-in small
RECURSIVE MulSmallC(_, _, _, _)
MulSmallC(a, m, i, c) == IF i > Len(a) THEN <<>>
                         ELSE LET s == a[i] * m + c IN <<s % 256>> \o MulSmallC(a, m, i + 1, s \div 256)
MulSmall(a, m) == MulSmallC(a, m, 1, 0)
RECURSIVE MulSmallOverflow(_, _, _, _)
MulSmallOverflow(a, m, i, c) == IF i > Len(a) THEN c # 0
                                ELSE MulSmallOverflow(a, m, i + 1, (a[i] * m + c) \div 256)
\* shift left by whole limbs
ShlLimbs(a, n) == [i \in 1..Len(a) |-> IF i <= n THEN 0 ELSE a[i - n]]
ShrLimbs(a, n, fill) == [i \in 1..Len(a) |-> IF i + n > Len(a) THEN fill ELSE a[i + n]]
RECURSIVE MulFrom(_, _, _)
MulFrom(a, b, j) == IF j > Len(b) THEN [i \in 1..Len(a) |-> 0]
                    ELSE Add(ShlLimbs(MulSmall(a, b[j]), j - 1), MulFrom(a, b, j + 1))
Mul(a, b) == MulFrom(a, b, 1)

(* ---- shifts by bits ---- *)
Pow2(n) == CASE n = 0 -> 1 [] n = 1 -> 2 [] n = 2 -> 4 [] n = 3 -> 8 [] n = 4 -> 16
             [] n = 5 -> 32 [] n = 6 -> 64 [] n = 7 -> 128 [] n = 8 -> 256
Shl(a, n) == LET q == n \div 8
                 r == n % 8
                 s == ShlLimbs(a, q)
             IN IF n >= 8 * Len(a) THEN [i \in 1..Len(a) |-> 0]
                ELSE IF r = 0 THEN s ELSE MulSmall(s, Pow2(r))
LShr(a, n) == LET q == n \div 8
                  r == n % 8
                  s == ShrLimbs(a, q, 0)
              IN IF n >= 8 * Len(a) THEN [i \in 1..Len(a) |-> 0]
                 ELSE IF r = 0 THEN s
                 ELSE [i \in 1..Len(s) |-> (s[i] \div Pow2(r)) + (IF i < Len(s) THEN (s[i + 1] % Pow2(r)) * Pow2(8 - r) ELSE 0)]

(* ---- bitwise ---- *)
WAnd(a, b) == [i \in 1..Len(a) |-> a[i] & b[i]]
WOr(a, b) == [i \in 1..Len(a) |-> a[i] | b[i]]
WXor(a, b) == [i \in 1..Len(a) |-> a[i] ^^ b[i]]

(* ---- unsigned division: schoolbook by bits, most significant first ---- *)
Bit(a, n) == (a[(n \div 8) + 1] \div Pow2(n % 8)) % 2        \* bit n (0 = least significant)
SetBit0(a, bit) == [a EXCEPT ![1] = (@ - (@ % 2)) + bit]
RECURSIVE UDivStep(_, _, _, _, _)
\* n counts down from w-1; q, r accumulate
UDivStep(a, b, n, q, r) ==
    IF n < 0 THEN [q |-> q, r |-> r]
    ELSE LET r1 == SetBit0(Shl(r, 1), Bit(a, n))
             ge == ~ULt(r1, b)
             r2 == IF ge THEN Sub(r1, b) ELSE r1
             q1 == SetBit0(Shl(q, 1), IF ge THEN 1 ELSE 0)
         IN UDivStep(a, b, n - 1, q1, r2)
UDivRem(a, b) == UDivStep(a, b, 8 * Len(a) - 1, [i \in 1..Len(a) |-> 0], [i \in 1..Len(a) |-> 0])
UDiv(a, b) == UDivRem(a, b).q
URem(a, b) == UDivRem(a, b).r
Abs(a) == IF SignBit(a) THEN Neg(a) ELSE a
\* signed division truncates towards zero; the remainder has the sign of the dividend (LLVM sdiv/srem)
SDiv(a, b) == LET q == UDiv(Abs(a), Abs(b)) IN IF SignBit(a) # SignBit(b) THEN Neg(q) ELSE q
SRem(a, b) == LET r == URem(Abs(a), Abs(b)) IN IF SignBit(a) THEN Neg(r) ELSE r

(* ---- width changes ---- *)
Trunc(a, w) == SubSeq(a, 1, Limbs(w))
ZExt(a, w) == [i \in 1..Limbs(w) |-> IF i <= Len(a) THEN a[i] ELSE 0]
SExt(a, w) == [i \in 1..Limbs(w) |-> IF i <= Len(a) THEN a[i] ELSE IF SignBit(a) THEN 255 ELSE 0]
\* resize as an integer cast does: truncate, or extend by the signedness of the SOURCE type
Resize(a, w, srcSigned) == IF Limbs(w) <= Len(a) THEN Trunc(a, w)
                           ELSE IF srcSigned THEN SExt(a, w) ELSE ZExt(a, w)

(* ---- literals: digits in a base, most significant first, into 128 bits ---- *)
RECURSIVE ParseFrom(_, _, _, _)
\* returns [v |-> value, ovf |-> more than 128 bits needed]
ParseFrom(digits, base, i, acc) ==
    IF i > Len(digits) THEN acc
    ELSE LET m == MulSmall(acc.v, base)
             o1 == MulSmallOverflow(acc.v, base, 1, 0)
             d == FromNat(digits[i], 128)
             s == Add(m, d)
             o2 == CarryOut(m, d, 1, 0) # 0
         IN ParseFrom(digits, base, i + 1, [v |-> s, ovf |-> acc.ovf \/ o1 \/ o2])
Parse(digits, base) == ParseFrom(digits, base, 1, [v |-> Zero(128), ovf |-> FALSE])

\* does the 128-bit pattern v (as an unsigned number) fit into w bits unsigned / as a positive signed?
FitsUnsigned(v, w) == \A i \in 1..Len(v) : i <= Limbs(w) \/ v[i] = 0
FitsSignedPositive(v, w) == FitsUnsigned(v, w) /\ v[Limbs(w)] < 128
\* magnitude m negated fits into w bits signed: m <= 2^(w-1)
FitsSignedNegative(m, w) == FitsUnsigned(m, w) /\ (m[Limbs(w)] < 128 \/ (m[Limbs(w)] = 128 /\ \A i \in 1..(Limbs(w) - 1) : m[i] = 0))
=============================================================================

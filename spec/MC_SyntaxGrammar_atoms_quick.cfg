SPECIFICATION Spec
CONSTANTS
  RepAll = FALSE
  Mode = "mc"
  MaxNodes = 4
  Enabled = {"Module", "Fn", "Const", "Int", "Bool", "Char", "Str", "Deref", "Len", "SizeOf", "As", "Un", "BFCall", "TyPrim", "TyNamed", "Import", "If", "Goto"}
  FlagSets <- FlagSets_none
  VarForms <- VarForms_init
  FnNames = {"f"}
  ParamNames = {"p"}
  VarNames = {"x"}
  LabelNames = {"l"}
  GotoNames = {"l"}
  MemberNames = {"m"}
  TypeNames = {"S"}
  ConstNames = {"N"}
  Builtins = {"print", "abort"}
  PrimTypes = {"u8", "bool"}
  WordSizes = {8}
  Files <- Files_one
  IntLits <- IntLits_two
  CharLits <- CharLits_one
  StrLits <- StrLits_one
  ArrayLens <- ArrayLens_one
  AddOps = {"+"}
  MulOps = {"*"}
  BitOps = {"&"}
  ShiftOps = {"<<"}
  UnOps = {"-", "!"}
  CmpOps = {"==", "<="}
  MaxDecls = 1
  MaxParams = 0
  MaxMembers = 0
  MaxStmts = 1
  MaxBlock = 0
  MaxArgs = 1
  MaxElems = 0
  MaxFields = 0
  MaxSteps = 0
  Addrs = {0, 2}
  SetAddrs = {0}
  LenAddrs = {0}
  TrailingCommas = {FALSE}
  LooseMembers = FALSE
INVARIANTS ClassesKnown EmitFaults Accepted
CHECK_DEADLOCK FALSE

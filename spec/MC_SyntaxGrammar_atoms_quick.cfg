SPECIFICATION Spec
CONSTANTS
  RepAll = FALSE
  Mode = "mc"
  MaxNodes = 3
  Enabled = {"Module", "Fn", "Const", "Int", "Bool", "Char", "Str", "Deref", "Len", "SizeOf", "As", "Un", "BFCall", "TyPrim", "TyNamed", "Import", "If", "Goto"}
  FlagSets <- FlagSets_none
  VarForms <- VarForms_init
  FnNames = {"f"}
  ParamNames = {"p"}
  VarNames = {"x"}
  LabelNames = {"l"}
  GotoNames = {"l"}
  MemberNames = {"m"}
  TypeNames = {"S"}
  ConstNames = {"N"}
  Builtins = {"abort", "format", "print", "eprint", "file", "line", "dbg", "panic", "include_bytes"}
  PrimTypes = {"i8", "i16", "i32", "i64", "i128", "u8", "u16", "u32", "u64", "u128", "usize", "bool", "char8"}
  WordSizes = {8}
  Files <- Files_all
  IntLits <- IntLits_all
  CharLits <- CharLits_all
  StrLits <- StrLits_all
  ArrayLens <- ArrayLens_one
  AddOps = {"+"}
  MulOps = {"*"}
  BitOps = {"&"}
  ShiftOps = {"<<"}
  UnOps = {"-", "!"}
  CmpOps = {"==", "!=", "<", ">", "<=", ">="}
  MaxDecls = 1
  MaxParams = 0
  MaxMembers = 0
  MaxStmts = 1
  MaxBlock = 0
  MaxArgs = 1
  MaxElems = 0
  MaxFields = 0
  MaxSteps = 0
  Addrs = {0, 1, 2, 3}
  SetAddrs = {0}
  LenAddrs = {0}
  TrailingCommas = {FALSE}
  LooseMembers = FALSE
INVARIANTS ClassesKnown EmitFaults Accepted
CHECK_DEADLOCK FALSE

-------------------------- MODULE Trace_Determinism --------------------------
(***************************************************************************)
(* C13, determinism: compilation is a function of its inputs.  The harness *)
(* compiles the same input k times, each time in a FRESH PROCESS (fresh    *)
(* RandomState keys, so HashMap/HashSet iteration order really varies),    *)
(* and writes one `run` line per run: verdict, list of diagnostics, lints,  *)
(* hashes of every module's IR text and of the linked text.                *)
(* Run r+1 of an input is accepted only if it equals run 1 of that input.   *)
(***************************************************************************)
EXTENDS Naturals, Sequences, Json, IOUtils, TLC, TLCExt

Rec == ndJsonDeserialize(IOEnv.TRACE)

VARIABLES l, ref, done
tvars == <<l, ref, done>>

None == [none |-> TRUE]
TInit == l = 1 /\ ref = None /\ done = FALSE
Is(e) == l <= Len(Rec) /\ Rec[l].ev = e

\* dh: hash of the complete diagnostic (all names, message parameters and secondary locations)
Strip(d) == [code |-> d.code, line |-> d.line, col |-> d.col, start |-> d.start, end |-> d.end, file |-> d.file,
             dh |-> IF "dh" \in DOMAIN d THEN d.dh ELSE ""]
Obs(r) == [end |-> r.end, diags |-> [x \in 1..Len(r.diags) |-> Strip(r.diags[x])],
           lints |-> [x \in 1..Len(r.lints) |-> Strip(r.lints[x])], irh |-> r.irh]

TFirst == /\ Is("run") /\ Rec[l].r = 1
          /\ ref' = [id |-> Rec[l].id, obs |-> Obs(Rec[l])]
          /\ l' = l + 1 /\ UNCHANGED done
TSame == /\ Is("run") /\ Rec[l].r > 1 /\ "id" \in DOMAIN ref /\ ref.id = Rec[l].id
         /\ Obs(Rec[l]) = ref.obs
         /\ l' = l + 1 /\ UNCHANGED <<ref, done>>
TNormal == TFirst \/ TSame

RECURSIVE NextFirst(_)
NextFirst(x) == IF x > Len(Rec) THEN x ELSE IF Rec[x].r = 1 THEN x ELSE NextFirst(x + 1)
Differs == IF "id" \notin DOMAIN ref THEN "malformed"
           ELSE IF Obs(Rec[l]).end # ref.obs.end THEN "verdict"
           ELSE IF Obs(Rec[l]).diags # ref.obs.diags THEN "diagnostics"
           ELSE IF Obs(Rec[l]).lints # ref.obs.lints THEN "lints"
           ELSE IF Obs(Rec[l]).irh # ref.obs.irh THEN "ir-text"
           ELSE "malformed"
TReject == /\ ~done /\ ~ENABLED TNormal /\ l <= Len(Rec)
           /\ PrintT(<<"REJECT", ToJson([line |-> l, id |-> Rec[l].id, ev |-> "run", why |-> Differs,
                                         after |-> <<"run", Rec[l].r>>])>>)
           /\ l' = NextFirst(l + 1) /\ ref' = None /\ UNCHANGED done
TEnd == /\ ~done /\ l > Len(Rec)
        /\ PrintT(<<"TRACE", ToJson([accepted |-> TRUE, matched |-> Len(Rec), total |-> Len(Rec)])>>)
        /\ done' = TRUE /\ UNCHANGED <<l, ref>>
TNext == (TNormal /\ UNCHANGED done) \/ TReject \/ TEnd
TSpec == TInit /\ [][TNext]_tvars
=============================================================================

---- MODULE Dbg ----
EXTENDS Trace_VarScope
D1 == LET r == Rec[1] IN PrintT(<<"cfg", Cfg(r), R424(Cfg(r)), R423(Cfg(r))>>)
ASSUME D1
====

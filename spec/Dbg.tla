---- MODULE Dbg ----
EXTENDS Wide, TLC
A == Mul(FromNat(193, 128), Shl(FromNat(1, 128), 120))
B == FromNat(7, 128)
T1 == PrintT(<<"start", JavaTime>>)
T2 == PrintT(<<"udiv", UDiv(A, B), JavaTime>>)
T3 == PrintT(<<"mul", Mul(A, A), JavaTime>>)
T4 == PrintT(<<"add", Add(A, A), JavaTime>>)
T5 == PrintT(<<"sdiv", SDiv(A, B), JavaTime>>)
ASSUME T1 /\ T2 /\ T3 /\ T4 /\ T5
====

--------------------------- MODULE PipelineShapes ---------------------------
(***************************************************************************)
(* C02 / C03 / C13 input space (d): STRUCTURED cells that token sequences  *)
(* of length 2-3 and mutated corpus files do not reach.  Each family is a  *)
(* product of the dimensions the property texts and the documentation name *)
(* (every builtin x argument count x argument kind x expression context x  *)
(* one / two modules; every construct that nests x the depths around the   *)
(* documented bound of 127; exact source sizes around the powers of two up *)
(* to the 64 KiB bound of C02 x what fills the file; function flags x kind *)
(* of definition x module placement for the symbol table of C03).  TLC     *)
(* enumerates the cells and gives the verdict where the documentation has  *)
(* one:                                                                    *)
(*    expect.t = "valid"    the program is inside the documented language  *)
(*                          and must compile (I4 of Pipeline.tla);         *)
(*    expect.t = "e390"     docs/errors.md E390: more than 127 address     *)
(*                          markers in front of a reference / more than    *)
(*                          127 chained accesses => failure showing E390;  *)
(*    expect.t = "no390"    at most 127 => no E390 among the diagnostics;  *)
(*    expect.t = "located"  a binary operator of a chain whose operands do  *)
(*                          not fit (E551 / E550): C13 demands that the    *)
(*                          diagnostic points at THAT operator (opidx) or  *)
(*                          at one of its operands (Diagnostics.tla        *)
(*                          CoversParts);                                  *)
(*    expect.t = "free"     the documentation is silent: only the protocol *)
(*                          (terminates, success | failure with >= 1       *)
(*                          diagnostic, no crash) is demanded.             *)
(* The check renders each cell to source text (checks/pipeline_common.py   *)
(* render_shape) and runs it through the whole pipeline.                   *)
(***************************************************************************)
EXTENDS Naturals, Sequences, FiniteSets, TLC, Json

CONSTANT Tier      \* "quick" | "thorough"

(***************************************************************************)
(* builtins (src/alpha/common.rs Builtin; tests/samples/valid/builtin_*.pn  *)
(* are the documentation of print!, format!, abort!, file!, line!)         *)
(***************************************************************************)
Builtins == {"print", "eprint", "format", "dbg", "panic", "abort", "file", "line", "include_bytes", "nosuch"}
ArgKinds == {"int", "str", "bool"}
Contexts == {"stmt", "init", "arg", "ret", "cond", "operand"}
ModForms == IF Tier = "quick" THEN {"one", "two", "two-wasm"} ELSE {"one", "two", "two-wasm", "one-wasm", "three"}
BuiltinCells ==
    { x \in [fam : {"builtin"}, b : Builtins, nargs : 0..3, arg : ArgKinds, ctx : Contexts, mods : ModForms] :
        x.nargs = 0 => x.arg = "int" }
\* exemplified by the valid samples: these forms must compile
BuiltinValid(x) ==
    \/ (x.b = "print" /\ x.ctx = "stmt")
    \/ (x.b = "format" /\ x.ctx = "init")
    \/ (x.b = "abort" /\ x.ctx = "stmt" /\ x.nargs = 0)
    \/ (x.b \in {"file", "line"} /\ x.ctx = "init" /\ x.nargs = 0)
BuiltinExpect(x) == IF BuiltinValid(x) THEN [t |-> "valid"] ELSE [t |-> "free"]

(***************************************************************************)
(* nesting at the documented bound (docs/errors.md E390): "The number of   *)
(* address markers (&) in front of a reference or type is limited to 127,  *)
(* as is the number of member accesses and array accesses that can be      *)
(* chained in a single reference."                                         *)
(***************************************************************************)
RefConstructs == {"addr-init", "addr-arg", "addr-target", "addr-cond", "addr-ret", "addr-len", "addr-member-init", "addr-element",
                  "idx-read", "idx-write", "idx-len", "idx-arg", "mem-read", "mem-write", "mem-arg", "mixed-read", "mixed-write",
                  "addr-and-idx"}
\* markers in front of a TYPE: the parser recurses without a counter (candidate finding, reported in the notes);
\* no verdict is demanded here
TypeConstructs == {"type-var", "type-param", "type-ret", "type-member", "type-const", "type-sizeof", "type-cast", "type-head", "type-slice"}
Depths == {126, 127, 128, 129}
DepthCells == [fam : {"depth"}, construct : RefConstructs \cup TypeConstructs, depth : Depths]
DepthExpect(x) == IF x.construct \in TypeConstructs THEN [t |-> "free"]
                  ELSE IF x.depth > 127 THEN [t |-> "e390"] ELSE [t |-> "no390"]

(***************************************************************************)
(* exact sizes (C02: "all UTF-8 texts up to 64 KiB"): a valid program      *)
(* filled up to exactly `size` bytes                                       *)
(***************************************************************************)
Pads == {"comment", "spaces", "newlines", "decls", "stmts", "longline", "crlf", "ident", "string", "digits", "mbcomment"}
Sizes == {255, 256, 257, 4095, 4096, 65535, 65536}
SizeCells == [fam : {"size"}, pad : Pads, size : Sizes] \cup [fam : {"size"}, pad : {"tiny"}, size : 0..3]
\* layout and repetition do not leave the language; the length of one lexeme is not bounded by the documentation
\* either, but nothing promises it: free
SizeExpect(x) == IF x.pad \in {"comment", "spaces", "newlines", "decls", "stmts", "longline", "mbcomment"} THEN [t |-> "valid"]
                 ELSE [t |-> "free"]

(***************************************************************************)
(* symbol table (C03): "it defines each function the source defines, with  *)
(* main and pub functions externally visible" -- flags x kind x placement  *)
(***************************************************************************)
Flags == {"", "pub", "extern", "pub extern"}
FnKinds == {"leaf", "selfrec", "mutual", "headdef", "defhead", "headonly", "unused", "viaimport"}
Places == {"m1", "m2", "main2", "three"}
\* twin: a CONSTANT of the same name as the function, declared right before it (constants and functions live in separate
\* namespaces; the symbol of the function must not depend on it), with every combination of flags
Twins == {"none", "const", "pub const", "extern const", "pub extern const"}
SymCells == [fam : {"sym"}, flags : Flags, kind : FnKinds, place : Places, twin : {"none"}]
            \cup [fam : {"sym"}, flags : Flags, kind : {"leaf", "selfrec", "viaimport", "headonly"}, place : {"m1", "m2", "three"}, twin : Twins \ {"none"}]
\* a head that is never defined is only meaningful for an extern function (defined by a linked library)
\* ... and a head next to the definition of the same function is a duplicate declaration (E421): no forward declarations
SymExpect(x) == IF x.kind = "headonly" /\ x.flags \notin {"extern", "pub extern"} THEN [t |-> "free"]
                ELSE IF x.kind \in {"headdef", "defhead"} THEN [t |-> "free"]
                ELSE [t |-> "valid"]

(***************************************************************************)
(* names shared between the modules of a set (state that outlives a module *)
(* in the driver: the linked program, the symbol tables): two modules that *)
(* declare the same name, by kind of declaration and by how the modules    *)
(* import each other.  Private functions of the same name are the          *)
(* documented case (they do not clash: must compile); for the other kinds  *)
(* the documentation does not say whether the set is rejected -- free: the *)
(* run has to END as the protocol says (a diagnostic, or success).         *)
(***************************************************************************)
NameKinds == {"pubfn", "privfn", "externfn", "main", "pubconst", "pubstruct", "pubfn-vs-privfn", "pubfn-vs-const", "privconst", "privstruct"}
Links == {"none", "a-imports-b", "mutual", "third-imports-both"}
NameCells == [fam : {"names"}, kind : NameKinds, link : Links]
NameExpect(x) == IF x.kind \in {"privfn", "privconst", "privstruct"} THEN [t |-> "valid"] ELSE [t |-> "free"]

(***************************************************************************)
(* chains of one binary operator (features.md: operators of the same kind  *)
(* chain without parentheses: examples/bitwise_operations.pn `b128 | b64 | *)
(* b8`): n operands of one type, operand `bad` of another.  The chain is   *)
(* left associative: operator j joins the chain of operands 1..j with      *)
(* operand j + 1, so the first operator whose two sides differ is operator *)
(* 1 when bad <= 2 and operator bad - 1 otherwise: THAT operator (or one   *)
(* of its operands) is the offending text of the E551.  class: both        *)
(* operands of a type the operator is not defined for (E550).              *)
(***************************************************************************)
ChainOps == {"+", "-", "*", "/", "%", "|", "&", "^"}
ChainLayouts == IF Tier = "quick" THEN {"line", "lines", "tight"} ELSE {"line", "lines", "tight", "parens", "comments"}
ChainCtxs == {"init", "arg", "ret"}
ChainCells == { c \in [fam : {"chain"}, op : ChainOps, n : 2..4, bad : 1..4, layout : ChainLayouts, ctx : ChainCtxs,
                       ty : {"u32/u8", "u8/u16"}] :
                    /\ c.bad <= c.n
                    \* (an argument whose FIRST operand has another type offends the parameter as well as the operator: which of the
                    \* two is reported is not specified -- the pinned code reports the argument, E512)
                    /\ ~(c.ctx = "arg" /\ c.bad = 1) }
              \cup [fam : {"chain"}, op : ChainOps, n : {2}, bad : {0}, layout : ChainLayouts, ctx : ChainCtxs, ty : {"class"}]
ChainOpIdx(c) == IF c.bad <= 2 THEN 1 ELSE c.bad - 1
ChainExpect(c) == [t |-> "located", code |-> (IF c.ty = "class" THEN 550 ELSE 551), opidx |-> ChainOpIdx(c)]

(***************************************************************************)
(* a return type that is not allowed (errors.md E351: an array as return   *)
(* value; E358: a type without a C equivalent in an `extern` signature) in *)
(* a PUBLIC function of a module that another module imports: the          *)
(* diagnostic points at the return type in the file that declares it,      *)
(* whether the function has a body or not, whichever module is analysed    *)
(* first (the importer sees the exported HEAD of the function).            *)
(***************************************************************************)
RetCells == [fam : {"rettype"}, what : {"array", "externbool"}, form : {"body", "head"}, order : {"single", "lib-first", "main-first", "main-uses"}]
RetExpect(c) == [t |-> "located", code |-> (IF c.what = "array" THEN 351 ELSE 358)]

(***************************************************************************)
(* a string literal written in PARTS (closed and opened again, errors.md   *)
(* E160 / E161; examples/strings.pn) where a number is expected: the       *)
(* offending text is the whole literal, from the first quote of the first  *)
(* part to the last quote of the last one; the diagnostic spans it.        *)
(***************************************************************************)
JoinCells == [fam : {"joinstr"}, parts : 2..3, layout : {"line", "lines"}, ctx : {"arg", "ret", "init"}]
JoinExpect(c) == [t |-> "located", code |-> (CASE c.ctx = "arg" -> 512 [] c.ctx = "ret" -> 333 [] OTHER -> 504)]

(***************************************************************************)
(* the target: `--wasm` makes usize and pointers 32 bits wide.  Constructs *)
(* whose code depends on the width of the machine word -- casts between    *)
(* every pair of integer types with a run-time operand, literals of the    *)
(* wide types in every spelling and every constant position, `|:T|` of     *)
(* types that hold pointers -- for both targets: all of it is documented   *)
(* language, so every cell compiles (and C03 sends the IR of every         *)
(* successful run through llvm-as and the verifier).                       *)
(***************************************************************************)
WInts == {"u8", "u32", "i32", "u64", "i64", "usize"}
WasmCells == { c \in [fam : {"target"}, what : {"cast"}, a : WInts, b : WInts, wasm : BOOLEAN] : c.a # c.b }
             \cup [fam : {"target"}, what : {"lit"}, a : {"u64", "i64", "usize", "u32"}, b : {"dec", "hex", "bin"},
                    place : {"var", "member", "elem", "nested", "const", "constmember"}, wasm : BOOLEAN]
             \cup [fam : {"target"}, what : {"size"}, a : {"ptr", "ptrarray", "ptrstruct", "usize", "usizearray", "mixed"},
                    b : {"ret", "const"}, wasm : BOOLEAN]
             \* (twelfth round, C03k) casts whose operand is known at COMPILE time -- a suffixed literal, a named constant, `|x|`, `|:T|`
             \* (the last two are of type usize) -- in every position of a value, inside constant aggregates in particular: the
             \* verifier of the compiler does not look into the elements of a constant aggregate, llvm-as does
             \cup { c \in [fam : {"target"}, what : {"ccast"}, a : WInts, b : WInts, src : {"lit", "named", "len", "size"},
                           place : {"var", "elem", "nested", "member", "const", "constnested"}, wasm : BOOLEAN] :
                       /\ c.a # c.b /\ (c.src \in {"len", "size"} => c.a = "usize")
                       \* (`|x|` is not an expression of a constant declaration: E360)
                       /\ ~(c.src = "len" /\ c.place \in {"const", "constnested"}) }

(***************************************************************************)
(* two by-catches of the ninth seeding round, found on the UNCHANGED tree:  *)
(* a constant whose value divides by zero, and an opaque structure         *)
(* (`struct Owner;`) used as if it had a body.  Whether such programs are  *)
(* rejected is not documented (free): they have to END as the protocol     *)
(* says -- a diagnostic or IR, never a crash.                              *)
(***************************************************************************)
ConstDivCells == [fam : {"constdiv"}, op : {"/", "%"}, ty : {"usize", "i32", "u8"}, use : {"value", "length", "unused", "operand", "member"}]
OpaqueCells == [fam : {"opaque"}, use : {"literal", "variable", "sizeof", "parameter", "pointer", "member", "element", "return"}]

Cells == BuiltinCells \cup DepthCells \cup SizeCells \cup SymCells \cup NameCells \cup ChainCells \cup RetCells \cup JoinCells \cup WasmCells
           \cup ConstDivCells \cup OpaqueCells
Expect(x) == CASE x.fam = "builtin" -> BuiltinExpect(x)
               [] x.fam = "depth" -> DepthExpect(x)
               [] x.fam = "size" -> SizeExpect(x)
               [] x.fam = "names" -> NameExpect(x)
               [] x.fam = "chain" -> ChainExpect(x)
               [] x.fam = "rettype" -> RetExpect(x)
               [] x.fam = "joinstr" -> JoinExpect(x)
               [] x.fam = "target" -> [t |-> "valid"]
               [] x.fam \in {"constdiv", "opaque"} -> [t |-> "free"]
               [] OTHER -> SymExpect(x)

VARIABLE x
Init == x \in Cells
Next == UNCHANGED x
Spec == Init /\ [][Next]_x

\* sanity of R: every family has cells with a verdict and cells at both sides of the bound
Sane == /\ Expect(x).t \in {"valid", "free", "e390", "no390", "located"}
        /\ (x.fam = "chain") => (Expect(x).opidx \in 1..(x.n - 1))
        /\ (x.fam = "depth" /\ x.construct \in RefConstructs) => (Expect(x).t = "e390") = (x.depth >= 128)
EmitCase == PrintT(<<"CASE", ToJson([cell |-> x, expect |-> Expect(x)])>>)
=============================================================================

SPECIFICATION Spec
CONSTANTS
  TypeSeq <- TS2
  MaxVars = 2
  MaxStmts = 3
  Forms = {"tv", "bin", "cmp", "declt", "asgu", "asgt", "chain"}
  Rets = {"void", "i32"}
INVARIANTS ASound AUndet ASolution EmitCase
CHECK_DEADLOCK FALSE

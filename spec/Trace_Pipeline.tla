--------------------------- MODULE Trace_Pipeline ---------------------------
(***************************************************************************)
(* Trace validation for C02 / C03 (impl -> spec).                          *)
(*                                                                         *)
(* The worker (harness/src/pipeline/drive.rs) makes the calls of           *)
(* compile_to_ir_using_alpha through the public API and flushes one event  *)
(* after each.  A recording is accepted only if it is a behaviour of       *)
(* Pipeline that ends in a terminal state:                                 *)
(*   - the calls come in the order Order(n) prescribes (I4);               *)
(*     declare/type/analyze/lint are inside the one call                   *)
(*     analyze_and_resolve and therefore not observable: the event         *)
(*     `resolve` stands for that composite step, whose summary             *)
(*     (fails => at least one code) is what TLC checks on Pipeline.tla;    *)
(*   - surface.codes are the Errors of the top-level declarations the      *)
(*     expander left (SurfaceCodes), no module holds Poisoned without an   *)
(*     Error (I2);                                                         *)
(*   - the run ends with `outcome`: success after link, or failure with    *)
(*     codes # <<>> (I1) equal to what the failing call returned;          *)
(*   - an expected invalid lexeme makes it a failure that shows its code   *)
(*     unless an earlier diagnostic exists (I3); a module set emitted by   *)
(*     MC_Pipeline ends as the protocol prescribes;                        *)
(*   - with RequireIR: every generate and link is followed by an `ir`      *)
(*     event (llvm-as and opt -passes=verify run as independent tools)     *)
(*     with both tools accepting and the symbol table Symbols.tla demands. *)
(* panic / crash / hang / internal events have no action: the trace stops  *)
(* there and is rejected at that stage.                                    *)
(***************************************************************************)
EXTENDS Pipeline, Symbols, Json, IOUtils, TLCExt

CONSTANT RequireIR

Rec == ndJsonDeserialize(IOEnv.TRACE)

VARIABLES l,       \* next line
          n,       \* number of modules of the current case
          k,       \* index of the next observable call
          ds,      \* declaration lists after expansion (projection of the real AST)
          lex,     \* modules in which the real lexer reported an invalid lexeme
          pend,    \* what the outcome must be: [t, codes]
          wait,    \* "" or the module whose ir event is due ("link" = 0)
          cur,     \* the input record (expectations)
          done     \* the whole file was consumed
tvars == <<l, n, k, ds, lex, pend, wait, cur, done, phase, mods, imports, badimp, pc, outcome, ir, firstfail>>

Hidden == {"declare", "type", "analyze", "lint"}
Obs(nn) == SelectSeq(Order(nn), LAMBDA c : c[1] \notin Hidden)

NoWait == 999
NoPend == [t |-> "none", codes |-> <<>>]
Idle == [idle |-> TRUE]

TInit == /\ l = 1 /\ n = 0 /\ k = 0 /\ ds = <<>> /\ lex = {} /\ pend = NoPend /\ wait = NoWait /\ cur = Idle /\ done = FALSE
         /\ Init

Frozen == UNCHANGED <<phase, mods, imports, badimp, pc, outcome, ir, firstfail>>
Ev(e) == l <= Len(Rec) /\ Rec[l].ev = e
Running == n > 0 /\ pend.t = "none" /\ wait = NoWait
Call2(s, m) == Running /\ k <= Len(Obs(n)) /\ Obs(n)[k] = <<s, m>>
Step == l' = l + 1 /\ k' = k + 1

TInput == /\ Ev("input") /\ n = 0
          /\ Rec[l].n >= 1
          /\ n' = Rec[l].n /\ k' = 1 /\ ds' = <<>> /\ lex' = {} /\ pend' = NoPend /\ wait' = NoWait
          /\ cur' = Rec[l] /\ l' = l + 1 /\ Frozen

TLex == /\ Ev("lex") /\ Call2("lex", Rec[l].m) /\ Step
        /\ lex' = IF Rec[l].errs # <<>> THEN lex \cup {Rec[l].m} ELSE lex
        /\ UNCHANGED <<n, ds, pend, wait, cur>> /\ Frozen
TParse == /\ Ev("parse") /\ Call2("parse", Rec[l].m) /\ Step
          /\ UNCHANGED <<n, ds, lex, pend, wait, cur>> /\ Frozen

\* the projection uses p, c as strings/ints: bring it into the shape of Pipeline.tla
AsDecl(d) == [p |-> [t |-> d.p, c |-> d.c], pub |-> d.pub, own |-> TRUE, fault |-> "none",
              k |-> d.k, name |-> d.name]
AsDecls(s) == [i \in 1..Len(s) |-> AsDecl(s[i])]
TExpand == /\ Ev("expand") /\ Call2("expand", 0) /\ Step
           /\ Len(Rec[l].decls) = n
           /\ ds' = [m \in 1..n |-> AsDecls(Rec[l].decls[m])]
           /\ \A m \in 1..n : HasRoot(ds'[m])                                       \* I2
           /\ UNCHANGED <<n, lex, pend, wait, cur>> /\ Frozen
TSurface == /\ Ev("surface") /\ Call2("surface", Rec[l].m) /\ Step
            /\ Rec[l].codes = SurfaceCodes(ds[Rec[l].m])                             \* R of the check
            /\ pend' = IF Rec[l].codes # <<>> THEN [t |-> "failure", codes |-> Rec[l].codes] ELSE pend
            /\ UNCHANGED <<n, ds, lex, wait, cur>> /\ Frozen
TScope == /\ Ev("scope") /\ Call2("scope", Rec[l].m) /\ Step
          /\ UNCHANGED <<n, ds, lex, pend, wait, cur>> /\ Frozen
TResolve == /\ Ev("resolve") /\ Call2("resolve", Rec[l].m) /\ Step
            /\ Rec[l].ok = (Rec[l].codes = <<>>)                                     \* I1 at the call
            /\ Rec[l].ok => ~ModuleFails(ds[Rec[l].m])
            /\ pend' = IF Rec[l].ok THEN pend ELSE [t |-> "failure", codes |-> Rec[l].codes]
            /\ UNCHANGED <<n, ds, lex, wait, cur>> /\ Frozen
\* take_lints: after the composite call, not a step of Order
TLint == /\ Ev("lint") /\ Running /\ k > 1 /\ Obs(n)[k - 1] = <<"resolve", Rec[l].m>>
         /\ l' = l + 1
         /\ UNCHANGED <<n, k, ds, lex, pend, wait, cur>> /\ Frozen
TGenerate == /\ Ev("generate") /\ Call2("generate", Rec[l].m) /\ Step
             /\ wait' = IF RequireIR THEN Rec[l].m ELSE NoWait
             /\ UNCHANGED <<n, ds, lex, pend, cur>> /\ Frozen
TLink == /\ Ev("link") /\ Call2("link", 0) /\ Step
         /\ wait' = IF RequireIR THEN 0 ELSE NoWait
         /\ pend' = [t |-> "success", codes |-> <<>>]
         /\ UNCHANGED <<n, ds, lex, cur>> /\ Frozen
\* C03: the independent tools accept the text and the symbol table is the one the rule demands
SymDs(m) == [i \in 1..Len(ds[m]) |-> [k |-> ds[m][i].k, name |-> ds[m][i].name, pub |-> ds[m][i].pub, p |-> ds[m][i].p.t]]
TIr == /\ Ev("ir") /\ wait # NoWait /\ Rec[l].module = wait
       /\ Rec[l].assembler_ok /\ Rec[l].verifier_ok
       /\ IF wait = 0 THEN LinkedOK([m \in 1..n |-> SymDs(m)], Rec[l].symbols)
                      ELSE SymbolsOK(SymDs(wait), Rec[l].symbols)
       \* the stricter table of the generator model: a difference is only noted
       /\ IF wait # 0 \/ (\A m \in 1..n : LocalsKept(SymDs(m), Rec[l].symbols)) THEN TRUE
          ELSE PrintT(<<"NOTE", ToJson([id |-> (IF "id" \in DOMAIN cur THEN cur.id ELSE "?"), what |-> "linker-dropped-local", module |-> 0])>>)
       /\ IF wait = 0 \/ StrictOK(SymDs(wait), Rec[l].symbols) THEN TRUE
          ELSE PrintT(<<"NOTE", ToJson([id |-> (IF "id" \in DOMAIN cur THEN cur.id ELSE "?"), what |-> "strict-symbols", module |-> wait])>>)
       /\ wait' = NoWait /\ l' = l + 1
       /\ UNCHANGED <<n, k, ds, lex, pend, cur>> /\ Frozen

Has(f) == f \in DOMAIN cur
CurId == IF "id" \in DOMAIN cur THEN cur.id ELSE "?"
Codes == Rec[l].codes
InSeq(c, s) == \E x \in 1..Len(s) : s[x] = c
\* I3 on a recording.  Hard part (decides rejection): an invalid lexeme makes the run a failure.
\* Soft part (property C02 only demands "at least one diagnostic"): the code of the first invalid
\* lexeme is shown unless a diagnostic on an earlier line exists; where it is hidden behind a
\* consequential error TLC prints a NOTE and the run is still accepted.
LexShown == \/ InSeq(cur.expect.code, Codes)
            \/ \E x \in 1..Len(Rec[l].diags) : Rec[l].diags[x].line < cur.expect.line
LexOK == /\ (lex # {}) => ~Rec[l].ok
         /\ (Has("expect") /\ cur.expect.t = "lex") =>
               /\ ~Rec[l].ok
               /\ IF LexShown THEN TRUE
                  ELSE PrintT(<<"NOTE", ToJson([id |-> CurId, what |-> "lexeme-code-hidden", code |-> cur.expect.code,
                                                line |-> cur.expect.line, shown |-> Codes])>>)
SetOK == (Has("expect") /\ cur.expect.t = "set") =>
            /\ Rec[l].ok = cur.expect.ok
            /\ ~cur.expect.ok => /\ Len(Codes) = Len(cur.expect.codes)
                                  /\ \A x \in 1..Len(cur.expect.codes) : InSeq(cur.expect.codes[x], Codes)
\* I4 on a recording: a program that a generator built well-formed (the random programs of C01) is compiled successfully
ValidOK == (Has("expect") /\ cur.expect.t = "valid") => Rec[l].ok
\* ... and the functions the generator wrote into the source are among the declarations the real parser delivered (a front end
\* that silently drops text would otherwise "compile" the rest): expect.fns, compared with TRUE so that TLC evaluates the quantifiers
DefinesOK == (Has("expect") /\ "fns" \in DOMAIN cur.expect) =>
                ((\A x \in 1..Len(cur.expect.fns) : \E m \in 1..Len(ds) : \E i \in 1..Len(ds[m]) :
                     ds[m][i].k = "fn" /\ ds[m][i].name = cur.expect.fns[x]) = TRUE)
\* docs/errors.md E390 on a recording (cells of PipelineShapes.tla): more than 127 address markers in front of a reference / more
\* than 127 chained accesses => a failure that shows E390; at most 127 => E390 is not among the diagnostics
DepthOK == /\ (Has("expect") /\ cur.expect.t = "e390") => (~Rec[l].ok /\ InSeq(390, Codes))
           /\ (Has("expect") /\ cur.expect.t = "no390") => ~InSeq(390, Codes)
TOutcome == /\ Ev("outcome") /\ n > 0 /\ wait = NoWait /\ pend.t # "none"
            /\ Rec[l].ok = (pend.t = "success")
            /\ Rec[l].codes = pend.codes
            /\ ~Rec[l].ok => Rec[l].codes # <<>>                                      \* I1
            /\ Len(Rec[l].diags) = Len(Rec[l].codes)
            /\ LexOK /\ SetOK /\ ValidOK /\ DefinesOK /\ DepthOK
            /\ n' = 0 /\ k' = 0 /\ ds' = <<>> /\ lex' = {} /\ pend' = NoPend /\ cur' = Idle
            /\ l' = l + 1 /\ UNCHANGED wait /\ Frozen

TNormal == TInput \/ TLex \/ TParse \/ TExpand \/ TSurface \/ TScope \/ TResolve \/ TLint \/ TGenerate
           \/ TLink \/ TIr \/ TOutcome

(***************************************************************************)
(* A recording that stops being a behaviour of the protocol is REJECTED at *)
(* that line: the rejection is printed and validation resumes at the next  *)
(* `input` event, so that one file can hold thousands of runs.             *)
(***************************************************************************)
RECURSIVE NextInput(_)
NextInput(x) == IF x > Len(Rec) THEN x ELSE IF Rec[x].ev = "input" THEN x ELSE NextInput(x + 1)
TReject == /\ ~done /\ ~ENABLED TNormal
           /\ l <= Len(Rec) \/ n > 0
           /\ PrintT(<<"REJECT", ToJson([line |-> l, id |-> (IF l <= Len(Rec) /\ Rec[l].ev = "input" /\ n = 0 THEN Rec[l].id ELSE CurId),
                                         ev |-> (IF l <= Len(Rec) THEN Rec[l].ev ELSE "end-of-trace"),
                                         after |-> (IF n > 0 /\ k > 1 /\ k - 1 <= Len(Obs(n)) THEN Obs(n)[k - 1] ELSE <<"input", 0>>)])>>)
           /\ l' = NextInput(l + 1)
           /\ n' = 0 /\ k' = 0 /\ ds' = <<>> /\ lex' = {} /\ pend' = NoPend /\ wait' = NoWait /\ cur' = Idle
           /\ UNCHANGED done /\ Frozen
TEnd == /\ ~done /\ l > Len(Rec) /\ n = 0
        /\ PrintT(<<"TRACE", ToJson([accepted |-> TRUE, matched |-> Len(Rec), total |-> Len(Rec)])>>)
        /\ done' = TRUE /\ UNCHANGED <<l, n, k, ds, lex, pend, wait, cur>> /\ Frozen
TNext == (TNormal /\ UNCHANGED done) \/ TReject \/ TEnd
TSpec == TInit /\ [][TNext]_tvars
=============================================================================

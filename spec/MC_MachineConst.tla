--------------------------- MODULE MC_MachineConst ---------------------------
(***************************************************************************)
(* C10, dimension audit: constant expressions that MIX the forms the       *)
(* matrices of MC_MachineOps take one at a time.  Every cell is a small    *)
(* program fragment (structures, constants in dependency order, helper     *)
(* functions, statements of `main`) with names of its own (suffix = the    *)
(* cell's index), so that cells can be packed into one source file in any  *)
(* order; TLC runs Machine.tla on the cell alone and emits the fragment    *)
(* with the output the semantics give.                                     *)
(*   cexpr  A: ta = boundary literal                                       *)
(*          B: tb = ((|:X| + (A as usize)) * 3usize) as tb                 *)
(*          C: tc = ((B as tc) op (|:Y| as tc)) op2 5                      *)
(*          for rotations of (ta, tb, tc) and of the measured types X, Y   *)
(*          (primitives, arrays, nested arrays, structure, word, pointer,  *)
(*          pointer to an array, array of pointers); each also evaluated   *)
(*          at run time from a variable holding A (const = var)            *)
(*   cagg   constants of word / array-of-structure type whose members are  *)
(*          constant expressions over `|:X|`, casts and other constants;   *)
(*          read by member, passed by value / as a view; run-time twin     *)
(*   clen   array lengths that are constant EXPRESSION chains              *)
(*          (N = M - 1, M = L * 2, L = |:X| + 1) in every position a       *)
(*          length can stand: local, parameter `&[N]T`, member, constant   *)
(*          array, row of a 2-dimensional array, both dimensions, inside   *)
(*          `|:[N]T|`, inside another constant; `|x|` by name, view, slice *)
(*          pointer, array pointer.  The number of elements of `[N]T` is   *)
(*          the VALUE the machine computes for N.                          *)
(* R: a constant has the value the same expression yields inside a         *)
(* function (invariant ConstEqualsVar), `[N]T` has exactly N elements.     *)
(***************************************************************************)
EXTENDS MachineBuild
CONSTANTS Fuel, Ops1, Ops2, Chains

S8D == SD("S8", <<Mem("c", PrimT("u8")), Mem("x", PrimT("i32"))>>)
W16D == WD("W16", 16, <<Mem("a", PrimT("u8")), Mem("b", PrimT("u8"))>>)
CStructs == <<S8D, W16D>>
\* the measured types
XS == << PrimT("i128"), ArrT(3, PrimT("u16")), NamedT("S8"), NamedT("W16"), PtrT(PrimT("i32")), ArrT(2, NamedT("S8")),
         ArrT(2, ArrT(3, PrimT("u8"))), PrimT("bool"), PtrT(ArrT(4, PrimT("u8"))), ArrT(2, PtrT(PrimT("i32"))), PrimT("usize") >>
Ts == <<"i8", "u16", "i32", "u64", "i128", "usize">>
Tri(k) == IF k <= 6 THEN <<Ts[k], Ts[(k % 6) + 1], Ts[((k + 1) % 6) + 1]>>
          ELSE <<Ts[k - 6], Ts[((k - 6 + 2) % 6) + 1], Ts[((k - 6) % 6) + 1]>>
CastE(from, to, e) == IF from = to THEN e ELSE As(to, e)
\* a boundary value of type t: -3 for signed types, max - 2 for unsigned ones
Boundary(t) == LET w == Width(t) IN LitV(t, Sub(Ones(w), FromNat(2, w)))
Cst(x, ty, e) == [x |-> x, ty |-> ty, e |-> e]
Nm(base, i) == base \o "_" \o ToString(i)

(**************************** cexpr *****************************************)
CExpr(p, i) ==
    LET ta == Tri(p.tri)[1]
        tb == Tri(p.tri)[2]
        tc == Tri(p.tri)[3]
        X == XS[p.x]
        Y == XS[(p.x % Len(XS)) + 1]
        A == Nm("A", i)
        B == Nm("B", i)
        C == Nm("C", i)
        eb(a) == CastE("usize", tb, Bin("*", Bin("+", SizeE(X), CastE(ta, "usize", a)), USZ(3)))
        ec(b) == Bin(p.op2, Bin(p.op, CastE(tb, tc, b), CastE("usize", tc, SizeE(Y))), Lit(tc, 5))
    IN [structs |-> CStructs,
        \* dependency order; the source may list them in any order
        consts |-> <<Cst(A, PrimT(ta), Boundary(ta)), Cst(B, PrimT(tb), eb(RV(A))), Cst(C, PrimT(tc), ec(RV(B)))>>,
        fns |-> <<>>,
        body |-> <<Pr(RV(A)), Pr(RV(B)), Pr(RV(C)),
                   VarI(Nm("va", i), PrimT(ta), RV(A)), VarI(Nm("vb", i), PrimT(tb), eb(RV(Nm("va", i)))),
                   VarI(Nm("vc", i), PrimT(tc), ec(RV(Nm("vb", i)))), Pr(RV(Nm("vb", i))), Pr(RV(Nm("vc", i)))>>,
        twins |-> <<<<2, 4>>, <<3, 5>>>>]
CExprParams == {[fam |-> "cexpr", tri |-> k, x |-> x, op |-> o, op2 |-> o2] : k \in 1..12, x \in 1..Len(XS), o \in Ops1, o2 \in Ops2}

(**************************** cagg ******************************************)
CAgg(p, i) ==
    LET ta == Ts[p.t]
        X == XS[p.x]
        A == Nm("A", i)
        KW == Nm("KW", i)
        KS == Nm("KS", i)
        \* (members of EQUAL type written out of declaration order: b before a)
        wl(a) == StE("W16", <<Fld("b", CastE(ta, "u8", a)), Fld("a", Bin("+", As("u8", SizeE(X)), Lit("u8", 1)))>>)
        sl(a) == ArrE(<<StE("S8", <<Fld("c", As("u8", SizeE(X))), Fld("x", Bin("*", CastE(ta, "i32", a), Lit("i32", 3)))>>),
                        StE("S8", <<Fld("x", Bin("-", As("i32", SizeE(X)), Lit("i32", 100))), Fld("c", Lit("u8", 7))>>)>>)
        rdS == Fn(Nm("rdS", i), <<Par("v", ViewT(NamedT("S8")))>>, PrimT("i32"), <<>>,
                  Bin("+", Ref("v", 0, <<IxN(1), Mb("x")>>), As("i32", LenE("v", <<>>))))
        rdW == Fn(Nm("rdW", i), <<Par("w", NamedT("W16"))>>, PrimT("u8"), <<>>, Ref("w", 0, <<Mb("b")>>))
        va == Nm("va", i)
        vW == Nm("vW", i)
        vS == Nm("vS", i)
    IN [structs |-> CStructs,
        consts |-> <<Cst(A, PrimT(ta), Boundary(ta)), Cst(KW, NamedT("W16"), wl(RV(A))), Cst(KS, ArrT(2, NamedT("S8")), sl(RV(A)))>>,
        fns |-> <<rdS, rdW>>,
        body |-> <<Pr(Ref(KW, 0, <<Mb("a")>>)), Pr(Ref(KW, 0, <<Mb("b")>>)), Pr(Ref(KS, 0, <<IxN(0), Mb("c")>>)),
                   Pr(Ref(KS, 0, <<IxN(0), Mb("x")>>)), Pr(Ref(KS, 0, <<IxN(1), Mb("x")>>)), Pr(Ref(KS, 0, <<IxN(1), Mb("c")>>)),
                   Pr(CallE(Nm("rdS", i), <<RV(KS)>>)), Pr(CallE(Nm("rdW", i), <<RV(KW)>>)), Pr(LenE(KS, <<>>)),
                   VarI(va, PrimT(ta), RV(A)), VarI(vW, NamedT("W16"), wl(RV(va))), VarI(vS, ArrT(2, NamedT("S8")), sl(RV(va))),
                   Pr(Ref(vW, 0, <<Mb("a")>>)), Pr(Ref(vW, 0, <<Mb("b")>>)), Pr(Ref(vS, 0, <<IxN(0), Mb("c")>>)),
                   Pr(Ref(vS, 0, <<IxN(0), Mb("x")>>)), Pr(Ref(vS, 0, <<IxN(1), Mb("x")>>)), Pr(Ref(vS, 0, <<IxN(1), Mb("c")>>))>>,
        twins |-> <<<<1, 10>>, <<2, 11>>, <<3, 12>>, <<4, 13>>, <<5, 14>>, <<6, 15>>>>]
CAggParams == {[fam |-> "cagg", t |-> t, x |-> x] : t \in 1..Len(Ts), x \in 1..Len(XS)}

(**************************** clen ******************************************)
\* the value the machine computes for the constant x of the list cs
ConstNat(cs, x) == LET m == MInit(Program(CStructs, cs, <<MainFn(<<>>)>>), 5)
                   IN ToNat(m.glob[Lookup(m.glob, x)].v.v)
Uses == {"local", "view", "sptr", "aptr", "member", "constarr", "sizeof", "row", "both", "constlen"}
CLen(p, i) ==
    LET X == XS[p.x]
        L == Nm("L", i)
        M == Nm("M", i)
        N == Nm("N", i)
        cs == CASE p.chain = 1 -> <<Cst(N, USZT, Bin("+", SizeE(X), USZ(1))), Cst(M, USZT, Bin("+", RV(N), USZ(2)))>>
                [] p.chain = 2 -> <<Cst(M, USZT, SizeE(X)), Cst(N, USZT, Bin("+", RV(M), USZ(1)))>>
                [] p.chain = 3 -> <<Cst(L, USZT, Bin("+", SizeE(X), USZ(1))), Cst(M, USZT, Bin("*", RV(L), USZ(2))), Cst(N, USZT, Bin("-", RV(M), USZ(1)))>>
        n == ConstNat(cs, N)
        mm == ConstNat(cs, M)
        i32 == PrimT("i32")
        AN == ArrNC(n, N, i32)
        a == Nm("a", i)
        lv == Fn(Nm("lv", i), <<Par("x", ViewT(i32))>>, USZT, <<>>, LenE("x", <<>>))
        ls == Fn(Nm("ls", i), <<Par("x", PtrT(ViewT(i32)))>>, USZT, <<>>, LenE("x", <<>>))
        la == Fn(Nm("la", i), <<Par("x", PtrT(AN))>>, i32, <<Asg("x", 0, <<IxN(n - 1)>>, Lit("i32", 9))>>, As("i32", LenE("x", <<>>)))
        hn == SD(Nm("HN", i), <<Mem("m", AN), Mem("k", PrimT("u8"))>>)
        decl == <<VarU(a, AN), Asg(a, 0, <<IxN(n - 1)>>, Lit("i32", 7))>>
        r == CASE p.use = "local" -> [f |-> <<>>, s |-> <<>>, c |-> <<>>, b |-> decl \o <<Pr(LenE(a, <<>>)), Pr(Ref(a, 0, <<IxN(n - 1)>>)), Pr(RV(N))>>]
               [] p.use = "view" -> [f |-> <<lv>>, s |-> <<>>, c |-> <<>>, b |-> decl \o <<Pr(CallE(Nm("lv", i), <<RV(a)>>))>>]
               [] p.use = "sptr" -> [f |-> <<ls>>, s |-> <<>>, c |-> <<>>, b |-> decl \o <<Pr(CallE(Nm("ls", i), <<Ref(a, 1, <<>>)>>))>>]
               [] p.use = "aptr" -> [f |-> <<la>>, s |-> <<>>, c |-> <<>>,
                                     b |-> decl \o <<Pr(CallE(Nm("la", i), <<Ref(a, 1, <<>>)>>)), Pr(Ref(a, 0, <<IxN(n - 1)>>))>>]
               [] p.use = "member" -> [f |-> <<>>, s |-> <<hn>>, c |-> <<>>,
                                       b |-> <<VarU(Nm("h", i), NamedT(Nm("HN", i))), Asg(Nm("h", i), 0, <<Mb("m"), IxN(n - 1)>>, Lit("i32", 5)),
                                               Pr(LenE(Nm("h", i), <<Mb("m")>>)), Pr(Ref(Nm("h", i), 0, <<Mb("m"), IxN(n - 1)>>)),
                                               Pr(SizeE(NamedT(Nm("HN", i))))>>]
               [] p.use = "constarr" -> [f |-> <<lv>>, s |-> <<>>, c |-> <<Cst(Nm("KA", i), AN, ArrE([j \in 1..n |-> Lit("i32", j)]))>>,
                                         b |-> <<Pr(LenE(Nm("KA", i), <<>>)), Pr(Ref(Nm("KA", i), 0, <<IxN(n - 1)>>)),
                                                 Pr(CallE(Nm("lv", i), <<RV(Nm("KA", i))>>))>>]
               [] p.use = "sizeof" -> [f |-> <<>>, s |-> <<>>, c |-> <<>>,
                                       b |-> <<Pr(SizeE(AN)), Pr(SizeE(ArrNC(n, N, ArrT(2, PrimT("u16"))))), Pr(SizeE(ArrT(3, AN)))>>]
               [] p.use = "row" -> [f |-> <<lv>>, s |-> <<>>, c |-> <<>>,
                                    b |-> <<VarU(Nm("m", i), ArrT(2, AN)), Asg(Nm("m", i), 0, <<IxN(1), IxN(n - 1)>>, Lit("i32", 3)),
                                            Pr(LenE(Nm("m", i), <<>>)), Pr(LenE(Nm("m", i), <<IxN(1)>>)),
                                            Pr(CallE(Nm("lv", i), <<Ref(Nm("m", i), 0, <<IxN(1)>>)>>))>>]
               [] p.use = "both" -> [f |-> <<>>, s |-> <<>>, c |-> <<>>,
                                     b |-> <<VarU(Nm("m", i), ArrNC(n, N, ArrNC(mm, M, PrimT("u8")))),
                                             Pr(LenE(Nm("m", i), <<>>)), Pr(LenE(Nm("m", i), <<IxN(0)>>)),
                                             Pr(SizeE(ArrNC(n, N, ArrNC(mm, M, PrimT("u8")))))>>]
               [] p.use = "constlen" -> [f |-> <<>>, s |-> <<>>, c |-> <<Cst(Nm("Z", i), USZT, Bin("+", SizeE(AN), RV(N)))>>,
                                         b |-> <<Pr(RV(Nm("Z", i))), Pr(RV(N)), Pr(RV(M))>>]
    IN [structs |-> CStructs \o r.s, consts |-> cs \o r.c, fns |-> r.f, body |-> r.b, twins |-> <<>>]
CLenParams == {[fam |-> "clen", x |-> x, chain |-> ch, use |-> u] : x \in 1..Len(XS), ch \in Chains, u \in Uses}

(***************************************************************************)
Params == CExprParams \cup CAggParams \cup CLenParams
Cells == SetToSeq(Params)
Build(p, i) == CASE p.fam = "cexpr" -> CExpr(p, i) [] p.fam = "cagg" -> CAgg(p, i) [] p.fam = "clen" -> CLen(p, i)
ProgOf(cell) == Program(cell.structs, cell.consts, <<MainFn(cell.body)>> \o cell.fns)

VARIABLES idx, cell, res, done
vars == <<idx, cell, res, done>>
Init == idx = 0 /\ cell = <<>> /\ res = [status |-> "none"] /\ done = FALSE
Pick == /\ idx = 0
        /\ \E i \in 1..Len(Cells) : \E cl \in {Build(Cells[i], i)} : idx' = i /\ cell' = cl /\ res' = MInit(ProgOf(cl), Fuel)
        /\ UNCHANGED done
Exec == /\ idx # 0 /\ ~done
        /\ \E m2 \in {IF res.status = "run" THEN RunChunk(ProgOf(cell), res, ChunkSize) ELSE res} : res' = m2 /\ done' = (m2.status # "run")
        /\ UNCHANGED <<idx, cell>>
Next == Pick \/ Exec
Spec == Init /\ [][Next]_vars

Sane == done => (res.status = "done" /\ res.bad = <<>>)
\* R: a constant has the value the same expression yields inside a function
ConstEqualsVar == done => \A k \in 1..Len(cell.twins) : res.out[cell.twins[k][1]] = res.out[cell.twins[k][2]]
EmitCase == done =>
    PrintT(<<"CASE", ToJson([par |-> Cells[idx], i |-> idx, status |-> res.status, out |-> IF res.status = "done" THEN OutOf(res) ELSE <<>>,
                             exit |-> IF res.status = "done" THEN res.exit ELSE <<>>, why |-> res.why, twins |-> cell.twins,
                             structs |-> cell.structs, consts |-> cell.consts, fns |-> cell.fns, body |-> cell.body])>>)
=============================================================================

SPECIFICATION Spec
CONSTANTS
  Types = {"i8", "i32", "i128", "u16", "u64", "u128", "usize"}
  Thorough = FALSE
  Mode = "tree"
INVARIANTS WellTyped EmitCase
CHECK_DEADLOCK FALSE

SPECIFICATION Spec
CONSTANTS
  MaxLen = 8
  MinFns = 1
  MaxFns = 1
  MaxDepth = 4
  TokenKinds = {"S", "LP", "O", "C", "I", "E"}
  ElseFlagCleared = TRUE
CONSTRAINT IfFirst
INVARIANTS Agree AgreeLints EmitCase
CHECK_DEADLOCK FALSE

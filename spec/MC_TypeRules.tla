--------------------------- MODULE MC_TypeRules ---------------------------
(***************************************************************************)
(* Gen + model checking + case emission for C07 (TLC only).  The matrix is *)
(* finite: every cell is a state (the successor of the seed of its part);  *)
(* the invariants are evaluated once per cell: Agree (A |= R) and Emit     *)
(* (one CASE line for the replay).                                         *)
(***************************************************************************)
EXTENDS TypeRules, TLC, Json, SequencesExt

CONSTANT Thorough          \* FALSE: representatives over i32; TRUE: more pointee / element types

VARIABLE c

I32    == P("i32")
PrimT  == {P(n) : n \in Prims}
PTR    == Ptr(I32)
PTR8   == Ptr(U8)
PPTR   == Ptr(PTR)
ARR    == Arr("3", I32)
SLICE  == Slice(I32)
SPTR   == SPtr(I32)
STRUCT == <<"struct", "S">>
WORD   == <<"word", "W">>

ExtraT == IF Thorough THEN {Ptr(P("i64")), Ptr(Bool), Arr("3", U8), Slice(U8), Arr("2", I32), <<"word", "W2">>}
          ELSE {}

\* variables that can be declared with `var`
\* (`var v: []T = [..]` declares an array of inferred length, not an array view: views and slice
\* pointers only exist as parameters)
VarShapes   == PrimT \cup {PTR, PTR8, ARR, STRUCT, WORD} \cup (ExtraT \ {Slice(U8)})
\* variables and parameters of the enclosing function
SrcShapes   == VarShapes \cup {SLICE, SPTR} \cup ExtraT \cup (IF Thorough THEN {PPTR} ELSE {})
\* A slice pointer used without `&` or with `&&` makes the compiler panic (typer.rs, see
\* docs/notes-types.md); one context each is enough to expose that.
\* Likewise the address of an array view (`&sl`) trips an assertion on an ill-formed type.
SrcOK(ctx, s, ks) == /\ (s = SPTR /\ ks # 1) => (ctx = "arg" \/ (ctx = "init" /\ ks = 0))
                     /\ (Kind(s) = "slice" /\ ks # 0) => (ctx = "arg" \/ (ctx = "init" /\ ks = 1))
ParamShapes == PrimT \cup {PTR, PTR8, SLICE, STRUCT, WORD, SPTR, Ptr(ARR), PPTR} \cup (ExtraT \ {Arr("3", U8), Arr("2", I32)})
RetShapes   == PrimT \cup {WORD, PTR, PTR8}
CastTargets == VarShapes

\* operand expressions <<declared type, address markers>>: a pointer variable is used both with `&`
\* (the pointer) and without (autoderef to i32)
Operand == {<<t, 0>> : t \in PrimT \cup {ARR, SLICE, STRUCT, WORD}} \cup {<<PTR, 1>>, <<PTR, 0>>, <<PTR8, 1>>, <<SPTR, 1>>}
            \cup (IF Thorough THEN {<<t, 0>> : t \in {Arr("3", U8), Slice(U8), <<"word", "W2">>}} \cup {<<Ptr(Bool), 1>>, <<Ptr(Bool), 0>>, <<PPTR, 2>>, <<PPTR, 1>>}
                  ELSE {})

Cell(ctx, op, a, ka, b, kb) == [ctx |-> ctx, op |-> op, a |-> a, ka |-> ka, b |-> b, kb |-> kb, x |-> "direct", y |-> "top",
                                 fa |-> "var", fb |-> "var", pre |-> "none", v |-> ""]
InCtx(cell, x, y) == [cell EXCEPT !.x = x, !.y = y]

(***************************************************************************)
(* Second dimension: contexts.  Every KIND of cell is crossed with every   *)
(* expression context (kinds whose construct is an expression) and every   *)
(* statement context, over a REDUCED set of type pairs (i32, u8, usize,    *)
(* bool, a pointer, an array) -- not the full matrix.                      *)
(***************************************************************************)
\* castsame: the operand of an IDENTITY cast (`(e) as T` where T is the type the expression has for the compiler)
XContexts == {"paren", "elem", "member", "arg", "index", "castop", "castsame", "binop", "ret", "cond"}
YContexts == {"block", "loop", "then", "else", "elif_then", "elif_else", "elif2", "label"}
ExprKinds == {"bin", "un", "as", "cast", "arg", "arg2", "argn"}

RT == {I32, U8, P("usize"), Bool}
ROperand == {<<t, 0>> : t \in RT} \cup {<<PTR, 1>>, <<ARR, 0>>}
Reduced ==
    {Cell("bin", op, t, 0, y[1], y[2]) : op \in BinOps \ {"adv"}, t \in RT, y \in ROperand}
    \cup {Cell("cmp", op, t, 0, y[1], y[2]) : op \in CmpOps, t \in RT, y \in ROperand}
    \cup {Cell("un", op, t, 0, <<>>, 0) : op \in UnOps, t \in RT}
    \cup {Cell("as", "", x[1], x[2], t, 0) : x \in ROperand \cup {<<Char8, 0>>}, t \in RT}
    \cup {Cell("cast", "", x[1], x[2], t, 0) : x \in {<<I32, 0>>, <<PTR, 1>>}, t \in {I32, PTR8}}
    \cup {Cell("arg", "", s, ks, d, 0) : s \in {I32, U8, Bool, PTR, ARR}, ks \in 0..1, d \in {I32, U8, PTR, SLICE, STRUCT}}
    \cup {Cell("arg2", "", s, ks, d, 0) : s \in {I32, U8, Bool}, ks \in 0..1, d \in {I32, U8, PTR}}
    \* a slice pointer handed on with 1 (legal), 2 or 3 (surplus) address markers
    \cup {Cell(k, "", SPTR, ks, d, 0) : k \in {"arg", "arg2"}, ks \in 1..3, d \in {SPTR, SLICE, Ptr(ARR)}}
    \cup {Cell("argn", "", <<>>, n, <<>>, m) : n \in 0..3, m \in 0..2}
    \cup {Cell("assign", "", s, ks, d, kd) : s \in {I32, U8, Bool, PTR}, ks \in 0..1, d \in {I32, U8, PTR}, kd \in 0..1}
    \cup {Cell("init", "", s, ks, d, 0) : s \in {I32, U8, Bool, PTR}, ks \in 0..1, d \in {I32, U8, PTR}}
    \cup {Cell("elem", "", s, 0, d, 0) : s \in RT, d \in RT}
    \cup {Cell("member", "", s, ks, d, 0) : s \in {I32, U8, Bool, PTR}, ks \in 0..1, d \in {I32, U8, PTR}}

\* Target shapes of an assignment: <base>:<path>; base v = a local variable, p = a pointer parameter.
TargetShapes == {b \o ":" \o sh : b \in {"v", "p"},
                                  sh \in {"elem", "mem", "mem.mem", "mem.elem.mem", "pmem.mem", "mem.mem.elem", "elem.mem", "mem.elem",
                                         \* (seventh round) a pointer member that is indexed; pointers STORED IN ELEMENTS that are indexed / accessed
                                         "pmem.elem", "pelem.elem", "pelem.mem", "mem.pelem.elem"}}
PathAssign == {Cell("assignp", sh, s, ks, d, kd) : sh \in TargetShapes, s \in {I32, U8, P("u32"), Bool, PTR}, ks \in 0..1,
                                                 d \in {I32, U8, Bool, PTR}, kd \in 0..1}

\* the type the compiler gives the offending expression (what its context is built for)
TypeInContext(cl) == CASE cl.ctx \in {"bin", "un"} -> ExprType(cl.a, cl.ka)
                       [] cl.ctx \in {"as", "cast"} -> cl.b
                       [] OTHER -> I32
Passable(t) == IsPrim(t) \/ Kind(t) \in {"ptr", "word"}
XOK(x, t) == CASE x = "paren" -> TRUE
               [] x \in {"elem", "member", "arg", "ret"} -> Passable(t)
               [] x = "index" -> t = P("usize")
               [] x = "castop" -> IsInt(t) \/ t = Bool
               [] x = "castsame" -> IsInt(t)
               [] x = "binop" -> IsInt(t)
               [] x = "cond" -> IsPrim(t)

ContextCells ==
    {InCtx(q[1], q[2], "top") : q \in {p \in {r \in Reduced : r.ctx \in ExprKinds} \X XContexts : XOK(p[2], TypeInContext(p[1]))}}
    \cup {InCtx(cl, "direct", y) : cl \in Reduced, y \in YContexts}
    \cup {InCtx(q[1], q[2], q[3]) : q \in {p \in {r \in Reduced : r.ctx \in {"arg", "argn"}} \X {"elem", "member", "arg"} \X {"elif_then", "elif_else", "loop"} :
                                                XOK(p[2], TypeInContext(p[1]))}}

\* Arrays of arrays: the coercions array -> view and &array -> slice pointer only drop the OUTER length; the
\* element type -- here an array with its own length -- stays part of the type (`[2][4]i32` is no `[][3]i32`).
NEST(n)   == Arr("2", Arr(n, I32))
NestParams == {Slice(Arr("3", I32)), SPtr(Arr("3", I32)), Ptr(NEST("3")), Ptr(Arr("3", I32)), SLICE, SPTR}
NestCells ==
    {Cell(k, "", s, ks, d, 0) : k \in {"arg", "arg2"}, s \in {NEST("3"), NEST("4"), Arr("4", I32), ARR}, ks \in 0..1, d \in NestParams}

(***************************************************************************)
(* Dimension audit (docs/notes-types.md "Dimension audit").  More fields   *)
(* that the judgement ignores; each is a dimension of the GENERATOR only.  *)
(***************************************************************************)
\* --- fa / fb: the syntactic form of an operand ----------------------------------------------------
\* a call without / with arguments, a cast, a named constant, an element of an array / of an array of arrays /
\* of a view parameter, a member / a member of a member / a member through a pointer parameter, a suffixed
\* literal, a parenthesised variable, `|x|`, `|:T|`
\* hexlit: a naked hexadecimal literal `0x05`, which takes its type from the context (eighth round of seeded changes)
AllForms == {"call", "callarg", "cast", "const", "elem", "elem2", "velem", "mem", "mem2", "pmem", "lit", "paren", "len", "sizeof", "hexlit"}
FormOK(f, t) == CASE f \in {"len", "sizeof"} -> t = P("usize")
                  [] f \in {"cast", "hexlit"} -> IsInt(t)
                  [] OTHER -> IsPrim(t)
FT == {I32, U8, P("usize"), Bool}
TwoOperand == {"bin", "cmp", "elem"}
FormBase ==
    {Cell("bin", op, t, 0, u, 0) : op \in {"+", "&"}, t \in FT, u \in FT}
    \cup {Cell("cmp", op, t, 0, u, 0) : op \in {"==", "<"}, t \in FT, u \in FT}
    \cup {Cell("elem", "", t, 0, u, 0) : t \in FT, u \in FT}
    \cup {Cell("un", op, t, 0, <<>>, 0) : op \in UnOps, t \in FT}
    \cup {Cell(k, "", t, 0, u, 0) : k \in {"as", "assign", "init", "member", "arg", "arg2", "ret"}, t \in FT, u \in FT}
\* (`-7u8` is a negative literal, not a negation: no literal operand of a unary operator)
\* (... but `-0x05` IS one: only decimal literals carry a sign; the naked hexadecimal operand is used in the unary cells only,
\* where the declared type of the result gives it its type)
FormCellOK(cl, f) == ~(cl.ctx = "un" /\ f = "lit") /\ (f = "hexlit" => cl.ctx = "un")
FormCells ==
    {[q[1] EXCEPT !.fa = q[2]] : q \in {p \in FormBase \X AllForms : FormOK(p[2], p[1].a) /\ FormCellOK(p[1], p[2])}}
    \cup {[q[1] EXCEPT !.fb = q[2]] : q \in {p \in {r \in FormBase : r.ctx \in TwoOperand} \X (AllForms \ {"hexlit"}) : FormOK(p[2], p[1].b)}}
    \cup {[q[1] EXCEPT !.fa = q[2], !.fb = q[2]] :
              q \in {p \in {r \in FormBase : r.ctx \in TwoOperand} \X (AllForms \ {"hexlit"}) : FormOK(p[2], p[1].a) /\ FormOK(p[2], p[1].b)}}

\* --- pre: a second unit next to the construct -------------------------------------------------------
\* s_call       a well-typed call statement (two arguments) before the construct
\* s_bad        an independent ill-typed statement (`var q0: i64 = w1 + w2;`, w2: u16) before the construct
\* s_bad_after  ... after it
\* f_ok         a function with a well-typed body and a return value before the function of the construct
\* f_badstmt    a function whose body holds the ill-typed statement, before
\* f_badret     a function whose return value has the wrong type, before
\* f_bad_after  the function with the ill-typed statement AFTER the function of the construct
Pres == {"s_call", "s_bad", "s_bad_after", "f_ok", "f_badstmt", "f_badret", "f_bad_after"}
PreCell(p) == CASE p \in {"s_bad", "s_bad_after", "f_badstmt", "f_bad_after"} -> Cell("bin", "+", P("i64"), 0, P("u16"), 0)
                [] p = "f_badret" -> Cell("ret", "", P("i64"), 0, P("u16"), 0)
                [] OTHER -> Cell("bin", "+", P("i64"), 0, P("i64"), 0)          \* the well-typed neighbours
PreBase == {r \in Reduced : r.ctx \notin {"bin", "cmp"} \/ r.op \in {"+", "&", "==", "<"}}
PreCells == {[q[1] EXCEPT !.pre = q[2]] : q \in PreBase \X Pres}

\* --- v: which argument, what kind of callee ---------------------------------------------------------
\* "n:i": the argument described by the cell is the i-th of n (the others fit their parameters of types u8, bool,
\* i64, usize); ":tl" / ":tr": the callee is called twice in one statement (`callee(..) + callee(..)`), the call
\* with the described argument on the left / on the right, the other call is correct
Positions == {"2:1", "3:1", "3:2", "3:3", "4:2", "4:3", "3:2:tl", "3:2:tr", "2:1:tl", "2:2:tr"}
PosCells == {[Cell("argp", "", s, ks, d, 0) EXCEPT !.v = pos] :
                 pos \in Positions, s \in {I32, U8, Bool, PTR, ARR}, ks \in 0..1, d \in {I32, U8, PTR, SLICE, STRUCT}}
\* the callee is a head (all other cells), a function with a body before / after its caller, `pub`, `extern`
\* (extern signatures: features.md allows pointers and the primitive types up to 64 bits)
CalleeKinds == {"body_before", "body_after", "pub", "extern"}
CalleeCells == {[q[1] EXCEPT !.v = q[2]] :
                    q \in {p \in {r \in Reduced : r.ctx \in {"arg", "arg2", "argn"}} \X CalleeKinds :
                               p[2] = "extern" => (p[1].ctx = "argn" \/ p[1].b \in {I32, U8, PTR})}}

\* (tenth round of seeded changes) array VIEWS handed to an extern function, whose `[]T` is a view of an endless array: "what
\* fits `[]T` of an ordinary function fits these too" -- and nothing else does: the element types are compared.  Sources: a view
\* parameter passed on, a local array; callee: extern or an ordinary head.
ExternViewCells == {[Cell("arg", "", s, 0, d, 0) EXCEPT !.v = q] :
                       s \in {SLICE, Slice(U8), ARR, Arr("3", U8)}, d \in {SLICE, Slice(U8)}, q \in {"extern", ""}}

\* --- words of every size (features.md: word8 .. word128) as operands, values, by-value parameters ---
W8 == <<"word", "W8">>   W16 == <<"word", "W16">>   W64 == <<"word", "W2">>   W128 == <<"word", "W128">>
Words == {W8, W16, WORD, W64, W128}
SameSize(w) == CASE w = W8 -> U8 [] w = W16 -> P("u16") [] w = WORD -> I32 [] w = W64 -> P("u64") [] w = W128 -> P("u128")
NextWord(w) == CASE w = W8 -> W16 [] w = W16 -> WORD [] w = WORD -> W64 [] w = W64 -> W128 [] w = W128 -> W8
Partners(w) == {w, NextWord(w), SameSize(w), STRUCT}
WordCells ==
    UNION {{Cell("bin", op, w, 0, o, 0) : op \in BinOps \ {"adv"}, o \in Partners(w)}
           \cup {Cell("bin", op, o, 0, w, 0) : op \in {"+", "&", "<<"}, o \in Partners(w)}
           \cup {Cell("cmp", op, w, 0, o, 0) : op \in CmpOps, o \in Partners(w)}
           \cup {Cell("cmp", op, o, 0, w, 0) : op \in {"==", "<"}, o \in Partners(w)}
           \cup {Cell("un", op, w, 0, <<>>, 0) : op \in UnOps}
           \cup {Cell(k, "", w, 0, o, 0) : k \in {"as", "cast", "init", "assign", "arg", "arg2", "ret", "member", "elem"}, o \in Partners(w) \ {STRUCT}}
           \cup {Cell(k, "", o, 0, w, 0) : k \in {"as", "cast", "init", "assign", "arg", "arg2", "ret", "member"}, o \in Partners(w) \ {STRUCT, w}}
           : w \in Words}

\* --- array lengths written as named constants ------------------------------------------------------
\* "len:X:Y": the lengths 3 / 4 in the types on the a side are written X, on the b side Y (lit = the number,
\* N = N3 / N4, M = M3 / M4; all four constants have the value their name says).  The type terms carry the VALUE:
\* `[N3]i32` is `[3]i32`, `[N4]i32` is not.
Spellings == {"len:N:lit", "len:lit:N", "len:N:N", "len:N:M", "len:M:N"}
ARR4 == Arr("4", I32)
LenSrc == {ARR, ARR4, NEST("3"), NEST("4")}
LenCells ==
    {[Cell(k, "", s, 1, d, 0) EXCEPT !.v = sp] : k \in {"arg", "arg2"}, s \in LenSrc, sp \in Spellings,
                                                d \in {Ptr(ARR), Ptr(ARR4), SPTR, Ptr(NEST("3")), SPtr(ARR)}}
    \cup {[Cell(k, "", s, 0, d, 0) EXCEPT !.v = sp] : k \in {"arg", "arg2"}, s \in LenSrc, sp \in Spellings, d \in {SLICE, Slice(ARR)}}
    \cup {[Cell(k, "", s, 1, d, 0) EXCEPT !.v = sp] : k \in {"init", "ret"}, s \in LenSrc, sp \in Spellings, d \in {Ptr(ARR), Ptr(ARR4), Ptr(NEST("3"))}}
    \cup {[Cell("assign", "", s, 1, d, 1) EXCEPT !.v = sp] : s \in LenSrc, sp \in Spellings, d \in {Ptr(ARR), Ptr(ARR4), Ptr(NEST("3"))}}

\* --- arrays of pointers, pointers to arrays of arrays, pointers to pointers / structs / words -------
APTR    == Arr("2", PTR)
PNEST   == Ptr(NEST("3"))
PSTRUCT == Ptr(STRUCT)
PWORD   == Ptr(WORD)
Shapes2 == {APTR, PNEST, PPTR, PSTRUCT, PWORD}
Operand2 == {<<APTR, 0>>, <<PNEST, 1>>, <<PPTR, 2>>, <<PPTR, 1>>, <<PPTR, 0>>, <<PSTRUCT, 1>>, <<PWORD, 1>>}
ShapeCells ==
    {Cell("cmp", op, x[1], x[2], y[1], y[2]) : op \in {"==", "<"}, x \in Operand2, y \in Operand \cup Operand2}
    \cup {Cell("cmp", op, y[1], y[2], x[1], x[2]) : op \in {"==", "<"}, x \in Operand2, y \in Operand}
    \cup {Cell("init", "", s, ks, d, 0) : s \in Shapes2, ks \in 0..2, d \in Shapes2 \cup {PTR, ARR, I32}}
    \cup {Cell("assign", "", s, ks, d, kd) : s \in Shapes2, ks \in 0..2, d \in Shapes2 \cup {PTR, I32}, kd \in 0..1}
    \cup {Cell(k, "", s, ks, d, 0) : k \in {"arg", "arg2"}, s \in Shapes2, ks \in 0..2, d \in (Shapes2 \ {APTR}) \cup {PTR, I32, Slice(PTR)}}
    \cup {Cell("ret", "", s, ks, d, 0) : s \in Shapes2, ks \in 0..2, d \in (Shapes2 \ {APTR}) \cup {PTR, I32}}

\* --- every NUMBER is a dimension: array lengths that agree modulo 2^8 / 2^16 are different lengths ---------------
\* (lengths of 2^32 and more are beyond what the code generator can declare: `fn f(p: &[4294967299]i32);` ends with
\* a bare "out of range integral type conversion" -- a C02 / C13 matter, see docs/notes-types.md -- so the type
\* matrix stays below)
BigPairs == {<<"259", "3">>, <<"65539", "3">>, <<"16777219", "3">>, <<"257", "1">>, <<"256", "255">>, <<"256", "256">>, <<"65539", "65539">>}
BigLenCells ==
    UNION {{Cell(k, "", Arr(q[1], I32), 1, Ptr(Arr(q[2], I32)), 0), Cell(k, "", Arr(q[2], I32), 1, Ptr(Arr(q[1], I32)), 0),
            Cell(k, "", Arr("2", Arr(q[1], I32)), 0, Slice(Arr(q[2], I32)), 0), Cell(k, "", Arr("2", Arr(q[2], I32)), 1, SPtr(Arr(q[1], I32)), 0)}
           : k \in {"arg", "arg2"}, q \in BigPairs}
    \cup UNION {{Cell("init", "", Arr(q[1], I32), 1, Ptr(Arr(q[2], I32)), 0), Cell("init", "", Arr(q[2], I32), 1, Ptr(Arr(q[1], I32)), 0),
                 Cell("assign", "", Arr(q[1], I32), 1, Ptr(Arr(q[2], I32)), 1)} : q \in BigPairs}

\* --- names: the callee is called like a function the code generator declares on its own -----------------------
CalleeNames == {"name:write", "name:abort", "name:memcpy", "name:snprintf"}
NameCells == {[q[1] EXCEPT !.v = q[2]] : q \in {r \in Reduced : r.ctx \in {"arg", "arg2", "argn"}} \X CalleeNames}

\* --- flags of the function that holds the construct: `pub fn t`, `extern fn t` (without parameters) ------------
Local(t) == t = <<>> \/ IsPrim(t) \/ t \in {PTR, ARR}
FlagCells == {[q[1] EXCEPT !.v = q[2]] : q \in {p \in PreBase \X {"t:pub", "t:extern"} : Local(p[1].a) /\ Local(p[1].b) /\ p[1].ctx # "ret"}}

\* --- poisoned symbols: the variable declared by the (ill-typed) initialisation is stored in a struct member; the
\* member is assigned again in the same function (member1) or in a SECOND function after it (member2)
PoisonCells == {[Cell("init", "", s, 0, d, 0) EXCEPT !.v = vv] : s \in {I32, U8, Bool}, d \in {I32, U8}, vv \in {"member1", "member2"}}

\* --- a return value in a function without return type (E330) -----------------------------------------
VoidCells == {Cell("ret", "", t, 0, <<"void">>, 0) : t \in FT \cup {PTR}}

\* --- forms x contexts: an operand that is a literal / a call / a named constant, with the whole construct standing as the
\* operand of a cast (to another type, to its own type), in parentheses, as an operand, as an argument
FormCtxCells ==
    {[q[1] EXCEPT !.x = q[2]] :
        q \in {p \in {r \in FormCells : r.ctx = "bin" /\ r.fa \in {"var", "lit", "call", "const"} /\ r.fb \in {"var", "lit", "call", "const"}}
                       \X {"castop", "castsame", "paren", "binop", "arg"} : XOK(p[2], TypeInContext(p[1]))}}

AuditCells == ExternViewCells \cup FormCtxCells \cup FormCells \cup PreCells \cup PosCells \cup CalleeCells \cup WordCells \cup LenCells \cup ShapeCells \cup VoidCells
                  \cup BigLenCells \cup NameCells \cup FlagCells \cup PoisonCells

(***************************************************************************)
(* The matrix in PARTS.  TLC generates and checks initial states with one  *)
(* thread; the cells are therefore the SUCCESSORS of one seed state per    *)
(* part, so that the workers evaluate rule, model and emission of          *)
(* different parts in parallel.  A cell that belongs to two parts is one   *)
(* state (emitted once).                                                   *)
(***************************************************************************)
Arith5 == {"+", "-", "*", "/", "%"}
YHalf1 == {"block", "loop", "then", "else"}
Parts == <<
    {Cell("bin", op, x[1], x[2], y[1], y[2]) : op \in Arith5, x \in Operand, y \in Operand},
    {Cell("bin", op, x[1], x[2], y[1], y[2]) : op \in (BinOps \ {"adv"}) \ Arith5, x \in Operand, y \in Operand},
    {Cell("cmp", op, x[1], x[2], y[1], y[2]) : op \in EqOps, x \in Operand, y \in Operand}
        \cup {Cell("un", op, x[1], x[2], <<>>, 0) : op \in UnOps, x \in Operand},
    {Cell("cmp", op, x[1], x[2], y[1], y[2]) : op \in OrdOps, x \in Operand, y \in Operand},
    {Cell("as", "", x[1], x[2], t, 0) : x \in Operand, t \in CastTargets}
        \cup {Cell("cast", "", x[1], x[2], t, 0) : x \in Operand, t \in CastTargets},
    {Cell("assign", "", x[1], x[2], d, kd) : x \in {y \in SrcShapes \X (0..2) : SrcOK("assign", y[1], y[2])}, d \in VarShapes, kd \in 0..1},
    {Cell("init", "", x[1], x[2], d, 0) : x \in {y \in SrcShapes \X (0..2) : SrcOK("init", y[1], y[2])}, d \in VarShapes \cup {PPTR}}
        \cup {Cell("const", "", s, 0, d, 0) : s \in PrimT, d \in PrimT}
        \cup {Cell("elem", "", s, 0, d, 0) : s \in PrimT, d \in PrimT},
    {Cell("member", "", x[1], x[2], d, 0) : x \in {y \in SrcShapes \X (0..1) : SrcOK("member", y[1], y[2])},
                                             d \in PrimT \cup {PTR, ARR, STRUCT, WORD}}
        \cup {Cell("ret", "", x[1], x[2], d, 0) : x \in {y \in SrcShapes \X (0..2) : SrcOK("ret", y[1], y[2])}, d \in RetShapes},
    {Cell("arg", "", s, ks, d, 0) : s \in SrcShapes, ks \in 0..2, d \in ParamShapes},
    {Cell("arg2", "", s, ks, d, 0) : s \in VarShapes, ks \in 0..1, d \in ParamShapes}
        \cup {Cell(k, "", s, 3, d, 0) : k \in {"arg", "arg2"}, s \in {SPTR, PTR, PPTR}, d \in ParamShapes}
        \cup {Cell("arg2", "", SPTR, ks, d, 0) : ks \in 1..2, d \in ParamShapes}
        \cup {Cell("argn", "", <<>>, n, <<>>, m) : n \in 0..3, m \in 0..2}
        \cup NestCells,
    {cl \in ContextCells : cl.y = "top"},
    {cl \in ContextCells : cl.y \in YHalf1},
    {cl \in ContextCells : cl.y \notin YHalf1 \cup {"top"}},
    PathAssign,
    {cl \in FormCells : cl.fb = "var"},
    {cl \in FormCells : cl.fb # "var"},
    FormCtxCells,
    PreCells,
    PosCells \cup CalleeCells \cup VoidCells \cup ExternViewCells,
    WordCells,
    LenCells \cup ShapeCells \cup BigLenCells \cup NameCells \cup PoisonCells,
    FlagCells
>>
\* (no definition of the union of all parts: TLC would evaluate it at start-up with one thread -- 55 s for nothing)

Seed(i) == [seed |-> i]
IsSeed == "seed" \in DOMAIN c
Init == c \in {Seed(i) : i \in DOMAIN Parts}
Next == IsSeed /\ c' \in Parts[c.seed]

Agree == IsSeed \/ AgreeOn(c)

\* pok / pcodes: the verdict of the rule on the NEIGHBOUR of the construct (field pre), judged on its own
Emit == IsSeed \/
        LET v == Verdict(c)
            pv == Verdict(PreCell(c.pre))
        IN PrintT(<<"CASE", ToJson([c |-> c, ok |-> v.ok, unc |-> v.unc,
                                    codes |-> SetToSortSeq(v.codes, <), ty |-> v.ty,
                                    pok |-> pv.ok, pcodes |-> SetToSortSeq(pv.codes, <),
                                    hm |-> HasModel(c), m |-> SetToSortSeq(MCodes(c), <)])>>)
===========================================================================

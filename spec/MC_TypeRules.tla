--------------------------- MODULE MC_TypeRules ---------------------------
(***************************************************************************)
(* Gen + model checking + case emission for C07 (TLC only).  The matrix is *)
(* finite, so every cell is an initial state; the invariants are evaluated *)
(* once per cell: Agree (A |= R) and Emit (one CASE line for the replay).  *)
(***************************************************************************)
EXTENDS TypeRules, TLC, Json, SequencesExt

CONSTANT Thorough          \* FALSE: representatives over i32; TRUE: more pointee / element types

VARIABLE c

I32    == P("i32")
PrimT  == {P(n) : n \in Prims}
PTR    == Ptr(I32)
PTR8   == Ptr(U8)
PPTR   == Ptr(PTR)
ARR    == Arr("3", I32)
SLICE  == Slice(I32)
SPTR   == SPtr(I32)
STRUCT == <<"struct", "S">>
WORD   == <<"word", "W">>

ExtraT == IF Thorough THEN {Ptr(P("i64")), Ptr(Bool), Arr("3", U8), Slice(U8), Arr("2", I32), <<"word", "W2">>}
          ELSE {}

\* variables that can be declared with `var`
\* (`var v: []T = [..]` declares an array of inferred length, not an array view: views and slice
\* pointers only exist as parameters)
VarShapes   == PrimT \cup {PTR, PTR8, ARR, STRUCT, WORD} \cup (ExtraT \ {Slice(U8)})
\* variables and parameters of the enclosing function
SrcShapes   == VarShapes \cup {SLICE, SPTR} \cup ExtraT \cup (IF Thorough THEN {PPTR} ELSE {})
\* A slice pointer used without `&` or with `&&` makes the compiler panic (typer.rs, see
\* docs/notes-types.md); one context each is enough to expose that.
\* Likewise the address of an array view (`&sl`) trips an assertion on an ill-formed type.
SrcOK(ctx, s, ks) == /\ (s = SPTR /\ ks # 1) => (ctx = "arg" \/ (ctx = "init" /\ ks = 0))
                     /\ (Kind(s) = "slice" /\ ks # 0) => (ctx = "arg" \/ (ctx = "init" /\ ks = 1))
ParamShapes == PrimT \cup {PTR, PTR8, SLICE, STRUCT, WORD, SPTR, Ptr(ARR), PPTR} \cup (ExtraT \ {Arr("3", U8), Arr("2", I32)})
RetShapes   == PrimT \cup {WORD, PTR, PTR8}
CastTargets == VarShapes

\* operand expressions <<declared type, address markers>>: a pointer variable is used both with `&`
\* (the pointer) and without (autoderef to i32)
Operand == {<<t, 0>> : t \in PrimT \cup {ARR, SLICE, STRUCT, WORD}} \cup {<<PTR, 1>>, <<PTR, 0>>, <<PTR8, 1>>, <<SPTR, 1>>}
            \cup (IF Thorough THEN {<<t, 0>> : t \in {Arr("3", U8), Slice(U8), <<"word", "W2">>}} \cup {<<Ptr(Bool), 1>>, <<Ptr(Bool), 0>>, <<PPTR, 2>>, <<PPTR, 1>>}
                  ELSE {})

Cell(ctx, op, a, ka, b, kb) == [ctx |-> ctx, op |-> op, a |-> a, ka |-> ka, b |-> b, kb |-> kb, x |-> "direct", y |-> "top"]
InCtx(cell, x, y) == [cell EXCEPT !.x = x, !.y = y]

(***************************************************************************)
(* Second dimension: contexts.  Every KIND of cell is crossed with every   *)
(* expression context (kinds whose construct is an expression) and every   *)
(* statement context, over a REDUCED set of type pairs (i32, u8, usize,    *)
(* bool, a pointer, an array) -- not the full matrix.                      *)
(***************************************************************************)
XContexts == {"paren", "elem", "member", "arg", "index", "castop", "binop", "ret", "cond"}
YContexts == {"block", "loop", "then", "else", "elif_then", "elif_else", "elif2", "label"}
ExprKinds == {"bin", "un", "as", "cast", "arg", "arg2", "argn"}

RT == {I32, U8, P("usize"), Bool}
ROperand == {<<t, 0>> : t \in RT} \cup {<<PTR, 1>>, <<ARR, 0>>}
Reduced ==
    {Cell("bin", op, t, 0, y[1], y[2]) : op \in BinOps \ {"adv"}, t \in RT, y \in ROperand}
    \cup {Cell("cmp", op, t, 0, y[1], y[2]) : op \in CmpOps, t \in RT, y \in ROperand}
    \cup {Cell("un", op, t, 0, <<>>, 0) : op \in UnOps, t \in RT}
    \cup {Cell("as", "", x[1], x[2], t, 0) : x \in ROperand \cup {<<Char8, 0>>}, t \in RT}
    \cup {Cell("cast", "", x[1], x[2], t, 0) : x \in {<<I32, 0>>, <<PTR, 1>>}, t \in {I32, PTR8}}
    \cup {Cell("arg", "", s, ks, d, 0) : s \in {I32, U8, Bool, PTR, ARR}, ks \in 0..1, d \in {I32, U8, PTR, SLICE, STRUCT}}
    \cup {Cell("arg2", "", s, ks, d, 0) : s \in {I32, U8, Bool}, ks \in 0..1, d \in {I32, U8, PTR}}
    \* a slice pointer handed on with 1 (legal), 2 or 3 (surplus) address markers
    \cup {Cell(k, "", SPTR, ks, d, 0) : k \in {"arg", "arg2"}, ks \in 1..3, d \in {SPTR, SLICE, Ptr(ARR)}}
    \cup {Cell("argn", "", <<>>, n, <<>>, m) : n \in 0..3, m \in 0..2}
    \cup {Cell("assign", "", s, ks, d, kd) : s \in {I32, U8, Bool, PTR}, ks \in 0..1, d \in {I32, U8, PTR}, kd \in 0..1}
    \cup {Cell("init", "", s, ks, d, 0) : s \in {I32, U8, Bool, PTR}, ks \in 0..1, d \in {I32, U8, PTR}}
    \cup {Cell("elem", "", s, 0, d, 0) : s \in RT, d \in RT}
    \cup {Cell("member", "", s, ks, d, 0) : s \in {I32, U8, Bool, PTR}, ks \in 0..1, d \in {I32, U8, PTR}}

\* Target shapes of an assignment: <base>:<path>; base v = a local variable, p = a pointer parameter.
TargetShapes == {b \o ":" \o sh : b \in {"v", "p"},
                                  sh \in {"elem", "mem", "mem.mem", "mem.elem.mem", "pmem.mem", "mem.mem.elem", "elem.mem", "mem.elem"}}
PathAssign == {Cell("assignp", sh, s, ks, d, kd) : sh \in TargetShapes, s \in {I32, U8, P("u32"), Bool, PTR}, ks \in 0..1,
                                                 d \in {I32, U8, Bool, PTR}, kd \in 0..1}

\* the type the compiler gives the offending expression (what its context is built for)
TypeInContext(cl) == CASE cl.ctx \in {"bin", "un"} -> ExprType(cl.a, cl.ka)
                       [] cl.ctx \in {"as", "cast"} -> cl.b
                       [] OTHER -> I32
Passable(t) == IsPrim(t) \/ Kind(t) \in {"ptr", "word"}
XOK(x, t) == CASE x = "paren" -> TRUE
               [] x \in {"elem", "member", "arg", "ret"} -> Passable(t)
               [] x = "index" -> t = P("usize")
               [] x = "castop" -> IsInt(t) \/ t = Bool
               [] x = "binop" -> IsInt(t)
               [] x = "cond" -> IsPrim(t)

ContextCells ==
    {InCtx(q[1], q[2], "top") : q \in {p \in {r \in Reduced : r.ctx \in ExprKinds} \X XContexts : XOK(p[2], TypeInContext(p[1]))}}
    \cup {InCtx(cl, "direct", y) : cl \in Reduced, y \in YContexts}
    \cup {InCtx(q[1], q[2], q[3]) : q \in {p \in {r \in Reduced : r.ctx \in {"arg", "argn"}} \X {"elem", "member", "arg"} \X {"elif_then", "elif_else", "loop"} :
                                                XOK(p[2], TypeInContext(p[1]))}}

\* Arrays of arrays: the coercions array -> view and &array -> slice pointer only drop the OUTER length; the
\* element type -- here an array with its own length -- stays part of the type (`[2][4]i32` is no `[][3]i32`).
NEST(n)   == Arr("2", Arr(n, I32))
NestParams == {Slice(Arr("3", I32)), SPtr(Arr("3", I32)), Ptr(NEST("3")), Ptr(Arr("3", I32)), SLICE, SPTR}
NestCells ==
    {Cell(k, "", s, ks, d, 0) : k \in {"arg", "arg2"}, s \in {NEST("3"), NEST("4"), Arr("4", I32), ARR}, ks \in 0..1, d \in NestParams}

Cells ==
    NestCells \cup
    {Cell("bin", op, x[1], x[2], y[1], y[2]) : op \in BinOps \ {"adv"}, x \in Operand, y \in Operand}
    \cup {Cell("cmp", op, x[1], x[2], y[1], y[2]) : op \in CmpOps, x \in Operand, y \in Operand}
    \cup {Cell("un", op, x[1], x[2], <<>>, 0) : op \in UnOps, x \in Operand}
    \cup {Cell("as", "", x[1], x[2], t, 0) : x \in Operand, t \in CastTargets}
    \cup {Cell("cast", "", x[1], x[2], t, 0) : x \in Operand, t \in CastTargets}
    \cup {Cell("assign", "", x[1], x[2], d, kd) : x \in {y \in SrcShapes \X (0..2) : SrcOK("assign", y[1], y[2])}, d \in VarShapes, kd \in 0..1}
    \cup {Cell("init", "", x[1], x[2], d, 0) : x \in {y \in SrcShapes \X (0..2) : SrcOK("init", y[1], y[2])}, d \in VarShapes \cup {PPTR}}
    \cup {Cell("member", "", x[1], x[2], d, 0) : x \in {y \in SrcShapes \X (0..1) : SrcOK("member", y[1], y[2])},
                                                  d \in PrimT \cup {PTR, ARR, STRUCT, WORD}}
    \cup {Cell("const", "", s, 0, d, 0) : s \in PrimT, d \in PrimT}
    \cup {Cell("elem", "", s, 0, d, 0) : s \in PrimT, d \in PrimT}
    \cup {Cell("arg", "", s, ks, d, 0) : s \in SrcShapes, ks \in 0..2, d \in ParamShapes}
    \cup {Cell("arg2", "", s, ks, d, 0) : s \in VarShapes, ks \in 0..1, d \in ParamShapes}
    \cup {Cell(k, "", s, 3, d, 0) : k \in {"arg", "arg2"}, s \in {SPTR, PTR, PPTR}, d \in ParamShapes}
    \cup {Cell("arg2", "", SPTR, ks, d, 0) : ks \in 1..2, d \in ParamShapes}
    \cup {Cell("argn", "", <<>>, n, <<>>, m) : n \in 0..3, m \in 0..2}
    \cup {Cell("ret", "", x[1], x[2], d, 0) : x \in {y \in SrcShapes \X (0..2) : SrcOK("ret", y[1], y[2])}, d \in RetShapes}
    \cup ContextCells
    \cup PathAssign

Init == c \in Cells
Next == UNCHANGED c

Agree == AgreeOn(c)

Emit == LET v == Verdict(c)
        IN PrintT(<<"CASE", ToJson([c |-> c, ok |-> v.ok, unc |-> v.unc,
                                    codes |-> SetToSortSeq(v.codes, <), ty |-> v.ty,
                                    hm |-> HasModel(c), m |-> SetToSortSeq(MCodes(c), <)])>>)
===========================================================================

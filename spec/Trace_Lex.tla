------------------------------ MODULE Trace_Lex ------------------------------
(***************************************************************************)
(* C14 / C19, impl -> spec.  The harness records, for many texts (random   *)
(* token sequences in random spellings and layouts, arbitrary bytes for    *)
(* the second generation, windows of fuzzer output), what a REAL lexer     *)
(* returned:                                                               *)
(*   {"g": "alpha"|"delta", "s": [bytes], "full": bool, "t": [items]}      *)
(* (+ "noerr": true if the text is claimed to be free of lexical errors)   *)
(* TLC lexes the logged bytes again with the reference automaton           *)
(* (PenneLex!Lex) and every logged item must satisfy the next reference    *)
(* item; unconstrained (optional) reference items may be skipped.          *)
(* One step per logged item, plus one step to open and one to close a      *)
(* record, so that diameter - 1 = number of steps taken tells where a      *)
(* recording was rejected.  Acceptance is by POSTCONDITION.                *)
(* ESpec (Trace_Lex_emit.cfg) prints the reference lexing of every logged  *)
(* text instead (used to explain a rejected recording).                    *)
(***************************************************************************)
EXTENDS PenneLex, Json, IOUtils, TLCExt

Rec == ndJsonDeserialize(IOEnv.TRACE)

VARIABLES l,      \* current record
          ri,     \* next reference item (0: record not opened yet)
          j,      \* next logged item
          ref     \* reference items of the current record
tvars == <<l, ri, j, ref>>

TInit == l = 1 /\ ri = 0 /\ j = 0 /\ ref = <<>> /\ TLCSet(7, 0)

RECURSIVE Find(_, _, _, _, _)
\* the reference item that the logged item o satisfies, skipping optional ones; 0 if none
Find(g, items, i, o, full) ==
    IF i > Len(items) THEN 0
    ELSE IF Satisfies(g, items[i], o, full) THEN i
    ELSE IF items[i].opt THEN Find(g, items, i + 1, o, full)
    ELSE 0

TOpen == /\ l <= Len(Rec) /\ ri = 0
         /\ ref' = Lex(Rec[l].g, Rec[l].s)
         /\ ri' = 1 /\ j' = 1 /\ UNCHANGED l
\* a recording may claim that its text contains no lexical error at all (fuzzer output, C19)
HasError(items) == \E i \in 1..Len(items) : items[i].code # 0
ClaimOK == ~("noerr" \in DOMAIN Rec[l] /\ Rec[l].noerr /\ HasError(ref))
TItem == /\ l <= Len(Rec) /\ ri >= 1 /\ j <= Len(Rec[l].t) /\ ClaimOK
         /\ LET f == Find(Rec[l].g, ref, ri, Rec[l].t[j], Rec[l].full)
            IN f # 0 /\ ri' = f + 1
         /\ j' = j + 1 /\ UNCHANGED <<l, ref>>
TClose == /\ l <= Len(Rec) /\ ri >= 1 /\ j > Len(Rec[l].t) /\ ClaimOK
          /\ \A i \in ri..Len(ref) : ref[i].opt
          /\ l' = l + 1 /\ ri' = 0 /\ j' = 0 /\ ref' = <<>>
\* A recording that is not a behaviour of the reference lexer is REJECTED: it is reported (record
\* number, index of the first logged item that has no counterpart) and the next recording is examined.
TReject == /\ l <= Len(Rec) /\ ri >= 1
           /\ \/ ~ClaimOK
              \/ j <= Len(Rec[l].t) /\ Find(Rec[l].g, ref, ri, Rec[l].t[j], Rec[l].full) = 0
              \/ j > Len(Rec[l].t) /\ \E i \in ri..Len(ref) : ~ref[i].opt
           /\ PrintT(<<"REJECT", ToJson([l |-> l, j |-> j])>>)
           /\ TLCSet(7, TLCGet(7) + 1)
           /\ l' = l + 1 /\ ri' = 0 /\ j' = 0 /\ ref' = <<>>
TNext == TOpen \/ TItem \/ TClose \/ TReject
TSpec == TInit /\ [][TNext]_tvars

\* every recording takes at least two steps (open, close / reject)
l_done(d) == d >= 2 * Len(Rec)
\* all recordings were examined to their end (diameter) and none was rejected (register 7)
Accepted == LET d == TLCGet("stats").diameter - 1
                rejected == TLCGet(7)
            IN PrintT(<<"TRACE", ToJson([accepted |-> (l_done(d) /\ rejected = 0), matched |-> Len(Rec) - rejected,
                                         total |-> Len(Rec), steps |-> d])>>)

(* ---- emit mode ---- *)
EOpen == /\ l <= Len(Rec)
         /\ LET s == Rec[l].s
                u == Utf8Valid(s)
            IN PrintT(<<"CASE", ToJson([i |-> l, s |-> s, u |-> u,
                                        d |-> Items(Lex("delta", s)),
                                        a |-> IF u THEN Items(Lex("alpha", s)) ELSE <<>>])>>)
         /\ l' = l + 1 /\ UNCHANGED <<ri, j, ref>>
ESpec == TInit /\ [][EOpen]_tvars
=============================================================================

SPECIFICATION TSpec
CONSTANTS
  MaxLen = 0
  NeedResult = FALSE
  MinFns = 1
  MaxFns = 1
  MaxDepth = 0
  Names = {"a", "b", "c", "d"}
  Strict = TRUE
POSTCONDITION Accepted
CHECK_DEADLOCK FALSE

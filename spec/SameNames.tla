------------------------------ MODULE SameNames ------------------------------
(***************************************************************************)
(* C12 -- "private items never become visible ... compiling one module     *)
(* never changes the result for another except through its imports":       *)
(* modules of one compilation that declare PRIVATE items of the SAME name  *)
(* with different contents (eighth round of seeded changes: aggregate      *)
(* constants given a linkage that lets the linker merge them by name).     *)
(*                                                                         *)
(* A cell: the kind of the private item (scalar constant, array, nested    *)
(* array, structure and word constant, function), how it is read (folded,  *)
(* indexed with a constant / a run-time index, passed on as a view, member *)
(* access), how many modules declare it (main + 1 or 2 libraries), whether *)
(* main imports the libraries, and the order of the files on the command   *)
(* line.  Module m's item holds the value Val(m); every module has a       *)
(* public getter that reads ITS OWN item.                                  *)
(*                                                                         *)
(* R: a private name is resolved in its own module, so getter(m) = Val(m)  *)
(* whatever the other modules declare, in every file order; the program    *)
(* returns main's own value plus 7^i times the value of library i it      *)
(* imports.  TLC computes the exit status; nothing else is enumerated.     *)
(***************************************************************************)
EXTENDS Naturals, Sequences, FiniteSets, TLC, Json, SequencesExt

CONSTANT Tier

Kinds == {"int", "array", "array2", "struct", "word", "fn"}
UsesOf(k) == CASE k = "int" -> {"direct"}
               [] k = "array" -> {"index", "rtindex", "view"}
               [] k = "array2" -> {"index", "rtindex"}
               [] k = "struct" -> {"member"}        \* (a structure cannot be copied as a whole: E533)
               [] k = "word" -> {"member", "copy"}
               [] k = "fn" -> {"call"}
Links == {"none", "imports"}
Libs == 1..2
\* every order of main (0) and the libraries 1..n on the command line
Orders(n) == { o \in [1..(n + 1) -> 0..n] : \A i, j \in 1..(n + 1) : i # j => o[i] # o[j] }

Val(m) == m + 2                      \* main 2, lib1 3, lib2 4: distinct, small
\* (weights 1, 7, 49: the exit status of a process has 8 bits)
Exit(c) == Val(0) + (IF c.link = "imports" THEN (IF c.libs >= 1 THEN 7 * Val(1) ELSE 0) + (IF c.libs >= 2 THEN 49 * Val(2) ELSE 0) ELSE 0)

Cells == { c \in [kind : Kinds, use : UNION { UsesOf(k) : k \in Kinds }, libs : Libs, link : Links, order : UNION { Orders(n) : n \in Libs }] :
              /\ c.use \in UsesOf(c.kind)
              /\ c.order \in Orders(c.libs)
              /\ (Tier = "quick" /\ c.libs = 2) => (c.use \in {"index", "member", "direct", "call"}) }

VARIABLE x
Init == x \in Cells
Next == UNCHANGED x
Spec == Init /\ [][Next]_x
Sane == Exit(x) \in {2, 23, 219} /\ (x.link = "none" => Exit(x) = 2)
EmitCase == PrintT(<<"CASE", ToJson([kind |-> x.kind, use |-> x.use, libs |-> x.libs, link |-> x.link,
                                     order |-> [i \in 1..Len(x.order) |-> x.order[i]],
                                     vals |-> [m \in 1..(x.libs + 1) |-> Val(m - 1)], exit |-> Exit(x)])>>)
=============================================================================

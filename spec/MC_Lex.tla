------------------------------- MODULE MC_Lex -------------------------------
(***************************************************************************)
(* C14, spec -> impl: TLC builds every text of up to MaxLen symbols over   *)
(* an alphabet of 49 lexically significant symbols, runs the reference     *)
(* automaton of PenneLex for both generations, checks the tiling           *)
(* invariants on the automaton's own output and prints one CASE per text   *)
(* with the token lists the rule prescribes.                               *)
(* First (environment variable LEX_FIRST) = 0: every text; = c: only the   *)
(* texts that start with symbol c (chunking of the thorough tier).         *)
(* MC_Lex_sim.cfg (MaxLen = 12) is run with `-simulate`: random texts of   *)
(* 5..12 symbols (every successor of every state of a random trace).       *)
(***************************************************************************)
EXTENDS PenneLex, Json, IOUtils

CONSTANT MaxLen
VARIABLES s, n

Sym == << <<97>>, <<98>>, <<120>>, <<117>>, <<105>>, <<110>>, <<114>>, <<116>>, <<102>>, <<95>>,      \* a b x u i n r t f _
          <<48>>, <<49>>, <<50>>, <<56>>, <<57>>,                                                      \* 0 1 2 8 9
          <<40>>, <<41>>, <<123>>, <<125>>, <<91>>, <<93>>, <<60>>, <<62>>, <<124>>, <<38>>, <<94>>,   \* ( ) { } [ ] < > | & ^
          <<33>>, <<43>>, <<45>>, <<42>>, <<47>>, <<37>>, <<58>>, <<59>>, <<46>>, <<44>>, <<61>>,      \* ! + - * / % : ; . , =
          <<39>>, <<34>>, <<92>>,                                                                      \* ' " \
          <<32>>, <<9>>, <<10>>, <<13>>,                                                               \* space tab \n \r
          <<195, 169>>, <<226, 130, 172>>,                                                             \* U+00E9, U+20AC
          <<1>>, <<64>>, <<255>> >>                                                                    \* control, @, not UTF-8

First == IF "LEX_FIRST" \in DOMAIN IOEnv THEN atoi(IOEnv.LEX_FIRST) ELSE 0

Init == IF First = 0 THEN s = <<>> /\ n = 0 ELSE s = Sym[First] /\ n = 1
Next == /\ n < MaxLen
        /\ \E c \in 1..Len(Sym) : s' = s \o Sym[c] /\ n' = n + 1
Spec == Init /\ [][Next]_<<s, n>>

\* the reference automaton's own output tiles the text (both generations)
TilesOK == LET u == Utf8Valid(s)
               d == LexAll("delta", s)
               a == IF u THEN LexAll("alpha", s) ELSE <<>>
           IN /\ Tiles("delta", s, d)
              /\ (u => Tiles("alpha", s, a))
              /\ PrintT(<<"CASE", ToJson([s |-> s, n |-> n, u |-> u,
                                          d |-> Items(SelectSeq(d, NotComment)),
                                          a |-> Items(SelectSeq(a, NotComment))])>>)
=============================================================================

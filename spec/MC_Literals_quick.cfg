SPECIFICATION Spec
CONSTANTS
  Thorough = FALSE
INVARIANTS Consistent EmitCase
CHECK_DEADLOCK FALSE

SPECIFICATION Spec
CONSTANTS
  MaxLen = 6
  MinFns = 1
  MaxFns = 1
  Phased = FALSE
  NeedResult = FALSE
  MaxDepth = 2
  VNames = {"a"}
  LNames = {"a"}
  BodyKinds = {"IO", "EO", "EG", "C", "V", "U", "W", "VR", "L", "IG"}
  Configs <- NoConfig
INVARIANTS AgreeScoper Sound EmitCase
CHECK_DEADLOCK FALSE

SPECIFICATION Spec
CONSTANTS
  MaxMods = 3
  MaxDecls = 1
  Dirs <- FlatDirs
INVARIANTS SequencesConfluent
CHECK_DEADLOCK FALSE

SPECIFICATION Spec
CONSTANTS
  MaxMods = 3
  MaxDecls = 1
  ImportPositions = FALSE
  ImportTwice = FALSE
  Restricted = FALSE
  Dirs <- FlatDirs
INVARIANTS SequencesConfluent
CHECK_DEADLOCK FALSE

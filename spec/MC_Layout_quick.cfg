SPECIFICATION Spec
CONSTANTS
  MaxMembers = 3
  MaxLen = 8
INVARIANTS RuleSane HugeSane EmitCase
CHECK_DEADLOCK FALSE

SPECIFICATION Spec
CONSTANTS
  MaxMembers = 3
  MaxLen = 8
INVARIANTS RuleSane EmitCase
CHECK_DEADLOCK FALSE

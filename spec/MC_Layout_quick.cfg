SPECIFICATION Spec
CONSTANTS
  MaxMembers = 3
  MaxLen = 8
  MaxExtra = 2
  Deep = 4
INVARIANTS RuleSane HugeSane EmitCase
CHECK_DEADLOCK FALSE

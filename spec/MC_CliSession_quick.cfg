SPECIFICATION Spec
CONSTANTS
  MaxSteps = 4
INVARIANTS FreshEqualsReused Dependencies EmitCase
CHECK_DEADLOCK FALSE

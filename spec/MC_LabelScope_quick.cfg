SPECIFICATION Spec
CONSTANTS
  MaxLen = 6
  NeedResult = FALSE
  MinFns = 1
  MaxFns = 1
  MaxDepth = 3
  Names = {"a", "b"}
INVARIANTS StackOK Agree ForwardOutward EmitCase
CHECK_DEADLOCK FALSE

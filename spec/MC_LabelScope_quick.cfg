SPECIFICATION Spec
CONSTANTS
  MaxLen = 5
  MaxDepth = 3
  Names = {"a", "b"}
INVARIANTS StackOK Agree ForwardOutward EmitCase
CHECK_DEADLOCK FALSE

SPECIFICATION WSpec
CONSTANTS
  Sizes = {4, 6}
  MaxModules = 6
  MaxDecls = 2
  MaxTotal = 12
  MaxImports = 30
  MaxBadImports = 1
  ExportKeepsPoison = FALSE
  PoisonNeedsRoot = TRUE
INVARIANTS WSane WEmit
CHECK_DEADLOCK FALSE

SPECIFICATION Spec
CONSTANTS
  MaxLen = 10
INVARIANT TilesOK
CHECK_DEADLOCK FALSE

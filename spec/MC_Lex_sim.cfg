SPECIFICATION Spec
CONSTANTS
  MaxLen = 12
INVARIANT TilesOK
CHECK_DEADLOCK FALSE

SPECIFICATION Spec
CONSTANTS
  CapFactor = 4
  TokMin = 65536
  TokMax = 16777216
  ErrCap = 100
  MaxToks = 8
  MaxAborts = 1
  MaxBad = 0
  Densities = {3}
  DeclAlts = {"const", "struct"}
  StmtAlts = {}
  PrimAlts = {"lit", "id"}
  UnaryAlts = {}
  TypeAlts = {"kw"}
  ExprAlts = {"add"}
  ExpectationTextComplete = FALSE
INVARIANTS NoCrash
VIEW CounterView
CHECK_DEADLOCK FALSE

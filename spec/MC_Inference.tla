---------------------------- MODULE MC_Inference ----------------------------
(***************************************************************************)
(* Gen + model checking + case emission for Inference.tla / InferenceAlg.  *)
(*                                                                         *)
(* A program is                                                            *)
(*     fn h<T>(p: T) -> T { return: p }          one helper per type       *)
(*     fn run() [-> R]                    (main calls run, prints its result)*)
(*     {                                                                   *)
(*         var t<T>: T = <7>T;  ...              typed variables (prelude) *)
(*         var arr: [3]i32 = [10i32, 20i32, 30i32];                        *)
(*         <1..MaxStmts generated statements>                              *)
(*         print!(v, "\n"); for every unannotated variable v               *)
(*         end:                                                            *)
(*         [return: <res>]                                                 *)
(*     }                                                                   *)
(* Generated statements (grown one per Next step):                         *)
(*     var a = e;            unannotated declaration (names a, b, c in     *)
(*                           order; the first statement is always one)     *)
(*     var d<i>: T = e;      annotated declaration whose value mentions a  *)
(*                           node (naked literal / unannotated variable)   *)
(*     x = e;                x an unannotated or a typed variable          *)
(*     if l == r goto end;                                                 *)
(* over the expressions                                                    *)
(*     atoms  100 (naked), 100T (suffixed), t<T>, a, b, c                  *)
(*     x + y | x & y   (atoms, at least one of them a node)                *)
(*     x as T          x a node atom, or (x + 100) when "asbin" is on      *)
(*     h<T>(x)         x a node atom                                       *)
(*     arr[x]          x a node atom (the naked literal is 1 here)         *)
(*     |arr|                                                               *)
(* and the function result  void | T with `return: x` (x an atom).         *)
(* The constant Forms switches groups of shapes on; every cfg is a focus.  *)
(***************************************************************************)
EXTENDS InferenceAlg, Json, TLCExt, SequencesExt
CONSTANTS TypeSeq,      \* primitive integer types of the typed atoms / annotations (a sequence: fixes the order of the prelude)
          MaxVars,      \* number of unannotated variables
          MaxStmts,     \* generated statements
          Forms,        \* subset of {"sfx","tv","bin","band","as","asbin","call","idx","len","cmp","cmpbin","declt","asgu","asgt","ret","chain"}
          Rets          \* return types tried at Finish ("void" = no return value)

Types == SeqToSet(TypeSeq)
\* values for TypeSeq (a cfg file cannot write a tuple)
TS2 == <<"u8", "i32">>
TS3 == <<"u8", "i32", "usize">>
TS4 == <<"u8", "i32", "i64", "usize">>
VarNames == <<"a", "b", "c">>
WidthB(t) == CASE t \in {"u8", "i8", "bool", "char8"} -> 1 [] t \in {"u16", "i16"} -> 2 [] t \in {"u32", "i32"} -> 4 [] OTHER -> 8
Limbs(n, t) == <<n>> \o [i \in 1..(WidthB(t) - 1) |-> 0]
Naked(n)  == [k |-> "lit", v |-> <<n>>, id |-> "?"]
Sfx(n, t) == [k |-> "lit", t |-> t, v |-> Limbs(n, t)]
Var(x)    == [k |-> "var", x |-> x]
TV(t)     == Var("t" \o t)
Bin(op, l, r) == [k |-> "bin", op |-> op, l |-> l, r |-> r]
As(e, t)  == [k |-> "as", e |-> e, t |-> t]
Call(t, e) == [k |-> "call", f |-> "h" \o t, args |-> <<e>>]
Idx(e)    == [k |-> "idx", x |-> "arr", i |-> e]
LenArr    == [k |-> "len", x |-> "arr"]

\* ids of naked literals: statement prefix + path
RECURSIVE Ren(_, _)
Ren(e, p) ==
    CASE e.k = "lit"  -> IF "t" \in DOMAIN e THEN e ELSE [e EXCEPT !.id = p]
      [] e.k = "bin"  -> [e EXCEPT !.l = Ren(e.l, p \o "l"), !.r = Ren(e.r, p \o "r")]
      [] e.k = "as"   -> [e EXCEPT !.e = Ren(e.e, p \o "e")]
      [] e.k = "call" -> [e EXCEPT !.args = <<Ren(e.args[1], p \o "a")>>]
      [] e.k = "idx"  -> [e EXCEPT !.i = Ren(e.i, p \o "i")]
      [] OTHER        -> e
RenItem(it, i) ==
    LET p == "#" \o ToString(i)
    IN CASE it.k \in {"V", "S"} -> [it EXCEPT !.e = Ren(it.e, p)]
         [] it.k = "IG" -> [it EXCEPT !.c = [op |-> it.c.op, l |-> Ren(it.c.l, p \o "L"), r |-> Ren(it.c.r, p \o "R")]]
         [] OTHER -> it

(* ------------------------------ alphabet ------------------------------- *)
NodeAtoms(decl) == {Naked(100)} \cup {Var(decl[i]) : i \in 1..Len(decl)}
TypedAtoms == (IF "sfx" \in Forms THEN {Sfx(100, t) : t \in Types} ELSE {})
              \cup (IF "tv" \in Forms THEN {TV(t) : t \in Types} ELSE {})
              \cup (IF "len" \in Forms THEN {LenArr} ELSE {})
Atoms(decl) == NodeAtoms(decl) \cup TypedAtoms
BinOps == (IF "bin" \in Forms THEN {"+"} ELSE {}) \cup (IF "band" \in Forms THEN {"&"} ELSE {})
Bins(decl) == {Bin(op, x, y) : op \in BinOps, x \in Atoms(decl), y \in Atoms(decl)}
NodeBins(decl) == {e \in Bins(decl) : e.l \in NodeAtoms(decl) \/ e.r \in NodeAtoms(decl)}
AsOperands(decl) == NodeAtoms(decl) \cup (IF "asbin" \in Forms THEN {Bin("+", x, Naked(100)) : x \in NodeAtoms(decl)} ELSE {})
Compound(decl) ==
    NodeBins(decl)
    \cup (IF "as" \in Forms THEN {As(x, t) : x \in AsOperands(decl), t \in Types} ELSE {})
    \cup (IF "call" \in Forms THEN {Call(t, x) : x \in NodeAtoms(decl), t \in Types} ELSE {})
    \cup (IF "idx" \in Forms THEN {Idx(IF x.k = "lit" THEN Naked(1) ELSE x) : x \in NodeAtoms(decl)} ELSE {})
\* expressions that mention a node / all expressions
NodeExprs(decl) == NodeAtoms(decl) \cup Compound(decl)
AllExprs1(decl) == NodeExprs(decl) \cup TypedAtoms

Mentions(e, x) == \/ (e.k = "var" /\ e.x = x)
                  \/ (e.k = "bin" /\ ((e.l.k = "var" /\ e.l.x = x) \/ (e.r.k = "var" /\ e.r.x = x)))
                  \/ (e.k = "as" /\ ((e.e.k = "var" /\ e.e.x = x) \/ (e.e.k = "bin" /\ e.e.l.k = "var" /\ e.e.l.x = x)))
                  \/ (e.k = "call" /\ e.args[1].k = "var" /\ e.args[1].x = x)
                  \/ (e.k = "idx" /\ e.i.k = "var" /\ e.i.x = x)

DeclU(decl) == IF Len(decl) >= MaxVars THEN {}
               ELSE {[k |-> "V", x |-> VarNames[Len(decl) + 1], e |-> e] :
                        e \in (IF Len(decl) = 0 \/ "chain" \in Forms THEN AllExprs1(decl) ELSE {x \in AllExprs1(decl) : x.k # "var" \/ x \notin NodeAtoms(decl)})}
DeclT(decl, i) == IF "declt" \notin Forms THEN {}
                  ELSE {[k |-> "V", x |-> "d" \o ToString(i), ty |-> Prim(t), e |-> e] : t \in Types, e \in NodeExprs(decl)}
AsgU(decl) == IF "asgu" \notin Forms THEN {}
              ELSE UNION {{[k |-> "S", x |-> decl[j], e |-> e] : e \in {x \in AllExprs1(decl) : ~(x.k = "var" /\ x.x = decl[j])}} : j \in 1..Len(decl)}
AsgT(decl) == IF "asgt" \notin Forms THEN {}
              ELSE {[k |-> "S", x |-> "t" \o t, e |-> e] : t \in Types, e \in NodeExprs(decl)}
\* comparisons: atom == atom, and with "cmpbin" also (x op y) == atom and atom == (x op y)
CondPairs(decl) == (Atoms(decl) \X Atoms(decl))
                   \cup (IF "cmpbin" \in Forms THEN (NodeBins(decl) \X Atoms(decl)) \cup (Atoms(decl) \X NodeBins(decl)) ELSE {})
Conds(decl) == IF "cmp" \notin Forms THEN {}
               ELSE {[k |-> "IG", n |-> "end", c |-> [op |-> "==", l |-> p[1], r |-> p[2]]] : p \in CondPairs(decl)}
NodeConds(decl) == {s \in Conds(decl) : s.c.l \in NodeExprs(decl) \/ s.c.r \in NodeExprs(decl)}

\* (no unannotated declaration after a conditional jump: the jump to `end` would skip it, and the return value
\*  after the label may use it -- E482 is not the subject here)
Stmts(decl, i, jumped) == IF i = 1 THEN DeclU(decl)
                          ELSE (IF jumped THEN {} ELSE DeclU(decl)) \cup DeclT(decl, i) \cup AsgU(decl) \cup AsgT(decl) \cup NodeConds(decl)

(* ------------------------------- program ------------------------------- *)
Helper(t) == [name |-> "h" \o t, params |-> <<[x |-> "p", ty |-> Prim(t)]>>, ret |-> Prim(t), body |-> <<>>, res |-> Var("p")]
Helpers == [i \in 1..Len(TypeSeq) |-> Helper(TypeSeq[i])]
ArrTy == [k |-> "array", n |-> 3, e |-> Prim("i32")]
Prelude == [i \in 1..Len(TypeSeq) |-> [k |-> "V", x |-> "t" \o TypeSeq[i], ty |-> Prim(TypeSeq[i]), e |-> Sfx(7, TypeSeq[i])]]
           \o <<[k |-> "V", x |-> "arr", ty |-> ArrTy, e |-> [k |-> "arr", es |-> <<Sfx(10, "i32"), Sfx(20, "i32"), Sfx(30, "i32")>>]]>>
Post(decl) == [i \in 1..Len(decl) |-> [k |-> "P", e |-> Var(decl[i])]] \o <<[k |-> "L", n |-> "end"]>>
\* the function under test is `run`; `main` (fully annotated) calls it, prints its result and returns 0
RunFn(b, decl, ret, res) ==
    [name |-> "run", params |-> <<>>, body |-> Prelude \o b \o Post(decl),
     ret |-> IF ret = "void" THEN VoidT ELSE Prim(ret), res |-> res]
NoArgs == <<>>
CallRun == [k |-> "call", f |-> "run", args |-> NoArgs]
MainFn(ret) ==
    [name |-> "main", params |-> NoArgs, ret |-> Prim("u8"), res |-> Sfx(0, "u8"),
     body |-> IF ret = "void" THEN << [k |-> "CALL", f |-> "run", args |-> NoArgs, d |-> ""] >>
              ELSE << [k |-> "V", x |-> "r", ty |-> Prim(ret), e |-> CallRun], [k |-> "P", e |-> Var("r")] >>]
Prog(b, decl, ret, res) == [structs |-> <<>>, consts |-> <<>>, fns |-> Helpers \o <<RunFn(b, decl, ret, res), MainFn(ret)>>]

VARIABLES body, decl, done, out
vars == <<body, decl, done, out>>

Init == /\ body = <<>> /\ decl = <<>> /\ done = FALSE /\ out = [v |-> "none"]
        /\ PrintT(<<"NOTE", ToJson([helpers |-> Helpers, pre |-> Prelude])>>)

Add(s) == /\ ~done /\ Len(body) < MaxStmts
          /\ body' = Append(body, RenItem(s, Len(body) + 1))
          /\ decl' = IF s.k = "V" /\ "ty" \notin DOMAIN s THEN Append(decl, s.x) ELSE decl
          /\ UNCHANGED <<done, out>>

ResAtoms(d) == {Ren(x, "#r") : x \in NodeAtoms(d)}
Finish(ret, res) ==
    /\ ~done /\ Len(body) >= 1
    /\ done' = TRUE
    /\ LET P  == Prog(body, decl, ret, res)
           f  == P.fns[Len(P.fns) - 1]
           r  == FnResult(P, f, TRUE)
           m  == AlgRun(P, f)
       IN out' = [v |-> r.v, sol |-> r.sol, ret |-> ret, res |-> res, m |-> m, n |-> Len(f.body),
                  fix |-> IF r.v = "accept" /\ ~m.ok THEN RepairNeeded(P, f) ELSE ""]
    /\ UNCHANGED <<body, decl>>

\* (the guards stand before the quantifiers: TLC would otherwise build the alphabet for finished states too)
Next == \/ (~done /\ Len(body) < MaxStmts /\ \E s \in Stmts(decl, Len(body) + 1, \E j \in 1..Len(body) : body[j].k = "IG") : Add(s))
        \* a return value counts as a statement
        \/ (~done /\ Len(body) >= 1 /\ \E ret \in Rets : IF ret = "void" THEN Finish("void", Naked(0))
                                                          ELSE Len(body) < MaxStmts /\ \E res \in ResAtoms(decl) : Finish(ret, res))
Spec == Init /\ [][Next]_vars

(* ------------------------------ invariants ----------------------------- *)
\* A |= R1: the algorithm never accepts a program whose constraints conflict
ASound == (done /\ out.v = "reject") => ~out.m.ok
\* A |= R-undet: ... nor one with an undetermined class (errors.md E581/E582)
AUndet == (done /\ out.v = "undet") => ~out.m.ok
\* A |= R2: if the algorithm accepts, the types it resolves are THE solution
ASolution == (done /\ out.m.ok) =>
                \A r \in out.sol : IsType(r.c) => \A t \in {x \in out.m.types : x.n = r.n} : t.t = r.c
\* A |= R3: every documented pattern is accepted (EXPECTED TO FAIL on the pinned algorithm: notes-infer.md)
AComplete == (done /\ out.v = "accept") => out.m.ok

EmitCase == done =>
    PrintT(<<"CASE", ToJson([b |-> body, ret |-> out.ret, res |-> out.res, v |-> out.v, n |-> out.n,
                             sol |-> SetToSeq({<<r.n, r.c, r.d, r.lit, r.hint, r.hbad>> : r \in out.sol}),
                             fix |-> out.fix, mok |-> out.m.ok, mt |-> SetToSeq({<<t.n, t.t>> : t \in out.m.types}), mwhy |-> out.m.why])>>)
=============================================================================

-------------------------------- MODULE Cli --------------------------------
(***************************************************************************)
(* C18 -- the command line tool reports outcomes faithfully.               *)
(*                                                                         *)
(* A configuration is one invocation of `penne`:                           *)
(*   sub     build | run | emit                                            *)
(*   implicit  `penne FILES` without the word `build` (build is default)   *)
(*   verb    default | silent | verbose      (--silent / --verbose)        *)
(*   color   default | never | always        (--color)                     *)
(*   arrows  default | ascii                 (--arrows)                    *)
(*   wasm    --wasm                          (build, emit)                 *)
(*   outdir  --out-dir D                                                   *)
(*   flag    --backend given                 (build, run)                  *)
(*   env     PENNE_BACKEND (build) / PENNE_LLI (run) set                   *)
(*   cfg     --config FILE with `backend = ...`   (build)                  *)
(*   bfail   the selected backend exits with a non-zero status             *)
(*   bsig    ... or rather does not exit at all: it is killed by a signal  *)
(*           (crash, out-of-memory kill), so that it HAS no exit status    *)
(*   input   valid | lex (invalid character) | sem (undefined variable)    *)
(*   nmods   1 | 2   (with 2 the fault is in the imported module)          *)
(*   path    relative (a.pn) | nested (src/a.pn)                           *)
(*   high    the program run by `run` ends with status 200 (above 128, the *)
(*           range a shell uses for "killed by signal") instead of 3 / 7   *)
(*                                                                         *)
(* R (property text + `penne help`) gives the expected observables of each *)
(* configuration; TLC enumerates the full product and prints one CASE per  *)
(* configuration; each is replayed against the real binary with fake       *)
(* backends that record their name and arguments (real lli for `run`).     *)
(***************************************************************************)
EXTENDS Naturals, Sequences, FiniteSets, TLC, Json

Subs == {"build", "run", "emit"}
Verbs == {"default", "silent", "verbose"}
Colors == {"default", "never", "always"}
Arrows == {"default", "ascii"}
Inputs == {"valid", "lex", "sem"}
Paths == {"relative", "nested"}

Configs ==
    { c \in [sub : Subs, implicit : BOOLEAN, verb : Verbs, color : Colors, arrows : Arrows, wasm : BOOLEAN, outdir : BOOLEAN,
             flag : BOOLEAN, env : BOOLEAN, cfg : BOOLEAN, bfail : BOOLEAN, input : Inputs, nmods : {1, 2},
             path : Paths, high : BOOLEAN, bsig : BOOLEAN] :
        \* the exit status of the program only exists for `run` of a valid program; a fake lli has one only when told to fail
        /\ c.high => (c.sub = "run" /\ c.input = "valid" /\ ((~c.flag /\ ~c.env) \/ c.bfail))
        \* a backend killed by a signal is a failing backend without a status of its own
        /\ c.bsig => (c.bfail /\ ~c.high)
        /\ c.implicit => c.sub = "build"
        /\ c.sub = "emit" => (~c.flag /\ ~c.env /\ ~c.cfg /\ ~c.bfail)      \* emit has no backend
        /\ c.sub = "run" => (~c.cfg /\ ~c.wasm)                             \* run has neither --config nor --wasm
        \* the default backend of `run` is the real lli, whose status cannot be forced
        /\ (c.sub = "run" /\ ~c.flag /\ ~c.env) => ~c.bfail
        \* a backend is only reached by a valid program: failing backends matter only there
        /\ c.input # "valid" => ~c.bfail }

(***************************************************************************)
(* R                                                                       *)
(***************************************************************************)
\* "The backend is taken from the flag, else the environment variable, else the config file, else the default."
Backend(c) == IF c.sub = "emit" THEN "none"
              ELSE IF c.flag THEN "flag" ELSE IF c.env THEN "env" ELSE IF c.cfg THEN "config" ELSE "default"
CompileOK(c) == c.input = "valid"
BackendInvoked(c) == CompileOK(c) /\ c.sub # "emit"
\* `run` shows the exit status of the program it ran; that status does not make the run a failure
\* ... but a backend that was killed did not succeed, whatever the subcommand, and has no status to show
BackendOK(c) == ~c.bsig /\ (c.sub = "run" \/ ~c.bfail)
\* "exits with status 0 exactly when compilation (and the backend it invoked) succeeded"
ExitZero(c) == CompileOK(c) /\ (c.sub = "emit" \/ BackendOK(c))
\* "a successful penne emit --out-dir D leaves a .pn.ll file with the module's IR for every module"
\* (--out-dir: "Write binary output and generated IR to this directory", for all three subcommands)
LlPerModule(c) == c.outdir /\ CompileOK(c)
\* "a failing compilation yields a non-zero status with rendered diagnostics" (--silent: "Show no output")
DiagCode(c) == IF CompileOK(c) \/ c.verb = "silent" THEN 0 ELSE IF c.input = "lex" THEN 110 ELSE 402
\* "... that honour --color=never and --arrows=ascii"
NoAnsi(c) == c.color = "never"
AsciiFrames(c) == c.arrows = "ascii"
\* --silent: "Show no output"
SilentStdout(c) == c.verb = "silent"
\* "penne run shows the program's exit status and passes its output through":
\* 3 = what the test program returns under the real lli; a fake lli exits with 7 (bfail) or 0
RunStatus(c) == IF c.sub # "run" \/ ~CompileOK(c) THEN 999
                ELSE IF Backend(c) = "default" THEN (IF c.high THEN 200 ELSE 3)
                ELSE IF c.bfail THEN (IF c.high THEN 200 ELSE 7) ELSE 0
ShowsStatus(c) == c.sub = "run" /\ CompileOK(c) /\ c.verb # "silent" /\ ~c.bsig
\* build: the output file goes to the out dir, extension wasm for --wasm ("Write binary output ... to this directory")
OutExt(c) == IF c.sub = "build" /\ CompileOK(c) THEN (IF c.wasm THEN "wasm" ELSE "native") ELSE "none"
\* --wasm: "Set target to 'wasm32-unknown-wasi'"
WasmTriple(c) == c.wasm /\ LlPerModule(c)

Expect(c) == [exit_zero |-> ExitZero(c), backend |-> Backend(c), invoked |-> BackendInvoked(c),
              ll |-> LlPerModule(c), diag |-> DiagCode(c), no_ansi |-> NoAnsi(c), ascii |-> AsciiFrames(c),
              silent |-> SilentStdout(c), run_status |-> RunStatus(c), shows_status |-> ShowsStatus(c),
              out_ext |-> OutExt(c), wasm_triple |-> WasmTriple(c)]

VARIABLE c
Init == c \in Configs
Next == UNCHANGED c
Spec == Init /\ [][Next]_c

\* sanity of R itself
Sane == /\ ExitZero(c) => CompileOK(c)
        /\ BackendInvoked(c) => Backend(c) # "none"
        /\ (DiagCode(c) # 0) => ~ExitZero(c)
        /\ (Backend(c) = "config") => (c.sub = "build" /\ ~c.flag /\ ~c.env)
EmitCase == PrintT(<<"CASE", ToJson([cfg |-> c, expect |-> Expect(c)])>>)
=============================================================================

SPECIFICATION Spec
CONSTANTS
  MaxLen = 3
  MaxDepth = 1
  VNames = {"a", "b"}
  LNames = {"y"}
  BodyKinds = {"O", "C", "V", "U", "L", "IG"}
  Configs <- SomeConfigs
INVARIANTS AgreeScoper Sound EmitCase
CHECK_DEADLOCK FALSE

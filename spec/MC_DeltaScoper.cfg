SPECIFICATION Spec
CONSTANTS
  Names = {"a", "b"}
  MaxCalls = 4
INVARIANTS EmitCase
CHECK_DEADLOCK FALSE

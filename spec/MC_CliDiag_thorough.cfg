SPECIFICATION Spec
CONSTANTS
    NSamples <- EnvSamples
    NInvalid <- EnvInvalid
    Verbs <- VerbsThorough
INVARIANTS Sane EmitCase
CHECK_DEADLOCK FALSE

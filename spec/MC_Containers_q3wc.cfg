SPECIFICATION Spec
CONSTANTS
  MinN = 2
  MaxN = 3
  Kinds = {"c", "w"}
  AllowSelf = FALSE
  AllowPtr = FALSE
  AllowConstPtr = FALSE
  AllPerms = TRUE
  ChainMode = FALSE
  Stepwise = FALSE
INVARIANTS VerifyAgreeSound
CHECK_DEADLOCK FALSE

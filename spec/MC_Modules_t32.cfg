SPECIFICATION Spec
CONSTANTS
  MaxMods = 3
  MaxDecls = 2
  ImportPositions = FALSE
  ImportTwice = FALSE
  Restricted = FALSE
  Dirs <- FlatDirs
INVARIANTS VisibleOK NoLeak EmitCase
CHECK_DEADLOCK FALSE

SPECIFICATION Spec
CONSTANTS
  MinN = 2
  MaxN = 3
  Kinds = {"c", "s", "w"}
  AllowSelf = TRUE
  AllowPtr = TRUE
  AllowConstPtr = FALSE
  AllPerms = TRUE
  ChainMode = FALSE
  Stepwise = FALSE
INVARIANTS VerifySound
CHECK_DEADLOCK FALSE

SPECIFICATION Spec
CONSTANTS
  MaxDepth = 3
  ExtraDepth = 2
INVARIANTS ModelObeysRuleElsewhere EmitCase
CHECK_DEADLOCK FALSE

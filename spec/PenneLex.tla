------------------------------ MODULE PenneLex ------------------------------
(***************************************************************************)
(* The reference lexer of Penne: the RULE for C14 / C09 / C19.             *)
(*                                                                         *)
(* Source text is a sequence of byte values (TLC strings are atomic).  The *)
(* lexer is a byte-at-a-time automaton: Step(g, st, b) consumes one byte,  *)
(* Finish(g, st) handles end of input, Lex(g, s) folds Step over s.        *)
(* Written from docs/syntax.md, docs/features.md, docs/errors.md (E1xx)    *)
(* and the statements of properties C14 / C09, not from the two scanners.  *)
(*                                                                         *)
(* g \in {"alpha", "delta"} switches only the documented differences:      *)
(*   - the second generation reserves the word `return`;                   *)
(*   - the first generation is character oriented (offsets and columns in  *)
(*     characters, one E110 per offending character), the second is byte   *)
(*     oriented (offsets in bytes, one E110 per offending byte, accepts    *)
(*     input that is not UTF-8);                                           *)
(*   - the second generation terminates its token list with two            *)
(*     EndOfSource tokens.                                                 *)
(* Every item carries byte offsets AND character offsets, so one run       *)
(* serves both generations.                                                *)
(*                                                                         *)
(* Items (tokens and lexical errors) are records                           *)
(*   k    kind (names of delta's BaseToken; "Error"; "Comment" internal)   *)
(*   bs,be / cs,ce   span [start, end) in bytes / in characters            *)
(*   ln   line (1-based)    cb, cc  column = start - start of line         *)
(*   code 0, or the error code (101 110 140 141 160 161 162 163)           *)
(*   v    integer payload as 16 little-endian limbs (Wide), <<>> if none   *)
(*   ty   type of a suffix / type keyword, "" if none                      *)
(*   by   bytes: identifier text, decoded string / char payload            *)
(*   ls,le / lcs,lce   the lexeme the item belongs to (for an error inside *)
(*        a string or char literal: the whole literal)                     *)
(*   ex   the span of an error is exactly [bs,be) (whole-lexeme errors);   *)
(*        otherwise the rule only demands that it starts inside [ls,le]    *)
(*   alt  other error codes that are acceptable instead (two faults in one *)
(*        lexeme, the docs give no priority)                               *)
(*   opt  UNCONSTRAINED: the item may be absent (a lone carriage return:   *)
(*        the docs do not say whether it is blank or an illegal character) *)
(*   unc  UNCONSTRAINED: the item may instead be an E162 inside its        *)
(*        lexeme (the literal contains \u{...} with more than six digits  *)
(*        before any error)                                                *)
(***************************************************************************)
EXTENDS Naturals, Sequences, FiniteSets, TLC

W == INSTANCE Wide

(* ---- byte classes ---- *)
IsLower(b) == b \in 97..122
IsUpper(b) == b \in 65..90
IsDigit(b) == b \in 48..57
IsIdStart(b) == IsLower(b) \/ IsUpper(b) \/ b = 95
IsIdCont(b) == IsIdStart(b) \/ IsDigit(b)
IsHex(b) == IsDigit(b) \/ b \in 97..102 \/ b \in 65..70
HexVal(b) == IF IsDigit(b) THEN b - 48 ELSE IF b >= 97 THEN b - 87 ELSE b - 55
IsCont(b) == b \in 128..191              \* UTF-8 continuation byte
IsBlank(b) == b \in {32, 9, 10, 13}
\* what may stand unescaped inside a string or character literal (docs/errors.md E110:
\* ASCII control characters U+0000..U+001F and U+007F must be escaped)
IsRawStringByte(b) == b \in 32..126 \/ b >= 128

(* ---- UTF-8 ---- *)
RECURSIVE U8From(_, _)
U8From(s, i) ==
    IF i > Len(s) THEN TRUE
    ELSE LET b == s[i]
             C(j) == j <= Len(s) /\ IsCont(s[j])
         IN IF b < 128 THEN U8From(s, i + 1)
            ELSE IF b \in 194..223 THEN C(i + 1) /\ U8From(s, i + 2)
            ELSE IF b \in 224..239 THEN /\ C(i + 1) /\ C(i + 2)
                                        /\ (b = 224 => s[i + 1] >= 160)
                                        /\ (b = 237 => s[i + 1] <= 159)
                                        /\ U8From(s, i + 3)
            ELSE IF b \in 240..244 THEN /\ C(i + 1) /\ C(i + 2) /\ C(i + 3)
                                        /\ (b = 240 => s[i + 1] >= 144)
                                        /\ (b = 244 => s[i + 1] <= 143)
                                        /\ U8From(s, i + 4)
            ELSE FALSE
Utf8Valid(s) == U8From(s, 1)

\* the UTF-8 encoding of a Unicode scalar value
Utf8(c) == IF c < 128 THEN <<c>>
           ELSE IF c < 2048 THEN <<192 + (c \div 64), 128 + (c % 64)>>
           ELSE IF c < 65536 THEN <<224 + (c \div 4096), 128 + ((c \div 64) % 64), 128 + (c % 64)>>
           ELSE <<240 + (c \div 262144), 128 + ((c \div 4096) % 64), 128 + ((c \div 64) % 64), 128 + (c % 64)>>
IsScalar(c) == c <= 1114111 /\ ~(c \in 55296..57343)

\* ---- generated tables (spelling as byte tuples) ----
Keyword ==
    (  <<102, 110>> :> "Fn"
    @@ <<118, 97, 114>> :> "Var"
    @@ <<99, 111, 110, 115, 116>> :> "Const"
    @@ <<105, 102>> :> "If"
    @@ <<103, 111, 116, 111>> :> "Goto"
    @@ <<108, 111, 111, 112>> :> "Loop"
    @@ <<101, 108, 115, 101>> :> "Else"
    @@ <<99, 97, 115, 116>> :> "Cast"
    @@ <<97, 115>> :> "As"
    @@ <<105, 109, 112, 111, 114, 116>> :> "Import"
    @@ <<112, 117, 98>> :> "Pub"
    @@ <<101, 120, 116, 101, 114, 110>> :> "Extern"
    @@ <<115, 116, 114, 117, 99, 116>> :> "Struct"
    @@ <<119, 111, 114, 100, 56>> :> "Word8"
    @@ <<119, 111, 114, 100, 49, 54>> :> "Word16"
    @@ <<119, 111, 114, 100, 51, 50>> :> "Word32"
    @@ <<119, 111, 114, 100, 54, 52>> :> "Word64"
    @@ <<119, 111, 114, 100, 49, 50, 56>> :> "Word128"
    @@ <<95>> :> "Placeholder" )

TypeWord ==
    (  <<118, 111, 105, 100>> :> "Void"
    @@ <<105, 56>> :> "Int8"
    @@ <<105, 49, 54>> :> "Int16"
    @@ <<105, 51, 50>> :> "Int32"
    @@ <<105, 54, 52>> :> "Int64"
    @@ <<105, 49, 50, 56>> :> "Int128"
    @@ <<117, 56>> :> "Uint8"
    @@ <<117, 49, 54>> :> "Uint16"
    @@ <<117, 51, 50>> :> "Uint32"
    @@ <<117, 54, 52>> :> "Uint64"
    @@ <<117, 49, 50, 56>> :> "Uint128"
    @@ <<117, 115, 105, 122, 101>> :> "Usize"
    @@ <<99, 104, 97, 114, 56>> :> "Char8"
    @@ <<98, 111, 111, 108>> :> "Bool" )

SuffixTy ==
    (  <<105, 56>> :> "Int8"
    @@ <<105, 49, 54>> :> "Int16"
    @@ <<105, 51, 50>> :> "Int32"
    @@ <<105, 54, 52>> :> "Int64"
    @@ <<105, 49, 50, 56>> :> "Int128"
    @@ <<117, 56>> :> "Uint8"
    @@ <<117, 49, 54>> :> "Uint16"
    @@ <<117, 51, 50>> :> "Uint32"
    @@ <<117, 54, 52>> :> "Uint64"
    @@ <<117, 49, 50, 56>> :> "Uint128"
    @@ <<117, 115, 105, 122, 101>> :> "Usize" )

Single ==
    (  40 :> "ParenLeft"
    @@ 41 :> "ParenRight"
    @@ 123 :> "BraceLeft"
    @@ 125 :> "BraceRight"
    @@ 91 :> "BracketLeft"
    @@ 93 :> "BracketRight"
    @@ 38 :> "Ampersand"
    @@ 94 :> "Caret"
    @@ 43 :> "Plus"
    @@ 42 :> "Times"
    @@ 37 :> "Modulo"
    @@ 58 :> "Colon"
    @@ 59 :> "Semicolon"
    @@ 44 :> "Comma" )

OpFirst ==
    (  60 :> "AngleLeft"
    @@ 62 :> "AngleRight"
    @@ 124 :> "Pipe"
    @@ 33 :> "Exclamation"
    @@ 46 :> "Dot"
    @@ 61 :> "Assignment"
    @@ 45 :> "Minus"
    @@ 47 :> "Divide" )

Double ==
    (  <<60, 60>> :> "ShiftLeft"
    @@ <<60, 61>> :> "IsLE"
    @@ <<62, 62>> :> "ShiftRight"
    @@ <<62, 61>> :> "IsGE"
    @@ <<124, 58>> :> "PipeForType"
    @@ <<33, 61>> :> "DoesNotEqual"
    @@ <<46, 46>> :> "Dots"
    @@ <<61, 61>> :> "Equals"
    @@ <<45, 62>> :> "Arrow" )

Spelling ==
    (  "Fn" :> <<102, 110>>
    @@ "Var" :> <<118, 97, 114>>
    @@ "Const" :> <<99, 111, 110, 115, 116>>
    @@ "If" :> <<105, 102>>
    @@ "Goto" :> <<103, 111, 116, 111>>
    @@ "Loop" :> <<108, 111, 111, 112>>
    @@ "Else" :> <<101, 108, 115, 101>>
    @@ "Cast" :> <<99, 97, 115, 116>>
    @@ "As" :> <<97, 115>>
    @@ "Import" :> <<105, 109, 112, 111, 114, 116>>
    @@ "Pub" :> <<112, 117, 98>>
    @@ "Extern" :> <<101, 120, 116, 101, 114, 110>>
    @@ "Struct" :> <<115, 116, 114, 117, 99, 116>>
    @@ "Word8" :> <<119, 111, 114, 100, 56>>
    @@ "Word16" :> <<119, 111, 114, 100, 49, 54>>
    @@ "Word32" :> <<119, 111, 114, 100, 51, 50>>
    @@ "Word64" :> <<119, 111, 114, 100, 54, 52>>
    @@ "Word128" :> <<119, 111, 114, 100, 49, 50, 56>>
    @@ "Placeholder" :> <<95>>
    @@ "ParenLeft" :> <<40>>
    @@ "ParenRight" :> <<41>>
    @@ "BraceLeft" :> <<123>>
    @@ "BraceRight" :> <<125>>
    @@ "BracketLeft" :> <<91>>
    @@ "BracketRight" :> <<93>>
    @@ "Ampersand" :> <<38>>
    @@ "Caret" :> <<94>>
    @@ "Plus" :> <<43>>
    @@ "Times" :> <<42>>
    @@ "Modulo" :> <<37>>
    @@ "Colon" :> <<58>>
    @@ "Semicolon" :> <<59>>
    @@ "Comma" :> <<44>>
    @@ "AngleLeft" :> <<60>>
    @@ "AngleRight" :> <<62>>
    @@ "Pipe" :> <<124>>
    @@ "Exclamation" :> <<33>>
    @@ "Dot" :> <<46>>
    @@ "Assignment" :> <<61>>
    @@ "Minus" :> <<45>>
    @@ "Divide" :> <<47>>
    @@ "ShiftLeft" :> <<60, 60>>
    @@ "IsLE" :> <<60, 61>>
    @@ "ShiftRight" :> <<62, 62>>
    @@ "IsGE" :> <<62, 61>>
    @@ "PipeForType" :> <<124, 58>>
    @@ "DoesNotEqual" :> <<33, 61>>
    @@ "Dots" :> <<46, 46>>
    @@ "Equals" :> <<61, 61>>
    @@ "Arrow" :> <<45, 62>>
    @@ "Return" :> <<114, 101, 116, 117, 114, 110>> )

(* ---- items ---- *)
NoV == <<>>
Item(k, bs, be, cs, ce, ln, cb, cc, code, v, ty, by, ls, le, lcs, lce, ex, alt, opt, unc) ==
    [k |-> k, bs |-> bs, be |-> be, cs |-> cs, ce |-> ce, ln |-> ln, cb |-> cb, cc |-> cc,
     code |-> code, v |-> v, ty |-> ty, by |-> by, ls |-> ls, le |-> le, lcs |-> lcs, lce |-> lce,
     ex |-> ex, alt |-> alt, opt |-> opt, unc |-> unc]

(* ---- automaton state ---- *)
Init0 == [mode |-> "Start", toks |-> <<>>, pos |-> 0, cpos |-> 0, line |-> 1, lsb |-> 0, lsc |-> 0,
          tb |-> 0, tc |-> 0, text |-> <<>>, digits |-> <<>>, base |-> 10, pay |-> <<>>, q |-> 0,
          herr |-> FALSE, ecode |-> 0, ebs |-> 0, ebe |-> 0, ecs |-> 0, ece |-> 0,
          eb |-> 0, ec |-> 0, n |-> 0, uv |-> 0, ubad |-> FALSE, unc |-> FALSE, op |-> 0]

\* While a byte b is dispatched, st.pos / st.cpos are the offsets OF b (b is not yet counted).
\* A lexeme that ends before b ends at (st.pos, st.cpos); one that includes b ends at (+1, +1).
Push(st, it) == [st EXCEPT !.toks = Append(@, it), !.mode = "Start"]

\* an ordinary token from the lexeme start recorded in st to (be, ce)
Tok(st, k, be, ce, v, ty, by) ==
    Item(k, st.tb, be, st.tc, ce, st.line, st.tb - st.lsb, st.tc - st.lsc, 0, v, ty, by,
         st.tb, be, st.tc, ce, TRUE, <<>>, FALSE, st.unc)
\* an error whose extent is the whole lexeme
LexemeErr(st, code, be, ce, alt) ==
    Item("Error", st.tb, be, st.tc, ce, st.line, st.tb - st.lsb, st.tc - st.lsc, code, NoV, "", <<>>,
         st.tb, be, st.tc, ce, TRUE, alt, FALSE, FALSE)
\* the first error recorded inside a string / character literal, reported when the literal ends at (be, ce)
InnerErr(st, be, ce) ==
    Item("Error", st.ebs, st.ebe, st.ecs, st.ece, st.line, st.ebs - st.lsb, st.ecs - st.lsc, st.ecode, NoV, "", <<>>,
         st.tb, be, st.tc, ce, FALSE, <<>>, FALSE, st.unc)
\* remember the first error inside a literal
Note(st, code, bs, be, cs, ce) ==
    IF st.herr THEN st
    ELSE [st EXCEPT !.herr = TRUE, !.ecode = code, !.ebs = bs, !.ebe = be, !.ecs = cs, !.ece = ce]

NewLine(st) == [st EXCEPT !.line = @ + 1, !.lsb = st.pos + 1, !.lsc = st.cpos + 1, !.mode = "Start"]

(* ---- words ---- *)
WordItem(g, st, be, ce) ==
    LET w == st.text IN
    IF w \in DOMAIN Keyword THEN Tok(st, Keyword[w], be, ce, NoV, "", <<>>)
    ELSE IF g = "delta" /\ w = Spelling["Return"] THEN Tok(st, "Return", be, ce, NoV, "", <<>>)
    ELSE IF w \in DOMAIN TypeWord THEN Tok(st, "ValueTypeKeyword", be, ce, NoV, TypeWord[w], <<>>)
    ELSE IF w = <<116, 114, 117, 101>> THEN Tok(st, "BoolLiteral", be, ce, W!FromNat(1, 128), "", <<>>)
    ELSE IF w = <<102, 97, 108, 115, 101>> THEN Tok(st, "BoolLiteral", be, ce, W!FromNat(0, 128), "", <<>>)
    ELSE Tok(st, "Identifier", be, ce, NoV, "", w)
IsPlainIdentifier(g, w) ==
    /\ w \notin DOMAIN Keyword /\ w \notin DOMAIN TypeWord
    /\ w # <<116, 114, 117, 101>> /\ w # <<102, 97, 108, 115, 101>>
    /\ ~(g = "delta" /\ w = Spelling["Return"])

(* ---- numbers ---- *)
\* st.digits / st.base: the digits of the literal; st.text: the suffix ([A-Za-z0-9_]* after the literal)
\* The value of a digit list (most significant digit first) as 16 little-endian limbs, with an
\* overflow flag (more than 128 bits).  Wide!Parse does the same digit by digit (and is model-checked);
\* it costs ~4 ms per digit in TLC, too slow for the long literals of recorded traces, so hexadecimal
\* and binary digits are placed into their limbs directly and decimal digits are taken four at a time
\* (x * 10^4 + chunk on 18 limbs).  MC_Lex and MC_Literals check NumValue = Wide!Parse on every literal
\* they enumerate.
RECURSIVE FirstNonZero(_, _)
FirstNonZero(d, i) == IF i > Len(d) THEN i ELSE IF d[i] # 0 THEN i ELSE FirstNonZero(d, i + 1)
Significant(d) == SubSeq(d, FirstNonZero(d, 1), Len(d))
DigitAt(d, k) == IF k >= 1 THEN d[k] ELSE 0                  \* k counts from the left; left of the number: 0
HexValue(d) == LET sg == Significant(d)
                   n == Len(sg)
               IN [v |-> [k \in 1..16 |-> DigitAt(sg, n - 2 * (k - 1)) + 16 * DigitAt(sg, n - 2 * (k - 1) - 1)],
                   ovf |-> n > 32]
BinValue(d) == LET sg == Significant(d)
                   n == Len(sg)
                   B(k, j) == DigitAt(sg, n - 8 * (k - 1) - j)
               IN [v |-> [k \in 1..16 |-> B(k, 0) + 2 * B(k, 1) + 4 * B(k, 2) + 8 * B(k, 3) + 16 * B(k, 4)
                                            + 32 * B(k, 5) + 64 * B(k, 6) + 128 * B(k, 7)],
                   ovf |-> n > 128]
RECURSIVE DecFrom(_, _, _)
DecFrom(d, i, acc) ==
    IF i > Len(d) THEN acc
    ELSE LET left == Len(d) - i + 1
             n == IF left >= 4 THEN 4 ELSE left
             chunk == IF n = 4 THEN 1000 * d[i] + 100 * d[i + 1] + 10 * d[i + 2] + d[i + 3]
                      ELSE IF n = 3 THEN 100 * d[i] + 10 * d[i + 1] + d[i + 2]
                      ELSE IF n = 2 THEN 10 * d[i] + d[i + 1] ELSE d[i]
             m == IF n = 4 THEN 10000 ELSE IF n = 3 THEN 1000 ELSE IF n = 2 THEN 100 ELSE 10
             r == W!MulSmallC(acc.v, m, 1, chunk)            \* acc * m + chunk on 18 limbs
         IN DecFrom(d, i + n, [v |-> [r EXCEPT ![17] = 0, ![18] = 0], ovf |-> acc.ovf \/ r[17] # 0 \/ r[18] # 0])
DecValue(d) == LET r == DecFrom(d, 1, [v |-> [k \in 1..18 |-> 0], ovf |-> FALSE])
               IN [v |-> SubSeq(r.v, 1, 16), ovf |-> r.ovf]
NumValue(d, base) == IF base = 16 THEN HexValue(d) ELSE IF base = 2 THEN BinValue(d) ELSE DecValue(d)

NumberItem(st, be, ce) ==
    LET p == NumValue(st.digits, st.base)
        sfxOK == st.text \in DOMAIN SuffixTy
    IN IF p.ovf THEN LexemeErr(st, 140, be, ce, IF st.text # <<>> /\ ~sfxOK THEN <<141>> ELSE <<>>)
       ELSE IF st.text = <<>> THEN Tok(st, IF st.base = 10 THEN "NakedDecimal" ELSE "BitInteger", be, ce, p.v, "", <<>>)
       ELSE IF sfxOK THEN Tok(st, "SuffixedInteger", be, ce, p.v, SuffixTy[st.text], <<>>)
       ELSE LexemeErr(st, 141, be, ce, <<>>)

(* ---- string and character literals ---- *)
\* the literal ends at (be, ce), closed or not
LiteralItem(st, closed, be, ce) ==
    LET st1 == IF closed THEN st ELSE Note(st, 160, st.tb, be, st.tc, ce) IN
    IF st1.herr THEN InnerErr(st1, be, ce)
    ELSE IF st1.q = 34 THEN Tok(st1, "StringLiteral", be, ce, NoV, "", st1.pay)
    ELSE IF Len(st1.pay) = 1 THEN Tok(st1, "CharLiteral", be, ce, W!FromNat(st1.pay[1], 128), "", st1.pay)
    ELSE [LexemeErr(st1, 163, be, ce, <<>>) EXCEPT !.unc = st1.unc]
PushByte(st, b) == [st EXCEPT !.pay = Append(@, b), !.mode = "Str"]

RECURSIVE Dispatch(_, _, _)
\* the byte b arrives while no lexeme is open
StartStep(g, st0, b) ==
    LET st == [st0 EXCEPT !.mode = "Start", !.tb = st0.pos, !.tc = st0.cpos, !.text = <<>>, !.digits = <<>>,
                          !.pay = <<>>, !.herr = FALSE, !.unc = FALSE]
        e1 == st.pos + 1
        c1 == st.cpos + 1
    IN IF b = 32 \/ b = 9 THEN st
       ELSE IF b = 10 THEN NewLine(st)
       ELSE IF b = 13 THEN [st EXCEPT !.mode = "CR"]
       ELSE IF b \in DOMAIN Single THEN Push(st, Tok(st, Single[b], e1, c1, NoV, "", <<>>))
       ELSE IF b \in DOMAIN OpFirst THEN [st EXCEPT !.mode = "Op", !.op = b]
       ELSE IF IsIdStart(b) THEN [st EXCEPT !.mode = "Ident", !.text = <<b>>]
       ELSE IF b = 48 THEN [st EXCEPT !.mode = "Zero", !.digits = <<0>>, !.base = 10]
       ELSE IF IsDigit(b) THEN [st EXCEPT !.mode = "Dec", !.digits = <<b - 48>>, !.base = 10]
       ELSE IF b = 34 \/ b = 39 THEN [st EXCEPT !.mode = "Str", !.q = b]
       ELSE IF b >= 128 /\ g = "alpha" THEN [st EXCEPT !.mode = "BadChar"]
       ELSE Push(st, LexemeErr(st, 110, e1, c1, <<>>))

\* inside a literal: an ordinary byte
StrStep(g, st, b) ==
    LET e1 == st.pos + 1
        c1 == st.cpos + 1
    IN IF b = 92 THEN [st EXCEPT !.mode = "Esc", !.eb = st.pos, !.ec = st.cpos]
       ELSE IF b = st.q THEN Push(st, LiteralItem(st, TRUE, e1, c1))
       ELSE IF b = 10 THEN NewLine(Push(st, LiteralItem(st, FALSE, st.pos, st.cpos)))
       ELSE IF b = 13 THEN [st EXCEPT !.mode = "StrCR"]
       ELSE IF IsRawStringByte(b) THEN PushByte(st, b)
       ELSE [Note(st, 110, st.pos, e1, st.cpos, c1) EXCEPT !.mode = "Str"]

\* an invalid escape sequence that started at st.eb and ends before the current byte, which is then looked at again
BadEscapeThen(g, st, b) == StrStep(g, [Note(st, 162, st.eb, st.pos, st.ec, st.cpos) EXCEPT !.mode = "Str"], b)

Dispatch(g, st, b) ==
    LET e1 == st.pos + 1
        c1 == st.cpos + 1
        m == st.mode
    IN
    IF m = "Start" THEN StartStep(g, st, b)
    ELSE IF m = "CR" THEN
        \* \r\n is a line ending; a lone \r is unconstrained (blank or E110)
        IF b = 10 THEN NewLine(st)
        ELSE StartStep(g, Push(st, [LexemeErr(st, 110, st.pos, st.cpos, <<>>) EXCEPT !.opt = TRUE]), b)
    ELSE IF m = "BadChar" THEN
        IF IsCont(b) THEN st ELSE StartStep(g, Push(st, LexemeErr(st, 110, st.pos, st.cpos, <<>>)), b)
    ELSE IF m = "Op" THEN
        IF st.op = 47 /\ b = 47 THEN [st EXCEPT !.mode = "Comment"]
        ELSE IF <<st.op, b>> \in DOMAIN Double THEN Push(st, Tok(st, Double[<<st.op, b>>], e1, c1, NoV, "", <<>>))
        ELSE StartStep(g, Push(st, Tok(st, OpFirst[st.op], st.pos, st.cpos, NoV, "", <<>>)), b)
    ELSE IF m = "Comment" THEN
        IF b = 10 THEN NewLine(Push(st, Tok(st, "Comment", st.pos, st.cpos, NoV, "", <<>>))) ELSE st
    ELSE IF m = "Ident" THEN
        IF IsIdCont(b) THEN [st EXCEPT !.text = Append(@, b)]
        ELSE IF b = 33 /\ IsPlainIdentifier(g, st.text) THEN Push(st, Tok(st, "Builtin", e1, c1, NoV, "", st.text))
        ELSE StartStep(g, Push(st, WordItem(g, st, st.pos, st.cpos)), b)
    ELSE IF m = "Zero" THEN
        IF b = 120 THEN [st EXCEPT !.mode = "HexP", !.text = <<b>>]
        ELSE IF b = 98 THEN [st EXCEPT !.mode = "BinP", !.text = <<b>>]
        ELSE IF IsIdCont(b) THEN [st EXCEPT !.mode = "Suffix", !.text = <<b>>]
        ELSE StartStep(g, Push(st, NumberItem(st, st.pos, st.cpos)), b)
    ELSE IF m = "HexP" THEN      \* "0x" and underscores so far, no digit yet: the x may still be a (bad) suffix
        IF IsHex(b) THEN [st EXCEPT !.mode = "Hex", !.digits = <<HexVal(b)>>, !.base = 16, !.text = <<>>]
        ELSE IF IsIdCont(b) THEN [st EXCEPT !.mode = IF b = 95 THEN "HexP" ELSE "Suffix", !.text = Append(@, b)]
        ELSE StartStep(g, Push(st, NumberItem(st, st.pos, st.cpos)), b)
    ELSE IF m = "BinP" THEN
        IF b = 48 \/ b = 49 THEN [st EXCEPT !.mode = "Bin", !.digits = <<b - 48>>, !.base = 2, !.text = <<>>]
        ELSE IF IsIdCont(b) THEN [st EXCEPT !.mode = IF b = 95 THEN "BinP" ELSE "Suffix", !.text = Append(@, b)]
        ELSE StartStep(g, Push(st, NumberItem(st, st.pos, st.cpos)), b)
    ELSE IF m = "Hex" THEN
        IF IsHex(b) THEN [st EXCEPT !.digits = Append(@, HexVal(b))]
        ELSE IF b = 95 THEN st
        ELSE IF IsIdCont(b) THEN [st EXCEPT !.mode = "Suffix", !.text = <<b>>]
        ELSE StartStep(g, Push(st, NumberItem(st, st.pos, st.cpos)), b)
    ELSE IF m = "Bin" THEN
        IF b = 48 \/ b = 49 THEN [st EXCEPT !.digits = Append(@, b - 48)]
        ELSE IF b = 95 THEN st
        ELSE IF IsIdCont(b) THEN [st EXCEPT !.mode = "Suffix", !.text = <<b>>]
        ELSE StartStep(g, Push(st, NumberItem(st, st.pos, st.cpos)), b)
    ELSE IF m = "Dec" THEN
        IF IsDigit(b) THEN [st EXCEPT !.digits = Append(@, b - 48)]
        ELSE IF b = 95 THEN st
        ELSE IF IsIdCont(b) THEN [st EXCEPT !.mode = "Suffix", !.text = <<b>>]
        ELSE StartStep(g, Push(st, NumberItem(st, st.pos, st.cpos)), b)
    ELSE IF m = "Suffix" THEN
        IF IsIdCont(b) THEN [st EXCEPT !.text = Append(@, b)]
        ELSE StartStep(g, Push(st, NumberItem(st, st.pos, st.cpos)), b)
    ELSE IF m = "Str" THEN StrStep(g, st, b)
    ELSE IF m = "StrCR" THEN
        \* \r inside a literal: with \n it is the end of the line (literal not closed), alone it is a control character
        IF b = 10 THEN NewLine(Push(st, LiteralItem(st, FALSE, st.pos - 1, st.cpos - 1)))
        ELSE StrStep(g, [Note(st, 110, st.pos - 1, st.pos, st.cpos - 1, st.cpos) EXCEPT !.mode = "Str"], b)
    ELSE IF m = "Esc" THEN
        IF b = 110 THEN PushByte(st, 10)
        ELSE IF b = 114 THEN PushByte(st, 13)
        ELSE IF b = 116 THEN PushByte(st, 9)
        ELSE IF b = 92 THEN PushByte(st, 92)
        ELSE IF b = 39 THEN PushByte(st, 39)
        ELSE IF b = 34 THEN PushByte(st, 34)
        ELSE IF b = 48 THEN PushByte(st, 0)
        ELSE IF b = 120 THEN [st EXCEPT !.mode = "EscX", !.n = 0, !.uv = 0]
        \* \u{...} only in string literals: in a character literal it is an invalid escape (the project pins this:
        \* tests/samples/invalid/unicode_escape_in_char.pn must give E162, tests/parsing.rs)
        ELSE IF b = 117 THEN (IF st.q = 39 THEN [Note(st, 162, st.eb, e1, st.ec, c1) EXCEPT !.mode = "Str"]
                              ELSE [st EXCEPT !.mode = "EscU0"])
        \* a backslash just before the end of the line: E161, and the literal is not closed on this line
        ELSE IF b = 10 THEN LET st1 == Note(st, 161, st.eb, st.pos, st.ec, st.cpos)
                            IN NewLine(Push(st1, LiteralItem(st1, FALSE, st.pos, st.cpos)))
        ELSE IF b = 13 THEN [st EXCEPT !.mode = "EscCR"]
        ELSE [Note(st, 162, st.eb, e1, st.ec, c1) EXCEPT !.mode = "Str"]
    ELSE IF m = "EscCR" THEN
        IF b = 10 THEN LET st1 == Note(st, 161, st.eb, st.eb + 1, st.ec, st.ec + 1)
                       IN NewLine(Push(st1, LiteralItem(st1, FALSE, st.pos - 1, st.cpos - 1)))
        ELSE BadEscapeThen(g, st, b)
    ELSE IF m = "EscX" THEN      \* \xHH: exactly two hexadecimal digits
        IF IsHex(b) THEN (IF st.n = 1 THEN PushByte(st, st.uv * 16 + HexVal(b))
                          ELSE [st EXCEPT !.n = 1, !.uv = HexVal(b)])
        ELSE BadEscapeThen(g, st, b)
    ELSE IF m = "EscU0" THEN
        IF b = 123 THEN [st EXCEPT !.mode = "EscU", !.n = 0, !.uv = 0, !.ubad = FALSE]
        ELSE BadEscapeThen(g, st, b)
    ELSE IF m = "EscU" THEN      \* \u{H..H}: a Unicode scalar value, stored as UTF-8
        IF IsHex(b) THEN LET nv == st.uv * 16 + HexVal(b)
                         IN IF st.ubad \/ nv > 1114111 THEN [st EXCEPT !.n = @ + 1, !.ubad = TRUE]
                            ELSE [st EXCEPT !.n = @ + 1, !.uv = nv]
        ELSE IF b = 125 THEN
            IF st.n >= 1 /\ ~st.ubad /\ IsScalar(st.uv)
            THEN [st EXCEPT !.pay = @ \o Utf8(st.uv), !.mode = "Str", !.unc = @ \/ (st.n > 6 /\ ~st.herr)]
            ELSE [Note(st, 162, st.eb, e1, st.ec, c1) EXCEPT !.mode = "Str"]
        ELSE BadEscapeThen(g, st, b)
    ELSE st

Step(g, st, b) == LET r == Dispatch(g, st, b)
                  IN [r EXCEPT !.pos = st.pos + 1, !.cpos = st.cpos + (IF IsCont(b) THEN 0 ELSE 1)]

\* end of input: st.pos / st.cpos are the length of the text
Finish(g, st) ==
    LET m == st.mode
        P == st.pos
        C == st.cpos
        it == IF m = "CR" THEN <<[LexemeErr(st, 110, P, C, <<>>) EXCEPT !.opt = TRUE]>>
              ELSE IF m = "BadChar" THEN <<LexemeErr(st, 110, P, C, <<>>)>>
              ELSE IF m = "Op" THEN <<Tok(st, OpFirst[st.op], P, C, NoV, "", <<>>)>>
              ELSE IF m = "Comment" THEN <<Tok(st, "Comment", P, C, NoV, "", <<>>)>>
              ELSE IF m = "Ident" THEN <<WordItem(g, st, P, C)>>
              ELSE IF m \in {"Zero", "HexP", "BinP", "Hex", "Bin", "Dec", "Suffix"} THEN <<NumberItem(st, P, C)>>
              ELSE IF m = "Str" THEN <<LiteralItem(st, FALSE, P, C)>>
              ELSE IF m = "StrCR" THEN <<LiteralItem(Note(st, 110, P - 1, P, C - 1, C), FALSE, P, C)>>
              ELSE IF m = "Esc" THEN <<LiteralItem(Note(st, 161, st.eb, P, st.ec, C), FALSE, P, C)>>
              ELSE IF m \in {"EscCR", "EscX", "EscU0", "EscU"} THEN <<LiteralItem(Note(st, 162, st.eb, P, st.ec, C), FALSE, P, C)>>
              ELSE <<>>
        eos == Item("EndOfSource", P, P, C, C, st.line, P - st.lsb, C - st.lsc, 0, NoV, "", <<>>, P, P, C, C, TRUE, <<>>, FALSE, FALSE)
        empty == Item("Error", 0, 0, 0, 0, 1, 0, 0, 101, NoV, "", <<>>, 0, 0, 0, 0, FALSE, <<>>, FALSE, FALSE)
    IN IF P = 0 THEN <<empty>>
       ELSE st.toks \o it \o (IF g = "delta" THEN <<eos, eos>> ELSE <<>>)

RECURSIVE Run(_, _, _, _)
Run(g, s, i, st) == IF i > Len(s) THEN st ELSE Run(g, s, i + 1, Step(g, st, s[i]))

\* everything the automaton produces, comments included (for the tiling invariants)
LexAll(g, s) == Finish(g, Run(g, s, 1, Init0))
NotComment(it) == it.k # "Comment"
\* the token list a lexer of generation g must produce for the text s
Lex(g, s) == SelectSeq(LexAll(g, s), NotComment)

(* ---- exchange format (JSON): plain tokens in a short form, errors and unconstrained items long ---- *)
ItemT(it) == IF it.code = 0 /\ ~it.unc /\ ~it.opt
             THEN <<it.k, it.bs, it.be, it.cs, it.ce, it.ln, it.cb, it.cc, it.v, it.ty, it.by>>
             ELSE <<it.k, it.bs, it.be, it.cs, it.ce, it.ln, it.cb, it.cc, it.code, it.v, it.ty, it.by,
                    it.ls, it.le, it.lcs, it.lce, it.ex, it.alt, it.opt, it.unc>>
Items(items) == [i \in 1..Len(items) |-> ItemT(items[i])]

(***************************************************************************)
(* Does an item o observed on a real lexer of generation g,                *)
(*   o = <<kind, start, end, line, col, code, value, type, bytes>>         *)
(* (offsets in the lexer's own unit) satisfy the reference item it?        *)
(* full = FALSE compares kinds, lines, payloads and codes only.            *)
(***************************************************************************)
InSeq(x, sq) == \E i \in 1..Len(sq) : sq[i] = x
Satisfies(g, it, o, full) ==
    LET a == g = "alpha"
        st == IF a THEN it.cs ELSE it.bs
        en == IF a THEN it.ce ELSE it.be
        col == IF a THEN it.cc ELSE it.cb
        lst == IF a THEN it.lcs ELSE it.ls
        len == IF a THEN it.lce ELSE it.le
    IN IF it.code = 0
       THEN \/ /\ it.unc /\ o[1] = "Error" /\ o[6] = 162 /\ o[4] = it.ln
                /\ (full => lst <= o[2] /\ o[2] <= len)
            \/ /\ o[1] = it.k /\ o[6] = 0 /\ o[4] = it.ln
                /\ (full => o[2] = st /\ o[3] = en /\ o[5] = col)
                /\ o[7] = it.v /\ o[8] = it.ty
                /\ ((it.k \in {"Identifier", "Builtin", "CharLiteral"} \/ (it.k = "StringLiteral" /\ a)) => o[9] = it.by)
       ELSE /\ o[1] = "Error"
            /\ (o[6] = it.code \/ InSeq(o[6], it.alt) \/ (it.unc /\ o[6] = 162))
            /\ (it.code # 101 => /\ o[4] = it.ln
                                 /\ (full => IF it.ex THEN o[2] = st /\ o[3] = en /\ o[5] = col
                                                       ELSE lst <= o[2] /\ o[2] <= len))

(***************************************************************************)
(* Declarative consistency of the automaton's own output (checked by TLC   *)
(* on every enumerated text): the items tile the text.                     *)
(***************************************************************************)
Text(s, it) == SubSeq(s, it.ls + 1, it.le)
CountNL(s, n) == Cardinality({i \in 1..n : s[i] = 10})
LineStart(s, n) == LET nls == {i \in 1..n : s[i] = 10} IN IF nls = {} THEN 0 ELSE CHOOSE i \in nls : \A j \in nls : j <= i
CharsIn(s, n) == Cardinality({i \in 1..n : ~IsCont(s[i])})
Real(it) == it.k # "EndOfSource" /\ ~(it.code = 101)

Ordered(items) == \A k \in 1..(Len(items) - 1) : items[k].le <= items[k + 1].ls
WithinText(s, items) == \A k \in 1..Len(items) :
    LET it == items[k] IN /\ it.ls <= it.bs /\ it.bs <= it.be /\ it.be <= it.le /\ it.le <= Len(s)
                          /\ (Real(it) => it.ls < it.le)
Covering(s, items) == \A i \in 1..Len(s) :
    (\E k \in 1..Len(items) : items[k].ls < i /\ i <= items[k].le) \/ IsBlank(s[i])
Located(g, s, items) == \A k \in 1..Len(items) :
    LET it == items[k] IN
    Real(it) => /\ it.ln = 1 + CountNL(s, it.ls)
                /\ it.cb = it.bs - LineStart(s, it.bs)
                /\ (g = "alpha" => /\ it.cs = CharsIn(s, it.bs) /\ it.ce = CharsIn(s, it.be)
                                    /\ it.cc = it.cs - CharsIn(s, LineStart(s, it.bs)))
                /\ CountNL(s, it.le) = CountNL(s, it.ls)            \* no lexeme spans two lines
Spelled(g, s, items) == \A k \in 1..Len(items) :
    LET it == items[k]
        t == Text(s, it)
        follows == IF it.le < Len(s) THEN s[it.le + 1] ELSE 32
        HexDigits(x) == LET h == SelectSeq(x, IsHex) IN [i \in 1..Len(h) |-> HexVal(h[i])]
    IN /\ (it.k \in DOMAIN Spelling => t = Spelling[it.k] /\ (IsIdStart(t[1]) => ~IsIdCont(follows)))
       /\ (it.k = "BitInteger" /\ t[2] = 120 => /\ \A i \in 3..Len(t) : IsHex(t[i]) \/ t[i] = 95
                                                /\ it.v = W!Parse(HexDigits(SubSeq(t, 3, Len(t))), 16).v)
       /\ (it.k = "Identifier" => /\ t = it.by /\ IsIdStart(t[1]) /\ \A i \in 1..Len(t) : IsIdCont(t[i])
                                  /\ IsPlainIdentifier(g, t) /\ ~IsIdCont(follows) /\ follows # 33)
       /\ (it.k = "Builtin" => /\ t = it.by \o <<33>> /\ IsPlainIdentifier(g, it.by))
       /\ (it.k \in {"NakedDecimal", "BitInteger", "SuffixedInteger"} =>
              /\ IsDigit(t[1]) /\ \A i \in 1..Len(t) : IsIdCont(t[i])
              /\ ~IsIdCont(follows)
              /\ Len(it.v) = 16)
       /\ (it.k = "NakedDecimal" => /\ \A i \in 1..Len(t) : IsDigit(t[i]) \/ t[i] = 95
                                    /\ it.v = W!Parse([i \in 1..Len(SelectSeq(t, IsDigit)) |-> SelectSeq(t, IsDigit)[i] - 48], 10).v)
       /\ (it.k = "Comment" => /\ Len(t) >= 2 /\ t[1] = 47 /\ t[2] = 47 /\ \A i \in 1..Len(t) : t[i] # 10
                               /\ (follows = 10 \/ it.le = Len(s)))
       /\ (it.k \in {"StringLiteral", "CharLiteral"} /\ it.code = 0 =>
              /\ t[1] = t[Len(t)] /\ Len(t) >= 2 /\ t[1] = (IF it.k = "StringLiteral" THEN 34 ELSE 39))
Tiles(g, s, items) == /\ WithinText(s, items) /\ Ordered(items) /\ Covering(s, items)
                      /\ Located(g, s, items) /\ Spelled(g, s, items)
=============================================================================

SPECIFICATION TSpec
CONSTANTS
  MinN = 0
  MaxN = 0
  Kinds = {"c", "s", "f"}
  AllowSelf = TRUE
  AllowPtr = TRUE
  AllowConstPtr = FALSE
  AllPerms = FALSE
  ChainMode = FALSE
  Stepwise = FALSE
  Strict = FALSE
POSTCONDITION Accepted
CHECK_DEADLOCK FALSE

SPECIFICATION Spec
CONSTANTS
  TypeSeq <- TS2
  MaxVars = 1
  MaxStmts = 3
  Forms = {"tv", "bin", "as", "call", "idx", "cmp", "asgu", "asgt"}
  Rets = {"void"}
INVARIANTS ASound AUndet ASolution EmitCase
CHECK_DEADLOCK FALSE

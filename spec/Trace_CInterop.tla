--------------------------- MODULE Trace_CInterop ---------------------------
(***************************************************************************)
(* Trace validation for the interoperability family of C01 (impl -> spec), *)
(* in the style of Trace_Machine.  A recording holds, per program: the     *)
(* program in the exchange format of CInterop.tla (functions, some of them *)
(* `extern` instances of library functions, and the foreign instances that *)
(* exist on the C side), one `print` event per line the executed program   *)
(* wrote (decimal text converted to the 128-bit pattern) and its exit      *)
(* status.  TLC runs Machine.tla on MProg(program) -- the program plus the *)
(* meanings of its foreign functions -- and every logged event must be the *)
(* next observable event of the machine.  A program on which the machine   *)
(* meets undefined behaviour or runs out of fuel is trivial (TRIVIAL       *)
(* note, rest accepted unexamined).                                        *)
(*                                                                         *)
(* Honesty of the generator: a function that claims to be an instance of   *)
(* a library function (field `lib`) must BE Lib(name, lib), and the logged *)
(* signature of a foreign instance must be the one Lib gives; otherwise    *)
(* the recording is rejected with a STALE note (a tool error, not a        *)
(* finding).                                                               *)
(***************************************************************************)
EXTENDS CInterop, Json, IOUtils, TLCExt
CONSTANT Fuel

Rec == ndJsonDeserialize(IOEnv.TRACE)
VARIABLES l, m, prog, pi, phase
tvars == <<l, m, prog, pi, phase>>

Idle == [status |-> "idle"]
TInit == l = 1 /\ m = Idle /\ prog = <<>> /\ pi = 0 /\ phase = "idle"
Ev(e) == l <= Len(Rec) /\ Rec[l].ev = e

RECURSIVE RunToEvent(_, _)
RunToEvent(pg, mm) == IF mm.status # "run" \/ Len(mm.out) > 0 THEN mm ELSE RunToEvent(pg, MStep(pg, mm))

SameFn(f, g) == /\ f.params = g.params /\ f.ret = g.ret /\ f.body = g.body
                /\ (("res" \in DOMAIN g) <=> ("res" \in DOMAIN f)) /\ (("res" \in DOMAIN g) => f.res = g.res)
Honest(p) == /\ \A i \in 1..Len(p.fns) : ("lib" \in DOMAIN p.fns[i]) => SameFn(p.fns[i], Lib(p.fns[i].name, p.fns[i].lib))
             /\ \A i \in 1..Len(p.foreign) : LET g == Lib(p.foreign[i].name, p.foreign[i])
                                             IN p.foreign[i].params = g.params /\ p.foreign[i].ret = g.ret

TProg == /\ Ev("prog") /\ phase = "idle"
         /\ (IF Honest(Rec[l].p) THEN TRUE ELSE (PrintT(<<"STALE", ToJson([line |-> l])>>) /\ FALSE))
         /\ \E pg \in {MProg(Rec[l].p)} :
            \E m0 \in {MInit(pg, Fuel)} :
               /\ prog' = pg /\ m' = m0
               /\ (m0.status # "run" => PrintT(<<"TRIVIAL", ToJson([line |-> l, why |-> m0.status, detail |-> m0.why])>>))
         /\ pi' = l /\ phase' = "run" /\ l' = l + 1

TEvent ==
    /\ phase = "run" /\ l <= Len(Rec) /\ Rec[l].ev \in {"print", "exit"}
    /\ \E m2 \in {IF m.status # "run" THEN m ELSE RunToEvent(prog, m)} :
       LET last == Rec[l].ev = "exit"
       IN CASE m2.status \in {"ub", "fuel"} ->
                 /\ (m.status = "run" => PrintT(<<"TRIVIAL", ToJson([line |-> pi, why |-> m2.status, detail |-> m2.why])>>))
                 /\ m' = IF last THEN Idle ELSE [status |-> m2.status]
                 /\ phase' = (IF last THEN "idle" ELSE "run")
            [] m2.status \in {"illegal", "stuck"} \/ (m2.status \in {"run", "done"} /\ m2.bad # <<>>) ->
                 /\ PrintT(<<"MONITOR", ToJson([line |-> pi, status |-> m2.status, bad |-> m2.bad])>>)
                 /\ FALSE
            [] m2.status \in {"run", "done"} /\ Len(m2.out) > 0 ->
                 /\ Rec[l].ev = "print" /\ Shown(m2.out[1]) = Rec[l].v
                 /\ m' = [m2 EXCEPT !.out = Tail(@)] /\ phase' = "run"
            [] m2.status = "done" /\ Len(m2.out) = 0 ->
                 /\ Rec[l].ev = "exit" /\ Rec[l].code = m2.exit[1]
                 /\ m' = Idle /\ phase' = "idle"
    /\ l' = l + 1 /\ UNCHANGED <<pi, prog>>

TNext == TProg \/ TEvent
TSpec == TInit /\ [][TNext]_tvars
Accepted == LET d == TLCGet("stats").diameter - 1
            IN PrintT(<<"TRACE", ToJson([accepted |-> (d = Len(Rec)), matched |-> d, total |-> Len(Rec)])>>)
=============================================================================

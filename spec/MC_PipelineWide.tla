-------------------------- MODULE MC_PipelineWide --------------------------
(***************************************************************************)
(* C02 / C03 / C13 input space (a''): module sets WIDER than the bound of  *)
(* MC_Pipeline (which grows every set of <= 3 modules declaration by       *)
(* declaration): 4, 5 and 6 modules in the import topologies a driver with *)
(* per-module state can get wrong -- no imports, a chain, a ring through   *)
(* all modules, a ring of length 3 among more modules, one module that     *)
(* imports all others (5 imports in one module), all modules importing     *)
(* one, every module importing every other one, self-imports -- crossed    *)
(* with where the faults are (none / a lexical fault in the first or the   *)
(* last module / a syntax fault in the second / an unresolvable import in  *)
(* the third / two faults) and with which module holds `main`.             *)
(* The outcome the protocol prescribes is the one of MC_Pipeline!Expect    *)
(* (parse, expand, first failing surface check); the invariants I1..I5 of  *)
(* the protocol itself are model-checked by MC_Pipeline_*.cfg, here the    *)
(* sets are only built and emitted.                                        *)
(***************************************************************************)
EXTENDS MC_Pipeline

CONSTANT Sizes     \* numbers of modules

VARIABLE meta
Topologies == {"none", "chain", "ring", "ring3", "starout", "starin", "full", "self"}
FaultShapes == {"none", "lex-first", "lex-last", "parse-second", "badimp-third", "lex-last+parse-first"}

Pairs(n, topo) ==
    CASE topo = "none" -> {}
      [] topo = "chain" -> { <<i, i + 1>> : i \in 1..(n - 1) }
      [] topo = "ring" -> { <<i, i + 1>> : i \in 1..(n - 1) } \cup { <<n, 1>> }
      [] topo = "ring3" -> { <<1, 2>>, <<2, 3>>, <<3, 1>> }
      [] topo = "starout" -> { <<1, j>> : j \in 2..n }
      [] topo = "starin" -> { <<j, 1>> : j \in 2..n }
      [] topo = "full" -> { <<i, j>> \in (1..n) \X (1..n) : i # j }
      [] OTHER -> { <<i, i>> : i \in 1..n } \cup { <<i, i + 1>> : i \in 1..(n - 1) }
FaultOf(n, fs, m) ==
    CASE fs = "lex-first" /\ m = 1 -> "lex"
      [] fs = "lex-last" /\ m = n -> "lex"
      [] fs = "parse-second" /\ m = 2 -> "parse"
      [] fs = "lex-last+parse-first" /\ m = n -> "lex"
      [] fs = "lex-last+parse-first" /\ m = 1 -> "parse"
      [] OTHER -> "none"
\* every module: one public function (the one the others call) and one private one
ModuleOf(n, fs, m) == << Decl(OK, TRUE, TRUE, FaultOf(n, fs, m)), Decl(OK, FALSE, TRUE, "none") >>

WInit == \E n \in Sizes, topo \in Topologies, fs \in FaultShapes, mainpos \in 0..6 :
            /\ mainpos \in {0, 1, 2, n}
            /\ ~(topo = "full" /\ n > 4)
            /\ mods = [m \in 1..n |-> ModuleOf(n, fs, m)]
            /\ imports = Pairs(n, topo)
            /\ badimp = IF fs = "badimp-third" THEN {3} ELSE {}
            /\ meta = [topo |-> topo, faults |-> fs, main |-> mainpos]
            /\ phase = "run" /\ pc = 1 /\ outcome = None /\ ir = {} /\ firstfail = 0
WNext == UNCHANGED <<vars, meta>>
WSpec == WInit /\ [][WNext]_<<vars, meta>>

\* the expectation is well defined and names a module of the set
WSane == /\ Expect.ok = (Failing = {})
         /\ ~Expect.ok => (Expect.mod \in 1..N /\ Expect.codes # <<>>)
         /\ (meta.faults = "none") => Expect.ok
WEmit == PrintT(<<"CASE", ToJson([mods |-> [m \in 1..N |-> Shape(mods[m])],
                                  imports |-> SetToSortSeq(imports, PairLess),
                                  badimp |-> SetToSortSeq(badimp, <),
                                  meta |-> meta,
                                  expect |-> Expect])>>)
=============================================================================

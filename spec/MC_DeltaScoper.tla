--------------------------- MODULE MC_DeltaScoper ---------------------------
(* Case-emitting wrapper of DeltaScoper (TLC only): one CASE per call sequence of maximal length. *)
EXTENDS DeltaScoper, Json, TLCExt
EmitCase == (Len(calls) = MaxCalls) => PrintT(<<"CASE", ToJson([calls |-> calls, agree |-> agree])>>)
============================================================================

SPECIFICATION TSpec
CONSTANTS
  MaxMods = 5
  MaxDecls = 3
  ImportPositions = FALSE
  ImportTwice = FALSE
  Restricted = FALSE
  Dirs <- TraceDirs
  Strict = FALSE
POSTCONDITION Accepted
CHECK_DEADLOCK FALSE

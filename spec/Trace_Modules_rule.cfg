SPECIFICATION TSpec
CONSTANTS
  MaxMods = 5
  MaxDecls = 3
  Dirs <- TraceDirs
  Strict = FALSE
POSTCONDITION Accepted
CHECK_DEADLOCK FALSE

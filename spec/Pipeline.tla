------------------------------ MODULE Pipeline ------------------------------
(***************************************************************************)
(* C02 / C03 / C13 / C18 -- the driver protocol of the first generation.   *)
(*                                                                         *)
(* What is modelled: the calls `compile_to_ir_using_alpha` (src/main.rs)   *)
(* makes on a set of modules, in the order it makes them, and the poison   *)
(* algebra of src/alpha/error.rs on top-level declarations:                *)
(*                                                                         *)
(*   lex m, parse m      for every module in command-line order            *)
(*   expand              once, splices the public declarations of every    *)
(*                       imported module into the importer                 *)
(*   surface m           check_surface_level_errors, in order; the first   *)
(*                       module with an Error ends the run                 *)
(*   scope m, declare m, type m, analyze m, lint m, resolve m, generate m  *)
(*                       per module in order (analyze_and_resolve is one   *)
(*                       call of the driver; its stages are steps here)    *)
(*   link, done                                                            *)
(*                                                                         *)
(* Three parts (DESIGN.md 2.1):                                            *)
(*   Gen  grows every module set up to the bound: modules, declarations    *)
(*        (public or not, with a lexical fault, a syntax fault or none),   *)
(*        import pairs (also cyclic / self), unresolvable imports;         *)
(*   A    the protocol: every stage maps a declaration that is `ok` to     *)
(*        `ok`, `error(code of the stage)` or `poisoned`; anything else    *)
(*        stays as it is ("Poison(_) => self");                            *)
(*   R    the invariants I1..I4 below, from the property statement.        *)
(*                                                                         *)
(* The operators Order, SurfaceCodes, ModuleFails, ... are re-used by      *)
(* Trace_Pipeline.tla to validate recordings of the real driver.           *)
(***************************************************************************)
EXTENDS Naturals, Sequences, FiniteSets, TLC

CONSTANTS MaxModules,        \* modules per set
          MaxDecls,          \* own declarations per module
          MaxTotal,          \* own declarations per set
          MaxImports,        \* resolved import pairs per set
          MaxBadImports,     \* modules with an unresolvable import per set
          ExportKeepsPoison, \* FALSE: expander.rs `export(Declaration::Poison(_)) = None`
          PoisonNeedsRoot    \* TRUE: a stage yields Poisoned only downstream of an Error of the same module

(***************************************************************************)
(* Poison algebra (error.rs: Poisonable<T> = Result<T, Poison>)            *)
(***************************************************************************)
OK == [t |-> "ok", c |-> 0]
Err(c) == [t |-> "error", c |-> c]
Poisoned == [t |-> "poisoned", c |-> 0]

\* one representative code per stage (docs/errors.md): the code identifies the stage that rejected
StageCode == [lex |-> 110, parse |-> 300, expand |-> 470, scope |-> 402,
              declare |-> 421, type |-> 500, analyze |-> 530]
PoisonStages == {"scope", "declare", "type", "analyze"}

Decl(p, pub, own, fault) == [p |-> p, pub |-> pub, own |-> own, fault |-> fault]
Faults == {"none", "lex", "parse"}

(***************************************************************************)
(* The order of calls for n modules: a sequence of <<stage, module>>.      *)
(***************************************************************************)
PerModule == <<"scope", "declare", "type", "analyze", "lint", "resolve", "generate">>
RECURSIVE FrontCalls(_, _), Surf(_, _), Back(_, _)
FrontCalls(m, n) == IF m > n THEN <<>> ELSE <<<<"lex", m>>, <<"parse", m>>>> \o FrontCalls(m + 1, n)
Surf(m, n) == IF m > n THEN <<>> ELSE <<<<"surface", m>>>> \o Surf(m + 1, n)
Back(m, n) == IF m > n THEN <<>>
              ELSE [x \in 1..Len(PerModule) |-> <<PerModule[x], m>>] \o Back(m + 1, n)
Order(n) == FrontCalls(1, n) \o <<<<"expand", 0>>>> \o Surf(1, n) \o Back(1, n) \o <<<<"link", 0>>>>

(***************************************************************************)
(* Verdicts of the collecting stages, as functions of a declaration list   *)
(***************************************************************************)
ErrorIdx(ds) == { i \in 1..Len(ds) : ds[i].p.t = "error" }
PoisonedIdx(ds) == { i \in 1..Len(ds) : ds[i].p.t = "poisoned" }
RECURSIVE CodesFrom(_, _)
CodesFrom(ds, i) == IF i > Len(ds) THEN <<>>
                    ELSE (IF ds[i].p.t = "error" THEN <<ds[i].p.c>> ELSE <<>>) \o CodesFrom(ds, i + 1)
\* resolver.rs check_surface_level_errors: the Errors among the top-level declarations, Poisoned is skipped
SurfaceCodes(ds) == CodesFrom(ds, 1)
\* resolver.rs resolve/accumulate: a module fails iff some declaration is not ok; From<Poison> for Errors
\* turns Error into one diagnostic and Poisoned into NONE
ModuleFails(ds) == \E i \in 1..Len(ds) : ds[i].p.t # "ok"
ResolveCodes(ds) == CodesFrom(ds, 1)
\* "cascade has a root"
HasRoot(ds) == PoisonedIdx(ds) # {} => ErrorIdx(ds) # {}

(***************************************************************************)
(* State                                                                   *)
(***************************************************************************)
VARIABLES phase,     \* "gen" | "run" | "done"
          mods,      \* sequence of declaration lists (command-line order)
          imports,   \* resolved import pairs <<includer, includee>>
          badimp,    \* modules with an unresolvable import
          pc,        \* index of the next call in Order(Len(mods))
          outcome,   \* [t |-> "none" | "success" | "failure", codes, ir]
          ir,        \* modules for which IR was generated
          firstfail  \* 0 or the module whose check ended the run
vars == <<phase, mods, imports, badimp, pc, outcome, ir, firstfail>>

None == [t |-> "none", codes |-> <<>>, ir |-> {}]
Success(s) == [t |-> "success", codes |-> <<>>, ir |-> s]
Failure(cs) == [t |-> "failure", codes |-> cs, ir |-> {}]

N == Len(mods)
Total == LET RECURSIVE Sum(_)
             Sum(m) == IF m > N THEN 0 ELSE Len(mods[m]) + Sum(m + 1)
         IN Sum(1)

Init == /\ phase = "gen" /\ mods = <<>> /\ imports = {} /\ badimp = {}
        /\ pc = 1 /\ outcome = None /\ ir = {} /\ firstfail = 0

(***************************************************************************)
(* Gen                                                                     *)
(***************************************************************************)
GenModule == /\ phase = "gen" /\ N < MaxModules /\ imports = {} /\ badimp = {}
             /\ mods' = Append(mods, <<>>)
             /\ UNCHANGED <<phase, imports, badimp, pc, outcome, ir, firstfail>>
\* declarations are added to the last module only (canonical order of construction)
GenDecl == /\ phase = "gen" /\ N > 0 /\ Len(mods[N]) < MaxDecls /\ Total < MaxTotal
           /\ imports = {} /\ badimp = {}
           /\ \E pub \in BOOLEAN, f \in Faults :
                mods' = [mods EXCEPT ![N] = Append(@, Decl(OK, pub, TRUE, f))]
           /\ UNCHANGED <<phase, imports, badimp, pc, outcome, ir, firstfail>>
\* import pairs are added in increasing order (a set is built once)
PairLess(a, b) == a[1] < b[1] \/ (a[1] = b[1] /\ a[2] < b[2])
GenImport == /\ phase = "gen" /\ N > 0 /\ badimp = {} /\ Cardinality(imports) < MaxImports
             /\ \E i \in 1..N, j \in 1..N :
                  /\ \A q \in imports : PairLess(q, <<i, j>>)
                  /\ imports' = imports \cup {<<i, j>>}
             /\ UNCHANGED <<phase, mods, badimp, pc, outcome, ir, firstfail>>
GenBadImport == /\ phase = "gen" /\ N > 0 /\ Cardinality(badimp) < MaxBadImports
                /\ \E m \in 1..N : /\ \A q \in badimp : q < m
                                  /\ badimp' = badimp \cup {m}
                /\ UNCHANGED <<phase, mods, imports, pc, outcome, ir, firstfail>>
Start == /\ phase = "gen" /\ N > 0
         /\ phase' = "run"
         /\ UNCHANGED <<mods, imports, badimp, pc, outcome, ir, firstfail>>

(***************************************************************************)
(* A -- the calls                                                          *)
(***************************************************************************)
Call == Order(N)[pc]
Advance == pc' = pc + 1
Finish(o, m) == /\ outcome' = o /\ phase' = "done" /\ firstfail' = m /\ UNCHANGED pc

\* lexer::lex never fails: invalid lexemes are Err tokens inside the token list
Lex == /\ Call[1] = "lex" /\ Advance
       /\ UNCHANGED <<phase, mods, imports, badimp, outcome, ir, firstfail>>
\* parser::parse: a declaration with an invalid lexeme or a syntax fault becomes Poison::Error
Parse == /\ Call[1] = "parse" /\ Advance
         /\ LET m == Call[2]
                P(d) == CASE d.fault = "lex" -> [d EXCEPT !.p = Err(StageCode.lex)]
                          [] d.fault = "parse" -> [d EXCEPT !.p = Err(StageCode.parse)]
                          [] OTHER -> d
            IN mods' = [mods EXCEPT ![m] = [i \in 1..Len(@) |-> P(@[i])]]
         /\ UNCHANGED <<phase, imports, badimp, outcome, ir, firstfail>>
\* expander::expand: unresolved imports become Poison::Error(E470); public declarations of the
\* includee are spliced in front of the includer's own declarations, never re-exported
Export(d) == IF ~d.pub \/ ~d.own THEN <<>>
             ELSE IF d.p.t = "ok" THEN <<Decl(OK, FALSE, FALSE, "none")>>
             ELSE IF ExportKeepsPoison THEN <<Decl(Poisoned, FALSE, FALSE, "none")>>
             ELSE <<>>
RECURSIVE Exports(_, _)
Exports(ds, i) == IF i > Len(ds) THEN <<>> ELSE Export(ds[i]) \o Exports(ds, i + 1)
RECURSIVE Spliced(_, _)
Spliced(m, j) == IF j > N THEN <<>>
                 ELSE (IF <<m, j>> \in imports /\ m # j THEN Exports(mods[j], 1) ELSE <<>>) \o Spliced(m, j + 1)
Expand == /\ Call[1] = "expand" /\ Advance
          /\ mods' = [m \in 1..N |->
                        (IF m \in badimp THEN <<Decl(Err(StageCode.expand), FALSE, TRUE, "none")>> ELSE <<>>)
                        \o Spliced(m, 1) \o mods[m]]
          /\ UNCHANGED <<phase, imports, badimp, outcome, ir, firstfail>>
Surface == /\ Call[1] = "surface"
           /\ LET cs == SurfaceCodes(mods[Call[2]])
              IN IF cs # <<>> THEN Finish(Failure(cs), Call[2])
                 ELSE Advance /\ UNCHANGED <<phase, outcome, firstfail>>
           /\ UNCHANGED <<mods, imports, badimp, ir>>
\* a stage that can reject: ok -> ok | error(code of the stage) | poisoned; not-ok stays
StageResults(ds, s) ==
    { f \in [1..Len(ds) -> {"keep", "err", "poison"}] :
        /\ \A i \in 1..Len(ds) : ds[i].p.t # "ok" => f[i] = "keep"
        /\ PoisonNeedsRoot =>
             ((\E i \in 1..Len(ds) : f[i] = "poison")
                => (\E i \in 1..Len(ds) : f[i] = "err" \/ ds[i].p.t = "error")) }
Apply(ds, s, f) == [i \in 1..Len(ds) |->
                      CASE f[i] = "err" -> [ds[i] EXCEPT !.p = Err(StageCode[s])]
                        [] f[i] = "poison" -> [ds[i] EXCEPT !.p = Poisoned]
                        [] OTHER -> ds[i]]
Stage == /\ Call[1] \in PoisonStages /\ Advance
         /\ \E f \in StageResults(mods[Call[2]], Call[1]) :
              mods' = [mods EXCEPT ![Call[2]] = Apply(@, Call[1], f)]
         /\ UNCHANGED <<phase, imports, badimp, outcome, ir, firstfail>>
Lint == /\ Call[1] = "lint" /\ Advance
        /\ UNCHANGED <<phase, mods, imports, badimp, outcome, ir, firstfail>>
Resolve == /\ Call[1] = "resolve"
           /\ LET ds == mods[Call[2]]
              IN IF ModuleFails(ds) THEN Finish(Failure(ResolveCodes(ds)), Call[2])
                 ELSE Advance /\ UNCHANGED <<phase, outcome, firstfail>>
           /\ UNCHANGED <<mods, imports, badimp, ir>>
Generate == /\ Call[1] = "generate" /\ Advance
            /\ ir' = ir \cup {Call[2]}
            /\ UNCHANGED <<phase, mods, imports, badimp, outcome, firstfail>>
Link == /\ Call[1] = "link"
        /\ Finish(Success(ir), 0)
        /\ UNCHANGED <<mods, imports, badimp, ir>>

Run == phase = "run" /\ (Lex \/ Parse \/ Expand \/ Surface \/ Stage \/ Lint \/ Resolve \/ Generate \/ Link)
Next == GenModule \/ GenDecl \/ GenImport \/ GenBadImport \/ Start \/ Run
Spec == Init /\ [][Next]_vars

(***************************************************************************)
(* R -- invariants                                                         *)
(***************************************************************************)
\* I1: exactly two ways to end; a failure carries at least one diagnostic
I1 == /\ phase = "done" => outcome.t \in {"success", "failure"}
      /\ phase # "done" => outcome.t = "none"
      /\ outcome.t = "failure" => outcome.codes # <<>>
      /\ outcome.t = "success" => outcome.ir = 1..N
\* I2: Poisoned never appears without an Error in the same module
I2 == \A m \in 1..N : HasRoot(mods[m])
\* I3: an invalid lexeme leads to Failure; its code is among the diagnostics unless the check of an
\* EARLIER module ended the run first (the naive form, without the exception, is refuted by TLC
\* for two modules: MC_Pipeline_naive.cfg)
LexFaulty == { m \in 1..N : \E i \in 1..Len(mods[m]) : mods[m][i].own /\ mods[m][i].fault = "lex" }
InCodes(c) == \E x \in 1..Len(outcome.codes) : outcome.codes[x] = c
I3 == (phase = "done" /\ LexFaulty # {}) =>
         /\ outcome.t = "failure"
         /\ InCodes(StageCode.lex) \/ (firstfail # 0 /\ \A m \in LexFaulty : firstfail < m)
I3Naive == (phase = "done" /\ LexFaulty # {}) => (outcome.t = "failure" /\ InCodes(StageCode.lex))
\* I4: calls are made in the fixed order, IR exists only for modules whose resolve call succeeded,
\* and the run never gets stuck before the end
I4 == /\ phase \in {"gen", "run", "done"}
      /\ phase = "gen" => pc = 1
      /\ phase # "gen" => pc \in 1..Len(Order(N))
      /\ \A m \in ir : \E x \in 1..(pc - 1) : Order(N)[x] = <<"resolve", m>>
      /\ outcome.t = "success" => Order(N)[pc] = <<"link", 0>>
      /\ phase = "run" => ENABLED Run
\* a valid set ends in Success (fault-free declarations, resolvable imports, no stage rejects)
Clean == /\ badimp = {}
         /\ \A m \in 1..N : \A i \in 1..Len(mods[m]) : mods[m][i].p.t = "ok" /\ mods[m][i].fault = "none"
I5 == (phase = "done" /\ Clean) => outcome.t = "success"
=============================================================================

SPECIFICATION Spec
CONSTANTS
  Planes = 4
INVARIANT AliasOK
CHECK_DEADLOCK FALSE

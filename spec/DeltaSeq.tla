------------------------------ MODULE DeltaSeq ------------------------------
(* C15: the exhaustive family "all token sequences up to a small length".  Gen only: every sequence of
   <= MaxSeq tokens over the lexer's token alphabet is emitted once; the harness wraps it in each context
   and runs the real front end on it in an isolated worker.  The rule for these inputs is the part of R
   that needs no grammar: no crash, buffer protocol respected, outcome accepted-without-diagnostics or
   rejected-with-codes, and rejected whenever the sequence contains the invalid lexeme. *)
EXTENDS Naturals, Sequences, TLC, Json

CONSTANTS MaxSeq
Alphabet == {"(", ")", "{", "}", "[", "]", "<", ">", "|", "&", "^", "!", "_", "+", "-", "*", "/", "%", ":", ";", ".", ",",
             "=", "==", "!=", ">=", "<=", "<<", ">>", "->", "|:", "..",
             "fn", "var", "const", "if", "goto", "loop", "return", "else", "cast", "as", "import", "pub", "extern",
             "struct", "word8", "word64", "ty", "id", "bi", "lit", "0x1F", "suf", "chr", "true", "str", "bad"}
\* the last four (dimension audit): a body after a declaration that failed, the top level right after the closed body
\* zone of a public function, an expression cut by the end of the input, the value of a public constant between
\* two private zones
Contexts == <<"top", "body", "stmt", "type", "param", "member", "cond", "pubbody",
              "aftererr", "afterpub", "eofexpr", "pubconst">>

VARIABLES seq, fin
Init == seq = <<>> /\ fin = FALSE
Grow == ~fin /\ Len(seq) < MaxSeq /\ \E t \in Alphabet : seq' = Append(seq, t) /\ fin' = FALSE
Stop == ~fin /\ fin' = TRUE /\ seq' = seq
Next == Grow \/ Stop
Spec == Init /\ [][Next]_<<seq, fin>>

HasBad == \E i \in 1..Len(seq) : seq[i] = "bad"
EmitSeq == fin => PrintT(<<"CASE", ToJson([toks |-> seq, badlex |-> HasBad])>>)
EmitContexts == (seq = <<>> /\ ~fin) => PrintT(<<"CTX", ToJson(Contexts)>>)
=============================================================================

SPECIFICATION Spec
CONSTANTS
  RepAll = TRUE
  Mode = "mc"
  MaxNodes = 5
  Enabled = {"Module", "Fn", "FCall", "Array", "Structural", "FieldFull", "FieldShort", "Deref", "Idx", "Mem", "Len", "Int"}
  FlagSets <- FlagSets_none
  VarForms <- VarForms_init
  FnNames = {"f"}
  ParamNames = {"p"}
  VarNames = {"x"}
  LabelNames = {"l"}
  GotoNames = {"l"}
  MemberNames = {"m", "n"}
  TypeNames = {"S"}
  ConstNames = {"N"}
  Builtins = {"print"}
  PrimTypes = {"u8"}
  WordSizes = {8}
  Files <- Files_one
  IntLits <- IntLits_one
  CharLits <- CharLits_one
  StrLits <- StrLits_one
  ArrayLens <- ArrayLens_one
  AddOps = {"+"}
  MulOps = {"*"}
  BitOps = {"&"}
  ShiftOps = {"<<"}
  UnOps = {"-"}
  CmpOps = {"=="}
  MaxDecls = 1
  MaxParams = 0
  MaxMembers = 0
  MaxStmts = 0
  MaxBlock = 0
  MaxArgs = 3
  MaxElems = 3
  MaxFields = 2
  MaxSteps = 2
  Addrs = {0}
  SetAddrs = {0}
  LenAddrs = {0}
  TrailingCommas = {FALSE}
  LooseMembers = FALSE
INVARIANTS ClassesKnown EmitFaults Accepted
CHECK_DEADLOCK FALSE

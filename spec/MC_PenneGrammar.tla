-------------------------- MODULE MC_PenneGrammar --------------------------
(***************************************************************************)
(* Model-checking / case-emitting wrapper of PenneGrammar (TLC only): the  *)
(* literal alphabets (spelling hints + values computed by TLC) and the     *)
(* CASE line printed for every completed derivation.  The .cfg files       *)
(* MC_PenneGrammar_<focus>_<tier>.cfg are written by checks/grammar_cfgs.py*)
(***************************************************************************)
EXTENDS PenneGrammar, Json, TLCExt

W == INSTANCE Wide

(* ---- integer literals: value (16 limbs, little endian) from the digits in their base ---- *)
ILit(base, digits, seps, suffix) ==
    [v |-> W!Parse(digits, base).v, suffix |-> suffix,
     h |-> [base |-> base, digits |-> digits, seps |-> seps]]
Dec(digits) == ILit(10, digits, <<>>, "")
I_0 == Dec(<<0>>)
I_1 == Dec(<<1>>)
I_2 == Dec(<<2>>)
I_128 == Dec(<<1, 2, 8>>)
I_500M == ILit(10, <<5, 0, 0, 0, 0, 0, 0, 0, 0>>, <<3, 6>>, "")                    \* 500_000_000
I_hex == ILit(16, <<15, 11, 4, 9, 3, 4, 15, 15>>, <<>>, "")                       \* 0xfb4934ff
I_hex0 == ILit(16, <<0>>, <<>>, "")                                               \* 0x0
I_bin == ILit(2, <<1, 0, 0, 0, 0, 0, 0, 1>>, <<4>>, "")                           \* 0b1000_0001
I_big == ILit(16, <<4, 0, 0, 0, 0, 0, 0, 0, 0, 0, 0, 0, 0, 0, 0, 0, 0, 0>>, <<>>, "")  \* 0x400000000000000000
\* 2^127 - 1, 2^127, 2^128 - 1 in decimal
I_imax == Dec(<<1,7,0,1,4,1,1,8,3,4,6,0,4,6,9,2,3,1,7,3,1,6,8,7,3,0,3,7,1,5,8,8,4,1,0,5,7,2,7>>)
I_imin == Dec(<<1,7,0,1,4,1,1,8,3,4,6,0,4,6,9,2,3,1,7,3,1,6,8,7,3,0,3,7,1,5,8,8,4,1,0,5,7,2,8>>)
I_umax == Dec(<<3,4,0,2,8,2,3,6,6,9,2,0,9,3,8,4,6,3,4,6,3,3,7,4,6,0,7,4,3,1,7,6,8,2,1,1,4,5,5>>)
Suffixes == {"i8", "i16", "i32", "i64", "i128", "u8", "u16", "u32", "u64", "u128", "usize"}
I_suffixed == {ILit(10, <<1, 7>>, <<>>, s) : s \in Suffixes}
               \cup {ILit(10, <<0>>, <<>>, "u8"), ILit(16, <<15, 15>>, <<>>, "u8"), ILit(2, <<1, 0, 1>>, <<>>, "i32"),
                     ILit(10, <<1, 2, 8>>, <<>>, "i8")}
IntLits_one == {I_1}
IntLits_two == {I_1, I_128}
IntLits_all == {I_0, I_1, I_2, I_128, I_500M, I_hex, I_hex0, I_bin, I_big, I_imax, I_imin, I_umax} \cup I_suffixed
ArrayLens_one == {[v |-> I_2.v, h |-> I_2.h]}
\* two different lengths: nested array types with unequal dimensions ([2][128]T) in the types focus
ArrayLens_two == {[v |-> l.v, h |-> l.h] : l \in {I_2, I_128}}
ArrayLens_all == {[v |-> l.v, h |-> l.h] : l \in {I_0, I_2, I_128, I_500M}}

(* ---- characters and strings: what is written (items) and the bytes it denotes ---- *)
Ch(c) == [c |-> c]
Esc(e) == [e |-> e]
EscX(d) == [e |-> "x", d |-> d]
EscU(d) == [e |-> "u", d |-> d]
Raw(bytes) == [raw |-> bytes]
RECURSIVE HexVal(_, _)
HexVal(d, i) == IF i = 0 THEN 0 ELSE (16 * HexVal(d, i - 1)) + d[i]
Utf8(cp) == IF cp < 128 THEN <<cp>>
            ELSE IF cp < 2048 THEN <<192 + (cp \div 64), 128 + (cp % 64)>>
            ELSE IF cp < 65536 THEN <<224 + (cp \div 4096), 128 + ((cp \div 64) % 64), 128 + (cp % 64)>>
            ELSE <<240 + (cp \div 262144), 128 + ((cp \div 4096) % 64), 128 + ((cp \div 64) % 64), 128 + (cp % 64)>>
ItemBytes(it) ==
    IF "c" \in DOMAIN it THEN <<it.c>>
    ELSE IF "raw" \in DOMAIN it THEN it.raw
    ELSE CASE it.e = "n" -> <<10>> [] it.e = "r" -> <<13>> [] it.e = "t" -> <<9>> [] it.e = "0" -> <<0>>
           [] it.e = "\\" -> <<92>> [] it.e = "'" -> <<39>> [] it.e = "\"" -> <<34>>
           [] it.e = "x" -> <<HexVal(it.d, Len(it.d))>>
           [] it.e = "u" -> Utf8(HexVal(it.d, Len(it.d)))
Piece(items) == [bytes |-> Concat([i \in 1..Len(items) |-> ItemBytes(items[i])]), h |-> items]
Str1(items) == [pieces |-> <<Piece(items)>>]
CharLit(item) == [v |-> ItemBytes(item)[1], h |-> item]
CharLits_one == {CharLit(Ch(97))}
CharLits_all == {CharLit(Ch(97)), CharLit(Ch(32)), CharLit(Ch(34)), CharLit(Esc("n")), CharLit(Esc("0")), CharLit(Esc("'")),
                 CharLit(Esc("\\")), CharLit(EscX(<<7, 15>>)), CharLit(EscX(<<10, 3>>))}
S_hi == Str1(<<Ch(72), Ch(105)>>)
S_empty == Str1(<<>>)
\* "to \u{20ac}5 or \xA3!\0"   (docs/syntax.md)
S_esc == Str1(<<Ch(116), Ch(111), Ch(32), EscU(<<2, 0, 10, 12>>), Ch(53), Ch(32), Ch(111), Ch(114), Ch(32), EscX(<<10, 3>>), Ch(33), Esc("0")>>)
S_ctl == Str1(<<Esc("t"), Esc("r"), Esc("n"), Esc("\\"), Ch(47), Ch(47), Ch(123)>>)       \* "\t\r\n\\//{"
S_quoted == Str1(<<Ch(97), Esc("\""), Ch(98), Esc("'"), Ch(39), Ch(99)>>)                 \* "a\"b\''c"
S_endq == Str1(<<Ch(113), Esc("\"")>>)                                                    \* "q\""
S_raw == Str1(<<Ch(99), Raw(<<195, 169>>), Raw(<<226, 130, 172>>)>>)                      \* "c" e-acute euro, written raw
S_two == [pieces |-> <<Piece(<<Ch(97)>>), Piece(<<Ch(98), Esc("n")>>)>>]                  \* "a" "b\n"
S_three == [pieces |-> <<Piece(<<>>), Piece(<<Ch(120)>>), Piece(<<Esc("0")>>)>>]          \* "" "x" "\0"
StrLits_one == {S_hi}
StrLits_all == {S_hi, S_empty, S_esc, S_ctl, S_quoted, S_endq, S_raw, S_two, S_three}
(* ---- bytes of every class: each control byte, 0x7f, some >= 0x80, quote, apostrophe, backslash ---- *)
SpecialBytes == (0..31) \cup {34, 39, 92, 127, 128, 163, 255}
HexOf(b) == <<b \div 16, b % 16>>
Follows == {<<>>, <<Ch(97)>>, <<Ch(49)>>, <<Ch(122)>>}          \* end of the string, 'a', '1' (hexadecimal digits), 'z'
SimpleEscapes == {"n", "r", "t", "0", "\\", "'", "\""}
UEscapes == {<<1>>, <<1, 15>>, <<7, 15>>, <<14, 9>>, <<2, 0, 10, 12>>, <<1, 15, 6, 0, 0>>}   \* \u{1} \u{1f} \u{7f} \u{e9} \u{20ac} \u{1f600}
StrLits_bytes ==
    {Str1(<<EscX(HexOf(b))>> \o f) : b \in SpecialBytes, f \in Follows}
    \cup {Str1(<<[e |-> "x", d |-> HexOf(b), up |-> TRUE]>> \o f) : b \in {10, 27, 163, 255}, f \in Follows}
    \cup {Str1(<<Ch(120), EscX(HexOf(b)), EscX(HexOf(c))>>) : b \in {1, 127}, c \in {2, 255}}
    \cup {Str1(<<Esc(e)>> \o f) : e \in SimpleEscapes, f \in Follows}
    \cup {Str1(<<EscU(d)>> \o f) : d \in UEscapes, f \in Follows}
(* ---- long literals: an escape sequence next to every column where a writer of source text might wrap a line ---- *)
Pad(n) == [i \in 1..n |-> Ch(97 + (i % 23))]
WrapWidths == {64, 72, 76, 80, 100, 120, 128, 144, 256}
LongLens == UNION {(w - 4)..(w + 1) : w \in WrapWidths}
LongEscapes == {Esc("n"), Esc("\\"), Esc("\""), EscX(<<10, 3>>), EscU(<<2, 0, 10, 12>>), Raw(<<226, 130, 172>>)}
StrLits_long == {Str1(Pad(n) \o <<e>> \o f) : n \in LongLens, e \in LongEscapes, f \in {<<>>, <<Ch(122), Ch(122)>>}}
                  \cup {[pieces |-> <<Piece(Pad(n)), Piece(<<Esc("n")>> \o Pad(n))>>] : n \in {70, 71, 72, 73}}
CharLits_bytes == {CharLit(EscX(HexOf(b))) : b \in SpecialBytes} \cup {CharLit(Esc(e)) : e \in SimpleEscapes}
                    \cup {CharLit([e |-> "x", d |-> HexOf(b), up |-> TRUE]) : b \in {10, 255}}
F_a == Piece(<<Ch(97), Ch(46), Ch(112), Ch(110)>>)                                        \* "a.pn"
F_v == Piece(<<Ch(118), Ch(58), Ch(108), Ch(47), Ch(105), Ch(111), Ch(46), Ch(112), Ch(110)>>)  \* "v:l/io.pn"
Files_one == {F_a}
Files_all == {F_a, F_v}

FlagSets_none == {[pub |-> FALSE, extern |-> FALSE]}
FlagSets_all == [pub : BOOLEAN, extern : BOOLEAN]
VarForms_all == [hasty : BOOLEAN, hase : BOOLEAN]
VarForms_init == {[hasty |-> FALSE, hase |-> TRUE]}
VarForms_doc == {[hasty |-> FALSE, hase |-> TRUE], [hasty |-> TRUE, hase |-> TRUE], [hasty |-> TRUE, hase |-> FALSE]}

\* one line per completed derivation: what is written, and the tree it denotes
EmitCase == Complete => PrintT(<<"CASE", ToJson([toks |-> toks, tree |-> Tree(pre), n |-> Len(pre)])>>)
\* sizing aid (work/grammar-scratch/size.py): one short line per completed derivation
CountCase == Complete => PrintT("C")
\* shorthand fields must be recognisable when the tree is unparsed (PenneAst!FieldToks)
\* (the `fields` focus gives a member and a variable the same name; it derives references with an address only,
\* `m: &m`, which is never a shorthand)
ASSUME MemberNames \cap VarNames = {} \/ ("FieldShort" \notin Enabled /\ 0 \notin Addrs)
=============================================================================

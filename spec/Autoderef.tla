----------------------------- MODULE Autoderef -----------------------------
(***************************************************************************)
(* A (i) for C08 -- the step insertion of src/alpha/typer.rs as state      *)
(* machines over (current type, remaining steps):                          *)
(*                                                                         *)
(*   DerefRun   Reference::autoderef, used for every reference that is     *)
(*              READ (initialisers, operands, call arguments).  One loop   *)
(*              iteration per LoopStep, then the tail that decides whether *)
(*              an address is taken (Tail).                                *)
(*   AssignRun  analyze_assignment_steps, used for the reference on the    *)
(*              left of `=`.                                               *)
(*                                                                         *)
(* Both produce the sequence of taken steps                                *)
(*   "deref"  (Autoderef)      "view" (Autoview)                           *)
(*   "dsv"    (Autodeslice ArrayByView)   "dsp" (Autodeslice ArrayByPointer)*)
(*   "elem"   (Element)        "mem"  (Member)                             *)
(* which analyzer/mutability.rs scans (NeedsOuter).  The two `panic!` arms *)
(* of the Rust function are outcomes of the model ("panic-noautoderef",    *)
(* "panic-slicepointer").                                                  *)
(*                                                                         *)
(* Paths are sequences of "i" (an index) and member names.  Types are the  *)
(* terms of TypeRules.tla; the members of the declared structures are the  *)
(* constant table Members.                                                 *)
(***************************************************************************)
EXTENDS TypeRules

I32t == P("i32")
\* struct S { m: i32, a: [2]i32 }   struct SP { p: &i32, m: i32 }   word64 W { m: i32, n: i32 }
\* struct SS { s: S, q: &S }
Members(name) ==
    CASE name = "S"  -> [m |-> I32t, a |-> Arr("2", I32t)]
      [] name = "SP" -> [p |-> Ptr(I32t), m |-> I32t]
      [] name = "W"  -> [m |-> I32t, n |-> I32t]
      [] name = "SS" -> [s |-> <<"struct", "S">>, q |-> Ptr(<<"struct", "S">>)]
MemberNames(t) == IF Kind(t) \in {"struct", "word"} THEN DOMAIN Members(t[2]) ELSE {}

MAX_ADDRESS_DEPTH == 127
MAX_STEPS == 7 + 127            \* MAX_REFERENCE_DEPTH + MAX_ADDRESS_DEPTH; never reached by our paths

ElemOf(t) == CASE Kind(t) = "arr" -> Elem(t)
               [] Kind(t) \in {"slice", "sptr", "endless"} -> Rest(t)
               [] OTHER -> <<>>
RECURSIVE FullyDeref(_)
FullyDeref(t) == IF Kind(t) \in {"ptr", "view"} THEN FullyDeref(Rest(t)) ELSE t

(***************************************************************************)
(* Reference::autoderef -- the loop.  st = [cur, avail, taken, out].       *)
(***************************************************************************)
LoopStep(st) ==
    LET cur == st.cur
        av  == st.avail
    IN IF av = <<>> THEN [st EXCEPT !.out = "done"]
       ELSE LET h == Head(av) IN
         CASE Kind(cur) = "ptr"  -> [st EXCEPT !.taken = Append(@, "deref"), !.cur = Rest(cur)]
           [] Kind(cur) = "view" -> [st EXCEPT !.taken = Append(@, "view"), !.cur = Rest(cur)]
           [] Kind(cur) = "arr" /\ h = "i" ->
                [st EXCEPT !.taken = Append(@, "elem"), !.cur = Elem(cur), !.avail = Tail(av)]
           [] Kind(cur) = "slice" /\ h = "i" ->
                [st EXCEPT !.taken = @ \o <<"dsv", "elem">>, !.cur = Rest(cur), !.avail = Tail(av)]
           [] Kind(cur) = "sptr" /\ h = "i" ->
                [st EXCEPT !.taken = @ \o <<"dsp", "elem">>, !.cur = Rest(cur), !.avail = Tail(av)]
           [] Kind(cur) \in {"struct", "word"} /\ h # "i" /\ h \in MemberNames(cur) ->
                [st EXCEPT !.taken = Append(@, "mem"), !.cur = Members(cur[2])[h], !.avail = Tail(av)]
           [] OTHER -> [st EXCEPT !.out = "panic-noautoderef"]

RECURSIVE Loop(_, _)
Loop(st, fuel) == IF st.out # "run" \/ fuel = 0 THEN st ELSE Loop(LoopStep(st), fuel - 1)

\* value_type.rs can_coerce_into / can_coerce_address_into, on the types used here
CoerceInto(a, b) == \/ (Kind(a) = "arr" /\ b = Slice(Elem(a)))
                    \/ (Kind(a) = "struct" /\ b = View(a))
CoerceAddressInto(a, b) == Kind(a) = "arr" /\ b = SPtr(Elem(a))

\* value_type.rs can_autoderef_into / can_subautoderef_into: analyze_deref_expression aims for the
\* contextual type only if the known type of the reference is, or can autoderef into, it.
RECURSIVE SubAuto(_, _)
SubAuto(x, y) ==
    IF Kind(x) = "view" THEN Rest(x) = y \/ SubAuto(Rest(x), y) \/ (Kind(y) = "view" /\ SubAuto(Rest(x), Rest(y)))
    ELSE IF Kind(x) = "ptr" THEN Rest(x) = y \/ SubAuto(Rest(x), y) \/ (Kind(y) = "ptr" /\ SubAuto(Rest(x), Rest(y)))
    ELSE FALSE
CanAutoderefInto(x, y) ==
    CASE Kind(x) \in {"arr", "slice", "sptr", "endless", "struct"} -> x = y \/ CoerceInto(x, y)
      [] Kind(x) = "view" -> x = y \/ Rest(x) = y \/ SubAuto(Rest(x), y) \/ (Kind(y) = "view" /\ SubAuto(Rest(x), Rest(y)))
      [] Kind(x) = "ptr" -> x = y \/ Rest(x) = y \/ CoerceAddressInto(Rest(x), y) \/ SubAuto(Rest(x), y)
                            \/ (Kind(y) = "ptr" /\ SubAuto(Rest(x), Rest(y)))
      [] OTHER -> FALSE
Aim(known, contextual) == IF contextual = <<>> THEN known
                          ELSE IF known = contextual \/ CanAutoderefInto(known, contextual) THEN contextual
                          ELSE known

(***************************************************************************)
(* The tail of autoderef: given the address depth ad written in the source *)
(* and the target type, decide take_address.  Result: [out, taken,         *)
(* address, ty] with out "ok" | "E538" | "panic-slicepointer".             *)
(***************************************************************************)
RECURSIVE Repeat(_, _)
Repeat(x, n) == IF n = 0 THEN <<>> ELSE <<x>> \o Repeat(x, n - 1)

Tail_(st, ad, target) ==
    LET cur == st.cur
        pdt == PtrDepth(target)
        R(out, taken, addr, ty) == [out |-> out, taken |-> taken, address |-> addr, ty |-> ty]
    IN IF ad = 0 /\ pdt = 0 /\ cur = target THEN R("ok", st.taken, FALSE, cur)
       ELSE IF ad = 0 /\ pdt = 0 /\ Kind(cur) = "view" /\ Rest(cur) = target
            THEN R("ok", Append(st.taken, "view"), FALSE, target)
       ELSE IF ad = 0 /\ pdt = 0 /\ CoerceInto(cur, target) THEN R("ok", st.taken, FALSE, target)
       ELSE IF ad = 1 /\ Kind(cur) = "sptr" /\ cur = target THEN R("ok", st.taken, FALSE, cur)
       ELSE IF ad > 0 /\ Kind(target) = "ptr" /\ cur = Rest(target) THEN R("ok", st.taken, TRUE, Ptr(cur))
       ELSE IF ad > 0 /\ CoerceAddressInto(cur, target) THEN R("ok", st.taken, TRUE, target)
       ELSE LET pd == PtrDepth(cur) IN
            IF ad >= 2 + pd THEN R("E538", st.taken, FALSE, cur)
            ELSE IF ad = 1 + pd THEN R("ok", st.taken, TRUE, Ptr(cur))
            ELSE IF Kind(cur) = "sptr" THEN R("panic-slicepointer", st.taken, FALSE, cur)
            ELSE R("ok", st.taken \o Repeat("deref", pd - ad), FALSE, AddrN(ad, FullyDeref(cur)))

\* get_type_of_reference: the "known type" of the reference as written (what the tail aims for
\* when no better contextual type is available)
RECURSIVE WalkType(_, _)
WalkType(t, path) ==
    IF path = <<>> THEN FullyDeref(t)
    ELSE LET c == FullyDeref(t)
         IN IF Head(path) = "i" THEN (IF ElemOf(c) = <<>> THEN <<"bad">> ELSE WalkType(ElemOf(c), Tail(path)))
            ELSE IF Head(path) \in MemberNames(c) THEN WalkType(Members(c[2])[Head(path)], Tail(path))
            ELSE <<"bad">>
RECURSIVE KnownWrap(_, _, _)
KnownWrap(t, i, ad) == IF i >= ad THEN t
                       ELSE IF i = 0 /\ Kind(t) = "sptr" THEN KnownWrap(t, 1, ad)
                       ELSE KnownWrap(Ptr(t), i + 1, ad)
KnownType(D, path, ad) == KnownWrap(WalkType(D, path), 0, ad)

DerefRun(D, path, ad, target) ==
    LET st == Loop([cur |-> D, avail |-> path, taken |-> <<>>, out |-> "run"], 40)
    IN IF st.out = "done" THEN Tail_(st, ad, target)
       ELSE [out |-> st.out, taken |-> st.taken, address |-> FALSE, ty |-> st.cur]

(***************************************************************************)
(* analyze_assignment_steps: for every written step first strip pointers   *)
(* and views, deslice, then take the step; at the end dereference down to  *)
(* the written address depth.  out "ok" | "E506" (excess address).         *)
(***************************************************************************)
RECURSIVE StripPV(_, _)
StripPV(t, taken) == IF Kind(t) = "ptr" THEN StripPV(Rest(t), Append(taken, "deref"))
                     ELSE IF Kind(t) = "view" THEN StripPV(Rest(t), Append(taken, "view"))
                     ELSE [t |-> t, taken |-> taken]
RECURSIVE AssignLoop(_, _, _)
AssignLoop(t, path, taken) ==
    IF path = <<>> THEN [t |-> t, taken |-> taken]
    ELSE LET s == StripPV(t, taken)
         IN IF Head(path) = "i"
            THEN LET tk == CASE Kind(s.t) = "slice" -> Append(s.taken, "dsv")
                             [] Kind(s.t) = "sptr" -> Append(s.taken, "dsp")
                             [] OTHER -> s.taken
                 IN AssignLoop(ElemOf(s.t), Tail(path), Append(tk, "elem"))
            ELSE AssignLoop(Members(s.t[2])[Head(path)], Tail(path), Append(s.taken, "mem"))
AssignRun(D, path, ad) ==
    LET r  == AssignLoop(D, path, <<>>)
        pd == PtrDepth(r.t)
    IN IF ad <= pd THEN [out |-> "ok", taken |-> r.taken \o Repeat("deref", pd - ad), ty |-> r.t]
       ELSE [out |-> "E506", taken |-> r.taken, ty |-> r.t]

(***************************************************************************)
(* A (ii) -- analyzer/mutability.rs: needs_outer_mutability scans the      *)
(* taken steps; the mutability bit of a declaration.                       *)
(***************************************************************************)
RECURSIVE NeedsOuter(_)
NeedsOuter(taken) == IF taken = <<>> THEN TRUE
                     ELSE IF Head(taken) \in {"deref", "dsp"} THEN FALSE
                     ELSE NeedsOuter(Tail(taken))
MutableBit(kind, D) == kind = "var" /\ Kind(D) \notin {"slice", "sptr", "view"}
=============================================================================

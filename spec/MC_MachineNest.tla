---------------------------- MODULE MC_MachineNest ----------------------------
(***************************************************************************)
(* C01, dimension audit: control flow DEEPER than the free enumeration of  *)
(* MC_MachineCF reaches (8 items).  One template of three nested blocks,   *)
(* each of which is a loop or a plain block, with a hole at every place    *)
(* where the shape can vary:                                               *)
(*     var n = 0;                                                          *)
(*     [ { goto e3; P; e3: P } ]             sib  a sibling block that     *)
(*                                                reuses the label name e3 *)
(*     { P                                        level 1                  *)
(*       { { if n >= a goto T3;                   level 3, T3 in e3 e2 e1  *)
(*           n = n + 1;                                       out          *)
(*           [ if n == 2 goto z; ] P [ z: ]  tl   a label as the LAST      *)
(*           [ loop; ] }                          statement before `loop`  *)
(*         e3:                                                             *)
(*         [ var m = n * 10; P(m); m = 5; ]  decl declared after a label   *)
(*         if n >= b goto T2;                     inside a loop body       *)
(*         [ n = n + 1; ] P [ loop; ] }           level 2, T2 in e2 e1 out *)
(*       e2: if n >= 3 goto T1; [ n = n + 1; ] [ loop; ] }                 *)
(*     e1: P out: P                                                        *)
(* Gotos therefore leave one, two or three nested blocks / loops at once,  *)
(* inner gotos reach outer labels, loops are nested three deep.  Whether a *)
(* combination terminates is decided by the machine (fuel): only bodies    *)
(* that FlatBody's label rule accepts and that run to completion are       *)
(* emitted, each with the output the semantics give.                       *)
(***************************************************************************)
EXTENDS MachineBuild
CONSTANTS Fuel, As_, Bs, Sibs, Inc1s, Tls, Decls

I32L(k) == Lit("i32", k)
NV == RV("n")
P(id) == Pr(Bin("+", Bin("*", NV, I32L(100)), I32L(id)))
INC == SetV("n", Bin("+", NV, I32L(1)))
Ge(k) == Cmp(">=", NV, I32L(k))
Opt(b, s) == IF b THEN s ELSE <<>>
Body(p) ==
    Flatten(<< Opt(p.sib, <<O_, G_("e3"), P(90), Lbl("e3"), P(91), C_>>),
               <<O_, P(1), O_, O_, IG_(Ge(p.a), p.t3), INC>>,
               IF p.tl THEN <<IG_(Cmp("==", NV, I32L(2)), "z"), P(3), Lbl("z")>> ELSE <<P(3)>>,
               Opt(p.lp3, <<LP_>>), <<C_, Lbl("e3")>>,
               Opt(p.decl, <<VarI("m", PrimT("i32"), Bin("*", NV, I32L(10))), Pr(Bin("+", RV("m"), I32L(7))), SetV("m", I32L(5))>>),
               <<IG_(Ge(p.b), p.t2)>>, Opt(p.inc2, <<INC>>), <<P(2)>>, Opt(p.lp2, <<LP_>>), <<C_, Lbl("e2")>>,
               <<IG_(Ge(3), p.t1)>>, Opt(p.inc1, <<INC>>), Opt(p.lp1, <<LP_>>), <<C_, Lbl("e1"), P(9), Lbl("out"), P(10)>> >>)
Params == {[t3 |-> t3, t2 |-> t2, t1 |-> t1, a |-> a, b |-> b, tl |-> tl, decl |-> d, sib |-> s, inc2 |-> i2, inc1 |-> i1,
            lp1 |-> l1, lp2 |-> l2, lp3 |-> l3] :
              t3 \in {"e3", "e2", "e1", "out"}, t2 \in {"e2", "e1", "out"}, t1 \in {"e1", "out"}, a \in As_, b \in Bs,
              tl \in Tls, d \in Decls, s \in Sibs, i2 \in BOOLEAN, i1 \in Inc1s, l1 \in BOOLEAN, l2 \in BOOLEAN, l3 \in BOOLEAN}
Prog(b) == Program(<<>>, <<>>, <<Fn("main", <<>>, PrimT("u8"), <<VarI("n", PrimT("i32"), I32L(0))>> \o b, Lit("u8", 7))>>)

None == [t3 |-> ""]
VARIABLES par, body, res, done
vars == <<par, body, res, done>>
Init == par = None /\ body = <<>> /\ res = [status |-> "none"] /\ done = FALSE
Pick == /\ par = None
        /\ \E p \in Params : \E b \in {Body(p)} :
              /\ par' = p /\ body' = b
              /\ res' = IF RuleAccepts(b) THEN MInit(Prog(b), Fuel) ELSE [status |-> "invalid"]
        /\ UNCHANGED done
Exec == /\ par # None /\ ~done
        /\ IF res.status = "run"
           THEN \E m2 \in {RunChunk(Prog(body), res, ChunkSize)} : res' = m2 /\ done' = (m2.status # "run")
           ELSE res' = res /\ done' = TRUE
        /\ UNCHANGED <<par, body>>
Next == Pick \/ Exec
Spec == Init /\ [][Next]_vars

\* no combination of the holes has undefined behaviour, gets stuck or trips a monitor (goto forward and outward only)
Sane == done => (res.status \in {"done", "fuel", "invalid"} /\ (res.status = "done" => res.bad = <<>>))
\* the template is inside the label rule for every combination of the holes
AllValid == done => res.status # "invalid"
EmitCase == (done /\ res.status = "done") =>
    PrintT(<<"CASE", ToJson([par |-> par, status |-> res.status, out |-> OutOf(res), exit |-> res.exit, body |-> Prog(body).fns[1].body])>>)
=============================================================================

SPECIFICATION TSpec
CONSTANTS
  Fuel = 30000
POSTCONDITION Accepted
CHECK_DEADLOCK FALSE

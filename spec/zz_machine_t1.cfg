SPECIFICATION Spec
CONSTANTS
  Fuel = 60000
  Fams = {"bigarr"}
  Big = FALSE
INVARIANTS Sane EmitCase
CHECK_DEADLOCK FALSE

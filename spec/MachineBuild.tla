---------------------------- MODULE MachineBuild ----------------------------
(***************************************************************************)
(* Builders for programs in the exchange format of Machine.tla, shared by  *)
(* the parametrised families of the dimension audit (MC_MachineData,       *)
(* MC_MachineFrames, MC_MachineNest, MC_MachineConst).  Nothing here has a *)
(* meaning of its own: every operator only abbreviates a record of the     *)
(* exchange format.                                                        *)
(***************************************************************************)
EXTENDS Machine, Json, TLCExt, SequencesExt

PrimT(t) == [k |-> "prim", t |-> t]
PtrT(t) == [k |-> "ptr", e |-> t]
ArrT(n, t) == [k |-> "array", n |-> n, e |-> t]
\* an array whose length is written as the named constant c (value n)
ArrNC(n, c, t) == [k |-> "array", n |-> n, e |-> t, nc |-> c]
ViewT(t) == [k |-> "view", e |-> t]
NamedT(n) == [k |-> "named", n |-> n]
VoidT == [k |-> "void"]
USZT == PrimT("usize")

LitV(t, v) == [k |-> "lit", t |-> t, v |-> v]
Lit(t, n) == LitV(t, FromNat(n, Width(t)))
USZ(n) == Lit("usize", n)
BoolL(b) == LitV("bool", <<IF b THEN 1 ELSE 0>>)
Ix(e) == [k |-> "i", e |-> e]
IxN(n) == Ix(USZ(n))
Mb(m) == [k |-> "m", m |-> m]
Ref(x, addr, steps) == [k |-> "ref", x |-> x, addr |-> addr, steps |-> steps]
RV(x) == Ref(x, 0, <<>>)
Plain(x, addr, steps) == [x |-> x, addr |-> addr, steps |-> steps]
Bin(op, l, r) == [k |-> "bin", op |-> op, l |-> l, r |-> r]
Un(op, e) == [k |-> "un", op |-> op, e |-> e]
As(t, e) == [k |-> "as", t |-> t, e |-> e]
Par_(e) == [k |-> "paren", e |-> e]
LenE(x, steps) == [k |-> "len", r |-> Plain(x, 0, steps)]
SizeE(ty) == [k |-> "sizeof", ty |-> ty]
CallE(f, args) == [k |-> "call", f |-> f, args |-> args]
ArrE(es) == [k |-> "arr", es |-> es]
Fld(m, e) == [m |-> m, e |-> e]
StE(n, fs) == [k |-> "st", n |-> n, fs |-> fs]
Cmp(op, l, r) == [op |-> op, l |-> l, r |-> r]

\* items (every item carries the field n: FlatBody's label rule reads it)
VarI(x, ty, e) == [k |-> "V", x |-> x, ty |-> ty, e |-> e, n |-> ""]
VarU(x, ty) == [k |-> "V", x |-> x, ty |-> ty, n |-> ""]
Asg(x, addr, steps, e) == [k |-> "A", r |-> Plain(x, addr, steps), e |-> e, n |-> ""]
SetV(x, e) == Asg(x, 0, <<>>, e)
Pr(e) == [k |-> "P", e |-> e, n |-> ""]
PrAll(es) == [k |-> "PP", es |-> es, n |-> ""]
PrText(parts) == [k |-> "T", parts |-> parts, n |-> ""]
CallI(f, args, d) == [k |-> "CALL", f |-> f, args |-> args, d |-> d, n |-> ""]
IO_(c) == [k |-> "IO", c |-> c, n |-> ""]
EIO_(c) == [k |-> "EIO", c |-> c, n |-> ""]
EO_ == [k |-> "EO", n |-> ""]
O_ == [k |-> "O", n |-> ""]
C_ == [k |-> "C", n |-> ""]
LP_ == [k |-> "LP", n |-> ""]
IG_(c, n) == [k |-> "IG", c |-> c, n |-> n]
G_(n) == [k |-> "G", n |-> n]
Lbl(n) == [k |-> "L", n |-> n]

Par(x, ty) == [x |-> x, ty |-> ty]
Fn(name, params, ret, body, res) == [name |-> name, params |-> params, ret |-> ret, body |-> body, res |-> res]
FnV(name, params, body) == [name |-> name, params |-> params, ret |-> VoidT, body |-> body]
MainFn(body) == Fn("main", <<>>, PrimT("u8"), body, Lit("u8", 0))
SD(name, ms) == [name |-> name, kind |-> "struct", ms |-> ms]
WD(name, bits, ms) == [name |-> name, kind |-> "word", bits |-> bits, ms |-> ms]
Mem(x, ty) == [x |-> x, ty |-> ty]
Program(structs, consts, fns) == [structs |-> structs, consts |-> consts, fns |-> fns]

\* `{ if i == bound goto lbl; body; i = i + 1; loop; } lbl:` with a usize counter i declared just before
CountedLoop(i, bound, lbl, body) ==
    <<VarI(i, USZT, USZ(0)), O_, IG_(Cmp("==", RV(i), bound), lbl)>> \o body
      \o <<SetV(i, Bin("+", RV(i), USZ(1))), LP_, C_, Lbl(lbl)>>

(* TLC conses the parameters of an operator application onto the CALLER's context, and a symbol that is not in the
   context (every global operator) is looked up by walking the whole chain: a recursion of depth d costs O(d) per
   lookup, a recursive run of d machine steps O(d^2) (1 500 steps 2.5 s, 4 500 steps 21 s, 15 000 steps > 4 min).
   The families therefore run the machine in chunks, one chunk per TLC state. *)
RECURSIVE RunChunk(_, _, _)
RunChunk(prog, m, k) == IF k = 0 \/ m.status # "run" THEN m ELSE RunChunk(prog, MStep(prog, m), k - 1)
ChunkSize == 200

\* the printed values of a finished run as [t, v] pairs
OutOf(res) == [i \in 1..Len(res.out) |-> [t |-> res.out[i].t, v |-> res.out[i].v]]
RECURSIVE Flatten(_)
Flatten(ss) == IF ss = <<>> THEN <<>> ELSE Head(ss) \o Flatten(Tail(ss))
=============================================================================

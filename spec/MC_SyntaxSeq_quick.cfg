SPECIFICATION Spec
CONSTANTS
  K = 3
  FullK = 2
  Alphabet <- AlphaAll
INVARIANTS EmitCase EmitContexts PrefixViable
CHECK_DEADLOCK FALSE

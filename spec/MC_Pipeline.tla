---------------------------- MODULE MC_Pipeline ----------------------------
(* Model-checking / case-emitting wrapper of Pipeline (TLC only).          *)
(* One CASE per generated module set (the state in which Start fires):     *)
(* the structure and the outcome the protocol prescribes when no stage     *)
(* after the parser rejects anything (the rendering injects only lexical   *)
(* faults, syntax faults and unresolvable imports).                        *)
EXTENDS Pipeline, Json, TLCExt, SequencesExt

\* the protocol run deterministically: parse, expand, first failing surface check
Parsed(ds) == [i \in 1..Len(ds) |->
                 CASE ds[i].fault = "lex" -> [ds[i] EXCEPT !.p = Err(StageCode.lex)]
                   [] ds[i].fault = "parse" -> [ds[i] EXCEPT !.p = Err(StageCode.parse)]
                   [] OTHER -> ds[i]]
PMods == [m \in 1..N |-> Parsed(mods[m])]
RECURSIVE XSpliced(_, _, _)
XSpliced(pm, m, j) == IF j > N THEN <<>>
                      ELSE (IF <<m, j>> \in imports /\ m # j THEN Exports(pm[j], 1) ELSE <<>>) \o XSpliced(pm, m, j + 1)
XMods == [m \in 1..N |->
            (IF m \in badimp THEN <<Decl(Err(StageCode.expand), FALSE, TRUE, "none")>> ELSE <<>>)
            \o XSpliced(PMods, m, 1) \o PMods[m]]
Failing == { m \in 1..N : SurfaceCodes(XMods[m]) # <<>> }
FirstFailing == CHOOSE m \in Failing : \A q \in Failing : m <= q
Expect == IF Failing = {} THEN [ok |-> TRUE, codes |-> <<>>, mod |-> 0]
          ELSE [ok |-> FALSE, codes |-> SurfaceCodes(XMods[FirstFailing]), mod |-> FirstFailing]

Shape(ds) == [i \in 1..Len(ds) |-> [pub |-> ds[i].pub, fault |-> ds[i].fault]]
EmitCase == (phase = "run" /\ pc = 1) =>
    PrintT(<<"CASE", ToJson([mods |-> [m \in 1..N |-> Shape(mods[m])],
                             imports |-> SetToSortSeq(imports, PairLess),
                             badimp |-> SetToSortSeq(badimp, <),
                             expect |-> Expect])>>)
=============================================================================

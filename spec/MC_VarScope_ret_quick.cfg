SPECIFICATION Spec
CONSTANTS
  MaxLen = 6
  MinFns = 1
  MaxFns = 1
  Phased = FALSE
  NeedResult = TRUE
  MaxDepth = 1
  VNames = {"a"}
  LNames = {"y", "return"}
  BodyKinds = {"O", "C", "V", "U", "RV", "L", "IG"}
  Configs <- NoConfig
INVARIANTS AgreeScoper Sound EmitCase
CHECK_DEADLOCK FALSE

SPECIFICATION Spec
CONSTANTS
  Core = FALSE
INVARIANTS OnlyValidLexemes SizeArithmetic EmitAdj
CHECK_DEADLOCK FALSE

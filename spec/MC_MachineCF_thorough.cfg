SPECIFICATION Spec
CONSTANTS
  MaxLen = 7
  MaxDepth = 3
  Fuel = 80
INVARIANTS MachineSane NoUB EmitCase
CHECK_DEADLOCK FALSE

SPECIFICATION Spec
CONSTANTS
  MaxLen = 7
  MaxDepth = 3
  Fuel = 80
INVARIANTS MachineSane NoUB Monitors Scans EmitCase
CHECK_DEADLOCK FALSE

SPECIFICATION Spec
CONSTANTS
  Fuel = 60000
  Fams = {"bigarr", "bigstruct", "arr3", "zerolen", "viewview", "iterptr", "looplocal", "wordcopy", "deepblocks", "longexpr", "permlit", "textprint"}
  BigTypes = {"i32", "u8", "i128", "i64"}
  Big = TRUE
INVARIANTS Sane EmitCase
CHECK_DEADLOCK FALSE

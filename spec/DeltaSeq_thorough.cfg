SPECIFICATION Spec
CONSTANTS
  MaxSeq = 3
INVARIANTS EmitSeq EmitContexts
CHECK_DEADLOCK FALSE

SPECIFICATION Spec
CONSTANTS
  MaxSteps = 4
  Subs = {"emit", "build"}
INVARIANTS FreshEqualsReused Dependencies FedIsCurrent EmitCase
CHECK_DEADLOCK FALSE

SPECIFICATION Spec
CONSTANTS
  TypeSeq <- TS2
  MaxVars = 1
  MaxStmts = 2
  Forms = {"sfx", "tv", "bin", "as", "call", "idx", "cmp", "declt", "asgu", "asgt"}
  Rets = {"void", "i32"}
INVARIANTS ASound AUndet ASolution EmitCase
CHECK_DEADLOCK FALSE

SPECIFICATION Spec
CONSTANTS
  W = 8
  Grid <- Grid8
INVARIANT OK
CHECK_DEADLOCK FALSE

SPECIFICATION Spec
CONSTANTS
  MaxLen = 6
  MinFns = 1
  MaxFns = 1
  MaxDepth = 4
  TokenKinds = {"S", "G", "LP", "L", "O", "C", "I", "E"}
  ElseFlagCleared = FALSE
INVARIANTS Agree
CHECK_DEADLOCK FALSE

SPECIFICATION Spec
CONSTANTS
  K = 4
  FullK = 3
  Alphabet <- AlphaAll
INVARIANTS EmitCase EmitContexts PrefixViable
CHECK_DEADLOCK FALSE

---------------------------- MODULE MC_CInterop ----------------------------
(***************************************************************************)
(* Gen for CInterop.tla: every program of the families below, each run by  *)
(* Machine.tla on MProg (the program plus the meanings of its foreign      *)
(* functions).  A program is `main` (Penne) that computes its arguments at *)
(* run time -- every scalar argument is `k as T` where k: u64 is the       *)
(* result of the opaque foreign function c_opaque (identity on u64) on a   *)
(* constant whose low bits are the boundary value and whose upper bits are *)
(* garbage (0xA5 / 0x5A: neither the sign nor the zero extension), so that *)
(* the register that carries a narrow argument has dirty upper bits --     *)
(* calls the functions under test and prints what comes back / what it     *)
(* finds in its own storage afterwards.                                    *)
(*                                                                         *)
(* dir    p2c   Penne calls the C function (foreign instance of the kind)  *)
(*        c2p   Penne calls a C trampoline that calls the `pub extern fn`  *)
(*              with the body of the kind (tramp: same signature; scalars  *)
(*              family also trampw: arguments narrowed / results widened   *)
(*              on the C side), and calls the `pub extern fn` directly too *)
(*        p2p   Penne calls a private `extern fn` with the body of the     *)
(*              kind directly (C calling convention inside one module)     *)
(*        plain control (scalar and mix only): the same body as an         *)
(*              ordinary `fn`                                              *)
(* family scalar  id / widen / narrow x every boundary value of T          *)
(*        view    sum / max / at over arrays of lengths 0..4 x every       *)
(*                prefix length; argument forms: by name, member `s.a`,    *)
(*                through a local pointer, row of a 2-D array, a constant  *)
(*        viewlit an array literal as the view (a temporary of the call)   *)
(*        mut     fill / incr / addto / setpp / repoint / copy; the caller *)
(*                prints its cells afterwards                              *)
(*        mix     parameter lists of 1..MaxMix entries (rotations of the   *)
(*                nine ABI integer types; variant 2 turns two positions    *)
(*                into a view and a pointer; variant 3 has wide scalars    *)
(*                only): position-sensitive fold                           *)
(*        cb      C walks an array and calls a Penne `pub extern fn` for   *)
(*                each element, which prints and calls back into C         *)
(* Invariants (A |= R): Sane -- the machine runs every program to          *)
(* completion, monitors silent (a foreign call changes caller cells only   *)
(* through `&` arguments); Agree -- the machine's output is the output the *)
(* declarative rule of CInterop.tla gives.  One CASE per program with the  *)
(* program in the exchange format and the expected output.                 *)
(***************************************************************************)
EXTENDS CInterop, Json, TLCExt, SequencesExt
CONSTANTS Types,        \* the ABI integer types enumerated
          Dirs,         \* subset of {"p2c", "c2p", "p2p"}
          Families,     \* subset of {"scalar", "view", "mut", "mix", "cb"}
          MaxMix,       \* longest parameter list of the mix family
          MoreValues,   \* TRUE: the larger boundary set
          ZeroLen,      \* TRUE: arrays of length 0 are declared and passed
          Fuel

\* ---- values ----------------------------------------------------------------
Pat(w, hi, lo) == [i \in 1..Limbs(w) |-> IF i = Limbs(w) THEN hi ELSE lo]
Bnd(t) == LET w == Width(t)
          IN <<MinSigned(w), Ones(w), MaxSigned(w), One(w), Zero(w), Pat(w, 195, 90)>>
             \o (IF MoreValues THEN <<Pat(w, 128, 1), Pat(w, 255, 254), Pat(w, 127, 0), Pat(w, 165, 165), FromNat(2, w), Pat(w, 0, 255)>> ELSE <<>>)
\* a 64-bit constant with the value in its low bits and garbage above
Dirty(v) == [i \in 1..8 |-> IF i <= Len(v) THEN v[i] ELSE IF i % 2 = 1 THEN 165 ELSE 90]
Nm(a, b) == a \o "_" \o b
Num(i) == ToString(i)
U64 == PrimT("u64")
USZ(n) == LitN("usize", n)
Opaque == Foreign("c_opaque", [lib |-> "id", t |-> "u64"])
\* var <k>: u64 = c_opaque(<dirty constant>);   and the argument `<k> as T`
Launder(k, v) == Decl(k, U64, CallE("c_opaque", <<Lit("u64", Dirty(v))>>))
ArgOf(k, t) == As(t, "u64", V0(k))
ArrLit(vs, t) == [k |-> "arr", es |-> [i \in 1..Len(vs) |-> Lit(t, vs[i])]]

RECURSIVE Cat(_, _)
\* concatenation of the field f of a sequence of records
Cat(cells, f) == IF cells = <<>> THEN <<>> ELSE Head(cells)[f] \o Cat(Tail(cells), f)
Cell(its, ex) == [its |-> its, ex |-> ex]
\* an expected value with the name of the function through which it crossed the boundary (only to name the shape of a discrepancy)
By(f, x) == x @@ [f |-> f]
AllBy(f, xs) == [i \in 1..Len(xs) |-> By(f, xs[i])]

\* the function under test for a library descriptor, per direction
Target(nm, d, dir) ==
    LET f == Lib(Nm("p", nm), d)
    IN CASE dir = "p2c" -> [call |-> Nm("c", nm), fns |-> <<>>, foreign |-> <<Foreign(Nm("c", nm), d)>>]
         [] dir = "c2p" -> [call |-> Nm("c_tr_p", nm), fns |-> <<PenneExt(Nm("p", nm), d, TRUE)>>,
                            foreign |-> <<Foreign(Nm("c_tr_p", nm), [lib |-> "tramp", cb |-> Nm("p", nm), sig |-> SigOf(f)])>>]
         [] dir = "p2p" -> [call |-> Nm("p", nm), fns |-> <<PenneExt(Nm("p", nm), d, FALSE)>>, foreign |-> <<>>]
         \* control: the same body as an ordinary (not `extern`) function
         [] dir = "plain" -> [call |-> Nm("f", nm), fns |-> <<Lib(Nm("f", nm), d) @@ [ext |-> FALSE, pub |-> FALSE]>>, foreign |-> <<>>]
WideTramp(nm, d) == Foreign(Nm("c_tw_p", nm), [lib |-> "trampw", cb |-> Nm("p", nm), sig |-> SigOf(Lib(Nm("p", nm), d))])

MainFn(body) == FnR("main", <<>>, PrimT("u8"), body, Lit("u8", <<0>>))
ProgramC(structs, consts, fns, foreign, cells) ==
    [structs |-> structs, consts |-> consts, fns |-> <<MainFn(Cat(cells, "its"))>> \o fns, foreign |-> <<Opaque>> \o foreign]
Program(structs, fns, foreign, cells) == ProgramC(structs, <<>>, fns, foreign, cells)

\* ---- family scalar ------------------------------------------------------------
Scalar(t, dir) ==
    LET B == Bnd(t)
        Tid == Target(Nm("id", t), [lib |-> "id", t |-> t], dir)
        Twi == Target(Nm("widen", t), [lib |-> "widen", t |-> t], dir)
        Tna == Target(Nm("narrow", t), [lib |-> "narrow", t |-> t], dir)
        wide == dir = "c2p"
        cell(j) == LET k == "k" \o Num(j)
                       v == B[j]
                   IN Cell(<<Launder(k, v), Pr(CallE(Tid.call, <<ArgOf(k, t)>>)), Pr(CallE(Twi.call, <<ArgOf(k, t)>>)),
                             Pr(CallE(Tna.call, <<V0(k)>>))>>
                           \o (IF wide THEN <<Pr(CallE(Nm("c_tw_p", Nm("id", t)), <<V0(k)>>)), Pr(CallE(Nm("c_tw_p", Nm("widen", t)), <<V0(k)>>)),
                                              Pr(CallE(Nm("c_tw_p", Nm("narrow", t)), <<V0(k)>>)),
                                              \* the pub extern fn called from Penne as well
                                              Pr(CallE(Nm("p", Nm("widen", t)), <<ArgOf(k, t)>>))>> ELSE <<>>),
                           <<By(Tid.call, RId(t, v)), By(Twi.call, RWiden(t, v)), By(Tna.call, RNarrow(t, Dirty(v)))>>
                           \o (IF wide THEN <<By(Nm("c_tw_p", Nm("id", t)), RWiden(t, v)), By(Nm("c_tw_p", Nm("widen", t)), RWiden(t, v)),
                                              By(Nm("c_tw_p", Nm("narrow", t)), RWiden(t, v)), By(Nm("p", Nm("widen", t)), RWiden(t, v))>> ELSE <<>>))
        cells == [j \in 1..Len(B) |-> cell(j)]
    IN [prog |-> Program(<<>>, Tid.fns \o Twi.fns \o Tna.fns,
                         Tid.foreign \o Twi.foreign \o Tna.foreign
                         \o (IF wide THEN <<WideTramp(Nm("id", t), [lib |-> "id", t |-> t]), WideTramp(Nm("widen", t), [lib |-> "widen", t |-> t]),
                                            WideTramp(Nm("narrow", t), [lib |-> "narrow", t |-> t])>> ELSE <<>>),
                         cells),
        ex |-> Cat(cells, "ex")]

\* ---- family view --------------------------------------------------------------
\* the array of length L: boundary values, a different start for each length
Xs(t, L) == LET B == Bnd(t) IN [i \in 1..L |-> B[((i + L) % Len(B)) + 1]]
SDecl(t) == [name |-> "S", kind |-> "struct", ms |-> <<[x |-> "m", ty |-> PrimT(t)], [x |-> "a", ty |-> ArrT(3, PrimT(t))]>>]
SLit(t, m, vs) == [k |-> "st", n |-> "S", fs |-> <<[m |-> "m", e |-> Lit(t, m)], [m |-> "a", e |-> ArrLit(vs, t)]>>]
View(t, dir) ==
    LET T == PrimT(t)
        Tsum == Target(Nm("sum", t), [lib |-> "sum", t |-> t], dir)
        Tmax == Target(Nm("max", t), [lib |-> "max", t |-> t], dir)
        Tat == Target(Nm("at", t), [lib |-> "at", t |-> t], dir)
        Ls == IF ZeroLen THEN <<0, 1, 2, 3, 4>> ELSE <<1, 2, 3, 4>>
        an(L) == "a" \o Num(L)
        decl(L) == Cell(<<Decl(an(L), ArrT(L, T), ArrLit(Xs(t, L), t))>>, <<>>)
        pre(L, n) == Cell(<<Pr(CallE(Tsum.call, <<V0(an(L)), USZ(n)>>)), Pr(CallE(Tmax.call, <<V0(an(L)), USZ(n)>>))>>,
                          <<By(Tsum.call, RSum(t, Xs(t, L), n)), By(Tmax.call, RMax(t, Xs(t, L), n))>>)
        at(L, j) == Cell(<<Pr(CallE(Tat.call, <<V0(an(L)), USZ(j)>>))>>, <<By(Tat.call, RAt(t, Xs(t, L), j))>>)
        perLen(L) == <<decl(L)>> \o [n \in 1..(L + 1) |-> pre(L, n - 1)] \o [j \in 1..L |-> at(L, j - 1)]
        x3 == Xs(t, 3)
        y3 == Xs(t, 4)
        forms == << Cell(<<Decl("s", NamedT("S"), SLit(t, Bnd(t)[2], x3)),
                           Decl("pa", PtrT(ArrT(3, T)), Ref("a3", 1, <<>>)),
                           Decl("mm", ArrT(2, ArrT(3, T)), [k |-> "arr", es |-> <<ArrLit(SubSeq(y3, 1, 3), t), ArrLit(x3, t)>>]),
                           Pr(CallE(Tsum.call, <<Ref("s", 0, <<Mb("a")>>), USZ(3)>>)),
                           Pr(CallE(Tat.call, <<Ref("s", 0, <<Mb("a")>>), USZ(2)>>)),
                           Pr(CallE(Tsum.call, <<V0("pa"), USZ(2)>>)),
                           Pr(CallE(Tmax.call, <<V0("pa"), USZ(3)>>)),
                           Pr(CallE(Tsum.call, <<Ref("mm", 0, <<Ix(USZ(1))>>), USZ(3)>>)),
                           Pr(CallE(Tat.call, <<Ref("mm", 0, <<Ix(USZ(0))>>), USZ(1)>>)),
                           \* a constant array as the view
                           Pr(CallE(Tsum.call, <<V0("KA"), USZ(3)>>)), Pr(CallE(Tat.call, <<V0("KA"), USZ(2)>>))>>,
                         <<By(Tsum.call, RSum(t, x3, 3)), By(Tat.call, RAt(t, x3, 2)), By(Tsum.call, RSum(t, x3, 2)), By(Tmax.call, RMax(t, x3, 3)),
                           By(Tsum.call, RSum(t, x3, 3)), By(Tat.call, RAt(t, y3, 1)),
                           By(Tsum.call, RSum(t, SubSeq(y3, 2, 4), 3)), By(Tat.call, RAt(t, SubSeq(y3, 2, 4), 2))>>) >>
        cells == Cat([i \in 1..Len(Ls) |-> [c |-> perLen(Ls[i])]], "c") \o forms
    IN [prog |-> ProgramC(<<SDecl(t)>>, <<[x |-> "KA", ty |-> ArrT(3, T), e |-> ArrLit(SubSeq(y3, 2, 4), t)]>>,
                          Tsum.fns \o Tmax.fns \o Tat.fns, Tsum.foreign \o Tmax.foreign \o Tat.foreign, cells),
        ex |-> Cat(cells, "ex")]
\* an array literal as the view argument (a temporary of the call)
ViewLit(t, dir) ==
    LET Tsum == Target(Nm("sum", t), [lib |-> "sum", t |-> t], dir)
        Tat == Target(Nm("at", t), [lib |-> "at", t |-> t], dir)
        x3 == Xs(t, 3)
        cells == <<Cell(<<Pr(CallE(Tsum.call, <<ArrLit(x3, t), USZ(3)>>)), Pr(CallE(Tat.call, <<ArrLit(x3, t), USZ(1)>>)),
                          Pr(CallE(Tsum.call, <<ArrLit(x3, t), USZ(0)>>))>>,
                        <<By(Tsum.call, RSum(t, x3, 3)), By(Tat.call, RAt(t, x3, 1)), By(Tsum.call, RSum(t, x3, 0))>>)>>
    IN [prog |-> Program(<<>>, Tsum.fns \o Tat.fns, Tsum.foreign \o Tat.foreign, cells), ex |-> Cat(cells, "ex")]

\* ---- family mut ---------------------------------------------------------------
PrCells(x, n) == [i \in 1..n |-> Pr(At(x, USZ(i - 1)))]
Vals(t, vs) == [i \in 1..Len(vs) |-> Val(t, vs[i])]
Mut(t, dir) ==
    LET T == PrimT(t)
        B == Bnd(t)
        w == Width(t)
        Tfill == Target(Nm("fill", t), [lib |-> "fill", t |-> t], dir)
        Tincr == Target(Nm("incr", t), [lib |-> "incr", t |-> t], dir)
        Tadd == Target(Nm("addto", t), [lib |-> "addto", t |-> t], dir)
        Tset == Target(Nm("setpp", t), [lib |-> "setpp", t |-> t], dir)
        Trep == Target(Nm("repoint", t), [lib |-> "repoint", t |-> t], dir)
        Tcpy == Target(Nm("copy", t), [lib |-> "copy", t |-> t], dir)
        b0 == Xs(t, 4)
        b1 == RFill(b0, 0, B[1])
        b2 == RFill(b1, 2, B[2])
        b3 == RFill(b2, 4, B[6])
        src == Xs(t, 3)
        b4 == RCopy(b3, src, 2)
        b5 == [b4 EXCEPT ![2] = RIncr(t, b4[2]).v]
        sa0 == Xs(t, 3)
        sa1 == RFill(sa0, 3, B[1])
        x0 == MaxSigned(w)
        x1 == RIncr(t, x0).v
        y0 == Ones(w)
        y1 == RAddTo(t, y0, B[6]).v
        cells == <<
            Cell(<<Decl("buf", ArrT(4, T), ArrLit(b0, t)), Decl("a3", ArrT(3, T), ArrLit(src, t)),
                   Decl("s", NamedT("S"), SLit(t, B[3], sa0)),
                   Launder("kx", x0), Decl("x", T, ArgOf("kx", t)), Launder("ky", y0), Decl("y", T, ArgOf("ky", t)),
                   Decl("p", PtrT(T), Ref("x", 1, <<>>)),
                   Launder("k1", B[1]), Launder("k2", B[2]), Launder("k6", B[6])>>, <<>>),
            Cell(<<CallS(Tfill.call, <<Ref("buf", 1, <<>>), USZ(0), ArgOf("k1", t)>>)>> \o PrCells("buf", 4), AllBy(Tfill.call, Vals(t, b1))),
            Cell(<<CallS(Tfill.call, <<Ref("buf", 1, <<>>), USZ(2), ArgOf("k2", t)>>)>> \o PrCells("buf", 4), AllBy(Tfill.call, Vals(t, b2))),
            Cell(<<CallS(Tfill.call, <<Ref("buf", 1, <<>>), USZ(4), ArgOf("k6", t)>>)>> \o PrCells("buf", 4), AllBy(Tfill.call, Vals(t, b3))),
            Cell(<<CallS(Tcpy.call, <<Ref("buf", 1, <<>>), V0("a3"), USZ(2)>>)>> \o PrCells("buf", 4), AllBy(Tcpy.call, Vals(t, b4))),
            Cell(<<CallS(Tincr.call, <<Ref("buf", 1, <<Ix(USZ(1))>>)>>)>> \o PrCells("buf", 4), AllBy(Tincr.call, Vals(t, b5))),
            \* a member array as the buffer; the neighbouring member stays
            Cell(<<CallS(Tfill.call, <<Ref("s", 1, <<Mb("a")>>), USZ(3), ArgOf("k1", t)>>), Pr(Ref("s", 0, <<Mb("m")>>)),
                   Pr(Ref("s", 0, <<Mb("a"), Ix(USZ(0))>>)), Pr(Ref("s", 0, <<Mb("a"), Ix(USZ(2))>>))>>,
                 AllBy(Tfill.call, <<Val(t, B[3]), Val(t, sa1[1]), Val(t, sa1[3])>>)),
            Cell(<<CallS(Tincr.call, <<Ref("s", 1, <<Mb("m")>>)>>), Pr(Ref("s", 0, <<Mb("m")>>)), Pr(Ref("s", 0, <<Mb("a"), Ix(USZ(0))>>))>>,
                 AllBy(Tincr.call, <<RIncr(t, B[3]), Val(t, sa1[1])>>)),
            \* MAX + 1 wraps; -1 + v
            Cell(<<CallS(Tincr.call, <<Ref("x", 1, <<>>)>>), Pr(V0("x")), Pr(V0("y"))>>, AllBy(Tincr.call, <<Val(t, x1), Val(t, y0)>>)),
            Cell(<<CallS(Tadd.call, <<Ref("y", 1, <<>>), ArgOf("k6", t)>>), Pr(V0("x")), Pr(V0("y"))>>, AllBy(Tadd.call, <<Val(t, x1), Val(t, y1)>>)),
            \* through T**: write the pointee of the pointee, then re-point the caller's pointer and write through it
            Cell(<<CallS(Tset.call, <<Ref("p", 2, <<>>), ArgOf("k2", t)>>), Pr(V0("x")), Pr(V0("y")), Pr(V0("p"))>>,
                 AllBy(Tset.call, <<Val(t, B[2]), Val(t, y1), Val(t, B[2])>>)),
            Cell(<<CallS(Trep.call, <<Ref("p", 2, <<>>), Ref("y", 1, <<>>)>>), Pr(V0("p")), Set("p", ArgOf("k1", t)), Pr(V0("x")), Pr(V0("y"))>>,
                 AllBy(Trep.call, <<Val(t, y1), Val(t, B[2]), Val(t, B[1])>>)) >>
    IN [prog |-> Program(<<SDecl(t)>>, Tfill.fns \o Tincr.fns \o Tadd.fns \o Tset.fns \o Trep.fns \o Tcpy.fns,
                         Tfill.foreign \o Tincr.foreign \o Tadd.foreign \o Tset.foreign \o Trep.foreign \o Tcpy.foreign, cells),
        ex |-> Cat(cells, "ex")]

\* ---- family mix ---------------------------------------------------------------
\* rotation r of the nine types, the first k of them; variant 2 makes position 2 a view and position 7 a pointer
\* variant 3: no narrow integer travels by value (scalars from the wide types only; the view and the pointer have narrow
\* elements): long parameter lists that do not depend on how a narrow register argument is extended
WideInts == <<"i32", "i64", "u32", "u64", "usize">>
NarrowInts == <<"i8", "i16", "u8", "u16">>
MixTypes(r, k, variant) ==
    [i \in 1..k |-> IF variant = 3
                    THEN (IF i \in {2, 7} THEN [k |-> IF i = 2 THEN "v" ELSE "p", t |-> NarrowInts[((i + r) % 4) + 1]]
                          ELSE [k |-> "s", t |-> WideInts[((i + r) % 5) + 1]])
                    ELSE [k |-> IF variant = 2 /\ i = 2 THEN "v" ELSE IF variant = 2 /\ i = 7 THEN "p" ELSE "s",
                          t |-> AbiInts[((i + r - 2) % Len(AbiInts)) + 1]]]
\* the value at position i: top bit set, a different pattern per position
MixVal(t, i) == LET w == Width(t) IN IF i % 3 = 0 THEN MinSigned(w) ELSE IF i % 3 = 1 THEN Pat(w, 195, 16 + i) ELSE Pat(w, 255, 255 - i)
Mix(r, variant, dir) ==
    LET Ks == {k \in 1..MaxMix : k >= MaxMix - 3 \/ k \in {1, 3}}         \* the long lists (stack passing) and two short ones
        ts == MixTypes(r, MaxMix, variant)
        nm(k) == "mix" \o Num(k) \o "r" \o Num(r) \o "v" \o Num(variant)
        tgt(k) == Target(nm(k), [lib |-> "mix", ts |-> SubSeq(ts, 1, k)], dir)
        setup(i) == LET en == ts[i]
                        k == "k" \o Num(i)
                    IN <<Launder(k, MixVal(en.t, i))>>
                       \o (IF en.k = "v" THEN <<Decl("va" \o Num(i), ArrT(2, PrimT(en.t)), ArrLit(<<One(Width(en.t)), MixVal(en.t, i)>>, en.t))>>
                           ELSE IF en.k = "p" THEN <<Decl("pv" \o Num(i), PrimT(en.t), ArgOf(k, en.t))>> ELSE <<>>)
        arg(i) == LET en == ts[i]
                  IN IF en.k = "v" THEN V0("va" \o Num(i)) ELSE IF en.k = "p" THEN Ref("pv" \o Num(i), 1, <<>>) ELSE ArgOf("k" \o Num(i), en.t)
        terms(k) == [i \in 1..k |-> [t |-> ts[i].t, v |-> MixVal(ts[i].t, i)]]
        kseq == SetToSortSeq(Ks, LAMBDA a, b : a < b)
        cells == <<Cell(Cat([i \in 1..MaxMix |-> [c |-> setup(i)]], "c"), <<>>)>>
                 \o [j \in 1..Len(kseq) |-> Cell(<<Decl("r" \o Num(kseq[j]), U64, CallE(tgt(kseq[j]).call, [i \in 1..kseq[j] |-> arg(i)])),
                                                  Pr(V0("r" \o Num(kseq[j])))>>, <<By(tgt(kseq[j]).call, RMix(terms(kseq[j])))>>)]
    IN [prog |-> Program(<<>>, Cat([j \in 1..Len(kseq) |-> tgt(kseq[j])], "fns"), Cat([j \in 1..Len(kseq) |-> tgt(kseq[j])], "foreign"), cells),
        ex |-> Cat(cells, "ex")]

\* ---- family cb ----------------------------------------------------------------
Callback(t) ==
    LET T == PrimT(t)
        visit == Fn(Nm("p_visit", t), <<Par("v", T)>>, VoidT, <<Pr(V0("v")), Pr(CallE(Nm("c_widen", t), <<V0("v")>>))>>)
                 @@ [ext |-> TRUE, pub |-> TRUE]
        fe == Foreign(Nm("c_foreach", t), [lib |-> "foreach", t |-> t, cb |-> Nm("p_visit", t)])
        each(L, n) == Cell(<<CallS(Nm("c_foreach", t), <<V0("a" \o Num(L)), USZ(n)>>)>>,
                           Cat([i \in 1..n |-> [c |-> <<By(Nm("p_visit", t), Val(t, Xs(t, L)[i])), By(Nm("c_widen", t), RWiden(t, Xs(t, L)[i]))>>]], "c"))
        cells == <<Cell(<<Decl("a2", ArrT(2, T), ArrLit(Xs(t, 2), t)), Decl("a4", ArrT(4, T), ArrLit(Xs(t, 4), t))>>, <<>>),
                   each(2, 0), each(2, 2), each(4, 3), each(4, 4),
                   \* the extern fn called from Penne as well
                   Cell(<<CallS(Nm("p_visit", t), <<At("a4", USZ(0))>>)>>, <<By(Nm("p_visit", t), Val(t, Xs(t, 4)[1])), By(Nm("c_widen", t), RWiden(t, Xs(t, 4)[1]))>>)>>
    IN [prog |-> Program(<<>>, <<visit>>, <<Foreign(Nm("c_widen", t), [lib |-> "widen", t |-> t]), fe>>, cells),
        ex |-> Cat(cells, "ex")]

\* ---- static rule cells -----------------------------------------------------------
\* sig: `extern fn f(x: ty);` / `extern fn f(x: ty) { }` / `extern fn f() -> ty;`     len: `|x|` of a view parameter
WDecl == [name |-> "W", kind |-> "word", bits |-> 32, ms |-> <<[x |-> "m", ty |-> PrimT("i32")]>>]
AllPrims == AbiIntSet \cup {"i128", "u128", "bool", "char8"}
SigTypes == {PrimT(t) : t \in AllPrims}
            \cup {ViewT(PrimT(t)) : t \in AbiIntSet \cup {"bool", "u128"}}
            \cup {PtrT(PrimT(t)) : t \in AbiIntSet \cup {"i128"}}
            \cup {PtrT(PtrT(PrimT(t))) : t \in {"u8", "i64"}}
            \cup {PtrT(ViewT(PrimT(t))) : t \in {"u16", "i32", "usize"}}
            \cup {NamedT("S"), NamedT("W"), ArrT(2, PrimT("u8")), PtrT(NamedT("S")), PtrT(NamedT("W"))}
EmptyMain == [name |-> "main", params |-> <<>>, ret |-> VoidT, body |-> <<>>]
Sig(ty, pos, form) ==
    LET f == [name |-> "f", params |-> IF pos = "param" THEN <<Par("x", ty)>> ELSE <<>>, ret |-> IF pos = "ret" THEN ty ELSE VoidT,
              body |-> <<>>, ext |-> TRUE, pub |-> FALSE, head |-> form = "head"]
    IN [prog |-> [structs |-> <<SDecl("i32"), WDecl>>, consts |-> <<>>, fns |-> <<f, EmptyMain>>, foreign |-> <<>>],
        ex |-> <<>>, verdict |-> SigVerdict(ty)]
LenCell(t, kind, ext) ==
    LET f == [name |-> "f", params |-> <<Par("x", IF kind = "view" THEN ViewT(PrimT(t)) ELSE PtrT(ViewT(PrimT(t))))>>, ret |-> PrimT("usize"),
              body |-> <<>>, res |-> [k |-> "len", r |-> Plain("x", 0, <<>>)], ext |-> ext, pub |-> FALSE]
    IN [prog |-> [structs |-> <<>>, consts |-> <<>>, fns |-> <<f, EmptyMain>>, foreign |-> <<>>], ex |-> <<>>, verdict |-> LenVerdict(ext)]
Static == {"sig", "len"}

\* ---- the state machine -----------------------------------------------------------
Picks == {[fam |-> f, t |-> t, dir |-> d, r |-> 0, variant |-> 0] : f \in Families \cap {"view", "viewlit", "mut"}, t \in Types, d \in Dirs \ {"plain"}}
         \cup {[fam |-> "scalar", t |-> t, dir |-> d, r |-> 0, variant |-> 0] : t \in (IF "scalar" \in Families THEN Types ELSE {}), d \in Dirs}
         \cup {[fam |-> "mix", t |-> "", dir |-> d, r |-> r, variant |-> v] : r \in (IF "mix" \in Families THEN 1..Len(AbiInts) ELSE {}), v \in {1, 2, 3}, d \in Dirs}
         \cup {[fam |-> "cb", t |-> t, dir |-> "c2p", r |-> 0, variant |-> 0] : t \in (IF "cb" \in Families THEN Types ELSE {})}
         \cup {[fam |-> "sig", ty |-> ty, pos |-> pos, form |-> form] : ty \in (IF "sig" \in Families THEN SigTypes ELSE {}),
                                                                       pos \in {"param", "ret"}, form \in {"head", "body"}}
         \cup {[fam |-> "len", t |-> t, kind |-> kd, ext |-> x] : t \in (IF "len" \in Families THEN Types ELSE {}), kd \in {"view", "sptr"}, x \in BOOLEAN}
\* a result type is a listed primitive or rejected on other grounds; a body needs a value to return: parameters only
SigSensible(c) == c.fam = "sig" => ((c.pos = "ret" => (c.ty.k = "prim" /\ c.form = "head")))
Build(c) == CASE c.fam = "scalar" -> Scalar(c.t, c.dir) @@ [verdict |-> "run"]
              [] c.fam = "view" -> View(c.t, c.dir) @@ [verdict |-> "run"]
              [] c.fam = "viewlit" -> ViewLit(c.t, c.dir) @@ [verdict |-> "run"]
              [] c.fam = "mut" -> Mut(c.t, c.dir) @@ [verdict |-> "run"]
              [] c.fam = "mix" -> Mix(c.r, c.variant, c.dir) @@ [verdict |-> "run"]
              [] c.fam = "cb" -> Callback(c.t) @@ [verdict |-> "run"]
              [] c.fam = "sig" -> Sig(c.ty, c.pos, c.form)
              [] c.fam = "len" -> LenCell(c.t, c.kind, c.ext)
None == [fam |-> ""]
\* the program is built once and kept in a variable (an operator argument would be re-evaluated at every reference)
VARIABLES pick, built, res, done
vars == <<pick, built, res, done>>
Init == pick = None /\ built = <<>> /\ res = [status |-> "none"] /\ done = FALSE
Pick == /\ pick = None
        /\ \E c \in Picks : SigSensible(c) /\ pick' = c /\ built' = Build(c)
        /\ UNCHANGED <<res, done>>
Exec == /\ pick # None /\ ~done
        /\ res' = IF pick.fam \in Static THEN [status |-> "static"] ELSE Run(MProg(built.prog), Fuel)
        /\ done' = TRUE
        /\ UNCHANGED <<pick, built>>
Next == Pick \/ Exec
Spec == Init /\ [][Next]_vars

\* every program of the family is a complete, well-behaved program of the machine
Dynamic == done /\ pick.fam \notin Static
Sane == Dynamic => (res.status = "done" /\ res.bad = <<>> /\ res.exit = <<0>>)
\* A |= R: the machine, running the meanings of the foreign functions, prints what the declarative rule says
Agree == Dynamic => (Len(res.out) = Len(built.ex) /\ \A i \in 1..Len(built.ex) : res.out[i].t = built.ex[i].t /\ res.out[i].v = built.ex[i].v)
\* vacuity guards: the families are there, values with the top bit set do cross the boundary
NonVacuous == Dynamic => (Len(built.ex) >= 3 /\ \E i \in 1..Len(built.ex) : built.ex[i].v[Len(built.ex[i].v)] >= 128)
\* the library as a table (for the seeded generator of the random part: it instantiates these bodies, and Trace_CInterop
\* checks every instance against Lib again)
SimpleKinds == {"id", "widen", "narrow", "sum", "max", "at", "fill", "incr", "addto", "setpp", "repoint", "copy"}
EmitLib == (pick = None) =>
    \A kd \in SimpleKinds, t \in AbiIntSet : PrintT(<<"LIB", ToJson([lib |-> kd, t |-> t, fn |-> Lib("NAME", [lib |-> kd, t |-> t])])>>)
EmitCase == done =>
    PrintT(<<"CASE", ToJson([pick |-> pick, status |-> res.status, verdict |-> built.verdict, abi |-> AbiRule(built.prog),
                             out |-> built.ex,
                             prog |-> built.prog])>>)
=============================================================================

SPECIFICATION Spec
CONSTANTS
  MinN = 1
  MaxN = 3
  Kinds = {"c", "s"}
  AllowSelf = TRUE
  AllowPtr = FALSE
  AllowConstPtr = FALSE
  AllPerms = TRUE
  ChainMode = FALSE
  Stepwise = TRUE
INVARIANTS VerifyAgreeSound ClosureOK
CHECK_DEADLOCK FALSE

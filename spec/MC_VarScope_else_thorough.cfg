SPECIFICATION Spec
CONSTANTS
  MaxLen = 7
  MinFns = 1
  MaxFns = 1
  Phased = FALSE
  NeedResult = FALSE
  MaxDepth = 2
  VNames = {"a"}
  LNames = {"y"}
  BodyKinds = {"IO", "EO", "C", "EG", "EIG", "V", "U", "L"}
  Configs <- NoConfig
INVARIANTS AgreeScoper Sound EmitCase
CHECK_DEADLOCK FALSE

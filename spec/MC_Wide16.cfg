SPECIFICATION Spec
CONSTANTS
  W = 16
  Grid <- Grid16
INVARIANT OK
CHECK_DEADLOCK FALSE

---------------------------- MODULE DeltaScoper ----------------------------
(***************************************************************************)
(* EXTENSION (no listed property): the symbol table of the second          *)
(* generation, src/delta/scoper/top_level.rs `TopLevelScoper` -- public,   *)
(* compiled, not yet called by the front end.  A sequential object with a  *)
(* clear meaning, so the specification is the abstract object and every    *)
(* behaviour TLC generates is one test of the real one (pvh_delta          *)
(* `scoper`).                                                              *)
(*                                                                         *)
(* R -- the laws of a symbol table with three namespaces (functions,       *)
(* constants, structures) and per-structure member lists; nothing else is  *)
(* documented, so only these are demanded:                                 *)
(*   L1 total      no call panics;                                         *)
(*   L2 declare    a name not yet in the namespace is accepted, a name     *)
(*                 already in it is DuplicateDeclaration{previous = the    *)
(*                 location of the accepted declaration};                  *)
(*   L3 use        a declared name resolves to THE id its declaration      *)
(*                 returned; an undeclared name is UndeclaredReference the *)
(*                 first time and Poisoned afterwards (one diagnostic per  *)
(*                 name, in whatever namespace it was looked up);          *)
(*   L4 members    member names are unique within the latest structure and *)
(*                 independent between structures;                         *)
(*   L5 fresh ids  every accepted declaration returns an id no earlier     *)
(*                 call returned.                                          *)
(* A -- the code: one counter, `declare_structural` inserts id n and        *)
(* RETURNS n + 1 (the id of the member list), the identifier stack never   *)
(* records locations.  TLC compares A with R (Agree) and shows where they  *)
(* part (MC_DeltaScoper.cfg, expected to FAIL: that is the finding).       *)
(***************************************************************************)
EXTENDS Naturals, Sequences, FiniteSets, TLC

CONSTANTS Names, MaxCalls

Spaces == {"fn", "const", "struct"}
Ops == {"declare", "use"}

\* ------------------------------------------------------------------ R
\* state: per namespace a function name -> [loc, id]; members of the latest structure; names already reported; ids handed out
RInit == [ns |-> [s \in Spaces |-> <<>>], members |-> <<>>, open |-> FALSE, reported |-> {}, ids |-> {}]
Find(seq, n) == { i \in 1..Len(seq) : seq[i].name = n }
RDeclare(st, s, n, loc, id) ==
    IF Find(st.ns[s], n) # {}
    THEN [st |-> st, res |-> [t |-> "dup", previous |-> st.ns[s][CHOOSE i \in Find(st.ns[s], n) : TRUE].loc]]
    ELSE [st |-> [st EXCEPT !.ns[s] = Append(@, [name |-> n, loc |-> loc, id |-> id]), !.ids = @ \cup {id},
                            !.members = IF s = "struct" THEN <<>> ELSE @, !.open = IF s = "struct" THEN TRUE ELSE @],
          res |-> [t |-> "ok", id |-> id]]
RUse(st, s, n) ==
    IF Find(st.ns[s], n) # {}
    THEN [st |-> st, res |-> [t |-> "ok", id |-> st.ns[s][CHOOSE i \in Find(st.ns[s], n) : TRUE].id]]
    ELSE IF n \in st.reported THEN [st |-> st, res |-> [t |-> "poisoned"]]
    ELSE [st |-> [st EXCEPT !.reported = @ \cup {n}], res |-> [t |-> "undeclared"]]
RMember(st, n, loc, id) ==
    IF \E i \in 1..Len(st.members) : st.members[i].name = n
    THEN [st |-> st, res |-> [t |-> "dup", previous |-> st.members[CHOOSE i \in 1..Len(st.members) : st.members[i].name = n].loc]]
    ELSE [st |-> [st EXCEPT !.members = Append(@, [name |-> n, loc |-> loc]), !.ids = @ \cup {id}], res |-> [t |-> "ok", id |-> id]]

\* ------------------------------------------------------------------ A (the code, line by line)
AInit == [fns |-> <<>>, consts |-> <<>>, types |-> <<>>, mnames |-> <<>>, mlocs |-> <<>>, mlens |-> <<>>, poisoned |-> <<>>, rid |-> 0]
NsInsert(ns, n, loc, id) ==      \* Namespace::insert
    IF Find(ns, n) # {} THEN [ok |-> FALSE, previous |-> ns[CHOOSE i \in Find(ns, n) : \A j \in Find(ns, n) : i <= j].loc, ns |-> ns]
    ELSE [ok |-> TRUE, ns |-> Append(ns, [name |-> n, loc |-> loc, id |-> id])]
AUndeclared(a, n, loc) ==        \* on_undeclared_name
    IF Find(a.poisoned, n) # {} THEN [a |-> a, res |-> [t |-> "poisoned"]]
    ELSE [a |-> [a EXCEPT !.rid = @ + 1, !.poisoned = Append(@, [name |-> n, loc |-> loc, id |-> a.rid + 1])], res |-> [t |-> "undeclared"]]
ADeclarePlain(a, field, n, loc) ==
    LET id == a.rid + 1
        r == NsInsert(a[field], n, loc, id)
    IN IF r.ok THEN [a |-> [a EXCEPT !.rid = id, ![field] = r.ns], res |-> [t |-> "ok", id |-> id]]
       ELSE [a |-> [a EXCEPT !.rid = id], res |-> [t |-> "dup", previous |-> r.previous]]
ADeclareStruct(a, n, loc) ==
    LET id == a.rid + 1
        r == NsInsert(a.types, n, loc, id)
    IN IF r.ok THEN [a |-> [a EXCEPT !.rid = id + 1, !.types = r.ns, !.mlens = Append(@, Len(a.mnames))],
                     res |-> [t |-> "ok", id |-> id + 1]]          \* returns a SECOND fresh id, not the one it stored
       ELSE [a |-> [a EXCEPT !.rid = id], res |-> [t |-> "dup", previous |-> r.previous]]
AUsePlain(a, field, n, loc) ==
    IF Find(a[field], n) # {} THEN [a |-> a, res |-> [t |-> "ok", id |-> a[field][CHOOSE i \in Find(a[field], n) : TRUE].id]]
    ELSE AUndeclared(a, n, loc)
AMember(a, n, loc) ==            \* IdentifierStack::insert: names are pushed, locations never
    LET start == IF a.mlens = <<>> THEN 0 ELSE a.mlens[Len(a.mlens)]
        hit == { i \in (start + 1)..Len(a.mnames) : a.mnames[i] = n }
    IN IF hit # {}
       THEN (LET i == CHOOSE i \in hit : \A j \in hit : i <= j
             IN IF i > Len(a.mlocs) THEN [a |-> a, res |-> [t |-> "panic"]]       \* self.locations[i]: index out of bounds
                ELSE [a |-> a, res |-> [t |-> "dup", previous |-> a.mlocs[i]]])
       ELSE [a |-> [a EXCEPT !.mnames = Append(@, n), !.rid = @ + 1], res |-> [t |-> "ok", id |-> a.rid + 1]]

Field(s) == CASE s = "fn" -> "fns" [] s = "const" -> "consts" [] OTHER -> "types"

\* ------------------------------------------------------------------ Gen: call sequences
\* R names ids symbolically: the id of an accepted declaration IS the number of the call that made it (its location); `ret`
\* remembers what A returned at each call, so that "resolves to the id its declaration returned" can be compared.
VARIABLES calls, rst, ast, ret, agree
vars == <<calls, rst, ast, ret, agree>>
Init == calls = <<>> /\ rst = RInit /\ ast = AInit /\ ret = <<>> /\ agree = TRUE
Returned == { ret[i] : i \in 1..Len(ret) } \ {0}
Call(op, s, n) ==
    /\ Len(calls) < MaxCalls
    /\ LET loc == Len(calls) + 1
           am == IF op = "member" THEN AMember(ast, n, loc)
                 ELSE IF op = "declare" THEN (IF s = "struct" THEN ADeclareStruct(ast, n, loc) ELSE ADeclarePlain(ast, Field(s), n, loc))
                 ELSE AUsePlain(ast, Field(s), n, loc)
           rm == IF op = "member" THEN RMember(rst, n, loc, loc)
                 ELSE IF op = "declare" THEN RDeclare(rst, s, n, loc, loc)
                 ELSE RUse(rst, s, n)
           same == CASE rm.res.t = "ok" /\ op = "use" -> am.res.t = "ok" /\ am.res.id = ret[rm.res.id]      \* L3
                     [] rm.res.t = "ok" -> am.res.t = "ok" /\ am.res.id \notin Returned                      \* L2 / L4 + L5
                     [] OTHER -> am.res = rm.res
       IN /\ calls' = Append(calls, [op |-> op, s |-> s, n |-> n, expect |-> rm.res, model |-> am.res.t])
          /\ ast' = am.a /\ rst' = rm.st
          /\ ret' = Append(ret, IF am.res.t = "ok" /\ op # "use" THEN am.res.id ELSE 0)
          /\ agree' = (agree /\ same)
Next == \E n \in Names :
           \/ \E s \in Spaces, op \in Ops : Call(op, s, n)
           \/ (rst.open /\ Call("member", "struct", n))
Spec == Init /\ [][Next]_vars

Agree == agree
=============================================================================

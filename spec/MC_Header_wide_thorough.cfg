SPECIFICATION Spec
CONSTANTS
  MaxDecls = 5
  Names <- MCNames
  Shapes <- WideShapes
  SkipOffByOne = FALSE
  KeepListFirst = FALSE
  KeepPublicFlag = FALSE
  NoBodyZone = FALSE
INVARIANTS Incremental ParseFaithful ZonesOK ZoneCoverage HeaderIsRule RefsIntact NothingPrivate Conservation EmitCase
CHECK_DEADLOCK FALSE

INIT Init
NEXT Next
CONSTANTS
  MaxSteps = 4
  Thorough = TRUE
INVARIANTS Agree Emit
CHECK_DEADLOCK FALSE

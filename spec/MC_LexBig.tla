------------------------------ MODULE MC_LexBig ------------------------------
(***************************************************************************)
(* C14, spec -> impl, third family (dimension audit): texts whose SIZE is  *)
(* the dimension -- offsets, line numbers, columns, token lengths, token    *)
(* counts, error counts and payload counts beyond 2^8, 2^12, 2^16.  TLC     *)
(* cannot lex 64 KiB byte by byte in useful time (measured: > 10 min), so   *)
(* the big texts are SCALED from small ones, and what scaling does to the   *)
(* reference lexing is stated here and checked by TLC on the small ones:    *)
(*                                                                         *)
(* Rep   text(n, q) = Fill^n \o Pad^q \o Tail.  Fill ends with a line feed  *)
(*       (or contains none), so the automaton is in its start state after   *)
(*       every copy.  RepLemma: the items of text(n, q) are the items of    *)
(*       Fill, shifted by j * (bytes, characters, lines of Fill) for        *)
(*       j = 0 .. n-1, followed by the items of Pad^q \o Tail shifted by n  *)
(*       copies.  Checked for n = 0 .. 3, q = 0 .. 2 on every (Fill, Tail). *)
(* Grow  text(n) = Head \o Unit^n \o Rest where Unit repeats INSIDE one     *)
(*       lexeme (identifier, digits, string, comment, blanks).  GrowLemma:  *)
(*       the number and kinds of the items do not depend on n and every     *)
(*       numeric field is affine in n; identifier / string bytes are        *)
(*       P \o U^n \o S.  Checked at n = base, base+1, base+2.               *)
(*                                                                         *)
(* One CASE per (Fill, Tail) resp. (Head, Unit, Rest) with the small items  *)
(* and the shifts; checks/c14_big.py expands them to the requested sizes    *)
(* (the targets below), pvh_lex builds the texts and runs both real lexers. *)
(* E103: the documentation gives no number for "too many tokens"; as in     *)
(* C15 the rule allows E103 for the second generation only above TokCap     *)
(* tokens (unconstrained there).                                            *)
(***************************************************************************)
EXTENDS PenneLex, Json

VARIABLE p

TokCap == 65536
\* the first token of the tail ends exactly at / starts exactly at / ends one byte after these offsets
OffsetTargets == {256, 4096, 65536}
\* number of copies (lines, tokens, errors, payloads) to cross
CountTargets == {99, 100, 101, 255, 256, 257, 1023, 1024, 1025, 65534, 65535, 65536, 65537}
\* lengths of one lexeme to cross
LengthTargets == {1, 255, 256, 257, 4095, 4096, 65535, 65536, 65537}

Fills == <<
    <<97, 10>>,                                          \* a LF                (one token per line)
    <<10>>,                                              \* LF                  (empty lines)
    <<13, 10>>,                                          \* CRLF
    <<120, 32, 61, 32, 49, 59, 13, 10>>,                 \* x = 1; CRLF
    <<47, 47, 32, 195, 169, 10>>,                        \* // e-acute LF       (bytes and characters diverge)
    <<34, 226, 130, 172, 34, 32, 39, 97, 39, 10>>,       \* "euro" 'a' LF
    <<48, 120, 102, 102, 95, 117, 56, 32, 49, 50, 10>>,  \* 0xff_u8 12 LF       (two payloads per line)
    <<55, 10>>,                                          \* 7 LF                (identical payloads)
    <<40, 10>>,                                          \* ( LF
    <<64, 10>>,                                          \* @ LF                (one E110 per line)
    <<34, 97, 10>>,                                      \* "a LF               (one E160 per line)
    <<97, 13, 10, 98, 10, 99, 13, 10>>,                  \* mixed CRLF / LF / CRLF
    <<40>>,                                              \* (                   (dense tokens, one line)
    <<40, 32>>,                                          \* ( SPACE             (half dense, one line)
    <<97, 32>>,                                          \* a SPACE             (one long line of identifiers)
    <<195, 169, 32>>,                                    \* e-acute SPACE       (alpha: one E110 per character, delta: per byte)
    <<49, 32>>                                           \* 1 SPACE             (payloads on one line)
>>
Tails == <<
    <<120>>,                                             \* x            (last token at the very end, no line end)
    <<120, 10>>,                                         \* x LF
    <<120, 13, 10>>,                                     \* x CRLF
    <<120, 32, 47, 47, 32, 99>>,                         \* x // c       (comment last, no line end)
    <<47, 47>>,                                          \* //
    <<34, 115, 34>>,                                     \* "s"
    <<49, 50, 51, 52, 53, 117, 54, 52>>,                 \* 12345u64
    <<34, 117, 110, 99>>,                                \* "unc         (not closed, end of file)
    <<39, 97, 39, 13>>,                                  \* 'a' CR       (lone CR at the end)
    <<64>>,                                              \* @
    <<102, 110, 10, 120, 121, 122, 32, 60, 61, 10>>,     \* fn LF xyz <= LF
    <<34, 92>>                                           \* "\           (backslash at the end of the file)
>>
Pad == <<32>>

Grows == <<
    [head |-> <<97>>, unit |-> <<98>>, rest |-> <<>>, base |-> 0],                          \* identifier a b^n
    [head |-> <<95>>, unit |-> <<95>>, rest |-> <<32, 120>>, base |-> 1],                   \* _ _^n SPACE x
    [head |-> <<102, 110>>, unit |-> <<110>>, rest |-> <<>>, base |-> 1],                   \* fn n^n
    [head |-> <<112>>, unit |-> <<113>>, rest |-> <<33, 40>>, base |-> 0],                  \* p q^n ! (
    [head |-> <<49>>, unit |-> <<95>>, rest |-> <<>>, base |-> 0],                          \* 1 _^n
    [head |-> <<49>>, unit |-> <<95>>, rest |-> <<117, 56, 59>>, base |-> 0],               \* 1 _^n u8 ;
    [head |-> <<48, 120>>, unit |-> <<48>>, rest |-> <<49>>, base |-> 0],                   \* 0x 0^n 1
    [head |-> <<48, 120>>, unit |-> <<95>>, rest |-> <<102, 102, 117, 49, 54>>, base |-> 0],\* 0x _^n ffu16
    [head |-> <<48, 98>>, unit |-> <<48>>, rest |-> <<49, 32, 120>>, base |-> 0],           \* 0b 0^n 1 SPACE x
    [head |-> <<57>>, unit |-> <<57>>, rest |-> <<32, 120>>, base |-> 40],                  \* 9 9^n SPACE x   (E140)
    [head |-> <<49>>, unit |-> <<113>>, rest |-> <<>>, base |-> 1],                         \* 1 q^n           (E141)
    [head |-> <<34>>, unit |-> <<97, 98>>, rest |-> <<34, 59>>, base |-> 0],                \* " (ab)^n " ;
    [head |-> <<34>>, unit |-> <<92, 110>>, rest |-> <<34>>, base |-> 0],                   \* " (\n)^n "
    [head |-> <<34>>, unit |-> <<195, 169>>, rest |-> <<34, 32, 120>>, base |-> 0],         \* " e-acute^n " SPACE x
    [head |-> <<34>>, unit |-> <<92, 117, 123, 50, 48, 97, 99, 125>>, rest |-> <<34>>, base |-> 0],   \* " (\u{20ac})^n "
    [head |-> <<34>>, unit |-> <<97>>, rest |-> <<>>, base |-> 0],                          \* " a^n           (E160)
    [head |-> <<39>>, unit |-> <<97>>, rest |-> <<39>>, base |-> 2],                        \* ' a^n '         (E163)
    [head |-> <<47, 47>>, unit |-> <<120>>, rest |-> <<10, 121>>, base |-> 0],              \* // x^n LF y
    [head |-> <<47, 47>>, unit |-> <<226, 130, 172>>, rest |-> <<13, 10, 121>>, base |-> 0],\* // euro^n CRLF y
    [head |-> <<>>, unit |-> <<32>>, rest |-> <<120, 32, 34, 115, 34>>, base |-> 0],        \* SPACE^n x "s"   (column)
    [head |-> <<>>, unit |-> <<9>>, rest |-> <<64>>, base |-> 0],                           \* TAB^n @
    [head |-> <<97, 32>>, unit |-> <<32>>, rest |-> <<47, 47>>, base |-> 0]                 \* a SPACE^n //
>>

Init == p = [fam |-> "root"]
Next == /\ p.fam = "root"
        /\ \/ \E f \in 1..Len(Fills), t \in 1..Len(Tails) : p' = [fam |-> "rep", f |-> f, t |-> t]
           \/ \E i \in 1..Len(Grows) : p' = [fam |-> "grow", i |-> i]
Spec == Init /\ [][Next]_p

(* ---- Rep ---- *)
RECURSIVE RepT(_, _)
RepT(u, k) == IF k = 0 THEN <<>> ELSE u \o RepT(u, k - 1)
CountLF(u) == Cardinality({i \in 1..Len(u) : u[i] = 10})
CountCh(u) == Cardinality({i \in 1..Len(u) : ~IsCont(u[i])})
NotEnd(it) == it.k # "EndOfSource" /\ it.code # 101
\* the items of a text that is followed by more text: no end-of-source items
Inner(g, u) == SelectSeq(LexAll(g, u), NotEnd)
\* an item moved behind j copies of a filler of (db bytes, dc characters, dl lines); a filler without line feed also moves
\* the columns of what stands on the first line behind it
Shift(it, j, db, dc, dl) ==
    LET col == dl = 0 /\ it.ln = 1
    IN [it EXCEPT !.bs = @ + j * db, !.be = @ + j * db, !.ls = @ + j * db, !.le = @ + j * db,
                  !.cs = @ + j * dc, !.ce = @ + j * dc, !.lcs = @ + j * dc, !.lce = @ + j * dc,
                  !.ln = @ + j * dl,
                  !.cb = IF col THEN @ + j * db ELSE @, !.cc = IF col THEN @ + j * dc ELSE @]
ShiftAll(items, j, db, dc, dl) == [i \in 1..Len(items) |-> Shift(items[i], j, db, dc, dl)]
RECURSIVE Copies(_, _, _, _, _, _)
Copies(items, j, n, db, dc, dl) == IF j >= n THEN <<>> ELSE ShiftAll(items, j, db, dc, dl) \o Copies(items, j + 1, n, db, dc, dl)
RepExpected(g, fill, tail, n, q) ==
    LET db == Len(fill)
        dc == CountCh(fill)
        dl == CountLF(fill)
    IN Copies(Inner(g, fill), 0, n, db, dc, dl) \o ShiftAll(LexAll(g, RepT(Pad, q) \o tail), n, db, dc, dl)
\* a filler without line feed must leave the automaton between lexemes: it ends with a blank or a one-byte token
RepLemma(fill, tail) ==
    \A g \in {"delta", "alpha"} : \A n \in 0..3 : \A q \in 0..2 :
        LexAll(g, RepT(fill, n) \o RepT(Pad, q) \o tail) = RepExpected(g, fill, tail, n, q)
RepCase(x) ==
    LET fill == Fills[x.f]
        tail == Tails[x.t]
        td == LexAll("delta", tail)
    IN [fam |-> "rep", fill |-> fill, tail |-> tail, u |-> Utf8Valid(fill \o tail),
        db |-> Len(fill), dc |-> CountCh(fill), dl |-> CountLF(fill),
        dfill |-> Items(SelectSeq(Inner("delta", fill), NotComment)), afill |-> Items(SelectSeq(Inner("alpha", fill), NotComment)),
        \* the tail behind 0, 1, 2 pad blanks (they move the columns and offsets of its first line only)
        dtail |-> [q \in 1..3 |-> Items(SelectSeq(LexAll("delta", RepT(Pad, q - 1) \o tail), NotComment))],
        atail |-> [q \in 1..3 |-> Items(SelectSeq(LexAll("alpha", RepT(Pad, q - 1) \o tail), NotComment))],
        \* first lexeme of the tail (comments included): where it starts and ends
        ts |-> td[1].ls, te |-> td[1].le,
        offsets |-> OffsetTargets, counts |-> CountTargets, tokcap |-> TokCap]

(* ---- Grow ---- *)
GrowText(x, n) == x.head \o RepT(x.unit, n) \o x.rest
NumFields(it) == <<it.bs, it.be, it.cs, it.ce, it.ln, it.cb, it.cc, it.ls, it.le, it.lcs, it.lce>>
Diff(a, b) == [i \in 1..Len(a) |-> b[i] - a[i]]
\* item b is item a grown by d (numeric fields), everything else equal except the bytes
Grown(a, b, d) == /\ NumFields(b) = [i \in 1..11 |-> NumFields(a)[i] + d[i]]
                  /\ a.k = b.k /\ a.code = b.code /\ a.v = b.v /\ a.ty = b.ty /\ a.ex = b.ex /\ a.alt = b.alt
                  /\ a.opt = b.opt /\ a.unc = b.unc
\* bytes of an item at n = base + j: P \o U^j \o S with P \o S the bytes at the base (U may be empty)
BytesParts(b0, b1) ==
    LET RECURSIVE Pre(_)
        Pre(i) == IF i <= Len(b0) /\ i <= Len(b1) /\ b0[i] = b1[i] THEN Pre(i + 1) ELSE i - 1
        pl == Pre(1)
        ul == Len(b1) - Len(b0)
    IN [pre |-> SubSeq(b0, 1, pl), unit |-> SubSeq(b1, pl + 1, pl + ul), suf |-> SubSeq(b0, pl + 1, Len(b0))]
GrowLemmaG(g, x) ==
    LET i0 == LexAll(g, GrowText(x, x.base))
        i1 == LexAll(g, GrowText(x, x.base + 1))
        i2 == LexAll(g, GrowText(x, x.base + 2))
    IN /\ Len(i0) = Len(i1) /\ Len(i1) = Len(i2)
       /\ \A k \in 1..Len(i0) :
            LET d == Diff(NumFields(i0[k]), NumFields(i1[k]))
                bp == BytesParts(i0[k].by, i1[k].by)
            IN /\ Grown(i0[k], i1[k], d) /\ Grown(i1[k], i2[k], d)
               /\ i1[k].by = bp.pre \o bp.unit \o bp.suf
               /\ i2[k].by = bp.pre \o bp.unit \o bp.unit \o bp.suf
GrowLemma(x) == GrowLemmaG("delta", x) /\ (Utf8Valid(GrowText(x, 1)) => GrowLemmaG("alpha", x))
GrowCase(x0) ==
    LET x == Grows[x0.i]
        E(g) == LET i0 == SelectSeq(LexAll(g, GrowText(x, x.base)), NotComment)
                    i1 == SelectSeq(LexAll(g, GrowText(x, x.base + 1)), NotComment)
                IN [k \in 1..Len(i0) |-> [it |-> ItemT(i0[k]), d |-> Diff(NumFields(i0[k]), NumFields(i1[k])),
                                          by |-> BytesParts(i0[k].by, i1[k].by)]]
    IN [fam |-> "grow", head |-> x.head, unit |-> x.unit, rest |-> x.rest, base |-> x.base, u |-> Utf8Valid(GrowText(x, 1)),
        d |-> E("delta"), a |-> IF Utf8Valid(GrowText(x, 1)) THEN E("alpha") ELSE <<>>,
        lengths |-> LengthTargets]

BigOK == /\ p.fam = "rep" => /\ RepLemma(Fills[p.f], Tails[p.t])
                             /\ PrintT(<<"CASE", ToJson(RepCase(p))>>)
         /\ p.fam = "grow" => /\ GrowLemma(Grows[p.i])
                              /\ PrintT(<<"CASE", ToJson(GrowCase(p))>>)
=============================================================================

SPECIFICATION Spec
CONSTANTS
  MaxLen = 4
  MinFns = 1
  MaxFns = 1
  Phased = FALSE
  NeedResult = FALSE
  MaxDepth = 2
  VNames = {"a", "b"}
  LNames = {"y"}
  BodyKinds = {"O", "C", "V", "U", "L", "IG"}
  Configs <- SomeConfigs
INVARIANTS AgreeScoper Sound EmitCase
CHECK_DEADLOCK FALSE

---------------------------- MODULE MC_MachineCF ----------------------------
(***************************************************************************)
(* C01 control-flow skeletons: every function body over nested blocks,     *)
(* if/else-if/else chains (braced or goto), labels, gotos, block loops,    *)
(* a counter increment and a print, up to MaxLen items.  Bodies that the   *)
(* scoping rules accept (FlatBody label rule; loop only as the last        *)
(* statement of a block) are executed by Machine.tla; one CASE per body    *)
(* that terminates within the fuel, with the output the semantics give.    *)
(***************************************************************************)
EXTENDS Machine, Json, TLCExt, SequencesExt
CONSTANTS MaxLen, MaxDepth, Fuel,
          Alphabet,     \* the item kinds bodies are built from
          Names,        \* the label names (two names give equal names in different scopes: `{ goto y; y: } { goto y; y: }`)
          Shape         \* "any", or "loop": the body starts with a block and contains a `loop` (terminating loops need 7+ items)

I32(n) == [k |-> "lit", t |-> "i32", v |-> FromNat(n, 32)]
N == [k |-> "var", x |-> "n"]
Cond == [op |-> ">=", l |-> N, r |-> I32(2)]
\* print 100 * n + position: shows both the path taken and the counter
Pr(p) == [k |-> "P", e |-> [k |-> "bin", op |-> "+", l |-> [k |-> "bin", op |-> "*", l |-> N, r |-> I32(100)], r |-> I32(p)]]
Inc == [k |-> "S", x |-> "n", e |-> [k |-> "bin", op |-> "+", l |-> N, r |-> I32(1)]]
Kinds == {"O", "IO", "EO", "EIO", "C", "IG", "EG", "EIG", "G", "L", "LP", "P", "INC"}
Named == {"IG", "EIG", "G", "EG", "L"}
Mk(k, p, nm) == CASE k \in {"IO", "EIO"} -> [k |-> k, c |-> Cond, n |-> ""]
              [] k \in {"IG", "EIG"} -> [k |-> k, c |-> Cond, n |-> nm]
              [] k \in {"G", "EG", "L"} -> [k |-> k, n |-> nm]
              [] k = "P" -> [Pr(p) EXCEPT !.k = "P"] @@ [n |-> ""]
              [] k = "INC" -> Inc @@ [n |-> ""]
              [] OTHER -> [k |-> k, n |-> ""]

VARIABLES body, kinds, names, opens, last, done, res, agree
vars == <<body, kinds, names, opens, last, done, res, agree>>
Init == body = <<>> /\ kinds = <<>> /\ names = <<>> /\ opens = <<>> /\ last = "none" /\ done = FALSE /\ res = [status |-> "none"] /\ agree = TRUE

Prog(b) == [consts |-> <<>>,
            fns |-> <<[name |-> "main", params |-> <<>>, ret |-> [k |-> "prim", t |-> "u8"],
                       body |-> <<[k |-> "V", x |-> "n", ty |-> [k |-> "prim", t |-> "i32"], e |-> I32(0), n |-> ""]>> \o b,
                       res |-> [k |-> "lit", t |-> "u8", v |-> <<7>>]]>>]
Grow(k, nm) ==
    /\ ~done /\ Len(body) < MaxLen
    /\ (Shape = "loop" /\ Len(body) = 0) => k = "O"
    /\ (k \in ElseKinds) => last = "if"
    /\ (Len(kinds) > 0 /\ kinds[Len(kinds)] = "LP") => k = "C"
    /\ k = "LP" => Len(opens) > 0
    /\ CASE k \in Openers -> Len(opens) < MaxDepth /\ opens' = Append(opens, k) /\ last' = "none"
         [] k = "C" -> /\ Len(opens) > 0 /\ opens' = SubSeq(opens, 1, Len(opens) - 1)
                       /\ last' = IF opens[Len(opens)] \in IfKinds THEN "if" ELSE "none"
         [] OTHER -> opens' = opens /\ last' = IF k \in IfKinds THEN "if" ELSE "none"
    /\ body' = Append(body, Mk(k, Len(body) + 1, nm)) /\ kinds' = Append(kinds, k) /\ names' = Append(names, nm)
    /\ UNCHANGED <<done, res, agree>>
\* the linear scans the machine uses agree with the declarative definitions (FlatBody's label rule)
ScansAgree(b) == \A i \in 1..Len(b) :
                    /\ BlkFast(b, i) = BlockOf(b, i)
                    /\ (b[i].k \in GotoKinds => TargetFast(b, i) = GotoTarget(b, i))
                    /\ (b[i].k = "C" => OpenFast(b, i) = OpenerOf(b, i))
                    /\ (b[i].k \in Openers => EndOf(b, i) = CloseOf(b, i))
Finish ==
    /\ ~done /\ opens = <<>> /\ (Len(kinds) > 0 => kinds[Len(kinds)] # "LP")
    /\ (Shape = "loop" => \E i \in 1..Len(kinds) : kinds[i] = "LP")
    /\ done' = TRUE
    \* positions shift by one because of the prelude `var n`; the label rule is position independent
    /\ res' = IF RuleAccepts(body) THEN Run(Prog(body), Fuel) ELSE [status |-> "invalid"]
    /\ agree' = (RuleAccepts(body) => ScansAgree(body))
    /\ UNCHANGED <<body, kinds, names, opens, last>>
Next == (\E k \in Alphabet \cap Kinds : \E nm \in (IF k \in Named THEN Names ELSE {""}) : Grow(k, nm)) \/ Finish
Spec == Init /\ [][Next]_vars

\* the machine's own sanity: forward/outward jumps only, output values well formed
MachineSane == (done /\ res.status \in {"done", "fuel", "ub"}) =>
                  \A i \in 1..Len(res.out) : res.out[i].t = "i32" /\ Len(res.out[i].v) = 4
NoUB == done => res.status \notin {"ub", "stuck", "illegal"}
\* the machine's monitors: goto forward and outward only, stored values fit their types, non-interference
Monitors == (done /\ res.status \in {"done", "fuel"}) => res.bad = <<>>
Scans == agree
EmitCase == (done /\ res.status = "done") =>
    PrintT(<<"CASE", ToJson([b |-> kinds, ns |-> names,
                             out |-> [i \in 1..Len(res.out) |-> res.out[i].v],
                             exit |-> res.exit])>>)
=============================================================================

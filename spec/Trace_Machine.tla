--------------------------- MODULE Trace_Machine ---------------------------
(***************************************************************************)
(* Trace validation for C01 / C10 (impl -> spec).  A recording holds, per  *)
(* program: the abstract program that was compiled, one `print` event per  *)
(* line the compiled program wrote (decimal text converted to the 128-bit  *)
(* pattern), and its exit status (or `hang`, or `crash` when the process   *)
(* was killed by a signal: its buffered output is lost, so no prints are   *)
(* logged).  TLC runs Machine.tla on the logged program: each logged event *)
(* must be the next observable event of the machine.  A program on which   *)
(* the machine meets undefined behaviour or runs out of fuel is trivial:   *)
(* the rest of its recording is accepted unexamined and it is reported in  *)
(* a TRIVIAL note.  A crash is accepted only for such a program.  A        *)
(* program that the machine cannot run (status "illegal": a write through  *)
(* a view, to a parameter or to a constant; "stuck": ill-formed) or that   *)
(* trips one of the machine's monitors (non-interference, stored values    *)
(* fit their types, goto forward and outward) is rejected.                 *)
(***************************************************************************)
EXTENDS Machine, Json, IOUtils, TLCExt
CONSTANT Fuel

Rec == ndJsonDeserialize(IOEnv.TRACE)
VARIABLES l, m, pi, phase
tvars == <<l, m, pi, phase>>

Idle == [status |-> "idle"]
TInit == l = 1 /\ m = Idle /\ pi = 0 /\ phase = "idle"
Ev(e) == l <= Len(Rec) /\ Rec[l].ev = e

RECURSIVE RunToEvent(_, _)
\* run until the machine has printed something or stopped
RunToEvent(prog, mm) == IF mm.status # "run" \/ Len(mm.out) > 0 THEN mm ELSE RunToEvent(prog, MStep(prog, mm))

\* (a value bound by \E over a singleton set is computed once; a LET at the level of the action would be
\*  re-evaluated at every reference)
TProg == /\ Ev("prog") /\ phase = "idle"
         /\ \E m0 \in {MInit(Rec[l].p, Fuel)} :
            /\ m' = m0
            \* undefined behaviour in a constant initialiser: trivial from the start
            /\ (m0.status # "run" => PrintT(<<"TRIVIAL", ToJson([line |-> l, why |-> m0.status, detail |-> m0.why])>>))
            \* every array type `[NAME]T` of the logged program has as many elements as the machine computes for NAME
            /\ IF m0.status = "run" /\ ~NamedLengthsOK(Rec[l].p, m0.glob)
               THEN PrintT(<<"NAMEDLENGTH", ToJson([line |-> l])>>) /\ FALSE ELSE TRUE
         /\ pi' = l /\ phase' = "run" /\ l' = l + 1

TEvent ==
    /\ phase = "run" /\ l <= Len(Rec) /\ Rec[l].ev \in {"print", "exit", "hang", "crash"}
    /\ \E m2 \in {IF m.status # "run" THEN m
                   ELSE IF Rec[l].ev = "crash" THEN RunFrom(Rec[pi].p, m)
                   ELSE RunToEvent(Rec[pi].p, m)} :
       LET last == Rec[l].ev \in {"exit", "hang", "crash"}
       IN CASE m2.status \in {"ub", "fuel"} ->
                 \* trivial program: nothing is required of it
                 /\ (m.status = "run" => PrintT(<<"TRIVIAL", ToJson([line |-> pi, why |-> m2.status, detail |-> m2.why])>>))
                 /\ m' = IF last THEN Idle ELSE [status |-> m2.status]
                 /\ phase' = (IF last THEN "idle" ELSE "run")
            [] m2.status \in {"illegal", "stuck"} \/ (m2.status \in {"run", "done"} /\ m2.bad # <<>>) ->
                 /\ PrintT(<<"MONITOR", ToJson([line |-> pi, status |-> m2.status, bad |-> m2.bad])>>)
                 /\ FALSE
            [] m2.status \in {"run", "done"} /\ Len(m2.out) > 0 ->
                 /\ Rec[l].ev = "print" /\ Shown(m2.out[1]) = Rec[l].v
                 /\ m' = [m2 EXCEPT !.out = Tail(@)] /\ phase' = "run"
            [] m2.status = "done" /\ Len(m2.out) = 0 ->
                 /\ Rec[l].ev = "exit" /\ Rec[l].code = m2.exit[1]
                 /\ m' = Idle /\ phase' = "idle"
    /\ l' = l + 1 /\ pi' = pi

TNext == TProg \/ TEvent
TSpec == TInit /\ [][TNext]_tvars
Accepted == LET d == TLCGet("stats").diameter - 1
            IN PrintT(<<"TRACE", ToJson([accepted |-> (d = Len(Rec)), matched |-> d, total |-> Len(Rec)])>>)
=============================================================================

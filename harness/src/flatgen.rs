//! Random flat bodies beyond the exhaustive bound, recorded with hook events
//! for trace validation (impl -> spec).

use crate::alpha;
use crate::flat::{self, Item};
use crate::rng::Rng;
use serde_json::json;

const NAMES: [&str; 4] = ["a", "b", "c", "d"];

struct Profile {
    /// (kind, weight); kinds needing a name draw one from `names`
    kinds: Vec<(&'static str, usize)>,
    names: usize,
    max_len: usize,
    max_depth: usize,
    loops: bool,
}

fn profile(prop: &str) -> Profile {
    match prop {
        "C04" => Profile {
            kinds: vec![("O", 6), ("IO", 6), ("EO", 8), ("EIO", 5), ("C", 18), ("G", 10), ("IG", 14),
                        ("EG", 6), ("EIG", 5), ("L", 22)],
            names: 4,
            max_len: 40,
            max_depth: 5,
            loops: false,
        },
        "C05" => Profile {
            kinds: vec![("O", 8), ("IO", 5), ("EO", 4), ("C", 14), ("G", 4), ("IG", 12), ("L", 12),
                        ("V", 18), ("U", 20), ("S", 3)],
            names: 3,
            max_len: 40,
            max_depth: 4,
            loops: true,
        },
        _ => panic!("no profile for {prop}"),
    }
}

fn needs_name(k: &str) -> bool {
    matches!(k, "G" | "IG" | "EG" | "EIG" | "L" | "V" | "U" | "W" | "VR")
}

pub fn random_body(prop: &str, rng: &mut Rng) -> Vec<Item> {
    let p = profile(prop);
    let len = rng.range(3, p.max_len);
    let mut items: Vec<Item> = Vec::new();
    let mut opens: Vec<&'static str> = Vec::new();
    let mut last_if = false;
    let weights: Vec<usize> = p.kinds.iter().map(|x| x.1).collect();
    // label names are drawn with a per-body bias so that matches are likely
    while items.len() + opens.len() < len {
        let (k, _) = p.kinds[rng.weighted(&weights)];
        let is_else = matches!(k, "EO" | "EIO" | "EG" | "EIG");
        if is_else && !last_if {
            continue;
        }
        match k {
            "O" | "IO" | "EO" | "EIO" => {
                if opens.len() >= p.max_depth {
                    continue;
                }
                opens.push(k);
                last_if = false;
                items.push(Item::new(k, ""));
            }
            "C" => {
                let Some(o) = opens.pop() else { continue };
                if p.loops && rng.chance(25) {
                    items.push(Item::new("LP", ""));
                }
                last_if = matches!(o, "IO" | "EIO");
                items.push(Item::new("C", ""));
            }
            k => {
                let name = if needs_name(k) { NAMES[rng.below(p.names)] } else { "" };
                last_if = matches!(k, "IG" | "EIG");
                items.push(Item::new(k, name));
            }
        }
    }
    while opens.pop().is_some() {
        items.push(Item::new("C", ""));
    }
    items
}

/// A C05 body whose labels are all legal: labels get unique names and conditional gotos are inserted
/// only at places from which the label is a forward/outward target, so that E482 (skipped
/// declarations) is actually decided by the rule on most random bodies.
pub fn label_valid_body(rng: &mut Rng) -> Vec<Item> {
    let mut items: Vec<Item> = random_body("C05", rng).into_iter().filter(|x| !matches!(x.kind.as_str(), "G" | "IG" | "EG" | "EIG")).collect();
    // an if-part may have lost its goto: drop else-parts that no longer follow an if-part
    let mut cleaned: Vec<Item> = Vec::new();
    let mut opens: Vec<String> = Vec::new();
    let mut last_if = false;
    let mut skip_depth: Option<usize> = None;
    for it in items.drain(..) {
        let k = it.kind.as_str();
        if let Some(d) = skip_depth {
            if matches!(k, "O" | "IO" | "EO" | "EIO") { opens.push("skip".to_string()); }
            if k == "C" { opens.pop(); if opens.len() == d { skip_depth = None; } }
            continue;
        }
        match k {
            "EO" | "EIO" if !last_if => { skip_depth = Some(opens.len()); opens.push("skip".to_string()); continue; }
            "O" | "IO" | "EO" | "EIO" => { opens.push(k.to_string()); last_if = false; }
            "C" => { let o = opens.pop().unwrap_or_default(); last_if = o == "IO" || o == "EIO"; }
            _ => { last_if = false; }
        }
        cleaned.push(it);
    }
    let mut items = cleaned;
    // declarations get fresh names (no E422, so that E482 is decided); uses pick any declared name
    let mut declared: Vec<String> = Vec::new();
    for it in items.iter_mut() {
        if it.kind == "V" {
            if rng.chance(92) || declared.is_empty() {
                it.name = format!("v{}", declared.len());
                declared.push(it.name.clone());
            } else {
                it.name = declared[rng.below(declared.len())].clone();
            }
        } else if it.kind == "U" && !declared.is_empty() && rng.chance(90) {
            // mostly recent declarations, so that uses after labels resolve to nearby declarations
            let k = declared.len();
            let back = rng.below(k.min(4));
            it.name = declared[k - 1 - back].clone();
        }
    }
    let mut n = 0;
    for it in items.iter_mut() {
        if it.kind == "L" {
            it.name = format!("l{n}");
            n += 1;
        }
    }
    // insert gotos, last label first so that earlier positions stay valid
    for li in (0..n).rev() {
        let lname = format!("l{li}");
        let j = items.iter().position(|x| x.kind == "L" && x.name == lname).unwrap();
        // block of the label: walk back to its opener
        let mut depth = 0i32;
        let mut start = 0usize;
        for i in (0..j).rev() {
            match items[i].kind.as_str() {
                "C" => depth += 1,
                "O" | "IO" | "EO" | "EIO" => {
                    if depth == 0 { start = i + 1; break; }
                    depth -= 1;
                }
                _ => {}
            }
        }
        let name = items[j].name.clone();
        let how_many = rng.below(4);
        let mut spots: Vec<usize> = (0..how_many).map(|_| rng.range(start, j)).collect();
        spots.sort();
        spots.dedup();
        for &sp in spots.iter().rev() {
            // not between `loop;` and its closing brace
            if sp > 0 && items[sp - 1].kind == "LP" { continue; }
            items.insert(sp, Item::new("IG", &name));
        }
    }
    items
}

fn event_filter(prop: &str, ev: &str) -> bool {
    match prop {
        "C04" => matches!(ev, "lpush" | "lpop" | "ldecl" | "luse"),
        "C05" => matches!(ev, "vpush" | "vpop" | "vdecl" | "cdecl" | "vuse" | "vgoto" | "vprune"),
        "C06" => matches!(ev, "visit" | "lint"),
        _ => false,
    }
}

/// One recorded run: input line, hook events, outcome line.
pub fn record_one(prop: &str, seed: u64, i: usize) -> Vec<String> {
    let mut rng = Rng::new(seed, i as u64);
    // every third run comes from the generators of the dimension audit (their own random stream, so that
    // the other runs are the ones of the first build round)
    if i % 15 == 14 && prop != "C06" {
        // a tower: blocks nested 5..11 deep, jumps and uses at the bottom, their targets on every level on the way out
        let mut trng = Rng::new(seed ^ 0x70E4, i as u64);
        let items = tower_body(prop, &mut trng);
        return record_case(prop, i, items, Vec::new(), Vec::new(), flat::Layout::default());
    }
    if i % 3 == 2 {
        let mut arng = Rng::new(seed ^ 0xA0D17, i as u64);
        let (items, consts, params, lay) = audit_case(prop, &mut arng);
        return record_case(prop, i, items, consts, params, lay);
    }
    let (items, consts, params) = match prop {
        "C05" => {
            let items = if rng.chance(70) { label_valid_body(&mut rng) } else { random_body(prop, &mut rng) };
            let consts: Vec<String> = if rng.chance(40) { vec![NAMES[rng.below(3)].to_string()] } else { vec![] };
            let mut params: Vec<String> = Vec::new();
            if rng.chance(40) {
                params.push(NAMES[rng.below(3)].to_string());
                if rng.chance(25) {
                    params.push(NAMES[rng.below(3)].to_string());
                }
            }
            (items, consts, params)
        }
        "C06" => (crate::flatgen::random_tree_body(&mut rng), vec![], vec![]),
        _ => (random_body(prop, &mut rng), vec![], vec![]),
    };
    record_case(prop, i, items, consts, params, flat::Layout::default())
}

/// Render, parse, project, run with the hooks on and log: input line, hook events, outcome line.
fn record_case(prop: &str, i: usize, items: Vec<Item>, consts: Vec<String>, params: Vec<String>, mut lay: flat::Layout) -> Vec<String> {
    let decoy: Vec<String> = if prop == "C04" { NAMES.iter().map(|x| x.to_string()).collect() } else { Vec::new() };
    lay.decoy = decoy.clone();
    let r = flat::render_layout(&items, &consts, &params, &lay);
    // what the real parser saw
    let decls = alpha::parse(&r.source, "case.pn");
    let proj = flat::project(&r.source, &decls);
    let mut lines = Vec::new();
    let Some(proj) = proj else {
        lines.push(json!({"ev": "toolerror", "case": i, "what": "projection failed", "source": r.source}).to_string());
        return lines;
    };
    let consecutive = proj.lines.iter().enumerate().all(|(p, l)| *l == r.off + p + 1);
    if !consecutive {
        lines.push(json!({"ev": "toolerror", "case": i, "what": "lines not consecutive", "source": r.source}).to_string());
        return lines;
    }
    let b: Vec<serde_json::Value> = proj.items.iter().map(|x| json!({"k": x.kind, "n": x.name})).collect();
    // primitive tokens of the whole body, the prelude `var x` at position 0 included (C06)
    let mut t: Vec<serde_json::Value> = vec![json!({"k": "V", "p": 0})];
    for (k, _n, p) in flat::expand(&proj.items) {
        t.push(json!({"k": k, "p": p}));
    }
    lines.push(
        json!({"ev": "input", "case": i, "b": b, "t": t, "off": r.off, "decoy": decoy.len(),
               "consts": proj.consts.iter().map(|x| json!({"n": x.0, "line": x.1})).collect::<Vec<_>>(),
               "params": proj.params.iter().map(|x| json!({"n": x.0, "line": x.1})).collect::<Vec<_>>()})
        .to_string(),
    );
    let o = alpha::run_single(&r.source, "case.pn", alpha::Upto::Resolve, true);
    for e in &o.events {
        // cheap filter on the event name without parsing the whole line
        let name = e.split('"').nth(3).unwrap_or("");
        if event_filter(prop, name) {
            lines.push(e.clone());
        }
    }
    if o.panic.is_none() {
        lines.push(
            json!({"ev": "outcome", "ok": o.ok,
                   "diags": o.diags.iter().map(|d| json!({"code": d.code, "line": d.line})).collect::<Vec<_>>(),
                   "lints": o.lints.iter().map(|d| json!({"code": d.code, "line": d.line})).collect::<Vec<_>>()})
            .to_string(),
        );
    } else {
        lines.push(json!({"ev": "crash", "what": o.panic}).to_string());
    }
    lines
}

// ---------------------------------------------------------------------------
// C06: statement trees with naked branches
// ---------------------------------------------------------------------------
fn tree_stmt(rng: &mut Rng, depth: usize, budget: &mut usize, out: &mut Vec<Item>, in_else: bool) {
    if *budget == 0 {
        out.push(Item::new("S", ""));
        return;
    }
    *budget -= 1;
    let w: Vec<usize> = if depth >= 4 { vec![10, 10, 10, 6, 0, 0] } else { vec![8, 8, 10, 5, 8, 12] };
    let _ = in_else;
    match rng.weighted(&w) {
        0 => out.push(Item::new("S", "")),
        1 => out.push(Item::new("G", "z")),
        2 => out.push(Item::new("LP", "")),
        3 => out.push(Item::new("L", &format!("q{}", out.len()))),
        4 => {
            out.push(Item::new("O", ""));
            let n = rng.below(4);
            for _ in 0..n {
                tree_stmt(rng, depth + 1, budget, out, false);
            }
            out.push(Item::new("C", ""));
        }
        _ => {
            out.push(Item::new("I", ""));
            tree_stmt(rng, depth + 1, budget, out, false);
            if rng.chance(50) {
                out.push(Item::new("E", ""));
                tree_stmt(rng, depth + 1, budget, out, true);
            }
        }
    }
}

/// Bodies over {block, if, if-else, else-if, goto, loop, assignment, label} with
/// arbitrary (also illegal) placements; `z:` is appended so that gotos resolve.
pub fn random_tree_body(rng: &mut Rng) -> Vec<Item> {
    let mut out = Vec::new();
    let mut budget = rng.range(2, 24);
    let n = rng.range(1, 6);
    for _ in 0..n {
        tree_stmt(rng, 0, &mut budget, &mut out, false);
    }
    out.push(Item::new("L", "z"));
    normalise(out)
}

/// Rewrite `I G` / `I O` / `E G` / `E O` / `E I G` / `E I O` into the compact
/// forms the projector produces, so that generated and projected bodies agree.
pub fn normalise(items: Vec<Item>) -> Vec<Item> {
    // closing braces of blocks opened in compact form stay "C"
    let mut out: Vec<Item> = Vec::new();
    let mut i = 0;
    while i < items.len() {
        let k = items[i].kind.as_str();
        let next = items.get(i + 1).map(|x| x.kind.as_str());
        let next2 = items.get(i + 2).map(|x| x.kind.as_str());
        match (k, next, next2) {
            ("I", Some("G"), _) => { out.push(Item::new("IG", &items[i + 1].name)); i += 2; }
            ("I", Some("O"), _) => { out.push(Item::new("IO", "")); i += 2; }
            ("E", Some("G"), _) => { out.push(Item::new("EG", &items[i + 1].name)); i += 2; }
            ("E", Some("O"), _) => { out.push(Item::new("EO", "")); i += 2; }
            ("E", Some("I"), Some("G")) => { out.push(Item::new("EIG", &items[i + 2].name)); i += 3; }
            ("E", Some("I"), Some("O")) => { out.push(Item::new("EIO", "")); i += 3; }
            _ => { out.push(items[i].clone()); i += 1; }
        }
    }
    out
}

// ---------------------------------------------------------------------------
// Dimension audit (docs/notes-flat.md): modules with several functions, result expressions and
// `goto return`, deeper nesting, longer bodies, else-chains and further use contexts for C05, call and
// declaration statements for C06, layouts (comments, no final newline, constants after the functions,
// labels named like the variable / the function).
// ---------------------------------------------------------------------------
fn audit_profile(prop: &str, deep: bool) -> Profile {
    match prop {
        "C04" => Profile {
            kinds: vec![("O", 8), ("IO", 6), ("EO", 8), ("EIO", 5), ("C", 16), ("G", 10), ("IG", 14),
                        ("EG", 6), ("EIG", 5), ("L", 22), ("S", 3), ("V", 2)],
            names: 4,
            max_len: if deep { 30 } else { 56 },
            max_depth: if deep { 9 } else { 5 },
            loops: true,
        },
        _ => Profile {
            kinds: vec![("O", 8), ("IO", 5), ("EO", 4), ("EIO", 3), ("C", 14), ("G", 4), ("IG", 12), ("EG", 3),
                        ("EIG", 3), ("L", 12), ("V", 16), ("U", 14), ("W", 5), ("VR", 2), ("S", 2)],
            names: 3,
            max_len: if deep { 24 } else { 48 },
            max_depth: if deep { 8 } else { 4 },
            loops: true,
        },
    }
}

fn body_from(p: &Profile, len: usize, rng: &mut Rng, goto_return: bool) -> Vec<Item> {
    let mut items: Vec<Item> = Vec::new();
    let mut opens: Vec<&'static str> = Vec::new();
    let mut last_if = false;
    // deep profiles open blocks more often than they close them
    let deep = p.max_depth > 5;
    let weights: Vec<usize> = p
        .kinds
        .iter()
        .map(|x| if deep && matches!(x.0, "O" | "IO") { x.1 * 2 } else if deep && x.0 == "C" { x.1 / 2 } else { x.1 })
        .collect();
    while items.len() + opens.len() < len {
        let (k, _) = p.kinds[rng.weighted(&weights)];
        let is_else = matches!(k, "EO" | "EIO" | "EG" | "EIG");
        if is_else && !last_if {
            continue;
        }
        match k {
            "O" | "IO" | "EO" | "EIO" => {
                if opens.len() >= p.max_depth {
                    continue;
                }
                opens.push(k);
                last_if = false;
                items.push(Item::new(k, ""));
            }
            "C" => {
                let Some(o) = opens.pop() else { continue };
                if p.loops && rng.chance(20) {
                    items.push(Item::new("LP", ""));
                }
                last_if = matches!(o, "IO" | "EIO");
                items.push(Item::new("C", ""));
            }
            "V" if p.names == 4 => {
                // C04: declarations are noise, with names of their own
                last_if = false;
                items.push(Item::new("V", &format!("n{}", items.len())));
            }
            k => {
                let mut name = if needs_name(k) { NAMES[rng.below(p.names)] } else { "" };
                if goto_return && matches!(k, "G" | "IG" | "EG" | "EIG") && rng.chance(20) {
                    name = "return";
                }
                last_if = matches!(k, "IG" | "EIG");
                items.push(Item::new(k, name));
            }
        }
    }
    while opens.pop().is_some() {
        items.push(Item::new("C", ""));
    }
    items
}

/// C06: statement trees that also hold call and declaration statements, nested deeper.
fn audit_tree_stmt(rng: &mut Rng, depth: usize, max_depth: usize, budget: &mut usize, out: &mut Vec<Item>, uniq: &mut usize) {
    if *budget == 0 {
        out.push(Item::new("S", ""));
        return;
    }
    *budget -= 1;
    let w: Vec<usize> = if depth >= max_depth { vec![8, 8, 8, 5, 0, 0, 5, 5] } else { vec![6, 7, 9, 4, 9, 13, 4, 4] };
    *uniq += 1;
    match rng.weighted(&w) {
        0 => out.push(Item::new("S", "")),
        1 => out.push(Item::new("G", "z")),
        2 => out.push(Item::new("LP", "")),
        3 => out.push(Item::new("L", &format!("q{}", *uniq))),
        4 => {
            out.push(Item::new("O", ""));
            let n = rng.below(4);
            for _ in 0..n {
                audit_tree_stmt(rng, depth + 1, max_depth, budget, out, uniq);
            }
            out.push(Item::new("C", ""));
        }
        5 => {
            out.push(Item::new("I", ""));
            audit_tree_stmt(rng, depth + 1, max_depth, budget, out, uniq);
            if rng.chance(55) {
                out.push(Item::new("E", ""));
                audit_tree_stmt(rng, depth + 1, max_depth, budget, out, uniq);
            }
        }
        6 => out.push(Item::new("M", "")),
        _ => out.push(Item::new("V", &format!("w{}", *uniq))),
    }
}

fn audit_case(prop: &str, rng: &mut Rng) -> (Vec<Item>, Vec<String>, Vec<String>, flat::Layout) {
    let nfns = [1, 2, 2, 3][rng.below(4)];
    let deep = rng.chance(40);
    let mut items: Vec<Item> = Vec::new();
    let mut uniq = 0usize;
    for f in 0..nfns {
        if f > 0 {
            items.push(Item::new("F", "x"));
        }
        let with_result = prop != "C06" && rng.chance(40);
        let mut part: Vec<Item> = match prop {
            "C06" => {
                let mut out = Vec::new();
                let mut budget = rng.range(2, 30 / nfns);
                let n = rng.range(1, 5);
                for _ in 0..n {
                    audit_tree_stmt(rng, 0, if deep { 8 } else { 4 }, &mut budget, &mut out, &mut uniq);
                }
                // the label the gotos target ends the body; without gotos the last statement is whatever it is
                if out.iter().any(|x| x.kind == "G") {
                    out.push(Item::new("L", "z"));
                }
                normalise(out)
            }
            // (at most one label-valid body of up to ~50 items per module: TLC's validation time grows fast with the length)
            "C05" if f == 0 && rng.chance(60) => label_valid_body(rng),
            _ => {
                let p = audit_profile(prop, deep);
                let len = rng.range(2, p.max_len / nfns);
                body_from(&p, len, rng, with_result)
            }
        };
        if with_result {
            // `return:` is the last statement of the body, followed by the result expression
            part.retain(|x| !(x.kind == "L" && x.name == "return"));
            part.push(Item::new("L", "return"));
            let declared: Vec<String> = part.iter().filter(|x| x.kind == "V" && prop == "C05").map(|x| x.name.clone()).collect();
            let n = if !declared.is_empty() && rng.chance(70) { declared[rng.below(declared.len())].clone() } else { "x".to_string() };
            part.push(Item::new("RV", &n));
        }
        items.extend(part);
    }
    let mut consts: Vec<String> = Vec::new();
    let mut params: Vec<String> = Vec::new();
    if prop == "C05" {
        if rng.chance(50) {
            consts.push(NAMES[rng.below(3)].to_string());
        }
        if rng.chance(40) {
            params.push(NAMES[rng.below(3)].to_string());
            if rng.chance(25) {
                params.push(NAMES[rng.below(3)].to_string());
            }
        }
    }
    // an assignment target is never a constant or a parameter (that is rejected on other grounds: E530)
    for it in items.iter_mut() {
        if it.kind == "W" && (consts.contains(&it.name) || params.contains(&it.name)) {
            it.kind = "U".to_string();
        }
    }
    let mut lay = flat::Layout::default();
    lay.comments = rng.chance(35);
    lay.no_final_newline = rng.chance(35);
    // (the trace specification of C05 knows the parameters of the configuration only)
    lay.pparam = rng.chance(30) && prop != "C05";
    lay.consts_after = rng.chance(50);
    // declaration forms `var n: i32 = 0;` / `var n: i32;` / `var n = 0i32;` (drawn last: a new draw)
    let var_form = rng.below(3) as u8;
    if prop == "C04" && rng.chance(35) {
        // labels named like the variable and like the function (label names are a namespace of their own)
        lay.rename = vec![("a".to_string(), "x".to_string()), ("b".to_string(), "f".to_string()),
                          ("c".to_string(), "g1".to_string())];
    }
    if prop != "C04" {
        lay.var_form = var_form;
    }
    (items, consts, params, lay)
}

/// Blocks nested `d` deep (5..11), declarations / labels on the way in, gotos and uses at the bottom, labels (the
/// targets of the gotos) and uses on every level on the way out: scope lookups through more than eight layers.
fn tower_body(prop: &str, rng: &mut Rng) -> Vec<Item> {
    let d = rng.range(5, 11);
    let names = if prop == "C04" { 4 } else { 3 };
    let mut items: Vec<Item> = Vec::new();
    let mut fresh = 0;
    for _ in 0..d {
        if prop == "C05" && rng.chance(50) {
            items.push(Item::new("V", &format!("t{fresh}")));
            fresh += 1;
        }
        if rng.chance(25) {
            items.push(Item::new("IG", NAMES[rng.below(names)]));
        }
        items.push(Item::new(if rng.chance(40) { "IO" } else { "O" }, ""));
    }
    for _ in 0..rng.range(1, 4) {
        items.push(Item::new(if rng.chance(50) { "IG" } else { "G" }, NAMES[rng.below(names)]));
        if prop == "C05" && fresh > 0 {
            items.push(Item::new("U", &format!("t{}", rng.below(fresh))));
        }
    }
    for level in 0..d {
        items.push(Item::new("C", ""));
        if rng.chance(if level + 1 == d { 90 } else { 25 }) {
            items.push(Item::new("L", NAMES[rng.below(names)]));
        }
        if prop == "C05" && fresh > 0 && rng.chance(30) {
            items.push(Item::new("U", &format!("t{}", rng.below(fresh))));
        }
    }
    items
}
